import sys, json, importlib
sys.path.insert(0,'/verif/harness')
import core, run
core.import_blackbird()
for line in open('/verif/KNOWN_FINDINGS.jsonl'):
    e=json.loads(line)
    mod=importlib.import_module('props.'+e['property'].lower())
    ctx=run.Ctx(e['property'],'quick',0)
    try: msg=mod.replay(ctx,e['input'])
    except Exception as ex: msg='EXC %r'%ex
    print(e['status'], e['id'], '=>', (msg or 'PASS')[:150].replace('\n',' '))
