"""Programs assembled through the Python API, as JSON-able specifications (C09, C13, C16, C17)."""
import struct

import numpy as np
import sympy as sym

SPECIAL_FLOATS = [0.0, -0.0, 5e-324, 2.2250738585072014e-308, 1e300, -1e300, 1e-300, 1e16, 1e22, 0.1, 1 / 3,
                  123456789.12345679, 1e-5, 1.5e-7, 2.5, -0.75, 1e15, 9007199254740993.0, 0.30000000000000004] + \
                 [__import__("math").pi * n for n in range(1, 17)] + [__import__("math").pi / n for n in range(2, 17)] + \
                 [-__import__("math").pi / 13, -__import__("math").pi * 3]
SPECIAL_INTS = [0, 1, -1, 7, 2 ** 31, -2 ** 31, 2 ** 63 - 1, -2 ** 63, 12345678901234]
STRS = ["", "a", "hello world", "fock", "a#b", "x y  z", "1.5", "True", "{a}", "é", "name", "a,b", "[1]", "p0",
        # characters Python's str.splitlines() treats as line boundaries but the grammar allows inside a string
        # (only CR, LF and the quote are excluded), a tab, a backslash, an apostrophe, a percent sign
        "a\x0bb", "a\x0cb", "a\x1cb", "a\x1db", "a\x1eb", "a\x85b", "a\u2028b", "a\u2029b", "a\tb", "a\\nb", "it's", "100%s"]
GATES = ["Sgate", "BSgate", "Dgate", "Vac", "Rgate", "Xgate", "MeasureX", "Kgate", "G", "Measure", "names", "e"]
KWS = ["a", "phi", "r", "select", "cutoff", "shots", "e", "alpha", "x", "N"]


def fbits(x):
    return struct.pack(">d", float(x)).hex()


def bitsf(h):
    return struct.unpack(">d", bytes.fromhex(h))[0]


def g_float(rng):
    r = rng.random()
    if r < 0.3:
        return rng.choice(SPECIAL_FLOATS)
    if r < 0.6:
        return rng.randrange(-64, 65) / (1 << rng.randrange(0, 7))
    if r < 0.8:
        return rng.uniform(-10, 10)
    return struct.unpack(">d", struct.pack(">Q", rng.randrange(1 << 52, 0x7FEFFFFFFFFFFFFF)))[0] * rng.choice([1, -1])


def g_scalar(rng, allow_str=True, allow_bool=True):
    r = rng.random()
    if r < 0.14:
        return ["int", rng.choice(SPECIAL_INTS + [2 ** 70, -3, 5, 12])]
    if r < 0.26:
        return ["npint", rng.choice(SPECIAL_INTS)]
    if r < 0.42:
        return ["float", fbits(g_float(rng))]
    if r < 0.56:
        return ["npfloat", fbits(g_float(rng))]
    if r < 0.66:
        return ["complex", fbits(g_float(rng)), fbits(g_float(rng))]
    if r < 0.76:
        return ["npcomplex", fbits(g_float(rng)), fbits(g_float(rng))]
    if r < 0.86 and allow_bool:
        return ["bool", rng.random() < 0.5]
    if allow_str:
        return ["str", rng.choice(STRS)]
    return ["float", fbits(g_float(rng))]


def g_list(rng):
    return ["list", [g_scalar(rng) for _ in range(rng.randrange(1, 4))]]


def g_array(rng, maxdim=4):
    dt = rng.choice(["int", "float", "complex"])
    r, c = rng.randrange(1, maxdim + 1), rng.randrange(1, maxdim + 1)
    if rng.random() < 0.03:
        # more elements than NumPy prints in full by default (threshold 1000; line width 75)
        r, c = rng.choice([(32, 32), (25, 41), (1, 1001), (1001, 1), (2, 501)])
    if dt == "int":
        data = [rng.choice(SPECIAL_INTS + [3, -4, 5]) for _ in range(r * c)]
    elif dt == "float":
        data = [fbits(g_float(rng)) for _ in range(r * c)]
    else:
        data = [[fbits(g_float(rng)), fbits(g_float(rng))] for _ in range(r * c)]
    # memory layout of the same logical array: C order, Fortran order, a transposed view, a strided slice
    return ["array", dt, r, c, data, rng.choice(["C", "C", "F", "T", "S"])]


def g_sym(rng, names):
    """real SymPy expression in named parameters, as text in Python syntax"""
    n = rng.sample(names, rng.randrange(1, min(2, len(names)) + 1))
    forms = ["{0}", "2*{0} + 1", "-{0}", "{0}**2", "{0}/3", "0.5*{0} - 1.25", "1/{0}", "-{0}**2 + 3"]
    if len(n) == 2:
        forms += ["{0}*{1}", "{0} + {1}", "{0} - 2*{1}", "{0}/{1}", "({0} + 1)*({1} - 2)"]
    return ["sym", rng.choice(forms).format(*n)]


def g_value(rng, names, arrays=True, lists=True):
    r = rng.random()
    if arrays and r < 0.12:
        return g_array(rng)
    if lists and r < 0.22:
        return g_list(rng)
    if names and r < 0.34:
        return g_sym(rng, names)
    return g_scalar(rng)


def g_program(rng, maxops=8, templates=True, arrays=True):
    names = rng.sample(["a", "al", "alpha", "e", "E", "I", "x", "phi", "S", "N", "r1"], rng.randrange(1, 4)) \
        if (templates and rng.random() < 0.5) else []
    spec = {"name": rng.choice(["prog", "api_1", "a"]), "version": rng.choice(["1.0", "1.1"]),
            "target": None, "type": None, "ops": [], "params": []}
    for key in ("target", "type"):
        if rng.random() < 0.4:
            opts = []
            for _ in range(rng.randrange(0, 4)):
                v = g_list(rng) if rng.random() < 0.2 else g_scalar(rng)
                opts.append([rng.choice(KWS), v])
            # dict semantics: last value wins, first position kept
            seen = {}
            for k, v in opts:
                seen[k] = v
            spec[key] = {"name": rng.choice(["fock", "gaussian", "X8_01", "foo"]) if key == "target"
                         else rng.choice(["sampling", "foo"]), "options": [[k, v] for k, v in seen.items()]}
    for _ in range(rng.randrange(1, maxops + 1)):
        nm = rng.choice([1, 1, 2, 3])
        modes = [["npint", rng.randrange(0, 8)] if rng.random() < 0.3 else ["int", rng.randrange(0, 8)] for _ in range(nm)]
        if rng.random() < 0.2:
            args, kwargs = None, None
        else:
            args = [g_value(rng, names, arrays, lists=False) for _ in range(rng.choice([0, 1, 1, 2, 3]))]
            kw = {}
            for _ in range(rng.choice([0, 0, 1, 2])):
                kw[rng.choice(KWS)] = g_value(rng, names, arrays, lists=True)
            kwargs = [[k, v] for k, v in kw.items()]
        spec["ops"].append({"op": rng.choice(GATES), "args": args, "kwargs": kwargs, "modes": modes})
    if arrays and rng.random() < 0.2:
        # array twins (seeded C09/k, C01/k: declarations shared between arrays that agree in bytes but not in
        # element type, or in data but not in shape): a second array related to one the program already has
        have = [v for o in spec["ops"] for v in (o["args"] or []) if v[0] == "array"]
        if have and rng.random() < 0.7:
            _, dt, r, c, data, lay = rng.choice(have)
        else:
            dt, r, c, lay = "float", rng.randrange(1, 4), rng.randrange(1, 4), "C"
            data = [fbits(rng.choice([0.0, 0.0, 1.0, 5e-324]))] * (r * c)
            spec["ops"].append({"op": rng.choice(GATES), "args": [["array", dt, r, c, data, lay]], "kwargs": [],
                                "modes": [["int", 0]]})
        kind = rng.choice(["reshape", "dtype", "dtype", "copy"])
        if kind == "reshape":
            twin = ["array", dt, c, r, data, "C"]
        elif kind == "copy" or dt == "complex":
            twin = ["array", dt, r, c, list(data), "C"]
        elif dt == "float":
            # the int64 array with the same bytes (0.0 -> 0, 5e-324 -> 1, 1.0 -> 4607182418800017408)
            ib = [int(h, 16) for h in data]
            twin = ["array", "int", r, c, [b - (1 << 64) if b >= (1 << 63) else b for b in ib], "C"]
        else:
            # the float64 array with the same bytes, when all of them are finite
            bits = [x & ((1 << 64) - 1) for x in data]
            if all(((b >> 52) & 0x7FF) != 0x7FF for b in bits):
                twin = ["array", "float", r, c, ["%016x" % b for b in bits], "C"]
            else:
                twin = ["array", dt, r, c, list(data), "C"]
        spec["ops"].insert(rng.randrange(len(spec["ops"]) + 1),
                           {"op": rng.choice(GATES), "args": [twin], "kwargs": [], "modes": [["int", 1]]})
    used = set()
    for o in spec["ops"]:
        for v in (o["args"] or []) + [v for _, v in (o["kwargs"] or [])]:
            if v[0] == "sym":
                used |= {str(s) for s in sym.sympify(v[1], locals={n: sym.Symbol(n) for n in names}).free_symbols}
    spec["params"] = sorted(used)
    spec["names"] = names
    return spec


def build_value(v, names):
    t = v[0]
    if t == "int":
        return int(v[1])
    if t == "npint":
        return np.int64(v[1])
    if t == "float":
        return bitsf(v[1])
    if t == "npfloat":
        return np.float64(bitsf(v[1]))
    if t == "complex":
        return complex(bitsf(v[1]), bitsf(v[2]))
    if t == "npcomplex":
        return np.complex128(complex(bitsf(v[1]), bitsf(v[2])))
    if t == "bool":
        return bool(v[1])
    if t == "str":
        return v[1]
    if t == "list":
        return [build_value(x, names) for x in v[1]]
    if t == "array":
        dt, r, c, data = v[1:5]
        layout = v[5] if len(v) > 5 else "C"
        if dt == "int":
            a = np.array(data, dtype=np.int64).reshape(r, c)
        elif dt == "float":
            a = np.array([bitsf(h) for h in data], dtype=np.float64).reshape(r, c)
        else:
            a = np.array([complex(bitsf(x), bitsf(y)) for x, y in data], dtype=np.complex128).reshape(r, c)
        if layout == "F":
            return np.asfortranarray(a)
        if layout == "T":
            return a.T.copy().T
        if layout == "S":
            big = np.zeros((r, 2 * c), dtype=a.dtype)
            big[:, ::2] = a
            return big[:, ::2]
        return a
    if t == "sym":
        return sym.sympify(v[1], locals={n: sym.Symbol(n) for n in names})
    raise ValueError(v)


def build(spec):
    from blackbird import BlackbirdProgram
    p = BlackbirdProgram(name=spec["name"], version=spec["version"])
    names = spec.get("names", [])
    for key, attr in (("target", "_target"), ("type", "_type")):
        if spec[key]:
            getattr(p, attr)["name"] = spec[key]["name"]
            getattr(p, attr)["options"] = {k: build_value(v, names) for k, v in spec[key]["options"]}
    for o in spec["ops"]:
        modes = [build_value(m, names) for m in o["modes"]]
        d = {"op": o["op"], "modes": modes}
        if o["args"] is not None:
            d["args"] = [build_value(v, names) for v in o["args"]]
            d["kwargs"] = {k: build_value(v, names) for k, v in o["kwargs"]}
        p._operations.append(d)
        p._modes |= set(int(m) for m in modes)
    p._parameters = [sym.Symbol(n) for n in spec["params"]]
    return p
