"""Canonicalise implementation results into the harness's value language and compare them
with model results (tolerances and semantic comparison of symbolic values as in DESIGN.md 4.2)."""
import math
import random
import re
import warnings

import numpy as np
import sympy as sym

REL = 1e-9


def classify_exception(e):
    """Map an exception raised by the implementation to the small error language."""
    from blackbird.error import BlackbirdSyntaxError
    name = type(e).__name__
    if isinstance(e, BlackbirdSyntaxError):
        msg = str(e.args[0]) if e.args else ""
        m = re.match(r"Blackbird SyntaxError \(line (\d+):(\d+)\): (.*)", msg, re.S)
        if m:
            line, col, rest = int(m.group(1)), int(m.group(2)), m.group(3)
            m2 = re.match(r"name '(.*)' is not defined$", rest, re.S)
            if m2:
                return ("err", "syntax", "undefined", m2.group(1), line, col)
            m2 = re.match(r"Variable name '(.*)' is reserved for register references$", rest, re.S)
            if m2:
                return ("err", "syntax", "reservedRegref", m2.group(1), line, col)
            m2 = re.match(r"Variable name '(.*)' is a reserved Blackbird keyword$", rest, re.S)
            if m2:
                return ("err", "syntax", "reservedKeyword", m2.group(1), line, col)
            m2 = re.match(r"Array var (.*) is not of declared type", rest, re.S)
            if m2:
                return ("err", "syntax", "arrayType", m2.group(1), line, col)
            m2 = re.match(r"Array template var (.*) has no shape defined", rest, re.S)
            if m2:
                return ("err", "syntax", "noShape", m2.group(1), line, col)
            m2 = re.match(r"Array var (.*) has declared shape", rest, re.S)
            if m2:
                return ("err", "syntax", "shapeMismatch", m2.group(1), line, col)
            m2 = re.match(r"Array var (.*) has rows of different lengths", rest, re.S)
            if m2:
                return ("err", "syntax", "ragged", m2.group(1), line, col)
            return ("err", "syntax", "grammar", "", line, col)
        return ("err", "syntax", "grammar", "", 0, 0)
    table = {"TypeError": "type", "ValueError": "value", "IndexError": "index", "KeyError": "key",
             "AttributeError": "attribute", "TemplateError": "template"}
    if name in table:
        return ("err", table[name])
    if isinstance(e, TypeError):
        return ("err", "type")
    if isinstance(e, ValueError):
        return ("err", "value")
    if isinstance(e, OSError):
        return ("err", "file")
    return ("err", "other:" + name)


def canon_scalar(v):
    """Python / NumPy scalar or SymPy expression -> canonical value."""
    from blackbird.listener import RegRefTransform
    if isinstance(v, (bool, np.bool_)):
        return ("b", bool(v))
    if isinstance(v, (int, np.integer)):
        return ("i", int(v))
    if isinstance(v, (float, np.floating)):
        return ("f", float(v))
    if isinstance(v, (complex, np.complexfloating)):
        return ("c", complex(v))
    if isinstance(v, str):
        return ("s", str(v))
    if isinstance(v, RegRefTransform):
        return ("rrt", v.expr, list(v.regrefs), v.func)
    if isinstance(v, sym.Expr):
        return ("sym", v)
    return ("unknown", repr(type(v)))


def canon_val(v):
    if isinstance(v, np.ndarray):
        if v.ndim != 2:
            return ("unknown", "ndarray ndim %d" % v.ndim)
        kind = v.dtype.kind
        dt = {"i": "int", "u": "int", "f": "float", "c": "complex", "O": "object"}.get(kind, "other:" + kind)
        return ("arr", dt, v.shape[0], v.shape[1], [canon_scalar(x) for x in v.flatten().tolist()]
                if kind == "O" else [canon_scalar(x) for x in v.flatten()])
    if isinstance(v, (list, tuple)):
        return ("list", [canon_val(x) for x in v])
    return canon_scalar(v)


def canon_mode(m):
    """a mode as the program holds it: an int, or (never on a tree where C11 holds) something else,
    kept visible instead of crashing the check"""
    import numpy as np
    if isinstance(m, (int, np.integer)) and not isinstance(m, (bool, np.bool_)):
        return int(m)
    return ("non-integer-mode", repr(m))


def canon_program(p):
    ops = []
    for o in p.operations:
        if "args" in o:
            args = ([canon_val(a) for a in o["args"]], [(k, canon_val(v)) for k, v in o["kwargs"].items()])
        else:
            args = None
        ops.append({"op": o["op"], "args": args, "modes": [canon_mode(m) for m in o["modes"]],
                    "modes_are_ints": all(isinstance(m, (int, np.integer)) and not isinstance(m, (bool, np.bool_))
                                          for m in o["modes"])})
    return ("prog", {
        "name": p.name,
        "version": p.version,
        "target": {"name": p.target["name"], "options": [(k, canon_val(v)) for k, v in p.target["options"].items()]},
        "type": {"name": p.programtype["name"],
                 "options": [(k, canon_val(v)) for k, v in p.programtype["options"].items()]},
        "ops": ops,
        "vars": [(k, canon_val(v)) for k, v in p.variables.items()],
        "params": sorted(p.parameters),
        "modes": sorted((canon_mode(m) for m in p.modes), key=lambda x: (0, x, "") if isinstance(x, int) else (1, 0, repr(x))),
    })


# ---------------------------------------------------------------- comparison

def close(a, b, rel=REL, abs_tol=1e-300):
    a = complex(a)
    b = complex(b)
    if a == b:
        return True
    if any(math.isnan(x) for x in (a.real, a.imag, b.real, b.imag)):
        return (math.isnan(a.real) == math.isnan(b.real)) and (math.isnan(a.imag) == math.isnan(b.imag))
    if any(math.isinf(x) for x in (a.real, a.imag, b.real, b.imag)):
        return a == b
    return abs(a - b) <= rel * max(abs(a), abs(b)) + abs_tol


def tree_symbols(t, acc=None):
    acc = set() if acc is None else acc
    k = t[0]
    if k in ("par", "reg"):
        acc.add(t[1])
    elif k == "neg":
        tree_symbols(t[1], acc)
    elif k in ("add", "mul", "pow"):
        tree_symbols(t[1], acc)
        tree_symbols(t[2], acc)
    return acc


def tree_eval(t, env):
    """Evaluate a model tree with Python numbers (exact where Python is)."""
    k = t[0]
    if k == "num":
        return t[1][1]
    if k in ("par", "reg"):
        return env[t[1]]
    if k == "neg":
        return -tree_eval(t[1], env)
    a = tree_eval(t[1], env)
    b = tree_eval(t[2], env)
    if k == "add":
        return a + b
    if k == "mul":
        return a * b
    if k == "pow":
        return a ** b
    raise ValueError(k)


POINTS = [
    lambda i: 0.75 + 0.5 * i,
    lambda i: -1.25 - 0.375 * i,
    lambda i: 2.5 + 0.0625 * i * i,
]


def sym_equal(tree, expr, what, diffs, path):
    """Model tree vs SymPy expression: same free symbols, same value at a few points."""
    names = sorted(tree_symbols(tree))
    enames = sorted(str(s) for s in expr.free_symbols)
    if names != enames:
        diffs.append("%s: %s symbols differ model=%s impl=%s (impl expr %s)" % (path, what, names, enames, expr))
        return
    f = sym.lambdify([sym.Symbol(n) for n in names], expr, "math") if names else None
    for pt in POINTS:
        env = {n: pt(i) for i, n in enumerate(names)}
        try:
            mv = tree_eval(tree, env)
            iv = f(*[env[n] for n in names]) if names else complex(expr)
        except (ZeroDivisionError, OverflowError, ValueError, TypeError):
            continue
        if not close(mv, iv, 1e-8, 1e-9):
            diffs.append("%s: %s value differs at %s model=%r impl=%r (impl expr %s)" % (path, what, env, mv, iv, expr))
            return


def cmp_val(m, i, diffs, path, numeric_kinds_loose=False):
    """m: model value, i: implementation value."""
    mk, ik = m[0], i[0]
    if mk == "pn" and ik == "s":
        if m[1] != i[1]:
            diffs.append("%s: p-name %r vs %r" % (path, m[1], i[1]))
        return
    if mk in ("i", "f", "c") and ik in ("i", "f", "c"):
        if mk != ik and not numeric_kinds_loose:
            diffs.append("%s: number kind model=%s impl=%s (%r vs %r)" % (path, mk, ik, m[1], i[1]))
            return
        if mk == "i" and ik == "i":
            if m[1] != i[1]:
                diffs.append("%s: int %r vs %r" % (path, m[1], i[1]))
        elif not close(m[1], i[1], REL, 1e-13):
            # (absolute 1e-13: the model's binary64 reciprocal and NumPy's differ in the last bit now and then, and a
            # written cancellation such as S[0] / S[0] - 1 turns that bit into 1.1e-16 against 0.0)
            diffs.append("%s: number %r vs %r" % (path, m[1], i[1]))
        return
    if mk == "sym" and ik in ("i", "f", "c") and numeric_kinds_loose:
        # a symbolic tree without symbols
        if not tree_symbols(m[1]):
            if not close(tree_eval(m[1], {}), i[1]):
                diffs.append("%s: constant tree %r vs %r" % (path, m[1], i[1]))
            return
    if mk != ik:
        diffs.append("%s: kind model=%s impl=%s (%r vs %r)" % (path, mk, ik, m[1:], i[1:2]))
        return
    if mk in ("b", "s"):
        if m[1] != i[1]:
            diffs.append("%s: %r vs %r" % (path, m[1], i[1]))
    elif mk == "sym":
        sym_equal(m[1], i[1], "sym", diffs, path)
    elif mk == "rrt":
        sym_equal(m[1], i[1], "rrt", diffs, path)
    elif mk == "arr":
        if m[1] != i[1] or m[2] != i[2] or m[3] != i[3]:
            diffs.append("%s: array header model=%s impl=%s" % (path, m[1:4], i[1:4]))
            return
        for k, (a, b) in enumerate(zip(m[4], i[4])):
            cmp_val(a, b, diffs, "%s[%d]" % (path, k), numeric_kinds_loose=(m[1] == "object") or numeric_kinds_loose)
    elif mk == "list":
        if len(m[1]) != len(i[1]):
            diffs.append("%s: list length %d vs %d" % (path, len(m[1]), len(i[1])))
            return
        for k, (a, b) in enumerate(zip(m[1], i[1])):
            cmp_val(a, b, diffs, "%s[%d]" % (path, k), numeric_kinds_loose)
    else:
        diffs.append("%s: unknown kind %s" % (path, mk))


def cmp_kw(m, i, diffs, path, ordered=True, loose=False):
    mk = [k for k, _ in m]
    ik = [k for k, _ in i]
    if (mk != ik) if ordered else (sorted(mk) != sorted(ik)):
        diffs.append("%s: keys model=%s impl=%s" % (path, mk, ik))
        return
    idict = dict(i)
    for k, v in m:
        cmp_val(v, idict[k], diffs, "%s.%s" % (path, k), loose)


def cmp_ops(mops, iops, diffs, loose=False):
    if len(mops) != len(iops):
        diffs.append("ops: length model=%d impl=%d (model %s / impl %s)" % (
            len(mops), len(iops), [o["op"] for o in mops][:12], [o["op"] for o in iops][:12]))
        return
    for k, (a, b) in enumerate(zip(mops, iops)):
        p = "ops[%d]" % k
        if a["op"] != b["op"]:
            diffs.append("%s: name %r vs %r" % (p, a["op"], b["op"]))
        if a["modes"] != b["modes"]:
            diffs.append("%s: modes %r vs %r" % (p, a["modes"], b["modes"]))
        if (a["args"] is None) != (b["args"] is None):
            diffs.append("%s: args presence model=%s impl=%s" % (p, a["args"] is not None, b["args"] is not None))
            continue
        if a["args"] is not None:
            if len(a["args"][0]) != len(b["args"][0]):
                diffs.append("%s: positional count %d vs %d" % (p, len(a["args"][0]), len(b["args"][0])))
            else:
                for j, (x, y) in enumerate(zip(a["args"][0], b["args"][0])):
                    cmp_val(x, y, diffs, "%s.args[%d]" % (p, j), loose)
            cmp_kw(a["args"][1], b["args"][1], diffs, p + ".kwargs", True, loose)


def cmp_program(m, i, loose=False, check_vars=True):
    """Differences between a model program dict and an implementation program dict."""
    diffs = []
    for key in ("name", "version"):
        if m[key] != i[key]:
            diffs.append("%s: %r vs %r" % (key, m[key], i[key]))
    for key in ("target", "type"):
        if m[key]["name"] != i[key]["name"]:
            diffs.append("%s name: %r vs %r" % (key, m[key]["name"], i[key]["name"]))
        cmp_kw(m[key]["options"], i[key]["options"], diffs, key + ".options", True, loose)
    cmp_ops(m["ops"], i["ops"], diffs, loose)
    if check_vars:
        cmp_kw(m["vars"], i["vars"], diffs, "vars", False, loose)
    if m["params"] != i["params"]:
        diffs.append("params: %r vs %r" % (m["params"], i["params"]))
    if m["modes"] != i["modes"]:
        diffs.append("modes: %r vs %r" % (m["modes"], i["modes"]))
    return diffs


def cmp_result(m, i, loose=False):
    """m: decoded model result; i: canonical implementation result. Returns (status, diffs):
    status in {'agree', 'differ', 'ood'}."""
    if m[0] == "ood":
        return "ood", []
    if m[0] == "prog" and i[0] == "prog":
        d = cmp_program(m[1], i[1], loose)
        return ("agree" if not d else "differ"), d
    if m[0] == "err" and i[0] == "err":
        if m[1] != i[1]:
            return "differ", ["error class model=%s impl=%s" % (m[1:], i[1:])]
        if m[1] == "syntax":
            if m[2] != i[2]:
                return "differ", ["syntax error kind model=%s impl=%s" % (m[2:], i[2:])]
            if m[2] in ("undefined", "reservedRegref", "reservedKeyword"):
                if m[3:] != i[3:]:
                    return "differ", ["syntax error detail model=%s impl=%s" % (m[3:], i[3:])]
        return "agree", []
    return "differ", ["outcome model=%s impl=%s" % (m[0:2] if m[0] == "err" else m[0], i[0:6] if i[0] == "err" else i[0])]
