"""Shared plumbing: locating the repo and the model driver, running model commands in one
batch, calling the implementation in-process."""
import contextlib
import io
import os
import subprocess
import sys
import warnings

HERE = os.path.dirname(os.path.abspath(__file__))
VERIF = os.path.dirname(HERE)
REPO = os.environ.get("VERIF_REPO", "/repo")
LEAN_DIR = os.path.join(VERIF, "lean")
DRIVER = os.path.join(LEAN_DIR, ".lake", "build", "bin", "bbmodel")
WORK = os.path.join(VERIF, "work")

# the implementation is imported from the repository's working tree, never from an installed copy
sys.path.insert(0, os.path.join(REPO, "blackbird_python"))

from sx import hexs  # noqa: E402


def import_blackbird():
    import blackbird  # noqa: F401
    path = os.path.realpath(blackbird.__file__)
    want = os.path.realpath(os.path.join(REPO, "blackbird_python", "blackbird"))
    if not path.startswith(want):
        raise RuntimeError("blackbird imported from %s, expected under %s" % (path, want))
    return blackbird


def model_batch(lines):
    """Run protocol lines through the model driver; returns one output line per input line."""
    if not lines:
        return []
    data = ("\n".join(lines) + "\n").encode("utf-8")
    p = subprocess.run([DRIVER], input=data, stdout=subprocess.PIPE, stderr=subprocess.PIPE, timeout=1800)
    if p.returncode != 0:
        raise RuntimeError("model driver failed: %s" % p.stderr.decode("utf-8", "replace")[:2000])
    out = p.stdout.decode("utf-8").split("\n")
    if out and out[-1] == "":
        out.pop()
    if len(out) != len(lines):
        raise RuntimeError("model driver returned %d lines for %d commands" % (len(out), len(lines)))
    return out


def cmd(name, *fields):
    return name + "".join("\t" + hexs(f) for f in fields)


def reset_tables():
    """Clear the implementation's module-level tables (used between independent cases so that
    one case cannot contaminate the next; the C12 check does NOT use this)."""
    from blackbird import auxiliary
    auxiliary._VAR.clear()
    auxiliary._PARAMS.clear()


@contextlib.contextmanager
def quiet():
    import numpy as np
    with warnings.catch_warnings():
        warnings.simplefilter("ignore")
        old = np.seterr(all="ignore")
        err = io.StringIO()
        with contextlib.redirect_stderr(err):
            try:
                yield
            finally:
                np.seterr(**old)


def impl_loads(text, reset=True):
    """blackbird.loads(text) -> ('ok', program) | ('exc', exception)"""
    import blackbird
    if reset:
        reset_tables()
    with quiet():
        try:
            return ("ok", blackbird.loads(text))
        except RecursionError as e:
            return ("exc", e)
        except Exception as e:  # noqa: BLE001
            return ("exc", e)


def impl_canon_loads(text, reset=True):
    import canon
    r = impl_loads(text, reset)
    if r[0] == "ok":
        return canon.canon_program(r[1]), r[1]
    return canon.classify_exception(r[1]), r[1]


def real_tokens(text):
    """token stream of the shipped Python lexer: [(type name, text, line, column)] without EOF,
    plus the EOF position"""
    import antlr4
    from blackbird.blackbirdLexer import blackbirdLexer
    lexer = blackbirdLexer(antlr4.InputStream(text))
    lexer.removeErrorListeners()
    out = []
    while True:
        t = lexer.nextToken()
        if t.type == antlr4.Token.EOF:
            return out, (t.line, t.column)
        name = blackbirdLexer.symbolicNames[t.type] if t.type < len(blackbirdLexer.symbolicNames) else str(t.type)
        out.append((name, t.text, t.line, t.column))


def syntax_stage(text):
    """lexer + parser + BlackbirdErrorListener exactly as parse() wires them, without the walker:
    ('ok',) | ('syntax', message) | ('other', exception)"""
    import antlr4
    from blackbird.blackbirdLexer import blackbirdLexer
    from blackbird.blackbirdParser import blackbirdParser
    from blackbird.error import BlackbirdErrorListener, BlackbirdSyntaxError
    with quiet():
        try:
            lexer = blackbirdLexer(antlr4.InputStream(text))
            stream = antlr4.CommonTokenStream(lexer)
            parser = blackbirdParser(stream)
            parser.removeErrorListeners()
            parser.addErrorListener(BlackbirdErrorListener())
            parser.start()
            return ("ok",)
        except BlackbirdSyntaxError as e:
            return ("syntax", str(e.args[0]) if e.args else "")
        except Exception as e:  # noqa: BLE001
            return ("other", e)
