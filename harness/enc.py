"""Encoding implementation objects for the model driver, and rendering the model's serialiser
output with CPython's own scalar formatting (the formatting contract boundary)."""
import re

import numpy as np
import sympy as sym

from sx import hexs, float_to_bits, unhex, bits_to_float, parse, dec_tree
import canon


class Unsupported(Exception):
    pass


def enc_num(v):
    if isinstance(v, (bool, np.bool_)):
        raise Unsupported("bool as number")
    if isinstance(v, (int, np.integer)):
        return "(i %d)" % int(v)
    if isinstance(v, (float, np.floating)):
        return "(f %s)" % float_to_bits(v)
    if isinstance(v, (complex, np.complexfloating)):
        v = complex(v)
        return "(c %s %s)" % (float_to_bits(v.real), float_to_bits(v.imag))
    raise Unsupported("number %r" % type(v))


def enc_tree(e, regs=False):
    """SymPy expression -> model tree."""
    if isinstance(e, sym.Symbol):
        n = str(e)
        if regs and re.fullmatch(r"q\d+", n):
            return "(reg %s)" % hexs(n)
        return "(par %s)" % hexs(n)
    if isinstance(e, sym.Integer):
        return "(i %d)" % int(e)
    if isinstance(e, sym.Float):
        return "(f %s)" % float_to_bits(float(e))
    if isinstance(e, sym.Rational):
        return "(mul (i %d) (pow (i %d) (i -1)))" % (e.p, e.q)
    if e == sym.I:
        return "(c %s %s)" % (float_to_bits(0.0), float_to_bits(1.0))
    if isinstance(e, sym.Add) or isinstance(e, sym.Mul):
        op = "add" if isinstance(e, sym.Add) else "mul"
        args = [enc_tree(a, regs) for a in e.args]
        t = args[0]
        for a in args[1:]:
            t = "(%s %s %s)" % (op, t, a)
        return t
    if isinstance(e, sym.Pow):
        return "(pow %s %s)" % (enc_tree(e.args[0], regs), enc_tree(e.args[1], regs))
    raise Unsupported("sympy node %s" % type(e).__name__)


def enc_atom(v):
    from blackbird.listener import RegRefTransform
    if isinstance(v, (bool, np.bool_)):
        return "(b %s)" % ("T" if v else "F")
    if isinstance(v, str):
        return "(s %s)" % hexs(v)
    if isinstance(v, RegRefTransform):
        raise Unsupported("rrt as atom")
    if isinstance(v, sym.Expr):
        return "(sym %s)" % enc_tree(v)
    return enc_num(v)


def enc_elem(v):
    if isinstance(v, sym.Expr):
        return enc_tree(v)
    return enc_num(v)


def enc_val(v):
    from blackbird.listener import RegRefTransform
    if isinstance(v, np.ndarray):
        if v.ndim != 2:
            raise Unsupported("array ndim")
        kind = v.dtype.kind
        dt = {"i": "int", "f": "float", "c": "complex", "O": "object"}.get(kind)
        if dt is None:
            raise Unsupported("array dtype %s" % v.dtype)
        flat = v.flatten().tolist() if kind == "O" else list(v.flatten())
        return "(arr %s %d %d %s)" % (dt, v.shape[0], v.shape[1], " ".join(enc_elem(x) for x in flat))
    if isinstance(v, list):
        return "(list %s)" % " ".join(enc_atom(x) for x in v)
    if isinstance(v, RegRefTransform):
        return "(rrt %s)" % enc_tree(v.expr, regs=True)
    return enc_atom(v)


def enc_kw(d):
    return "(kw %s)" % " ".join("(%s %s)" % (hexs(k), enc_val(v)) for k, v in d.items())


def enc_op(o):
    if "args" in o:
        a = "(args (pos %s) %s)" % (" ".join(enc_val(v) for v in o["args"]), enc_kw(o["kwargs"]))
    else:
        a = "(noargs)"
    for m in o["modes"]:
        if isinstance(m, (bool, np.bool_)) or not isinstance(m, (int, np.integer)):
            raise Unsupported("mode %r" % (m,))
    return "(op %s %s (modes %s))" % (hexs(o["op"]), a, " ".join(str(int(m)) for m in o["modes"]))


def enc_meta(m):
    return "(%s %s)" % ("none" if m["name"] is None else hexs(m["name"]), enc_kw(m["options"]))


def enc_program(p):
    return "(prog %s %s %s %s (ops %s) %s (params %s) (modes %s))" % (
        hexs(p.name), hexs(str(p.version)), enc_meta(p.target), enc_meta(p.programtype),
        " ".join(enc_op(o) for o in p.operations), enc_kw(p.variables),
        " ".join(hexs(str(x)) for x in p._parameters), " ".join(str(int(m)) for m in sorted(p.modes)))


# ------------------------------------------------------------------ rendering serialiser output

def fmt_cplx(re_, im):
    return "{}{}{}j".format(re_, "+-"[int(im < 0)], abs(im))


def render_lines(text):
    """Model DUMPS output -> (pattern pieces, symbolic holes). Returns a list of pieces:
    ('txt', str) or ('sym'|'rrt', tree)."""
    x = parse(text)
    if not isinstance(x, list) or x[0] != "lines":
        return None
    pieces = []
    first = True
    for line in x[1:]:
        if not first:
            pieces.append(("txt", "\n"))
        first = False
        for f in line[1:]:
            k = f[0]
            if k == "t":
                pieces.append(("txt", unhex(f[1])))
            elif k == "i":
                pieces.append(("txt", str(int(f[1]))))
            elif k == "f":
                pieces.append(("txt", "{}".format(bits_to_float(f[1]))))
            elif k == "c":
                pieces.append(("txt", fmt_cplx(bits_to_float(f[1]), bits_to_float(f[2]))))
            elif k == "pc":
                pieces.append(("txt", "{}".format(complex(bits_to_float(f[1]), bits_to_float(f[2])))))
            elif k in ("sym", "rrt"):
                pieces.append((k, dec_tree(f[1])))
            else:
                raise ValueError("fragment %r" % (f,))
    # merge adjacent text
    out = []
    for p in pieces:
        if p[0] == "txt" and out and out[-1][0] == "txt":
            out[-1] = ("txt", out[-1][1] + p[1])
        else:
            out.append(p)
    return out


def match_text(pieces, text):
    """Match the real dumps text against the model's pieces. Returns (ok, holes) where holes is
    a list of (kind, tree, captured_text). One deterministic pass from left to right: a hole takes the
    text up to the next occurrence of the literal piece that follows it (SymPy's output never contains
    those delimiters); no backtracking, so a text that does not match is refused in linear time (a regular
    expression with one lazy group per hole took exponential time on such a text)."""
    pos = 0
    holes = []
    n = len(pieces)
    for i, p in enumerate(pieces):
        if p[0] == "txt":
            if not text.startswith(p[1], pos):
                return False, []
            pos += len(p[1])
            continue
        if i + 1 < n and pieces[i + 1][0] != "txt":
            return False, []                      # two holes without a delimiter: not produced by the model
        if i + 1 == n:
            cap, pos = text[pos:], len(text)
        else:
            j = text.find(pieces[i + 1][1], pos + 1)
            if j < 0:
                return False, []
            cap, pos = text[pos:j], j
        if not cap:
            return False, []
        holes.append((p[0], p[1], cap))
    if pos != len(text):
        return False, []
    return True, holes


def check_hole(kind, tree, captured):
    """The text SymPy printed must denote the model's tree: evaluate the captured text (with
    {p} -> p) as a Python expression at a few points."""
    names = sorted(canon.tree_symbols(tree))
    src = captured
    if kind == "sym":
        found = sorted(set(re.findall(r"\{([A-Za-z][0-9A-Za-z_]*)\}", src)))
        if found != [n for n in names]:
            return "braced names %s, model symbols %s" % (found, names)
        src = re.sub(r"\{([A-Za-z][0-9A-Za-z_]*)\}", lambda m: "_p_" + m.group(1), src)
        env_names = {n: "_p_" + n for n in names}
    else:
        env_names = {n: n for n in names}
    for pt in canon.POINTS:
        env = {n: pt(i) for i, n in enumerate(names)}
        try:
            mv = canon.tree_eval(tree, env)
            iv = eval(src, {"__builtins__": {}, "I": 1j}, {env_names[n]: env[n] for n in names})  # noqa: S307
        except (ZeroDivisionError, OverflowError):
            continue
        except Exception as e:  # noqa: BLE001
            return "captured text %r does not evaluate: %s" % (captured, e)
        if not canon.close(mv, iv, 1e-8, 1e-9):
            return "captured text %r = %r, model tree = %r at %s" % (captured, iv, mv, env)
    return None
