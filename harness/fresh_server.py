"""A pristine-interpreter server: this process imports blackbird and never loads anything; for
every request it forks a child that performs the load and reports the outcome, so every
outcome is that of a process in which no load has happened before.

Protocol (stdin/stdout, binary): request = 4-byte big-endian length + JSON {"text": ...} or
{"file": path, "cwd": dir}; response = 4-byte length + JSON outcome."""
import json
import os
import struct
import sys

HERE = os.path.dirname(os.path.abspath(__file__))
sys.path.insert(0, HERE)
import core  # noqa: E402
import canon  # noqa: E402

core.import_blackbird()
import blackbird  # noqa: E402


def _noaddr(s):
    import re
    return re.sub(r" at 0x[0-9a-fA-F]+", "", s)


def outcome(req):
    if "file" in req:
        if req.get("cwd"):
            os.chdir(req["cwd"])
        with core.quiet():
            try:
                r = ("ok", blackbird.load(req["file"]))
            except Exception as e:  # noqa: BLE001
                r = ("exc", e)
    else:
        if req.get("chdir"):
            os.chdir(req["chdir"])
        r = core.impl_loads(req["text"], reset=False)
    if r[0] == "ok":
        with core.quiet():
            try:
                d = blackbird.dumps(r[1])
            except Exception as e:  # noqa: BLE001
                d = "dumps-raises " + type(e).__name__
        c = canon.canon_program(r[1])[1]
        return ["prog", _noaddr(repr(c["ops"])), sorted(r[1].parameters), d, repr(c["vars"]), repr((c["target"], c["type"]))]
    return list(canon.classify_exception(r[1]))


def main():
    inp = sys.stdin.buffer
    out = sys.stdout.buffer
    while True:
        hdr = inp.read(4)
        if len(hdr) < 4:
            return
        n = struct.unpack(">I", hdr)[0]
        req = json.loads(inp.read(n).decode("utf-8"))
        rfd, wfd = os.pipe()
        pid = os.fork()
        if pid == 0:
            os.close(rfd)
            try:
                data = json.dumps(outcome(req)).encode("utf-8")
            except BaseException as e:  # noqa: BLE001
                data = json.dumps(["child-failed", repr(e)]).encode("utf-8")
            with os.fdopen(wfd, "wb") as w:
                w.write(data)
            os._exit(0)
        os.close(wfd)
        with os.fdopen(rfd, "rb") as r:
            data = r.read()
        os.waitpid(pid, 0)
        out.write(struct.pack(">I", len(data)) + data)
        out.flush()


if __name__ == "__main__":
    main()
