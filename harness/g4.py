"""Reader for the subset of ANTLR 4 grammar syntax that src/blackbird.g4 uses, a normalising
re-renderer (validation of the reader), and an Earley recogniser over the parser rules
(grammaticality and first-bad-token oracle of C10, sentence enumeration of C14)."""
import os
import re


class G4Error(Exception):
    pass


def tokenize(text):
    # strip comments
    text = re.sub(r"/\*.*?\*/", lambda m: " " * len(m.group(0)), text, flags=re.S)
    out = []
    i = 0
    n = len(text)
    while i < n:
        c = text[i]
        if c.isspace():
            i += 1
        elif text.startswith("//", i):
            while i < n and text[i] != "\n":
                i += 1
        elif c == "'":
            j = i + 1
            s = ""
            while text[j] != "'":
                if text[j] == "\\":
                    s += text[j:j + 2]
                    j += 2
                else:
                    s += text[j]
                    j += 1
            out.append(("lit", unescape(s)))
            i = j + 1
        elif c == "[":
            j = i + 1
            s = ""
            while text[j] != "]":
                if text[j] == "\\":
                    s += text[j:j + 2]
                    j += 2
                else:
                    s += text[j]
                    j += 1
            out.append(("set", s))
            i = j + 1
        elif c.isalpha() or c == "_":
            j = i
            while j < n and (text[j].isalnum() or text[j] == "_"):
                j += 1
            out.append(("id", text[i:j]))
            i = j
        elif text.startswith("->", i):
            out.append(("sym", "->"))
            i += 2
        elif text.startswith("+=", i):
            out.append(("sym", "+="))
            i += 2
        elif c in ":;|()?*+~.=#<>":
            out.append(("sym", c))
            i += 1
        else:
            raise G4Error("unexpected character %r at %d" % (c, i))
    return out


ESC = {"n": "\n", "r": "\r", "t": "\t", "\\": "\\", "'": "'", "]": "]", "-": "-", '"': '"'}


def unescape(s):
    out = ""
    i = 0
    while i < len(s):
        if s[i] == "\\":
            out += ESC[s[i + 1]]
            i += 2
        else:
            out += s[i]
            i += 1
    return out


def set_ranges(s):
    """character-set body -> sorted list of inclusive code point ranges"""
    items = []
    i = 0
    chars = []
    while i < len(s):
        if s[i] == "\\":
            chars.append((ESC[s[i + 1]], True))
            i += 2
        else:
            chars.append((s[i], False))
            i += 1
    k = 0
    while k < len(chars):
        c, esc = chars[k]
        if k + 2 < len(chars) and chars[k + 1] == ("-", False):
            items.append((ord(c), ord(chars[k + 2][0])))
            k += 3
        else:
            items.append((ord(c), ord(c)))
            k += 1
    return items


class Parser:
    def __init__(self, toks):
        self.t = toks
        self.i = 0

    def peek(self):
        return self.t[self.i] if self.i < len(self.t) else ("eof", "")

    def next(self):
        tok = self.peek()
        self.i += 1
        return tok

    def expect(self, kind, val=None):
        tok = self.next()
        if tok[0] != kind or (val is not None and tok[1] != val):
            raise G4Error("expected %s %r, got %r at token %d" % (kind, val, tok, self.i))
        return tok

    def grammar(self):
        self.expect("id", "grammar")
        name = self.expect("id")[1]
        self.expect("sym", ";")
        rules = []
        while self.peek()[0] != "eof":
            rules.append(self.rule())
        return name, rules

    def rule(self):
        frag = False
        tok = self.expect("id")
        if tok[1] == "fragment":
            frag = True
            tok = self.expect("id")
        name = tok[1]
        self.expect("sym", ":")
        lexer = name[0].isupper()
        alts = [self.alt(lexer)]
        while self.peek() == ("sym", "|"):
            self.next()
            alts.append(self.alt(lexer))
        skip = False
        if self.peek() == ("sym", "->"):
            self.next()
            self.expect("id", "skip")
            skip = True
        self.expect("sym", ";")
        return {"name": name, "lexer": lexer, "fragment": frag, "skip": skip, "alts": alts}

    def alt(self, lexer):
        """-> {"assoc": str|None, "label": str|None, "elems": [elem]}"""
        assoc = None
        if self.peek() == ("sym", "<"):
            self.next()
            self.expect("id", "assoc")
            self.expect("sym", "=")
            assoc = self.expect("id")[1]
            self.expect("sym", ">")
        elems = []
        while True:
            tok = self.peek()
            if tok in (("sym", "|"), ("sym", ";"), ("sym", ")"), ("sym", "->"), ("sym", "#"), ("eof", "")):
                break
            elems.append(self.elem(lexer))
        label = None
        if self.peek() == ("sym", "#"):
            self.next()
            label = self.expect("id")[1]
        return {"assoc": assoc, "label": label, "elems": elems}

    def elem(self, lexer):
        tok = self.next()
        lab = None
        if tok[0] == "id" and self.peek() == ("sym", "+="):
            self.next()
            lab = tok[1]
            tok = self.next()
        if tok == ("sym", "("):
            alts = [self.alt(lexer)]
            while self.peek() == ("sym", "|"):
                self.next()
                alts.append(self.alt(lexer))
            self.expect("sym", ")")
            e = ("group", alts)
        elif tok == ("sym", "~"):
            nxt = self.next()
            if nxt[0] != "set":
                raise G4Error("~ is only supported before a character set")
            e = ("nset", set_ranges(nxt[1]))
        elif tok == ("sym", "."):
            e = ("any",)
        elif tok[0] == "lit":
            e = ("lit", tok[1])
        elif tok[0] == "set":
            e = ("set", set_ranges(tok[1]))
        elif tok[0] == "id":
            e = ("ref", tok[1])
        else:
            raise G4Error("unexpected %r" % (tok,))
        if lab:
            e = ("labelled", lab, e)
        nxt = self.peek()
        if nxt in (("sym", "?"), ("sym", "*"), ("sym", "+")):
            self.next()
            e = ({"?": "opt", "*": "star", "+": "plus"}[nxt[1]], e)
        return e


def read(path):
    text = open(path, encoding="utf-8").read()
    name, rules = Parser(tokenize(text)).grammar()
    return {"name": name, "rules": rules, "text": text}


# ------------------------------------------------------------------ normalised re-rendering (validates the reader)

def esc_lit(s):
    return "".join({"\n": "\\n", "\r": "\\r", "\t": "\\t", "\\": "\\\\", "'": "\\'"}.get(c, c) for c in s)


def esc_set(ranges):
    def ch(c):
        c = chr(c)
        return {"\n": "\\n", "\r": "\\r", "\t": "\\t", "\\": "\\\\", "]": "\\]", "-": "\\-"}.get(c, c)
    return "".join(ch(a) if a == b else ch(a) + "-" + ch(b) for a, b in ranges)


def r_elem(e):
    k = e[0]
    if k == "group":
        return "(" + "|".join(r_alt(a) for a in e[1]) + ")"
    if k == "nset":
        return "~[" + esc_set(e[1]) + "]"
    if k == "set":
        return "[" + esc_set(e[1]) + "]"
    if k == "any":
        return "."
    if k == "lit":
        return "'" + esc_lit(e[1]) + "'"
    if k == "ref":
        return e[1]
    if k == "labelled":
        return e[1] + "+=" + r_elem(e[2])
    return r_elem(e[1]) + {"opt": "?", "star": "*", "plus": "+"}[k]


def r_alt(a):
    s = ""
    if a["assoc"]:
        s += "<assoc=%s>" % a["assoc"]
    s += " ".join(r_elem(e) for e in a["elems"])
    if a["label"]:
        s += "#" + a["label"]
    return s


def normalised(g):
    out = ["grammar %s;" % g["name"]]
    for r in g["rules"]:
        out.append("%s%s:%s%s;" % ("fragment " if r["fragment"] else "", r["name"],
                                   "|".join(r_alt(a) for a in r["alts"]), "->skip" if r["skip"] else ""))
    return "".join(out)


def normalise_source(text):
    """the grammar file's own text with comments and insignificant whitespace removed, in the same
    normal form as `normalised` produces"""
    toks = tokenize(text)
    out = ""
    prev = None
    for k, v in toks:
        if k == "lit":
            s = "'" + esc_lit(v) + "'"
        elif k == "set":
            s = "[" + esc_set(set_ranges(v)) + "]"
        else:
            s = v
        if prev is not None and prev[0] in ("id", "lit", "set") and k in ("id", "lit", "set") and not (prev == ("id", "fragment") and False):
            out += " "
        elif prev is not None and prev[0] == "sym" and prev[1] in ("?", "*", "+", ")") and k in ("id", "lit", "set"):
            out += " "
        elif prev is not None and prev[0] in ("id", "lit", "set") and (k, v) in (("sym", "("), ("sym", "~"), ("sym", ".")):
            out += " "
        elif prev is not None and prev[0] == "sym" and prev[1] in ("?", "*", "+", ")") and (k, v) in (("sym", "("), ("sym", "~"), ("sym", ".")):
            out += " "
        out += s
        prev = (k, v)
    return out


# ------------------------------------------------------------------ BNF + Earley

class BNF:
    """parser rules as plain productions over terminals (token names) and nonterminals"""

    def __init__(self, g):
        self.prods = {}          # nt -> [tuple(symbols)]
        self.counter = 0
        self.parser_rules = [r for r in g["rules"] if not r["lexer"]]
        for r in self.parser_rules:
            self.prods[r["name"]] = []
        for r in self.parser_rules:
            for a in r["alts"]:
                self.prods[r["name"]].append(tuple(self.seq(a["elems"])))
        self.start = self.parser_rules[0]["name"]
        self.nullable = self.compute_nullable()

    def fresh(self):
        self.counter += 1
        return "_g%d" % self.counter

    def seq(self, elems):
        return [self.sym(e) for e in elems]

    def sym(self, e):
        k = e[0]
        if k == "ref":
            return e[1]
        if k == "labelled":
            return self.sym(e[2])
        if k == "group":
            nt = self.fresh()
            self.prods[nt] = [tuple(self.seq(a["elems"])) for a in e[1]]
            return nt
        if k == "opt":
            nt = self.fresh()
            self.prods[nt] = [(), (self.sym(e[1]),)]
            return nt
        if k == "star":
            nt = self.fresh()
            x = self.sym(e[1])
            self.prods[nt] = [(), (nt, x)]
            return nt
        if k == "plus":
            nt = self.fresh()
            x = self.sym(e[1])
            self.prods[nt] = [(x,), (nt, x)]
            return nt
        raise G4Error("element %r in a parser rule" % (e,))

    def is_nt(self, s):
        return s in self.prods

    def compute_nullable(self):
        nullable = set()
        changed = True
        while changed:
            changed = False
            for nt, ps in self.prods.items():
                if nt in nullable:
                    continue
                for p in ps:
                    if all(s in nullable for s in p):
                        nullable.add(nt)
                        changed = True
                        break
        return nullable


def earley(bnf, tokens):
    """tokens: list of terminal names WITHOUT the EOF marker (the start rule mentions EOF itself, so
    the caller appends 'EOF'). Returns (accepted, first_bad) where first_bad is the index of the
    first token at which no parse can continue (len(tokens) if the whole input is a viable prefix)."""
    start_items = [(bnf.start, p, 0, 0) for p in bnf.prods[bnf.start]]
    chart = [None] * (len(tokens) + 1)
    chart[0] = close(bnf, set(start_items), [None], 0)
    chartsets = [chart[0]]
    for i, tok in enumerate(tokens):
        nxt = set()
        for (nt, p, dot, origin) in chartsets[i]:
            if dot < len(p) and not bnf.is_nt(p[dot]) and p[dot] == tok:
                nxt.add((nt, p, dot + 1, origin))
        if not nxt:
            return False, i
        chartsets.append(close(bnf, nxt, chartsets, i + 1))
    final = chartsets[len(tokens)]
    acc = any(nt == bnf.start and dot == len(p) and origin == 0 for (nt, p, dot, origin) in final)
    return acc, len(tokens)


def close(bnf, items, chartsets, k):
    """predictor + completer to a fixpoint for set k (chartsets[0..k-1] are final)"""
    cur = set(items)
    work = list(items)
    while work:
        (nt, p, dot, origin) = work.pop()
        if dot < len(p):
            s = p[dot]
            if bnf.is_nt(s):
                for q in bnf.prods[s]:
                    it = (s, q, 0, k)
                    if it not in cur:
                        cur.add(it)
                        work.append(it)
                if s in bnf.nullable:
                    it = (nt, p, dot + 1, origin)
                    if it not in cur:
                        cur.add(it)
                        work.append(it)
        else:
            src = cur if origin == k else chartsets[origin]
            for (nt2, p2, dot2, origin2) in list(src):
                if dot2 < len(p2) and p2[dot2] == nt:
                    it = (nt2, p2, dot2 + 1, origin2)
                    if it not in cur:
                        cur.add(it)
                        work.append(it)
    return cur


_CACHE = {}


def load_bnf(repo):
    path = os.path.join(repo, "src", "blackbird.g4")
    key = (path, os.path.getmtime(path))
    if key not in _CACHE:
        _CACHE[key] = BNF(read(path))
    return _CACHE[key]
