"""AST-level generators for Blackbird scripts, expressions and layouts (DESIGN.md 4.3).

Everything is driven by one random.Random; ASTs are plain tuples / dicts so that a case can be
stored in a replay file as JSON and re-rendered.

Expression AST:  ("int", text) ("float", text) ("complex", text) ("pi",) ("var", name)
  ("reg", n) ("idx", name, e) ("par", name) ("brk", e) ("pos", e) ("neg", e)
  ("pow", a, b) ("mul", a, b) ("div", a, b) ("add", a, b) ("sub", a, b) ("fn", f, e)
Values:          ("expr", e) ("str", s) ("bool", b)
Items:           ("var", ty, name, val) ("arr", ty, name, shape|None, rows)
                 ("stmt", op, args|None, lb, modes, rb) ("loop", ty, x, header, body)
  args = {"pos": [val], "kw": [(k, val | ("list", [val]))]}
  header = ("range", a, b, c|None) | ("list", lb, [val], rb)
Script:          {"name", "version", "target": (name, args|None)|None, "type": ..., "includes": [str], "items": [...]}
"""
import cmath
import math
import random

FUNCS = ["sin", "cos", "tan", "arcsin", "arccos", "arctan", "sinh", "cosh", "tanh",
         "arcsinh", "arccosh", "arctanh", "sqrt", "log", "exp"]

KEYWORDS = set(FUNCS) | {"for", "in", "pi", "name", "version", "target", "type", "include", "array",
                          "float", "complex", "int", "str", "bool", "True", "False"}

OP_NAMES = ["G", "Sgate", "BSgate", "Dgate", "Vac", "Coherent", "Rgate", "Xgate", "Zgate", "Kgate",
            "MeasureX", "MeasureFock", "MeasureHomodyne", "Measure", "names", "inx", "q0a", "sinh2",
            "Measure1", "True1", "Interferometer", "S2gate", "e", "E", "I", "S", "N"]
VAR_NAMES = ["a", "al", "alpha", "b", "beta", "x", "y", "z", "phi", "r", "theta", "names", "inx", "pix",
             "sinh2", "q0a", "e", "E", "I", "S", "N", "j", "U", "A", "B", "M", "A0", "A1", "k_1", "x_0_0",
             "Measure1", "True1", "forx", "int1", "p", "pa", "t0"]
KW_NAMES = ["a", "phi", "r", "select", "dark_counts", "cutoff", "shots", "e", "alpha", "al", "x", "N"]
PAR_NAMES = ["a", "al", "alpha", "b", "e", "E", "I", "x", "phi", "r", "theta", "S", "N", "p", "sq", "t1",
             "alpha_1", "aa", "p0", "p1", "Q"]
STRINGS = ["", "a", "hello world", "fock", "a#b", "p0", "x y  z", "1.5", "True", "{a}", "é", "name", "a,b", "[1]"]


def is_pname(s):
    return len(s) > 1 and s[0] == "p" and s[1:].isdigit()


# ------------------------------------------------------------------ literals

def int_text(rng, small=True):
    n = rng.choice([0, 1, 2, 3, 4, 5, 7, 10, 12]) if small else rng.randrange(0, 1000)
    t = str(n)
    if rng.random() < 0.08:
        t = "0" * rng.randrange(1, 3) + t
    return t


def float_text(rng):
    """FLOAT token text (REAL): digits ['.' digits] [e[+-]digits], with a '.' or an exponent."""
    r = rng.random()
    if r < 0.45:
        k = rng.randrange(0, 129)
        m = rng.randrange(0, 7)
        v = k / (1 << m)
        t = repr(v)
        if "e" in t or "." not in t:
            t = "%d.0" % int(v)
        return t
    if r < 0.7:
        return rng.choice(["0.1", "0.2", "0.3", "1.5", "2.25", "0.543", "3.14159", "0.001", "12.75", "1.0", "2.0", "0.5"])
    if r < 0.9:
        mant = rng.choice(["1", "2", "15", "1.5", "2.5", "0.25", "12.5"])
        e = rng.choice(["e", "E"])
        sg = rng.choice(["", "+", "-"])
        ex = rng.choice(["0", "1", "2", "3", "01"])
        return mant + e + sg + ex
    return rng.choice(["00.5", "1.50", "0.0", "10.0", "1e0", "5E-1"])


def number_text(rng):
    return int_text(rng) if rng.random() < 0.5 else float_text(rng)


def complex_text(rng):
    """COMPLEX token text: [+-]? (NUMBER [+-])? NUMBER [jJ]"""
    t = rng.choice(["", "", "", "+", "-"])
    if rng.random() < 0.6:
        t += number_text(rng) + rng.choice("+-")
    t += number_text(rng) + rng.choice(["j", "j", "J"])
    return t


# ------------------------------------------------------------------ python-side meaning of expressions

class OutOfDomain(Exception):
    pass


def lit_value(e):
    k = e[0]
    if k == "int":
        return int(e[1])
    if k == "float":
        return float(e[1])
    if k == "complex":
        return complex(e[1])
    if k == "pi":
        return math.pi
    raise ValueError(k)


def apply_fn(f, x):
    if isinstance(x, complex):
        raise OutOfDomain("complex function argument")
    x = float(x)
    try:
        if f == "sin":
            return math.sin(x)
        if f == "cos":
            return math.cos(x)
        if f == "tan":
            return math.tan(x)
        if f == "arcsin":
            return math.asin(x)
        if f == "arccos":
            return math.acos(x)
        if f == "arctan":
            return math.atan(x)
        if f == "sinh":
            return math.sinh(x)
        if f == "cosh":
            return math.cosh(x)
        if f == "tanh":
            return math.tanh(x)
        if f == "arcsinh":
            return math.asinh(x)
        if f == "arccosh":
            return math.acosh(x)
        if f == "arctanh":
            return math.atanh(x)
        if f == "sqrt":
            return math.sqrt(x)
        if f == "log":
            return math.log(x)
        if f == "exp":
            return math.exp(x)
    except (ValueError, OverflowError):
        raise OutOfDomain("function domain")
    raise ValueError(f)


def py_eval(e, env):
    """Ordinary real/complex arithmetic value of an expression: the independent oracle of C03.
    ints stay Python ints under + - * ** (non-negative exponent); / is true division.
    env: name -> number | ("arr", rows, cols, flat list)."""
    k = e[0]
    if k in ("int", "float", "complex", "pi"):
        return lit_value(e)
    if k == "var":
        v = env[e[1]]
        return v
    if k == "idx":
        i = py_eval(e[2], env)
        arr = env[e[1]]
        if not isinstance(i, int) or isinstance(i, bool):
            raise OutOfDomain("non-integer index")
        flat = arr[3]
        if not (0 <= i < len(flat)):
            raise OutOfDomain("index range")
        return flat[i]
    if k in ("brk", "pos"):
        return py_eval(e[1], env)
    if k == "neg":
        return -py_eval(e[1], env)
    if k == "fn":
        return apply_fn(e[1], py_eval(e[2], env))
    a = py_eval(e[1], env)
    b = py_eval(e[2], env)
    for v in (a, b):
        if isinstance(v, (bool, str, tuple)):
            raise OutOfDomain("non-numeric operand")
    try:
        if k == "add":
            return a + b
        if k == "sub":
            return a - b
        if k == "mul":
            return a * b
        if k == "div":
            return a / b
        if k == "pow":
            if isinstance(a, int) and isinstance(b, int):
                if b < 0:
                    raise OutOfDomain("integer to negative integer power")
                if b > 64 or abs(a) > 10 ** 6:
                    raise OutOfDomain("big integer power")
                return a ** b
            if not isinstance(a, complex) and not isinstance(b, complex):
                if a < 0 and float(b) != int(b):
                    raise OutOfDomain("negative base, fractional exponent")
                if a == 0 and b < 0:
                    raise OutOfDomain("zero to negative power")
                return float(a) ** float(b)
            if a == 0:
                raise OutOfDomain("complex power of zero")
            return complex(a) ** complex(b)
    except (ZeroDivisionError, OverflowError):
        raise OutOfDomain("division by zero / overflow")
    raise ValueError(k)


def finite_ok(v, bound=1e12):
    if isinstance(v, bool):
        return True
    if isinstance(v, int):
        return abs(v) < 2 ** 62
    if isinstance(v, float):
        return math.isfinite(v) and abs(v) < bound
    if isinstance(v, complex):
        return math.isfinite(v.real) and math.isfinite(v.imag) and abs(v) < bound
    return True


def kind_of(v):
    if isinstance(v, bool):
        return "bool"
    if isinstance(v, int):
        return "int"
    if isinstance(v, float):
        return "float"
    if isinstance(v, complex):
        return "complex"
    if isinstance(v, str):
        return "str"
    return "other"


# ------------------------------------------------------------------ precedence

LEVEL = {"add": 0, "sub": 0, "mul": 1, "div": 1, "pow": 2, "pos": 3, "neg": 3}


def level(e):
    return LEVEL.get(e[0], 4)


def wrap(e, need):
    return e if level(e) >= need else ("brk", e)


def fix(e):
    """Insert the brackets the grammar needs so that the tree prints and re-parses as itself."""
    k = e[0]
    if k in ("add", "sub"):
        return (k, wrap(fix(e[1]), 0), wrap(fix(e[2]), 1))
    if k in ("mul", "div"):
        return (k, wrap(fix(e[1]), 1), wrap(fix(e[2]), 2))
    if k == "pow":
        return (k, wrap(fix(e[1]), 3), wrap(fix(e[2]), 2))
    if k in ("pos", "neg"):
        return (k, wrap(fix(e[1]), 3))
    if k == "brk":
        return (k, fix(e[1]))
    if k == "fn":
        return (k, e[1], fix(e[2]))
    if k == "idx":
        return (k, e[1], fix(e[2]))
    return e


# ------------------------------------------------------------------ rendering

class Layout:
    """Layout choices. With rng=None the canonical layout is produced: single spaces around
    binary operators, after commas and around '|' and '=', LF line ends, four-space indents."""

    def __init__(self, rng=None, newline="\n", final_newline=True, tab=None, comments=True, blank=True):
        self.rng = rng
        self.newline = newline
        self.final_newline = final_newline
        self.tab = tab
        self.comments = comments
        self.blank = blank

    def sp(self, mandatory=True):
        """spaces at a token boundary: 1-3 where a space is written, 0-3 where it is optional"""
        if self.rng is None:
            return " " if mandatory else ""
        lo = 1 if mandatory else 0
        return " " * self.rng.randrange(lo, 4)

    def indent(self):
        if self.tab is not None:
            return self.tab
        if self.rng is None:
            return "    "
        return self.rng.choice(["    ", "\t"])

    def eol(self):
        """end of a line: optional trailing spaces, optional comment, the newline"""
        s = ""
        if self.rng is not None:
            # one run of at most three spaces (four would be a TAB token)
            if self.rng.random() < 0.3:
                s += " " * self.rng.randrange(1, 4)
            if self.comments and self.rng.random() < 0.15:
                s += "#" + self.rng.choice(["", " c", " G | 0", " \"q\"", "  tab\there", " é"])
        return s + self.newline

    def blank_lines(self, allow=True):
        """blank / comment-only lines between items"""
        if self.rng is None or not allow or not self.blank:
            return ""
        s = ""
        while self.rng.random() < 0.2:
            r = self.rng.random()
            if r < 0.5:
                s += self.newline
            elif r < 0.75 and self.comments:
                s += "# " + self.rng.choice(["comment", "name x", "1, 2", ""]) + self.newline
            else:
                s += " " * self.rng.randrange(1, 4) + self.newline
        return s


def starts_with_complex_risk(e):
    """True when the first token of e is a number token, so a directly preceding sign would fuse
    with it into a COMPLEX token if e's first token is imaginary."""
    while e[0] in ("add", "sub", "mul", "div", "pow"):
        e = e[1]
    return e[0] in ("complex",)


def r_expr(e, lay):
    k = e[0]
    if k in ("int", "float", "complex"):
        return e[1]
    if k == "pi":
        return "pi"
    if k == "var":
        return e[1]
    if k == "reg":
        return "q%s" % e[1]
    if k == "idx":
        return e[1] + lay.sp(False) + "[" + lay.sp(False) + r_expr(e[2], lay) + lay.sp(False) + "]"
    if k == "par":
        return "{" + lay.sp(False) + e[1] + lay.sp(False) + "}"
    if k == "brk":
        return "(" + lay.sp(False) + r_expr(e[1], lay) + lay.sp(False) + ")"
    if k in ("pos", "neg"):
        s = "+" if k == "pos" else "-"
        inner = r_expr(e[1], lay)
        # a sign directly before a number that ends in j would lex as one COMPLEX token
        gap = lay.sp(True) if e[1][0] in ("complex", "int", "float") and sign_fuses(e[1]) else lay.sp(False)
        return s + gap + inner
    if k == "fn":
        return e[1] + lay.sp(False) + "(" + lay.sp(False) + r_expr(e[2], lay) + lay.sp(False) + ")"
    sym = {"add": "+", "sub": "-", "mul": "*", "div": "/", "pow": "**"}[k]
    if k in ("add", "sub"):
        return r_expr(e[1], lay) + lay.sp(True) + sym + lay.sp(True) + r_expr(e[2], lay)
    # '*', '/', '**' never fuse with neighbours; spaces are optional
    tight = lay.rng is not None and lay.rng.random() < 0.5
    l = r_expr(e[1], lay)
    r = r_expr(e[2], lay)
    if k == "pow" and lay.rng is None:
        return l + sym + r
    if tight:
        return l + sym + r
    return l + lay.sp(True) + sym + lay.sp(True) + r


def sign_fuses(e):
    return e[0] == "complex"


def r_val(v, lay):
    if v[0] == "expr":
        return r_expr(v[1], lay)
    if v[0] == "str":
        return '"' + v[1] + '"'
    if v[0] == "bool":
        return "True" if v[1] else "False"
    raise ValueError(v)


def r_list(vals, lay):
    return ("," + lay.sp(True)).join(r_val(v, lay) for v in vals)


def r_args(a, lay):
    parts = [r_val(v, lay) for v in a["pos"]]
    for k, v in a["kw"]:
        if v[0] == "list":
            parts.append(k + lay.sp(False) + "=" + lay.sp(False) + "[" + lay.sp(False) + r_list(v[1], lay) + lay.sp(False) + "]")
        else:
            parts.append(k + lay.sp(False) + "=" + lay.sp(False) + r_val(v, lay))
    if not parts:
        return "(" + lay.sp(False) + ")"
    return "(" + lay.sp(False) + ("," + lay.sp(True)).join(parts) + lay.sp(False) + ")"


BRK_OPEN = {None: "", "round": "(", "square": "["}
BRK_CLOSE = {None: "", "round": ")", "square": "]"}


def r_stmt(s, lay):
    _, op, args, lb, modes, rb = s
    t = op
    if args is not None:
        t += lay.sp(False) + r_args(args, lay)
    t += lay.sp(True) + "|" + lay.sp(True)
    t += BRK_OPEN[lb] + (lay.sp(False) if lb else "")
    t += ("," + lay.sp(True)).join(r_expr(m, lay) for m in modes)
    t += (lay.sp(False) if rb else "") + BRK_CLOSE[rb]
    return t


def r_item(it, lay):
    k = it[0]
    if k == "var":
        _, ty, name, val = it
        return ty + lay.sp(True) + name + lay.sp(True) + "=" + lay.sp(True) + r_val(val, lay) + lay.eol()
    if k == "arr":
        _, ty, name, shape, rows = it
        t = ty + lay.sp(True) + "array" + lay.sp(True) + name
        if shape is not None:
            t += lay.sp(False) + "[" + lay.sp(False) + ("," + lay.sp(True)).join(str(x) for x in shape) + lay.sp(False) + "]"
        t += lay.sp(True) + "=" + lay.eol()
        ind = lay.indent()
        for row in rows:
            t += ind + ("," + lay.sp(True)).join(r_expr(e, lay) for e in row) + lay.eol()
        return t
    if k == "stmt":
        return r_stmt(it, lay) + lay.eol()
    if k == "loop":
        _, ty, x, header, body = it
        t = "for" + lay.sp(True) + ty + lay.sp(True) + x + lay.sp(True) + "in" + lay.sp(True)
        if header[0] == "range":
            t += str(header[1]) + lay.sp(False) + ":" + lay.sp(False) + str(header[2])
            if header[3] is not None:
                t += lay.sp(False) + ":" + lay.sp(False) + str(header[3])
        else:
            _, lb, vals, rb = header
            t += BRK_OPEN[lb] + r_list(vals, lay) + BRK_CLOSE[rb]
        for s in body:
            t += lay.eol() + lay.indent() + r_stmt(s, lay)
        return t + lay.eol()
    raise ValueError(k)


def r_meta_line(kw, m, lay):
    name, args = m
    t = kw + lay.sp(True) + name
    if args is not None:
        t += lay.sp(True) + r_args(args, lay)
    return t


def render(script, lay=None):
    lay = lay or Layout()
    t = lay.blank_lines()
    t += "name" + lay.sp(True) + script["name"] + lay.eol() + lay.blank_lines()
    t += "version" + lay.sp(True) + script["version"] + lay.eol()
    if script.get("target"):
        t += lay.blank_lines() + r_meta_line("target", script["target"], lay) + lay.eol()
    if script.get("type"):
        t += lay.blank_lines() + r_meta_line("type", script["type"], lay) + lay.eol()
    for inc in script.get("includes", []):
        t += lay.blank_lines() + "include" + lay.sp(True) + '"' + inc + '"' + lay.eol()
    if lay.rng is None:
        t += lay.newline
    for it in script["items"]:
        arr = it[0] == "arr"
        t += lay.blank_lines() + r_item(it, lay)
    t += lay.blank_lines()
    if not lay.final_newline:
        # drop exactly one trailing line terminator
        for nl in ("\r\n", "\n", "\r"):
            if t.endswith(nl):
                t = t[: -len(nl)]
                break
    return t


# ------------------------------------------------------------------ expression generation

class Scope:
    """What the script has declared so far, with Python-side values for the oracle."""

    def __init__(self):
        self.vals = {}        # name -> python value or ("arr", r, c, flat)
        self.kinds = {}       # name -> "int"|"float"|"complex"|"str"|"bool"|"arr"
        self.params = []      # template parameters mentioned
        self.used_names = set()

    def names_of(self, kind):
        return [n for n, k in self.kinds.items() if k == kind]

    def fresh(self, rng, pool=VAR_NAMES):
        for _ in range(50):
            n = rng.choice(pool)
            if n not in self.used_names and n not in KEYWORDS:
                self.used_names.add(n)
                return n
        n = "v%d" % len(self.used_names)
        self.used_names.add(n)
        return n


def gen_atom(rng, scope, kind):
    r = rng.random()
    if kind == "int":
        ints = scope.names_of("int")
        arrs = [n for n in scope.names_of("arr") if scope.vals[n][0] == "int"]
        if ints and r < 0.25:
            return ("var", rng.choice(ints))
        if arrs and r < 0.35:
            n = rng.choice(arrs)
            size = scope.vals[n][1] * scope.vals[n][2]
            return ("idx", n, ("int", str(rng.randrange(size))))
        return ("int", int_text(rng))
    if kind == "float":
        fl = scope.names_of("float")
        arrs = [n for n in scope.names_of("arr") if scope.vals[n][0] == "float"]
        if fl and r < 0.25:
            return ("var", rng.choice(fl))
        if arrs and r < 0.33:
            n = rng.choice(arrs)
            size = scope.vals[n][1] * scope.vals[n][2]
            return ("idx", n, ("int", str(rng.randrange(size))))
        if r < 0.4:
            return ("pi",)
        return ("float", float_text(rng))
    if kind == "complex":
        cs = scope.names_of("complex")
        if cs and r < 0.25:
            return ("var", rng.choice(cs))
        return ("complex", complex_text(rng))
    raise ValueError(kind)


def gen_expr_raw(rng, scope, kind, depth):
    """Random expression of the given result kind (int / float / complex)."""
    if depth <= 0 or rng.random() < 0.25:
        return gen_atom(rng, scope, kind)
    r = rng.random()
    d = depth - 1
    if r < 0.08:
        return ("brk", gen_expr_raw(rng, scope, kind, d))
    if r < 0.18:
        return (rng.choice(["neg", "neg", "pos"]), gen_expr_raw(rng, scope, kind, d))
    if kind == "int":
        if r < 0.3:
            return ("pow", gen_expr_raw(rng, scope, "int", min(d, 1)), ("int", str(rng.randrange(0, 4))))
        op = rng.choice(["add", "sub", "mul"])
        return (op, gen_expr_raw(rng, scope, "int", d), gen_expr_raw(rng, scope, "int", d))
    if kind == "float":
        if r < 0.3:
            f = rng.choice(FUNCS)
            return ("fn", f, gen_expr_raw(rng, scope, rng.choice(["int", "float"]), d))
        if r < 0.4:
            return ("pow", gen_expr_raw(rng, scope, rng.choice(["int", "float"]), d),
                    gen_expr_raw(rng, scope, rng.choice(["int", "float"]), min(d, 1)))
        if r < 0.6:
            # division, also int / int
            return ("div", gen_expr_raw(rng, scope, rng.choice(["int", "float"]), d),
                    gen_expr_raw(rng, scope, rng.choice(["int", "float"]), d))
        op = rng.choice(["add", "sub", "mul"])
        ka, kb = rng.choice([("float", "float"), ("int", "float"), ("float", "int")])
        return (op, gen_expr_raw(rng, scope, ka, d), gen_expr_raw(rng, scope, kb, d))
    if kind == "complex":
        if r < 0.3:
            return ("pow", gen_expr_raw(rng, scope, "complex", min(d, 1)), ("int", str(rng.randrange(0, 4))))
        op = rng.choice(["add", "sub", "mul", "div"])
        ka, kb = rng.choice([("complex", "complex"), ("complex", "float"), ("int", "complex"), ("float", "complex")])
        return (op, gen_expr_raw(rng, scope, ka, d), gen_expr_raw(rng, scope, kb, d))
    raise ValueError(kind)


def gen_expr(rng, scope, kind, depth, tries=40):
    """Generate until the expression is inside the domain of C03 (finite, in the functions' real
    domains, moderate size) and actually has the requested kind. Returns (expr, value)."""
    for _ in range(tries):
        e = fix(gen_expr_raw(rng, scope, kind, depth))
        try:
            v = py_eval(e, scope.vals)
        except OutOfDomain:
            continue
        if not finite_ok(v) or kind_of(v) != kind:
            continue
        if kind != "int" and v != 0 and abs(v) < 1e-9:
            continue          # results of cancellation: relative comparison is meaningless
        return e, v
    e = gen_atom(rng, scope, kind)
    return e, py_eval(e, scope.vals)


# ------------------------------------------------------------------ script generation

def gen_val(rng, scope, depth, allow_nonnumeric=True, kinds=("int", "float", "complex")):
    r = rng.random()
    if allow_nonnumeric and r < 0.1:
        return ("str", rng.choice(STRINGS)), None
    if allow_nonnumeric and r < 0.18:
        return ("bool", rng.random() < 0.5), None
    if allow_nonnumeric and r < 0.24:
        names = scope.names_of("str") + scope.names_of("bool")
        if names:
            return ("expr", ("var", rng.choice(names))), None
    e, v = gen_expr(rng, scope, rng.choice(kinds), depth)
    return ("expr", e), v


def gen_args(rng, scope, depth, cfg):
    npos = rng.choice([0, 1, 1, 2, 3])
    nkw = rng.choice([0, 0, 1, 2])
    pos = [gen_val(rng, scope, depth)[0] for _ in range(npos)]
    if cfg.get("array_args") and scope.names_of("arr") and rng.random() < 0.3:
        pos.append(("expr", ("var", rng.choice(scope.names_of("arr")))))
    kw = []
    for _ in range(nkw):
        k = rng.choice(KW_NAMES)
        if rng.random() < 0.3:
            kw.append((k, ("list", [gen_val(rng, scope, max(depth - 1, 0))[0] for _ in range(rng.randrange(1, 4))])))
        else:
            kw.append((k, gen_val(rng, scope, depth)[0]))
    if cfg.get("dup_kw") and kw and rng.random() < 0.1:
        kw.append((kw[0][0], gen_val(rng, scope, depth)[0]))
    return {"pos": pos, "kw": kw}


def gen_modes(rng, scope, depth, extra_int_names=()):
    n = rng.choice([1, 1, 1, 2, 2, 3])
    modes = []
    for _ in range(n):
        if extra_int_names and rng.random() < 0.5:
            modes.append(("var", rng.choice(list(extra_int_names))))
        elif rng.random() < 0.75:
            modes.append(("int", str(rng.randrange(0, 6))))
        else:
            e, v = gen_expr(rng, scope, "int", min(depth, 2))
            modes.append(e)
    r = rng.random()
    if n == 1 and r < 0.6:
        lb = rb = None
    elif r < 0.8:
        lb = rb = rng.choice(["round", "square"])
    else:
        lb = rng.choice([None, "round", "square"])
        rb = rng.choice([None, "round", "square"])
    # a lone round bracket that could be read as an expression bracket is kept out of the
    # generator's default stream (both readings give the same modes; see Parser.bracketed)
    return lb, modes, rb


def gen_stmt(rng, scope, cfg, loopvar=None, loopkind=None):
    depth = cfg.get("depth", 3)
    op = rng.choice(OP_NAMES)
    args = None
    if rng.random() < 0.7:
        sc = scope
        args = gen_args(rng, sc, depth, cfg)
        if loopvar is not None and loopkind in ("int", "float") and rng.random() < 0.7:
            # use the loop variable in an argument
            slot = rng.random()
            ve = ("var", loopvar)
            use = rng.choice([ve, ("mul", ("int", "2"), ve), ("add", ve, ("float", "0.5"))])
            if slot < 0.5 or not args["kw"]:
                args["pos"].append(("expr", use))
            else:
                args["kw"].append((rng.choice(KW_NAMES), ("expr", use)))
        elif loopvar is not None and rng.random() < 0.7:
            args["pos"].append(("expr", ("var", loopvar)))
    extra = [loopvar] if (loopvar is not None and loopkind == "int" and rng.random() < 0.7) else []
    lb, modes, rb = gen_modes(rng, scope, depth, extra)
    return ("stmt", op, args, lb, modes, rb)


def gen_decl(rng, scope, cfg):
    depth = cfg.get("depth", 3)
    r = rng.random()
    name = scope.fresh(rng)
    if r < 0.6:
        ty = rng.choice(["int", "float", "float", "complex", "str", "bool"])
        if ty == "str":
            s = rng.choice(STRINGS)
            scope.kinds[name] = "str"
            scope.vals[name] = s
            return ("var", ty, name, ("str", s))
        if ty == "bool":
            b = rng.random() < 0.5
            scope.kinds[name] = "bool"
            scope.vals[name] = b
            return ("var", ty, name, ("bool", b))
        srckind = ty
        if ty == "float" and rng.random() < 0.3:
            srckind = "int"
        if ty == "complex" and rng.random() < 0.3:
            srckind = rng.choice(["int", "float"])
        e, v = gen_expr(rng, scope, srckind, depth)
        v = {"int": int, "float": float, "complex": complex}[ty](v)
        scope.kinds[name] = ty
        scope.vals[name] = v
        return ("var", ty, name, ("expr", e))
    ty = rng.choice(["int", "float", "float", "complex"])
    nr = rng.randrange(1, cfg.get("max_rows", 4) + 1)
    nc = rng.randrange(1, cfg.get("max_cols", 4) + 1)
    rows = []
    flat = []
    for _ in range(nr):
        row = []
        for _ in range(nc):
            srckind = ty
            if ty != "int" and rng.random() < 0.3:
                srckind = "int"
            e, v = gen_expr(rng, scope, srckind, min(depth, 2))
            row.append(e)
            flat.append({"int": int, "float": float, "complex": complex}[ty](v))
        rows.append(row)
    shape = [nr, nc] if rng.random() < 0.5 else None
    scope.kinds[name] = "arr"
    scope.vals[name] = (ty, nr, nc, flat)
    return ("arr", ty, name, shape, rows)


def gen_loop(rng, scope, cfg):
    x = scope.fresh(rng, ["m", "i", "k", "n", "idx", "mm", "l", "w"])
    r = rng.random()
    if r < 0.55:
        ty = rng.choice(["int", "int", "int", "float"])
        a = rng.randrange(0, 4)
        b = a + rng.randrange(0, 5) if rng.random() < 0.9 else max(a - 1, 0)
        c = rng.choice([None, None, 1, 2, 3])
        header = ("range", a, b, c)
    else:
        ty = rng.choice(["int", "int", "float", "str", "bool"])
        n = rng.randrange(1, 4)
        vals = []
        for _ in range(n):
            if ty == "int":
                e, _v = gen_expr(rng, scope, "int", 1)
                if _v < 0:
                    e = ("int", str(rng.randrange(0, 5)))
                vals.append(("expr", e))
            elif ty == "float":
                e, _v = gen_expr(rng, scope, rng.choice(["float", "int"]), 1)
                vals.append(("expr", e))
            elif ty == "str":
                vals.append(("str", rng.choice(STRINGS)))
            else:
                vals.append(("bool", rng.random() < 0.5))
        brk = rng.choice([None, "round", "square"])
        header = ("list", brk, vals, brk)
    body = [gen_stmt(rng, scope, cfg, x, ty) for _ in range(rng.choice([1, 1, 2, 3]))]
    return ("loop", ty, x, header, body)


def gen_meta_args(rng, scope, cfg):
    kw = []
    for _ in range(rng.randrange(1, 4)):
        k = rng.choice(KW_NAMES + ["cutoff_dim", "shots", "temporal_modes", "copies"])
        kw.append((k, gen_val(rng, Scope(), 1)[0]))
    return {"pos": [], "kw": kw}


def gen_script(rng, cfg=None):
    """A valid, parameter-free, include-free script with declarations, statements and loops."""
    cfg = dict(cfg or {})
    scope = Scope()
    script = {"name": rng.choice(["prog", "test_1", "a", "Main", "x2"]),
              "version": rng.choice(["1.0", "1.0", "1.1", "0.3", "10.25"]),
              "target": None, "type": None, "includes": [], "items": []}
    if rng.random() < 0.5:
        dev = rng.choice(["fock", "gaussian", "X8_01", "tf", "fock.sim", "chip2", "a_b"])
        script["target"] = (dev, gen_meta_args(rng, scope, cfg) if rng.random() < 0.6 else None)
    if rng.random() < 0.25:
        script["type"] = (rng.choice(["foo", "sampling", "tdmx"]), gen_meta_args(rng, scope, cfg) if rng.random() < 0.6 else None)
    n = rng.randrange(1, cfg.get("max_items", 10) + 1)
    for _ in range(n):
        r = rng.random()
        if r < 0.3:
            script["items"].append(gen_decl(rng, scope, cfg))
        elif r < 0.45 and cfg.get("loops", True):
            script["items"].append(gen_loop(rng, scope, cfg))
        else:
            script["items"].append(gen_stmt(rng, scope, cfg))
    if not any(it[0] in ("stmt", "loop") for it in script["items"]):
        script["items"].append(gen_stmt(rng, scope, cfg))
    return script, scope


def features(script):
    """Feature tags of a script (for the input-distribution table in the evidence)."""
    f = set()
    for it in script["items"]:
        f.add(it[0])
        if it[0] == "stmt":
            if it[2] is None:
                f.add("stmt-noargs")
            else:
                if it[2]["kw"]:
                    f.add("kwargs")
                if any(v[0] == "list" for _, v in it[2]["kw"]):
                    f.add("list-kwarg")
            if it[3] != it[5]:
                f.add("unbalanced-brackets")
            if len(it[4]) > 1:
                f.add("multi-mode")
        if it[0] == "loop":
            f.add("loop-" + it[3][0])
    if script.get("target"):
        f.add("target")
        if script["target"][1]:
            f.add("target-options")
    if script.get("type"):
        f.add("type")
    return f
