"""AST-level generators for Blackbird scripts, expressions and layouts (DESIGN.md 4.3).

Everything is driven by one random.Random; ASTs are plain tuples / dicts so that a case can be
stored in a replay file as JSON and re-rendered.

Expression AST:  ("int", text) ("float", text) ("complex", text) ("pi",) ("var", name)
  ("reg", n) ("idx", name, e) ("par", name) ("brk", e) ("pos", e) ("neg", e)
  ("pow", a, b) ("mul", a, b) ("div", a, b) ("add", a, b) ("sub", a, b) ("fn", f, e)
Values:          ("expr", e) ("str", s) ("bool", b)
Items:           ("var", ty, name, val) ("arr", ty, name, shape|None, rows)
                 ("stmt", op, args|None, lb, modes, rb) ("loop", ty, x, header, body)
  args = {"pos": [val], "kw": [(k, val | ("list", [val]))]}
  header = ("range", a, b, c|None) | ("list", lb, [val], rb)
Script:          {"name", "version", "target": (name, args|None)|None, "type": ..., "includes": [str], "items": [...]}
"""
import cmath
import math
import random

FUNCS = ["sin", "cos", "tan", "arcsin", "arccos", "arctan", "sinh", "cosh", "tanh",
         "arcsinh", "arccosh", "arctanh", "sqrt", "log", "exp"]

KEYWORDS = set(FUNCS) | {"for", "in", "pi", "name", "version", "target", "type", "include", "array",
                          "float", "complex", "int", "str", "bool", "True", "False"}

OP_NAMES = ["G", "Sgate", "BSgate", "Dgate", "Vac", "Coherent", "Rgate", "Xgate", "Zgate", "Kgate",
            "MeasureX", "MeasureFock", "MeasureHomodyne", "Measure", "names", "inx", "q0a", "sinh2",
            "Measure1", "True1", "Interferometer", "S2gate", "e", "E", "I", "S", "N",
            # every gate / state / measurement name that occurs anywhere in the repository (sources, C++ headers,
            # documentation, examples): an implementation may special-case any of them
            "Gaussian", "Squeezed", "Fock", "Catstate", "Thermal", "ThermalLossChannel", "GaussianTransform", "Pgate",
            "CZgate", "CXgate", "Vgate", "MeasureIntensity", "MeasureHeterodyne", "LossChannel", "CKgate", "MeasureP",
            "Vacuum", "MZgate", "DisplacedSqueezed", "Fouriergate", "MeasureHD", "MeasureThreshold"]
VAR_NAMES = ["a", "al", "alpha", "b", "beta", "x", "y", "z", "phi", "r", "theta", "names", "inx", "pix",
             "sinh2", "q0a", "e", "E", "I", "S", "N", "j", "U", "A", "B", "M", "A0", "A1", "k_1", "x_0_0",
             "Measure1", "True1", "forx", "int1", "p", "pa", "t0", "p0", "p3", "p12"]
KW_NAMES = ["a", "phi", "r", "select", "dark_counts", "cutoff", "shots", "e", "alpha", "al", "x", "N"]
PAR_NAMES = ["a", "al", "alpha", "b", "e", "E", "I", "x", "phi", "r", "theta", "S", "N", "p", "sq", "t1",
             "alpha_1", "aa", "p0", "p1", "Q", "q0_1", "q1_0", "q3_14", "lambda_",
             # identifiers that mean something to Python or to the implementation's own plumbing (argument
             # names of its helpers, Python keywords) and names that start like a register reference
             "op", "expr", "args", "kwargs", "func", "values", "val", "key", "modes", "program", "np", "sym",
             "lambda", "def", "is", "None", "class", "not", "q1_phase", "q0x", "O", "i"]
STRINGS = ["", "a", "hello world", "fock", "a#b", "p0", "x y  z", "1.5", "True", "False", "{a}", "é", "name", "a,b", "[1]", "p0x",
           "True ", "q0", "pi"]


def is_pname(s):
    return len(s) > 1 and s[0] == "p" and s[1:].isdigit()


# ------------------------------------------------------------------ literals

BOUNDARY_INTS = [9223372036854775806, 9223372036854775807, 4611686018427387904, 3037000499, 2147483647, 65536]


def int_text(rng, small=True):
    n = rng.choice([0, 1, 2, 3, 4, 5, 7, 10, 12]) if small else rng.randrange(0, 1000)
    if rng.random() < 0.01:
        n = rng.choice(BOUNDARY_INTS)          # results next to the int64 bounds are still exact
    t = str(n)
    if rng.random() < 0.08:
        t = "0" * rng.randrange(1, 3) + t
    return t


def float_text(rng):
    """FLOAT token text (REAL): digits ['.' digits] [e[+-]digits], with a '.' or an exponent."""
    r = rng.random()
    if r < 0.45:
        k = rng.randrange(0, 129)
        m = rng.randrange(0, 7)
        v = k / (1 << m)
        t = repr(v)
        if "e" in t or "." not in t:
            t = "%d.0" % int(v)
        return t
    if r < 0.7:
        return rng.choice(["0.1", "0.2", "0.3", "1.5", "2.25", "0.543", "3.14159", "0.001", "12.75", "1.0", "2.0", "0.5"])
    if r < 0.9:
        mant = rng.choice(["1", "2", "15", "1.5", "2.5", "0.25", "12.5"])
        e = rng.choice(["e", "E"])
        sg = rng.choice(["", "+", "-"])
        ex = rng.choice(["0", "1", "2", "3", "01"])
        return mant + e + sg + ex
    if rng.random() < 0.15:
        # extreme but finite magnitudes: divisors far below machine epsilon, coefficients that vanish against 1
        return rng.choice(["1e-17", "4e-19", "2.5e-300", "1E+18", "1e-10", "0.5e-16"])
    if rng.random() < 0.3:
        # the doubles n*pi and pi/n (true division), written out digit for digit: a value that looks like a
        # multiple of pi is still just that double
        import math
        n = rng.randrange(1, 17)
        return repr(math.pi * n if rng.random() < 0.5 else math.pi / n)
    return rng.choice(["00.5", "1.50", "0.0", "10.0", "1e0", "5E-1"])


def number_text(rng):
    return int_text(rng) if rng.random() < 0.5 else float_text(rng)


def complex_text(rng):
    """COMPLEX token text: [+-]? (NUMBER [+-])? NUMBER [jJ]"""
    t = rng.choice(["", "", "", "+", "-"])
    if rng.random() < 0.6:
        t += number_text(rng) + rng.choice("+-")
    t += number_text(rng) + rng.choice(["j", "j", "J"])
    return t


# ------------------------------------------------------------------ python-side meaning of expressions

class OutOfDomain(Exception):
    pass


def lit_value(e):
    k = e[0]
    if k == "int":
        return int(e[1])
    if k == "float":
        return float(e[1])
    if k == "complex":
        return complex(e[1])
    if k == "pi":
        return math.pi
    raise ValueError(k)


def apply_fn(f, x):
    v = apply_fn_raw(f, x)
    # ill-conditioned points (tan near a pole, log near 1, arcsin near 1, ...) amplify the last-bit
    # differences between two evaluation orders of the argument beyond any fixed tolerance: outside
    # "up to float rounding"
    xf = float(x)
    if xf != 0.0 and v != 0.0 and math.isfinite(v):
        try:
            w = apply_fn_raw(f, xf * (1 + 1e-9))
            if abs(w - v) > 1e-6 * abs(v):
                raise OutOfDomain("ill-conditioned function argument")
        except OutOfDomain:
            raise OutOfDomain("ill-conditioned function argument")
    return v


def apply_fn_raw(f, x):
    if isinstance(x, complex):
        raise OutOfDomain("complex function argument")
    x = float(x)
    if f in ("sin", "cos", "tan") and abs(x) > 1e8:
        # argument reduction of a huge angle differs between libm implementations (outside every property)
        raise OutOfDomain("huge angle")
    try:
        if f == "sin":
            return math.sin(x)
        if f == "cos":
            return math.cos(x)
        if f == "tan":
            return math.tan(x)
        if f == "arcsin":
            return math.asin(x)
        if f == "arccos":
            return math.acos(x)
        if f == "arctan":
            return math.atan(x)
        if f == "sinh":
            return math.sinh(x)
        if f == "cosh":
            return math.cosh(x)
        if f == "tanh":
            return math.tanh(x)
        if f == "arcsinh":
            return math.asinh(x)
        if f == "arccosh":
            return math.acosh(x)
        if f == "arctanh":
            return math.atanh(x)
        if f == "sqrt":
            return math.sqrt(x)
        if f == "log":
            return math.log(x)
        if f == "exp":
            return math.exp(x)
    except (ValueError, OverflowError):
        raise OutOfDomain("function domain")
    raise ValueError(f)


def py_eval(e, env):
    """Ordinary real/complex arithmetic value of an expression: the independent oracle of C03.
    ints stay Python ints under + - * ** (non-negative exponent); / is true division.
    env: name -> number | ("arr", rows, cols, flat list)."""
    k = e[0]
    if k in ("int", "float", "complex", "pi"):
        return lit_value(e)
    if k == "var":
        v = env[e[1]]
        return v
    if k == "par":
        return env["{" + e[1] + "}"]
    if k == "reg":
        k1 = "q" + str(e[1])                   # q007 and q7 are the same register
        return env[k1] if k1 in env else env["q%d" % int(e[1])]
    if k == "idx":
        i = py_eval(e[2], env)
        arr = env[e[1]]
        if not isinstance(i, int) or isinstance(i, bool):
            raise OutOfDomain("non-integer index")
        flat = arr[3]
        if not (0 <= i < len(flat)):
            raise OutOfDomain("index range")
        return flat[i]
    if k in ("brk", "pos"):
        return py_eval(e[1], env)
    if k == "neg":
        return -py_eval(e[1], env)
    if k == "fn":
        return apply_fn(e[1], py_eval(e[2], env))
    a = py_eval(e[1], env)
    b = py_eval(e[2], env)
    for v in (a, b):
        if isinstance(v, (bool, str, tuple)):
            raise OutOfDomain("non-numeric operand")
    if not all(isinstance(v, (int, float, complex)) for v in (a, b)):
        # symbolic operand (SymPy): the operators are overloaded
        if k == "add":
            return a + b
        if k == "sub":
            return a - b
        if k == "mul":
            return a * b
        if k == "div":
            return a / b
        return a ** b
    try:
        if k in ("add", "sub", "mul") and isinstance(a, int) and isinstance(b, int):
            r = a + b if k == "add" else (a - b if k == "sub" else a * b)
            if not (-2 ** 63 <= r <= 2 ** 63 - 1):
                raise OutOfDomain("int64 overflow")       # the properties exclude wrap-around
            return r
        if k == "add":
            return a + b
        if k == "sub":
            return a - b
        if k == "mul":
            return a * b
        if k == "div":
            return a / b
        if k == "pow":
            if isinstance(a, int) and isinstance(b, int):
                if b < 0:
                    raise OutOfDomain("integer to negative integer power")
                if b > 64 or abs(a) > 10 ** 10:
                    raise OutOfDomain("big integer power")
                if not (-2 ** 63 <= a ** b <= 2 ** 63 - 1):
                    raise OutOfDomain("int64 overflow")
                return a ** b
            if not isinstance(a, complex) and not isinstance(b, complex):
                if a < 0 and float(b) != int(b):
                    raise OutOfDomain("negative base, fractional exponent")
                if a == 0 and b < 0:
                    raise OutOfDomain("zero to negative power")
                if abs(float(b)) > 4096:
                    # x**b multiplies the relative error of x by |b|: one unit in the last place of a function
                    # value becomes 5e-11 under the exponent 512000 (met in the thorough tier) - ill-conditioned
                    raise OutOfDomain("ill-conditioned power")
                return float(a) ** float(b)
            if a == 0:
                raise OutOfDomain("complex power of zero")
            if abs(complex(b)) > 4096:
                raise OutOfDomain("ill-conditioned power")
            return complex(a) ** complex(b)
    except (ZeroDivisionError, OverflowError):
        raise OutOfDomain("division by zero / overflow")
    raise ValueError(k)


def finite_ok(v, bound=1e12):
    if isinstance(v, bool):
        return True
    if isinstance(v, int):
        return abs(v) < 2 ** 62
    if isinstance(v, float):
        return math.isfinite(v) and abs(v) < bound
    if isinstance(v, complex):
        return math.isfinite(v.real) and math.isfinite(v.imag) and abs(v) < bound
    return True


def kind_of(v):
    if isinstance(v, bool):
        return "bool"
    if isinstance(v, int):
        return "int"
    if isinstance(v, float):
        return "float"
    if isinstance(v, complex):
        return "complex"
    if isinstance(v, str):
        return "str"
    return "other"


# ------------------------------------------------------------------ precedence

LEVEL = {"add": 0, "sub": 0, "mul": 1, "div": 1, "pow": 2, "pos": 3, "neg": 3}


def level(e):
    return LEVEL.get(e[0], 4)


def wrap(e, need):
    return e if level(e) >= need else ("brk", e)


def fix(e):
    """Insert the brackets the grammar needs so that the tree prints and re-parses as itself."""
    k = e[0]
    if k in ("add", "sub"):
        return (k, wrap(fix(e[1]), 0), wrap(fix(e[2]), 1))
    if k in ("mul", "div"):
        return (k, wrap(fix(e[1]), 1), wrap(fix(e[2]), 2))
    if k == "pow":
        return (k, wrap(fix(e[1]), 3), wrap(fix(e[2]), 2))
    if k in ("pos", "neg"):
        return (k, wrap(fix(e[1]), 3))
    if k == "brk":
        return (k, fix(e[1]))
    if k == "fn":
        return (k, e[1], fix(e[2]))
    if k == "idx":
        return (k, e[1], fix(e[2]))
    return e


# ------------------------------------------------------------------ rendering

# comment texts: ordinary ones, and ones holding characters that Python's str.splitlines treats as line ends
# (form feed, NEL, U+2028, ...) although the grammar's COMMENT rule runs to the next \\r or \\n only; a comment
# may also end in a backslash without continuing on the next line
COMMENT_TEXTS = ["", " c", " G | 0", " \"q\"", "  tab\there", " é", " page\x0cbreak Vac | 3", " sep\u2028Vac | 3",
                 " nel\x85G | 1", " vt\x0bx", " fs\x1cx", " ps\u2029 G | 2", " wrapped \\", "\\", " nbsp\u00a0here",
                 " zero\u200bwidth", " bom\ufeff",
                 # an odd number of double quotes inside a comment pairs with nothing
                 " beam waist 5\" from the source", " \"", " say \"hi", " a \"b\" c \"", " it's 3' 4\" long"]


class Layout:
    """Layout choices. With rng=None the canonical layout is produced: single spaces around
    binary operators, after commas and around '|' and '=', LF line ends, four-space indents."""

    def __init__(self, rng=None, newline="\n", final_newline=True, tab=None, comments=True, blank=True):
        self.rng = rng
        self.newline = newline
        self.final_newline = final_newline
        self.tab = tab
        self.comments = comments
        self.blank = blank

    def nl(self):
        """the line end: one style for the whole text, or (newline="mixed") chosen line by line"""
        if self.newline == "mixed":
            return self.rng.choice(["\n", "\r\n", "\r"]) if self.rng is not None else "\n"
        return self.newline

    def sp(self, mandatory=True):
        """spaces at a token boundary: 1-3 where a space is written, 0-3 where it is optional"""
        if self.rng is None:
            return " " if mandatory else ""
        lo = 1 if mandatory else 0
        return " " * self.rng.randrange(lo, 4)

    def indent(self):
        if self.tab is not None:
            return self.tab
        if self.rng is None:
            return "    "
        return self.rng.choice(["    ", "\t"])

    def eol(self):
        """end of a line: optional trailing spaces, optional comment, the newline"""
        s = ""
        if self.rng is not None:
            # one run of at most three spaces (four would be a TAB token)
            if self.rng.random() < 0.3:
                s += " " * self.rng.randrange(1, 4)
            if self.comments and self.rng.random() < 0.15:
                s += "#" + self.rng.choice(COMMENT_TEXTS)
        return s + self.nl()

    def blank_lines(self, allow=True):
        """blank / comment-only lines between items"""
        if self.rng is None or not allow or not self.blank:
            return ""
        s = ""
        while self.rng.random() < 0.2:
            r = self.rng.random()
            if r < 0.5:
                s += self.nl()
            elif r < 0.75 and self.comments:
                s += "# " + self.rng.choice(["comment", "name x", "1, 2", ""] + COMMENT_TEXTS) + self.nl()
            else:
                s += " " * self.rng.randrange(1, 4) + self.nl()
        return s


def starts_with_complex_risk(e):
    """True when the first token of e is a number token, so a directly preceding sign would fuse
    with it into a COMPLEX token if e's first token is imaginary."""
    while e[0] in ("add", "sub", "mul", "div", "pow"):
        e = e[1]
    return e[0] in ("complex",)


def r_expr(e, lay):
    k = e[0]
    if k in ("int", "float", "complex"):
        return e[1]
    if k == "pi":
        return "pi"
    if k == "var":
        return e[1]
    if k == "reg":
        return "q%s" % e[1]
    if k == "idx":
        return e[1] + lay.sp(False) + "[" + lay.sp(False) + r_expr(e[2], lay) + lay.sp(False) + "]"
    if k == "par":
        return "{" + lay.sp(False) + e[1] + lay.sp(False) + "}"
    if k == "brk":
        return "(" + lay.sp(False) + r_expr(e[1], lay) + lay.sp(False) + ")"
    if k in ("pos", "neg"):
        s = "+" if k == "pos" else "-"
        inner = r_expr(e[1], lay)
        # a sign directly before a number that ends in j would lex as one COMPLEX token
        gap = lay.sp(True) if e[1][0] in ("complex", "int", "float") and sign_fuses(e[1]) else lay.sp(False)
        return s + gap + inner
    if k == "fn":
        return e[1] + lay.sp(False) + "(" + lay.sp(False) + r_expr(e[2], lay) + lay.sp(False) + ")"
    sym = {"add": "+", "sub": "-", "mul": "*", "div": "/", "pow": "**"}[k]
    if k in ("add", "sub"):
        return r_expr(e[1], lay) + lay.sp(True) + sym + lay.sp(True) + r_expr(e[2], lay)
    # '*', '/', '**' never fuse with neighbours; spaces are optional
    tight = lay.rng is not None and lay.rng.random() < 0.5
    l = r_expr(e[1], lay)
    r = r_expr(e[2], lay)
    if k == "pow" and lay.rng is None:
        return l + sym + r
    if tight:
        return l + sym + r
    return l + lay.sp(True) + sym + lay.sp(True) + r


def sign_fuses(e):
    return e[0] == "complex"


def r_val(v, lay):
    if v[0] == "expr":
        return r_expr(v[1], lay)
    if v[0] == "str":
        return '"' + v[1] + '"'
    if v[0] == "bool":
        return "True" if v[1] else "False"
    raise ValueError(v)


def r_list(vals, lay):
    if not vals:
        return ""
    return ("," + lay.sp(True)).join(r_val(v, lay) for v in vals)


def r_args(a, lay):
    parts = [r_val(v, lay) for v in a["pos"]]
    for k, v in a["kw"]:
        if v[0] == "list" and not v[1]:
            parts.append(k + lay.sp(False) + "=" + lay.sp(False) + "[" + lay.sp(False) + "]")
        elif v[0] == "list":
            parts.append(k + lay.sp(False) + "=" + lay.sp(False) + "[" + lay.sp(False) + r_list(v[1], lay) + lay.sp(False) + "]")
        else:
            parts.append(k + lay.sp(False) + "=" + lay.sp(False) + r_val(v, lay))
    if not parts:
        return "(" + lay.sp(False) + ")"
    return "(" + lay.sp(False) + ("," + lay.sp(True)).join(parts) + lay.sp(False) + ")"


BRK_OPEN = {None: "", "round": "(", "square": "["}
BRK_CLOSE = {None: "", "round": ")", "square": "]"}


def r_stmt(s, lay):
    _, op, args, lb, modes, rb = s
    t = op
    if args is not None:
        t += lay.sp(False) + r_args(args, lay)
    t += lay.sp(True) + "|" + lay.sp(True)
    t += BRK_OPEN[lb] + (lay.sp(False) if lb else "")
    t += ("," + lay.sp(True)).join(r_expr(m, lay) for m in modes)
    t += (lay.sp(False) if rb else "") + BRK_CLOSE[rb]
    return t


def r_item(it, lay):
    k = it[0]
    if k == "var":
        _, ty, name, val = it
        return ty + lay.sp(True) + name + lay.sp(True) + "=" + lay.sp(True) + r_val(val, lay) + lay.eol()
    if k == "arr":
        _, ty, name, shape, rows = it
        t = ty + lay.sp(True) + "array" + lay.sp(True) + name
        if shape is not None:
            t += lay.sp(False) + "[" + lay.sp(False) + ("," + lay.sp(True)).join(str(x) for x in shape) + lay.sp(False) + "]"
        t += lay.sp(True) + "=" + lay.eol()
        ind = lay.indent()
        for row in rows:
            t += ind + ("," + lay.sp(True)).join(r_expr(e, lay) for e in row) + lay.eol()
        return t
    if k == "stmt":
        return r_stmt(it, lay) + lay.eol()
    if k == "loop":
        _, ty, x, header, body = it
        t = "for" + lay.sp(True) + ty + lay.sp(True) + x + lay.sp(True) + "in" + lay.sp(True)
        if header[0] == "range":
            t += str(header[1]) + lay.sp(False) + ":" + lay.sp(False) + str(header[2])
            if header[3] is not None:
                t += lay.sp(False) + ":" + lay.sp(False) + str(header[3])
        else:
            _, lb, vals, rb = header
            t += BRK_OPEN[lb] + r_list(vals, lay) + BRK_CLOSE[rb]
        for s in body:
            t += lay.eol() + lay.indent() + r_stmt(s, lay)
        return t + lay.eol()
    raise ValueError(k)


def r_meta_line(kw, m, lay):
    name, args = m
    t = kw + lay.sp(True) + name
    if args is not None:
        t += lay.sp(True) + r_args(args, lay)
    return t


def render(script, lay=None):
    lay = lay or Layout()
    t = lay.blank_lines()
    t += "name" + lay.sp(True) + script["name"] + lay.eol() + lay.blank_lines()
    t += "version" + lay.sp(True) + script["version"] + lay.eol()
    if script.get("target"):
        t += lay.blank_lines() + r_meta_line("target", script["target"], lay) + lay.eol()
    if script.get("type"):
        t += lay.blank_lines() + r_meta_line("type", script["type"], lay) + lay.eol()
    for inc in script.get("includes", []):
        t += lay.blank_lines() + "include" + lay.sp(True) + '"' + inc + '"' + lay.eol()
    if lay.rng is None:
        t += lay.newline
    for it in script["items"]:
        arr = it[0] == "arr"
        t += lay.blank_lines() + r_item(it, lay)
    t += lay.blank_lines()
    if not lay.final_newline:
        # drop exactly one trailing line terminator
        for nl in ("\r\n", "\n", "\r"):
            if t.endswith(nl):
                t = t[: -len(nl)]
                break
    return t


# ------------------------------------------------------------------ expression generation

class Scope:
    """What the script has declared so far, with Python-side values for the oracle."""

    def __init__(self):
        self.vals = {}        # name -> python value or ("arr", r, c, flat)
        self.kinds = {}       # name -> "int"|"float"|"complex"|"str"|"bool"|"arr"
        self.params = []      # template parameters mentioned
        self.used_names = set()

    def names_of(self, kind):
        return [n for n, k in self.kinds.items() if k == kind]

    def fresh(self, rng, pool=VAR_NAMES):
        for _ in range(50):
            n = rng.choice(pool)
            if n not in self.used_names and n not in KEYWORDS:
                self.used_names.add(n)
                return n
        n = "v%d" % len(self.used_names)
        self.used_names.add(n)
        return n


def gen_atom(rng, scope, kind):
    r = rng.random()
    if kind == "int":
        ints = scope.names_of("int")
        arrs = [n for n in scope.names_of("arr") if scope.vals[n][0] == "int"]
        if ints and r < 0.25:
            return ("var", rng.choice(ints))
        if arrs and r < 0.35:
            n = rng.choice(arrs)
            size = scope.vals[n][1] * scope.vals[n][2]
            return ("idx", n, ("int", str(rng.randrange(size))))
        return ("int", int_text(rng))
    if kind == "float":
        fl = scope.names_of("float")
        arrs = [n for n in scope.names_of("arr") if scope.vals[n][0] == "float"]
        if fl and r < 0.25:
            return ("var", rng.choice(fl))
        if arrs and r < 0.33:
            n = rng.choice(arrs)
            size = scope.vals[n][1] * scope.vals[n][2]
            return ("idx", n, ("int", str(rng.randrange(size))))
        if r < 0.4:
            return ("pi",)
        return ("float", float_text(rng))
    if kind == "complex":
        cs = scope.names_of("complex")
        if cs and r < 0.25:
            return ("var", rng.choice(cs))
        return ("complex", complex_text(rng))
    raise ValueError(kind)


def gen_expr_raw(rng, scope, kind, depth):
    """Random expression of the given result kind (int / float / complex)."""
    if depth <= 0 or rng.random() < 0.25:
        return gen_atom(rng, scope, kind)
    r = rng.random()
    d = depth - 1
    if r < 0.08:
        return ("brk", gen_expr_raw(rng, scope, kind, d))
    if r < 0.18:
        return (rng.choice(["neg", "neg", "pos"]), gen_expr_raw(rng, scope, kind, d))
    if kind == "int":
        if r < 0.3:
            return ("pow", gen_expr_raw(rng, scope, "int", min(d, 1)), ("int", str(rng.randrange(0, 4))))
        op = rng.choice(["add", "sub", "mul"])
        return (op, gen_expr_raw(rng, scope, "int", d), gen_expr_raw(rng, scope, "int", d))
    if kind == "float":
        if r < 0.3:
            f = rng.choice(FUNCS)
            return ("fn", f, gen_expr_raw(rng, scope, rng.choice(["int", "float"]), d))
        if r < 0.4:
            return ("pow", gen_expr_raw(rng, scope, rng.choice(["int", "float"]), d),
                    gen_expr_raw(rng, scope, rng.choice(["int", "float"]), min(d, 1)))
        if r < 0.6:
            # division, also int / int
            return ("div", gen_expr_raw(rng, scope, rng.choice(["int", "float"]), d),
                    gen_expr_raw(rng, scope, rng.choice(["int", "float"]), d))
        op = rng.choice(["add", "sub", "mul"])
        ka, kb = rng.choice([("float", "float"), ("int", "float"), ("float", "int")])
        return (op, gen_expr_raw(rng, scope, ka, d), gen_expr_raw(rng, scope, kb, d))
    if kind == "complex":
        if r < 0.3:
            return ("pow", gen_expr_raw(rng, scope, "complex", min(d, 1)), ("int", str(rng.randrange(0, 4))))
        op = rng.choice(["add", "sub", "mul", "div"])
        ka, kb = rng.choice([("complex", "complex"), ("complex", "float"), ("int", "complex"), ("float", "complex")])
        return (op, gen_expr_raw(rng, scope, ka, d), gen_expr_raw(rng, scope, kb, d))
    raise ValueError(kind)


def gen_expr(rng, scope, kind, depth, tries=40):
    """Generate until the expression is inside the domain of C03 (finite, in the functions' real
    domains, moderate size) and actually has the requested kind. Returns (expr, value)."""
    for _ in range(tries):
        e = fix(gen_expr_raw(rng, scope, kind, depth))
        try:
            v = py_eval(e, scope.vals)
        except OutOfDomain:
            continue
        if not finite_ok(v) or kind_of(v) != kind:
            continue
        if kind != "int" and v != 0 and abs(v) < 1e-9:
            continue          # results of cancellation: relative comparison is meaningless
        return e, v
    e = gen_atom(rng, scope, kind)
    return e, py_eval(e, scope.vals)


# ------------------------------------------------------------------ script generation

def gen_val(rng, scope, depth, allow_nonnumeric=True, kinds=("int", "float", "complex")):
    r = rng.random()
    if allow_nonnumeric and r < 0.1:
        return ("str", rng.choice(STRINGS)), None
    if allow_nonnumeric and r < 0.18:
        return ("bool", rng.random() < 0.5), None
    if allow_nonnumeric and r < 0.24:
        names = scope.names_of("str") + scope.names_of("bool")
        if names:
            return ("expr", ("var", rng.choice(names))), None
    e, v = gen_expr(rng, scope, rng.choice(kinds), depth)
    return ("expr", e), v


def gen_args(rng, scope, depth, cfg):
    npos = rng.choice([0, 1, 1, 2, 3])
    nkw = rng.choice([0, 0, 1, 2])
    pos = [gen_val(rng, scope, depth)[0] for _ in range(npos)]
    if cfg.get("array_args") and scope.names_of("arr") and rng.random() < 0.3:
        pos.append(("expr", ("var", rng.choice(scope.names_of("arr")))))
    kw = []
    for _ in range(nkw):
        k = rng.choice(KW_NAMES)
        if rng.random() < 0.3:
            kw.append((k, ("list", [gen_val(rng, scope, max(depth - 1, 0))[0] for _ in range(rng.randrange(1, 4))])))
        else:
            kw.append((k, gen_val(rng, scope, depth)[0]))
    if cfg.get("dup_kw") and kw and rng.random() < 0.1:
        kw.append((kw[0][0], gen_val(rng, scope, depth)[0]))
    return {"pos": pos, "kw": kw}


def gen_modes(rng, scope, depth, extra_int_names=()):
    n = rng.choice([1, 1, 1, 2, 2, 3])
    modes = []
    for _ in range(n):
        if extra_int_names and rng.random() < 0.5:
            modes.append(("var", rng.choice(list(extra_int_names))))
        elif rng.random() < 0.75:
            modes.append(("int", str(rng.randrange(0, 6))))
        else:
            e, v = gen_expr(rng, scope, "int", min(depth, 2))
            modes.append(e)
    r = rng.random()
    if n == 1 and r < 0.6:
        lb = rb = None
    elif r < 0.8:
        lb = rb = rng.choice(["round", "square"])
    else:
        lb = rng.choice([None, "round", "square"])
        rb = rng.choice([None, "round", "square"])
    # a lone round bracket that could be read as an expression bracket is kept out of the
    # generator's default stream (both readings give the same modes; see Parser.bracketed)
    return lb, modes, rb


def gen_stmt(rng, scope, cfg, loopvar=None, loopkind=None):
    depth = cfg.get("depth", 3)
    op = rng.choice(OP_NAMES)
    args = None
    if rng.random() < 0.7:
        sc = scope
        args = gen_args(rng, sc, depth, cfg)
        if loopvar is not None and loopkind in ("int", "float") and rng.random() < 0.7:
            # use the loop variable in an argument
            slot = rng.random()
            ve = ("var", loopvar)
            use = rng.choice([ve, ("mul", ("int", "2"), ve), ("add", ve, ("float", "0.5"))])
            if slot < 0.12:
                # the loop variable ONLY inside a list-valued keyword argument (seeded C02/k: a per-loop argument
                # cache whose "mentions the loop variable" test looked at scalar keyword values only)
                other = [("expr", rng.choice([("int", str(rng.randrange(0, 9))), ("float", "0.25")]))
                         for _ in range(rng.randrange(0, 3))]
                lst = other + [("expr", use)]
                rng.shuffle(lst)
                args["kw"].append((rng.choice(KW_NAMES), ("list", lst)))
            elif slot < 0.5 or not args["kw"]:
                args["pos"].append(("expr", use))
            else:
                args["kw"].append((rng.choice(KW_NAMES), ("expr", use)))
        elif loopvar is not None and rng.random() < 0.7:
            args["pos"].append(("expr", ("var", loopvar)))
    extra = [loopvar] if (loopvar is not None and loopkind == "int" and rng.random() < 0.7) else []
    lb, modes, rb = gen_modes(rng, scope, depth, extra)
    return ("stmt", op, args, lb, modes, rb)


def gen_decl(rng, scope, cfg):
    depth = cfg.get("depth", 3)
    r = rng.random()
    name = scope.fresh(rng)
    if r < 0.6:
        ty = rng.choice(["int", "float", "float", "complex", "str", "bool"])
        if ty == "str":
            s = rng.choice(STRINGS)
            scope.kinds[name] = "str"
            scope.vals[name] = s
            return ("var", ty, name, ("str", s))
        if ty == "bool":
            b = rng.random() < 0.5
            scope.kinds[name] = "bool"
            scope.vals[name] = b
            return ("var", ty, name, ("bool", b))
        srckind = ty
        if ty == "float" and rng.random() < 0.3:
            srckind = "int"
        if ty == "complex" and rng.random() < 0.3:
            srckind = rng.choice(["int", "float"])
        e, v = gen_expr(rng, scope, srckind, depth)
        v = {"int": int, "float": float, "complex": complex}[ty](v)
        scope.kinds[name] = ty
        scope.vals[name] = v
        return ("var", ty, name, ("expr", e))
    ty = rng.choice(["int", "float", "float", "complex"])
    nr = rng.randrange(1, cfg.get("max_rows", 4) + 1)
    nc = rng.randrange(1, cfg.get("max_cols", 4) + 1)
    rows = []
    flat = []
    for _ in range(nr):
        row = []
        for _ in range(nc):
            srckind = ty
            if ty != "int" and rng.random() < 0.3:
                srckind = "int"
            e, v = gen_expr(rng, scope, srckind, min(depth, 2))
            row.append(e)
            flat.append({"int": int, "float": float, "complex": complex}[ty](v))
        rows.append(row)
    shape = [nr, nc] if rng.random() < 0.5 else None
    scope.kinds[name] = "arr"
    scope.vals[name] = (ty, nr, nc, flat)
    return ("arr", ty, name, shape, rows)


def gen_loop(rng, scope, cfg):
    x = scope.fresh(rng, ["m", "i", "k", "n", "idx", "mm", "l", "w"])
    r = rng.random()
    if r < 0.55:
        ty = rng.choice(["int", "int", "int", "float"])
        a = rng.randrange(0, 4)
        b = a + rng.randrange(0, 5) if rng.random() < 0.9 else max(a - 1, 0)
        c = rng.choice([None, None, 1, 2, 3])
        header = ("range", a, b, c)
    else:
        ty = rng.choice(["int", "int", "float", "str", "bool"])
        n = rng.randrange(1, 4)
        vals = []
        for _ in range(n):
            if ty == "int":
                e, _v = gen_expr(rng, scope, "int", 1)
                if _v < 0:
                    e = ("int", str(rng.randrange(0, 5)))
                vals.append(("expr", e))
            elif ty == "float":
                e, _v = gen_expr(rng, scope, rng.choice(["float", "int"]), 1)
                vals.append(("expr", e))
            elif ty == "str":
                vals.append(("str", rng.choice(STRINGS)))
            else:
                vals.append(("bool", rng.random() < 0.5))
        brk = rng.choice([None, "round", "square"])
        header = ("list", brk, vals, brk)
    body = [gen_stmt(rng, scope, cfg, x, ty) for _ in range(rng.choice([1, 1, 2, 3]))]
    return ("loop", ty, x, header, body)


def gen_meta_args(rng, scope, cfg):
    kw = []
    for _ in range(rng.randrange(1, 4)):
        k = rng.choice(KW_NAMES + ["cutoff_dim", "shots", "temporal_modes", "copies"])
        kw.append((k, gen_val(rng, Scope(), 1)[0]))
    return {"pos": [], "kw": kw}


def gen_script(rng, cfg=None):
    """A valid, parameter-free, include-free script with declarations, statements and loops."""
    cfg = dict(cfg or {})
    scope = Scope()
    script = {"name": rng.choice(["prog", "test_1", "a", "Main", "x2"]),
              "version": rng.choice(["1.0", "1.0", "1.1", "0.3", "10.25"]),
              "target": None, "type": None, "includes": [], "items": []}
    if rng.random() < 0.5:
        dev = rng.choice(["fock", "gaussian", "X8_01", "tf", "fock.sim", "chip2", "a_b", "Borealis", "TD2"])
        script["target"] = (dev, gen_meta_args(rng, scope, cfg) if rng.random() < 0.6 else None)
    if rng.random() < 0.25:
        script["type"] = (rng.choice(["foo", "sampling", "tdmx", "Sampling", "TDM", "Gbs_2", "tDm"]), gen_meta_args(rng, scope, cfg) if rng.random() < 0.6 else None)
    n = rng.randrange(1, cfg.get("max_items", 10) + 1)
    for _ in range(n):
        r = rng.random()
        if r < 0.3:
            script["items"].append(gen_decl(rng, scope, cfg))
        elif r < 0.45 and cfg.get("loops", True):
            script["items"].append(gen_loop(rng, scope, cfg))
        else:
            script["items"].append(gen_stmt(rng, scope, cfg))
    if not any(it[0] in ("stmt", "loop") for it in script["items"]):
        script["items"].append(gen_stmt(rng, scope, cfg))
    return script, scope


def features(script):
    """Feature tags of a script (for the input-distribution table in the evidence)."""
    f = set()
    for it in script["items"]:
        f.add(it[0])
        if it[0] == "stmt":
            if it[2] is None:
                f.add("stmt-noargs")
            else:
                if it[2]["kw"]:
                    f.add("kwargs")
                if any(v[0] == "list" for _, v in it[2]["kw"]):
                    f.add("list-kwarg")
            if it[3] != it[5]:
                f.add("unbalanced-brackets")
            if len(it[4]) > 1:
                f.add("multi-mode")
        if it[0] == "loop":
            f.add("loop-" + it[3][0])
    if script.get("target"):
        f.add("target")
        if script["target"][1]:
            f.add("target-options")
    if script.get("type"):
        f.add("type")
    return f


# ------------------------------------------------------------------ python-side denotation (oracle of C02)

def cval(v):
    """python value -> canonical value"""
    if isinstance(v, bool):
        return ("b", v)
    if isinstance(v, int):
        return ("i", v)
    if isinstance(v, float):
        return ("f", v)
    if isinstance(v, complex):
        return ("c", v)
    if isinstance(v, str):
        return ("s", v)
    if isinstance(v, tuple) and len(v) == 4:
        ty, r, c, flat = v
        return ("arr", ty, r, c, [cval(x) for x in flat])
    raise ValueError(v)


def d_val(v, env):
    if v[0] == "expr":
        return cval(py_eval(v[1], env))
    if v[0] == "str":
        return ("s", v[1])
    if v[0] == "bool":
        return ("b", v[1])
    raise ValueError(v)


def d_args(a, env):
    if a is None:
        return None
    pos = [d_val(v, env) for v in a["pos"]]
    kw = {}
    order = []
    for k, v in a["kw"]:
        if v[0] == "list":
            x = ("list", [d_val(e, env) for e in v[1]])
        else:
            x = d_val(v, env)
        if k not in kw:
            order.append(k)
        kw[k] = x
    return (pos, [(k, kw[k]) for k in order])


CAST = {"int": int, "float": float, "complex": complex, "str": str, "bool": bool}


def d_stmt(s, env, ops, modes):
    _, op, args, lb, ms, rb = s
    mvals = []
    for m in ms:
        v = py_eval(m, env)
        if not isinstance(v, int) or isinstance(v, bool):
            raise OutOfDomain("mode")
        mvals.append(v)
    ops.append({"op": op, "args": d_args(args, env), "modes": mvals})
    modes.update(mvals)


def denote(script):
    """The program a (parameter-free, include-free) script denotes, computed from the AST with
    ordinary Python arithmetic: an oracle independent of both the model and the implementation."""
    env = {}
    ops = []
    modes = set()

    def meta(m):
        if m is None:
            return {"name": None, "options": []}
        name, args = m
        return {"name": name, "options": d_args(args, {})[1] if args else []}

    for it in script["items"]:
        k = it[0]
        if k == "var":
            _, ty, name, val = it
            if val[0] == "expr":
                env[name] = CAST[ty](py_eval(val[1], env))
            else:
                env[name] = val[1]
        elif k == "arr":
            _, ty, name, shape, rows = it
            flat = [CAST[ty](py_eval(e, env)) for row in rows for e in row]
            env[name] = (ty, len(rows), len(rows[0]), flat)
        elif k == "stmt":
            d_stmt(it, env, ops, modes)
        elif k == "loop":
            _, ty, x, header, body = it
            if header[0] == "range":
                _, a, b, c = header
                vals = list(range(a, b, c if c is not None else 1))
            else:
                vals = []
                for v in header[2]:
                    if v[0] == "expr":
                        vals.append(py_eval(v[1], env))
                    else:
                        vals.append(v[1])
            for v in vals:
                env[x] = CAST[ty](v)
                for s in body:
                    d_stmt(s, env, ops, modes)
            env.pop(x, None)
    return {"name": script["name"], "version": script["version"], "target": meta(script.get("target")),
            "type": meta(script.get("type")), "ops": ops,
            "vars": [(k, cval(v)) for k, v in env.items()], "params": [], "modes": sorted(modes)}


# ------------------------------------------------------------------ symbolic expressions (templates, registers)

def expr_symbols(e, acc=None):
    """names of {parameters} and qN registers written in an expression"""
    acc = set() if acc is None else acc
    k = e[0]
    if k == "par":
        acc.add("{" + e[1] + "}")
    elif k == "reg":
        acc.add("q" + str(e[1]))
    elif k in ("brk", "pos", "neg"):
        expr_symbols(e[1], acc)
    elif k in ("fn", "idx"):
        expr_symbols(e[2], acc)
    elif k in ("add", "sub", "mul", "div", "pow"):
        expr_symbols(e[1], acc)
        expr_symbols(e[2], acc)
    return acc


def gen_symexpr_raw(rng, leaves, depth, scope=None):
    """polynomial / rational expression over the given symbolic leaves with int/float coefficients"""
    if depth <= 0 or rng.random() < 0.3:
        r = rng.random()
        if r < 0.6:
            return rng.choice(leaves)
        if r < 0.8:
            return ("int", str(rng.randrange(1, 8)))
        if scope is not None and scope.names_of("float") and r < 0.88:
            return ("var", rng.choice(scope.names_of("float")))
        if rng.random() < 0.04:
            return ("float", rng.choice(["1e-17", "4e-19", "1E+18"]))      # coefficients that vanish against 1
        return ("float", rng.choice(["0.5", "1.5", "0.25", "2.0", "0.1", "3.75", "1e-1"]))
    d = depth - 1
    r = rng.random()
    if rng.random() < 0.05:
        # a negated even power over an integer multiple of a symbol: SymPy holds the coefficient -1/n as a
        # rational and prints a bare minus in front of the power
        a, b = rng.choice(leaves), rng.choice(leaves)
        return ("div", ("neg", ("brk", ("pow", a, ("int", str(rng.choice([2, 4])))))),
                ("brk", ("mul", ("int", str(rng.randrange(2, 6))), b)))
    if r < 0.1:
        return ("neg", gen_symexpr_raw(rng, leaves, d, scope))
    if r < 0.16:
        return ("brk", gen_symexpr_raw(rng, leaves, d, scope))
    if r < 0.25:
        return ("pow", gen_symexpr_raw(rng, leaves, min(d, 1), scope), ("int", str(rng.randrange(2, 4))))
    if r < 0.35:
        return ("div", gen_symexpr_raw(rng, leaves, d, scope), ("int", str(rng.randrange(2, 6))))
    if r < 0.42:
        return ("div", ("int", str(rng.randrange(1, 4))), gen_symexpr_raw(rng, leaves, min(d, 1), scope))
    op = rng.choice(["add", "sub", "mul", "add", "mul"])
    return (op, gen_symexpr_raw(rng, leaves, d, scope), gen_symexpr_raw(rng, leaves, d, scope))


def gen_symexpr(rng, leaves, depth, scope=None, need_all=False, tries=30):
    """Expression in which every written symbol survives SymPy's simplification (no identical
    cancellation) and which is finite at the comparison points."""
    import sympy
    for _ in range(tries):
        e = fix(gen_symexpr_raw(rng, leaves, depth, scope))
        syms = sorted(expr_symbols(e))
        if not syms:
            continue
        if need_all and len(syms) != len(leaves):
            continue
        env = dict(scope.vals) if scope is not None else {}
        env.update({n: sympy.Symbol(n.strip("{}")) for n in syms})
        try:
            v = py_eval(e, env)
        except (OutOfDomain, ZeroDivisionError):
            continue
        if not isinstance(v, sympy.Expr):
            continue
        if sorted(str(x) for x in v.free_symbols) != sorted(n.strip("{}") for n in syms):
            continue
        if v.has(sympy.zoo, sympy.nan, sympy.oo):
            continue
        return e
    return leaves[0]


def subst_expr(e, sigma):
    """replace {p} by its parenthesised value (sigma: name -> expression AST of a literal)"""
    k = e[0]
    if k == "par":
        return ("brk", sigma[e[1]])
    if k in ("brk", "pos", "neg"):
        return (k, subst_expr(e[1], sigma))
    if k == "fn":
        return (k, e[1], subst_expr(e[2], sigma))
    if k == "idx":
        return (k, e[1], subst_expr(e[2], sigma))
    if k in ("add", "sub", "mul", "div", "pow"):
        return (k, subst_expr(e[1], sigma), subst_expr(e[2], sigma))
    return e


def literal_of(v):
    """expression AST denoting the Python number v exactly"""
    if isinstance(v, bool):
        raise ValueError(v)
    if isinstance(v, int):
        return ("int", str(v)) if v >= 0 else ("neg", ("int", str(-v)))
    if isinstance(v, float):
        t = repr(abs(v))
        if "." not in t and "e" not in t and "E" not in t:
            t += ".0"
        if "inf" in t or "nan" in t:
            raise ValueError(v)
        return ("float", t) if (v >= 0 and not str(v).startswith("-")) else ("neg", ("float", t))
    if isinstance(v, complex):
        def part(x):
            t = repr(abs(x))
            return t
        re_, im = v.real, v.imag
        txt = ("-" if str(re_).startswith("-") else "") + part(re_) + ("-" if str(im).startswith("-") else "+") + part(im) + "j"
        return ("complex", txt)
    raise ValueError(v)


def subst_val(v, sigma):
    if v[0] == "expr":
        return ("expr", subst_expr(v[1], sigma))
    return v


def subst_args(a, sigma):
    if a is None:
        return None
    kw = []
    for k, v in a["kw"]:
        if v[0] == "list":
            kw.append((k, ("list", [subst_val(x, sigma) for x in v[1]])))
        else:
            kw.append((k, subst_val(v, sigma)))
    return {"pos": [subst_val(v, sigma) for v in a["pos"]], "kw": kw}


def subst_stmt(s, sigma):
    _, op, args, lb, modes, rb = s
    return ("stmt", op, subst_args(args, sigma), lb, [subst_expr(m, sigma) for m in modes], rb)


def subst_script(script, sigma, arrays=None):
    """textual substitution of C04 at AST level; arrays: name -> rows of literal ASTs for
    whole-array parameters"""
    arrays = arrays or {}
    out = dict(script)
    items = []
    for it in script["items"]:
        k = it[0]
        if k == "var":
            items.append(("var", it[1], it[2], subst_val(it[3], sigma)))
        elif k == "arr":
            rows = it[4]
            if len(rows) == 1 and len(rows[0]) == 1 and rows[0][0][0] == "par" and rows[0][0][1] in arrays:
                rows = arrays[rows[0][0][1]]
            else:
                rows = [[(sigma[e[1]] if e[0] == "par" else subst_expr(e, sigma)) for e in row] for row in rows]
            items.append(("arr", it[1], it[2], it[3], rows))
        elif k == "stmt":
            items.append(subst_stmt(it, sigma))
        elif k == "loop":
            items.append(("loop", it[1], it[2], it[3], [subst_stmt(s, sigma) for s in it[4]]))
    out["items"] = items
    return out


def unroll_script(script):
    """textual unrolling of C06 at AST level: every loop is replaced by its body once per value,
    with the loop variable replaced by a literal denoting the value converted to the declared type"""
    out = dict(script)
    items = []
    env = {}
    for it in script["items"]:
        if it[0] == "var":
            try:
                env[it[2]] = CAST[it[1]](py_eval(it[3][1], env)) if it[3][0] == "expr" else it[3][1]
            except (OutOfDomain, KeyError, TypeError):
                pass
        elif it[0] == "arr":
            try:
                flat = [CAST[it[1]](py_eval(e, env)) for row in it[4] for e in row]
                env[it[2]] = (it[1], len(it[4]), len(it[4][0]), flat)
            except (OutOfDomain, KeyError, TypeError):
                pass
        if it[0] != "loop":
            items.append(it)
            continue
        _, ty, x, header, body = it
        if header[0] == "range":
            vals = list(range(header[1], header[2], header[3] if header[3] is not None else 1))
        else:
            vals = [py_eval(v[1], env) if v[0] == "expr" else v[1] for v in header[2]]
        for v in vals:
            cv = CAST[ty](v)
            if ty in ("int", "float", "complex"):
                val_lit = ("expr", literal_of(cv))
            elif ty == "str":
                val_lit = ("str", cv)
            else:
                val_lit = ("bool", cv)
            for s in body:
                items.append(replace_var_stmt(s, x, val_lit))
    out["items"] = items
    return out


def replace_var_expr(e, x, lit):
    k = e[0]
    if k == "var" and e[1] == x:
        return ("brk", lit)
    if k in ("brk", "pos", "neg"):
        return (k, replace_var_expr(e[1], x, lit))
    if k == "fn":
        return (k, e[1], replace_var_expr(e[2], x, lit))
    if k == "idx":
        return (k, e[1], replace_var_expr(e[2], x, lit))
    if k in ("add", "sub", "mul", "div", "pow"):
        return (k, replace_var_expr(e[1], x, lit), replace_var_expr(e[2], x, lit))
    return e


def replace_var_val(v, x, val_lit):
    if v[0] == "expr":
        if v[1] == ("var", x):
            return val_lit
        if val_lit[0] == "expr":
            return ("expr", replace_var_expr(v[1], x, val_lit[1]))
    return v


def replace_var_stmt(s, x, val_lit):
    _, op, args, lb, modes, rb = s
    if args is not None:
        kw = []
        for k, v in args["kw"]:
            if v[0] == "list":
                kw.append((k, ("list", [replace_var_val(e, x, val_lit) for e in v[1]])))
            else:
                kw.append((k, replace_var_val(v, x, val_lit)))
        args = {"pos": [replace_var_val(v, x, val_lit) for v in args["pos"]], "kw": kw}
    if val_lit[0] == "expr":
        modes = [replace_var_expr(m, x, val_lit[1]) for m in modes]
    return ("stmt", op, args, lb, modes, rb)


# ------------------------------------------------------------------ templates, register transforms, tdm

def gen_template(rng, cfg=None):
    """A template script: a base script plus {parameters} in every slot C04 lists. Returns
    (script, info) with info = {"params": [...scalar names], "array_params": {name: (r, c)}}"""
    cfg = dict(cfg or {})
    cfg.setdefault("loops", True)
    script, scope = gen_script(rng, cfg)
    npar = rng.randrange(1, 5)
    pool = list(PAR_NAMES)
    if cfg.get("no_pnames", False):
        pool = [p for p in pool if not is_pname(p)]
    names = rng.sample(pool, npar)
    leaves = [("par", n) for n in names]
    used = set()
    arr_params = {}
    items = list(script["items"])

    def symval(depth=2, sub=None):
        ls = sub or rng.sample(leaves, rng.randrange(1, min(3, len(leaves)) + 1))
        e = gen_symexpr(rng, ls, depth, None)
        used.update(n.strip("{}") for n in expr_symbols(e))
        return ("expr", e)

    # parameters in statements (positional, keyword)
    stmts = [i for i, it in enumerate(items) if it[0] == "stmt"]
    for i in stmts:
        if rng.random() < 0.6:
            _, op, args, lb, modes, rb = items[i]
            args = copy_args(args) if args is not None else {"pos": [], "kw": []}
            r = rng.random()
            if r < 0.6:
                args["pos"].insert(rng.randrange(len(args["pos"]) + 1), symval())
            if r > 0.4:
                args["kw"].append((rng.choice(KW_NAMES), symval()))
            items[i] = ("stmt", op, args, lb, modes, rb)
    # parameters in loop bodies (loops that execute at least once)
    for i, it in enumerate(items):
        if it[0] == "loop" and rng.random() < 0.7 and loop_count(it[3]) >= 1:
            _, ty, x, header, body = it
            nb = []
            for s in body:
                _, op, args, lb, modes, rb = s
                args = copy_args(args) if args is not None else {"pos": [], "kw": []}
                args["pos"].append(symval())
                nb.append(("stmt", op, args, lb, modes, rb))
            items[i] = ("loop", ty, x, header, nb)
    extra = []
    # (cfg "fragment": only statements and loop bodies hold parameters — the templates
    # C04_script_instantiation is about)
    frag = cfg.get("fragment", False)
    # scalar initialiser holding a parameter expression, then used as an argument
    if not frag and rng.random() < 0.5:
        vn = scope.fresh(rng)
        if rng.random() < 0.25:
            cand = [n for n in names if n not in scope.used_names and n not in KEYWORDS and not n.startswith("q")]
            if cand:
                vn = rng.choice(cand)        # a variable may carry the name of a parameter
                scope.used_names.add(vn)
        # declared type int is excluded: the cast is not re-applied at instantiation
        # (open finding C04-declared-type-not-enforced)
        extra.append(("var", rng.choice(["float", "complex"]), vn, symval()))
        extra.append(("stmt", rng.choice(OP_NAMES), {"pos": [("expr", ("var", vn))], "kw": []}, None,
                      [("int", str(rng.randrange(4)))], None))
    # array with bare parameters among its elements
    if not frag and rng.random() < 0.5:
        an = scope.fresh(rng)
        ty = rng.choice(["float", "complex"])
        nr, nc = rng.randrange(1, 4), rng.randrange(1, 4)
        if nr * nc == 1:
            nc = 2
        rows = []
        for _ in range(nr):
            row = []
            for _ in range(nc):
                if rng.random() < 0.45:
                    p = rng.choice(names)
                    used.add(p)
                    row.append(("par", p))
                else:
                    e, _v = gen_expr(rng, Scope(), ty if rng.random() < 0.7 else "int", 1)
                    row.append(e)
            rows.append(row)
        extra.append(("arr", ty, an, [nr, nc] if rng.random() < 0.5 else None, rows))
        if rng.random() < 0.5:
            extra.append(("stmt", rng.choice(OP_NAMES), {"pos": [("expr", ("var", an))], "kw": []}, None,
                          [("int", "0")], None))
    # whole-array parameter with a declared shape
    if not frag and rng.random() < 0.35:
        an = scope.fresh(rng, ["U", "V", "W", "Uni", "M2"])
        r, c = rng.randrange(1, 4), rng.randrange(1, 4)
        if rng.random() < 0.15:
            r, c = rng.choice([(1, 11), (1, 12), (11, 1), (2, 11)])     # element indices of two digits
        if r * c == 1 and not cfg.get("allow_1x1_array_param"):
            # a 1x1 whole-array parameter is indistinguishable, once serialised, from a 1x1 array
            # holding one scalar parameter (open finding C01-1x1-array-parameter)
            c = 2
        arr_params[an] = (r, c)
        extra.append(("arr", rng.choice(["float", "complex"]), an, [r, c], [[("par", an)]]))
        if rng.random() < 0.6:
            extra.append(("stmt", "Interferometer", {"pos": [("expr", ("var", an))], "kw": []}, None,
                          [("int", str(k)) for k in range(2)], "square" if False else None))
    # make sure every chosen scalar parameter is used at least once
    for n in names:
        if n not in used:
            extra.append(("stmt", rng.choice(OP_NAMES), {"pos": [symval(1, [("par", n)])], "kw": []}, None,
                          [("int", str(rng.randrange(4)))], None))
    # interleave the extra items (declarations before their uses: keep their relative order)
    pos = sorted(rng.randrange(len(items) + 1) for _ in extra)
    for off, (p, it) in enumerate(zip(pos, extra)):
        items.insert(p + off, it)
    script = dict(script)
    script["items"] = items
    return script, {"params": sorted(used), "array_params": arr_params}, scope


def loop_count(header):
    if header[0] == "range":
        return len(range(header[1], header[2], header[3] if header[3] is not None else 1))
    return len(header[2])


def copy_args(a):
    return {"pos": list(a["pos"]), "kw": list(a["kw"])}


def gen_param_values(rng, info, exact_friendly=True):
    """finite generic values for the parameters of a template"""
    vals = {}
    for n in info["params"]:
        r = rng.random()
        if r < 0.3:
            vals[n] = rng.choice([1, 2, 3, 5, 7])
        elif exact_friendly:
            vals[n] = rng.choice([1, 3, 5, 7, 9, 11]) / rng.choice([2, 4, 8]) + rng.choice([0.0, 1.0, 2.0])
        else:
            vals[n] = rng.uniform(0.3, 3.0)
    arrays = {}
    for n, (r, c) in info["array_params"].items():
        arrays[n] = [[rng.choice([1, 3, 5, 7]) / rng.choice([2, 4]) for _ in range(c)] for _ in range(r)]
    return vals, arrays


def gen_rrt_script(rng, cfg=None):
    """A script whose arguments include expressions over measured registers."""
    cfg = dict(cfg or {})
    script, scope = gen_script(rng, cfg)
    items = list(script["items"])
    cases = []
    nreg = rng.randrange(1, 6)
    regs = rng.sample(range(0, 12), nreg)
    # `q007` is a legal spelling of register 7 (REGREF : 'q' [0-9]+): one spelling per register and script
    spell = {r: ("0" * rng.choice([0, 0, 0, 0, 1, 2]) + str(r)) for r in regs}
    for k in range(rng.randrange(1, 4)):
        sub = rng.sample(regs, rng.randrange(1, nreg + 1))
        e = gen_symexpr(rng, [("reg", spell[r]) for r in sub], rng.choice([1, 2, 3]), scope, need_all=rng.random() < 0.5)
        kwpos = rng.random() < 0.4
        plain, _v = gen_expr(rng, scope, rng.choice(["int", "float"]), 1)
        if kwpos:
            args = {"pos": [("expr", plain)], "kw": [(rng.choice(KW_NAMES), ("expr", e))]}
        else:
            args = {"pos": [("expr", e), ("expr", plain)], "kw": []}
        st = ("stmt", rng.choice(["Dgate", "Xgate", "Zgate", "G"]), args, None, [("int", str(rng.randrange(6)))], None)
        # after the last declaration, so that every variable the expression uses is declared
        last_decl = max([i for i, it in enumerate(items) if it[0] in ("var", "arr")] or [-1])
        at = rng.randrange(last_decl + 1, len(items) + 1)
        items.insert(at, st)
        cases.append((e, kwpos))
    script = dict(script)
    script["items"] = items
    return script, scope, cases


def all_exprs(script):
    """every expression written in a script's items"""
    out = []

    def from_val(v):
        if v[0] == "expr":
            out.append(v[1])

    def from_args(a):
        if a is None:
            return
        for v in a["pos"]:
            from_val(v)
        for _k, v in a["kw"]:
            if v[0] == "list":
                for x in v[1]:
                    from_val(x)
            else:
                from_val(v)

    for it in script["items"]:
        if it[0] == "var":
            from_val(it[3])
        elif it[0] == "arr":
            for row in it[4]:
                out.extend(row)
        elif it[0] == "stmt":
            from_args(it[2])
        elif it[0] == "loop":
            for s in it[4]:
                from_args(s[2])
    return out


def values_in_domain(script, vals):
    """no parameter expression divides by zero or becomes huge at these values"""
    env = {"{" + k + "}": v for k, v in vals.items()}
    for e in all_exprs(script):
        syms = expr_symbols(e)
        if not syms or any(s.startswith("q") for s in syms):
            continue
        if not all(s in env for s in syms):
            continue
        try:
            v = py_eval(strip_vars(e), env)
        except (OutOfDomain, ZeroDivisionError, OverflowError, KeyError):
            return False
        if isinstance(v, (int, float, complex)) and not finite_ok(v, 1e9):
            return False
        if isinstance(v, (float, complex)) and v != 0 and abs(v) < 1e-6:
            return False
    return True


def strip_vars(e):
    """replace declared-variable references by 1.5 (only poles in the parameters matter here)"""
    k = e[0]
    if k == "var":
        return ("float", "1.5")
    if k == "idx":
        return ("float", "1.5")
    if k in ("brk", "pos", "neg"):
        return (k, strip_vars(e[1]))
    if k == "fn":
        return (k, e[1], strip_vars(e[2]))
    if k in ("add", "sub", "mul", "div", "pow"):
        return (k, strip_vars(e[1]), strip_vars(e[2]))
    return e
