"""Worker for C19/C08: loads every given script in this process (whose PYTHONHASHSEED the parent
chose) and prints one JSON line per script: canonical content, serialisation, and for every
register transform its pairing evaluated at fixed points."""
import json
import os
import sys

HERE = os.path.dirname(os.path.abspath(__file__))
sys.path.insert(0, HERE)
import core  # noqa: E402
import canon  # noqa: E402

core.import_blackbird()
import blackbird  # noqa: E402
from props import c13  # noqa: E402


def pairing(p):
    from blackbird.listener import RegRefTransform
    out = []
    for o in p.operations:
        for a in list(o.get("args", [])) + list(o.get("kwargs", {}).values()):
            if isinstance(a, RegRefTransform):
                vals = {r: 0.75 + 0.5 * r for r in a.regrefs}
                try:
                    v = a.func(*[vals[r] for r in a.regrefs])
                    out.append([sorted(a.regrefs), "%.12g" % v if not isinstance(v, complex) else "%.12g,%.12g" % (v.real, v.imag)])
                except ZeroDivisionError:
                    out.append([sorted(a.regrefs), "pole"])
    return out


def main():
    cases = json.load(sys.stdin)
    for c in cases:
        if "files" in c:
            old = os.getcwd()
            os.chdir(c["root"])
            with core.quiet():
                try:
                    r = ("ok", blackbird.load(c["main"]))
                except Exception as e:  # noqa: BLE001
                    r = ("exc", e)
            os.chdir(old)
        else:
            r = core.impl_loads(c["text"])
        if r[0] != "ok":
            print(json.dumps({"error": list(map(str, canon.classify_exception(r[1])))}))
            continue
        d, content = c13.snapshot(r[1])
        out = {"dumps": d, "content": content, "pairing": pairing(r[1]),
               "parameters": sorted(r[1].parameters), "modes": sorted(str(m) for m in r[1].modes)}
        if r[1].is_template() and not any("_" in n and n.rsplit("_", 2)[-1].isdigit() for n in r[1].parameters):
            # the instance carries copies of the template's register transforms: they stay paired too
            with core.quiet():
                try:
                    q = r[1](**{n: 0.5 + 0.25 * k for k, n in enumerate(sorted(r[1].parameters))})
                    out["pairing_of_instance"] = pairing(q)
                    out["instance"] = c13.snapshot(q)[1]
                except Exception as e:  # noqa: BLE001
                    out["pairing_of_instance"] = "raises " + type(e).__name__
        print(json.dumps(out))


if __name__ == "__main__":
    main()
