"""Line coverage of the implementation under a check: which executable lines of the hand-written
blackbird modules the oracle / correspondence run actually drove. Uses sys.monitoring (CPython
3.12): every line event is disabled after its first hit, so the cost is negligible. The figures go
into the evidence (`impl_line_coverage`) as a measure of what the tie between model and code has
seen; they decide nothing."""
import os
import sys
import types

FILES = ("auxiliary.py", "listener.py", "program.py", "utils.py", "error.py", "__init__.py")
_hit = {}
_TOOL = None


def start(pkg_dir):
    global _TOOL
    mon = getattr(sys, "monitoring", None)
    if mon is None:
        return False
    want = {os.path.realpath(os.path.join(pkg_dir, f)) for f in FILES}
    for tool in (mon.COVERAGE_ID, 3, 4):
        try:
            mon.use_tool_id(tool, "verif-implcov")
            _TOOL = tool
            break
        except ValueError:
            continue
    if _TOOL is None:
        return False

    def on_line(code, line):
        fn = code.co_filename
        if fn in want or os.path.realpath(fn) in want:
            _hit.setdefault(os.path.basename(fn), set()).add(line)
        return mon.DISABLE

    mon.register_callback(_TOOL, mon.events.LINE, on_line)
    mon.set_events(_TOOL, mon.events.LINE)
    return True


def _code_lines(code, acc):
    for _s, _e, ln in code.co_lines():
        if ln is not None:
            acc.add(ln)
    for c in code.co_consts:
        if isinstance(c, types.CodeType):
            _code_lines(c, acc)


def report(pkg_dir):
    """{file: [lines hit, executable lines]} plus the total"""
    out = {}
    missed = {}
    th = tt = 0
    for f in FILES:
        path = os.path.join(pkg_dir, f)
        try:
            code = compile(open(path, encoding="utf-8").read(), path, "exec")
        except Exception:  # noqa: BLE001
            continue
        lines = set()
        _code_lines(code, lines)
        # module-level lines run at import time, before the collector starts: count function bodies only
        top = {ln for _s, _e, ln in code.co_lines() if ln is not None}
        body = lines - top
        hit = len(_hit.get(f, set()) & body)
        out[f] = [hit, len(body)]
        missed[f] = sorted(body - _hit.get(f, set()))
        th += hit
        tt += len(body)
    out["total"] = [th, tt]
    out["lines_not_executed"] = missed
    return out
