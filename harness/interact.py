"""Interaction stream: short scripts assembled from a catalogue of item shapes that SHARE a tiny pool of
names, so that the things random scripts almost never do happen all the time: a name declared twice
(scalar then array, array then array of another shape), an array indexed between and after two
declarations, an empty loop followed by a loop over the same variable, a loop variable shadowing a
declared variable, a variable used after a loop that bound the same name, the same statement before
and after a redeclaration, options mixing positional and keyword entries. No oracle of its own: the
executable model is the oracle (LOADS correspondence), so ill-formed combinations are as useful as
valid ones (both sides must refuse them in the same way). Integers stay small: int64 overflow is
outside the properties."""

NAMES = ["x", "m", "A", "B", "p0", "nan", "inf"]
GATES = ["Sgate", "Rgate", "Dgate", "Vac", "MeasureX", "Xgate", "BSgate"]


class St:
    def __init__(self):
        self.kind = {}            # name -> "int" | "float" | "complex" | "str" | "bool" | ("arr", ty, n)
        self.pre = []

    def pick(self, rng, want, p_defined=0.9):
        """a name of a wanted kind (mostly): one that is defined, or one declared on the spot (the
        declaration goes to self.pre); now and then any name, defined or not"""
        if rng.random() >= p_defined:
            return rng.choice(NAMES)
        c = [n for n, k in self.kind.items() if want(k)]
        if c:
            return rng.choice(c)
        n = rng.choice(NAMES)
        if want is is_arr or want is is_int_arr:
            ty = "int" if want is is_int_arr else rng.choice(["int", "float"])
            self.pre += ["%s array %s =" % (ty, n), "    " + ", ".join(_num(rng, ty) for _ in range(3))]
            self.kind[n] = ("arr", ty, 3)
        else:
            ty = "int" if want is is_int else rng.choice(["int", "float"])
            self.pre += ["%s %s = %s" % (ty, n, _num(rng, ty))]
            self.kind[n] = ty
        return n


def is_num(k):
    return k in ("int", "float", "complex")


def is_int(k):
    return k == "int"


def is_arr(k):
    return isinstance(k, tuple)


def is_int_arr(k):
    return isinstance(k, tuple) and k[1] == "int"


def _num(rng, kind):
    if kind == "int":
        return rng.choice(["0", "1", "2", "3", "7", "12", "007", "10"])
    if kind == "float":
        return rng.choice(["0.5", "1.0", "2.25", "1e2", "0.125", "3.0", "1E-1", "7.5"])
    return rng.choice(["1+2j", "0.5j", "2-1j", "1+0j", "0j"])


def item(rng, st):
    """one item as a list of text lines"""
    r = rng.random()
    g = rng.choice(GATES)
    if r < 0.12:
        n = rng.choice(NAMES)
        ty = rng.choice(["int", "float", "complex"])
        val = _num(rng, ty if rng.random() < 0.8 else "int")
        st.kind[n] = ty
        return ["%s %s = %s" % (ty, n, val)]
    if r < 0.17:
        n = rng.choice(NAMES)
        v = st.pick(rng, is_num)
        ty = rng.choice(["int", "float"])
        st.kind[n] = ty
        return ["%s %s = %s * 2" % (ty, n, v)]
    if r < 0.23:
        n = rng.choice(NAMES)
        t = rng.choice(['str %s = "a b"', "bool %s = True", "bool %s = False"])
        src = [k for k, v in st.kind.items() if v == t.split()[0] and k != n]
        st.kind[n] = t.split()[0]
        if src and rng.random() < 0.8:
            # a string / boolean variable initialised from another one (an expression, not a literal)
            return ["%s %s = %s" % (t.split()[0], n, rng.choice(src))]
        return [t % n]
    if r < 0.36:
        a = rng.choice(NAMES)
        ty = rng.choice(["int", "float", "complex"])
        nr, nc = rng.choice([(1, 1), (1, 2), (2, 2), (1, 3), (3, 1), (2, 3)])
        shape = "[%d, %d]" % (nr, nc) if rng.random() < 0.4 else ""
        def entry():
            # mostly literals; now and then a declared scalar by name (an array row is a list of expressions)
            c = [n_ for n_, k_ in st.kind.items() if k_ in ("int", "float") and n_ != a]
            if c and rng.random() < 0.2:
                return rng.choice(c)
            return _num(rng, ty if ty != "complex" else rng.choice(["int", "complex"]))
        rows = ["    " + ", ".join(entry() for _ in range(nc)) for _ in range(nr)]
        st.kind[a] = ("arr", ty, nr * nc)
        return ["%s array %s%s =" % (ty, a, shape)] + rows
    if r < 0.50:
        a = st.pick(rng, is_arr)
        n = st.kind.get(a, ("arr", "int", 2))
        size = n[2] if isinstance(n, tuple) else 2
        k = rng.choice([str(rng.randrange(size)), str(size - 1), "-1", st.pick(rng, is_int), "0+0", str(size)])
        form = rng.choice(["%s(%s[%s]) | %d", "%s(%s[%s] * 2, 0.5) | %d", "%s(phi=%s[%s]) | %d"])
        return [form % (g, a, k, rng.randrange(4))]
    if r < 0.54:
        a = st.pick(rng, is_int_arr)
        return ["%s | %s[%s]" % (g, a, rng.choice(["0", "1"]))]
    if r < 0.58:
        return ["%s(%s) | [0, 1]" % (rng.choice(["Interferometer", "G"]), st.pick(rng, is_arr))]
    if r < 0.68:
        n = st.pick(rng, is_num)
        return ["%s(%s) | %d" % (g, rng.choice([n, n + " + 1", "2*" + n, "-" + n]), rng.randrange(4))]
    if r < 0.72:
        n = st.pick(rng, is_int)
        return ["%s | %s" % (g, rng.choice([n, n + "+1", "[%s, %s+1]" % (n, n)]))]
    if r < 0.88:
        ty = rng.choice(["int", "int", "float"])
        v = rng.choice(NAMES)
        n = st.pick(rng, is_int)
        hdr = rng.choice(["0:2", "1:3", "3:3", "4:1", "0:6:2", "2:2:1", "[1, 2]", "[0]", "(2, 0)", "[%s, 1]" % n, "0:1",
                          # the header is evaluated once, before the loop variable is bound: later elements that
                          # mention a shadowed variable see ITS value, and the loop's own (undeclared) name is undefined
                          "[%s, %s+1, %s+2]" % (n, n, n), "[1, %s+1, %s*3]" % (v, v), "[%s, %s*2]" % (v, v),
                          "[%s[0], %s[1]]" % (st.pick(rng, is_int_arr), st.pick(rng, is_int_arr))])
        if ty == "float" and rng.random() < 0.5:
            hdr = rng.choice(["[0.5, 1.5]", "[1.0]", "0:2"])
        body = []
        for _ in range(rng.randrange(1, 3)):
            a = st.pick(rng, is_arr)
            w = st.pick(rng, is_num)
            b = rng.choice(["%s(%s) | 0" % (g, v), "%s(%s * 0.5) | %s" % (g, v, v if ty == "int" else "1"),
                            "%s(%s[%s]) | 1" % (g, a, v if ty == "int" else "0"), "%s | %s" % (g, v if ty == "int" else "2"),
                            "%s(%s, %s) | [0, 1]" % (g, v, w)])
            body.append("    " + b)
        # the loop variable is deleted after a loop that ran (also when it shadowed a declaration)
        empty = hdr in ("3:3", "4:1", "2:2:1")
        if not empty:
            st.kind.pop(v, None)
        return ["for %s %s in %s" % (ty, v, hdr)] + body
    if r < 0.94:
        n = st.pick(rng, is_num)
        # a register times a variable that may be zero would cancel in SymPy (outside C08): add instead
        return ["%s(q%d %s) | %d" % (g, rng.randrange(3), rng.choice(["* 2", "+ " + n, "* 0.5", "- " + n]), rng.randrange(4))]
    return ["%s(0.5) | %d" % (g, rng.randrange(4))]


def script(rng):
    lines = ["name inter", "version 1.0"]
    if rng.random() < 0.2:
        lines.append(rng.choice(["target fock (shots=10)", "target fock (3, shots=10)", "type tdm (copies=1)",
                                 "type tdm (temporal_modes=2)", "type tdm",
                                 "target X8_01 (a=[1, 2], b=0.5)", "type foo (2, 0.5, a=1, b=2)",
                                 'target fock ("s", x=True)']))
    lines.append("")
    st = St()
    for _ in range(rng.randrange(2, 8)):
        st.pre = []
        it = item(rng, st)
        lines += st.pre + it
    return "\n".join(lines) + "\n"
