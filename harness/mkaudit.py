"""Regenerates lean/Audit/Cxx.lean: one `#print axioms` per theorem named Cxx_* in Props/Cxx.lean
(and GenProps/Cxx.lean). Run by hand after adding theorems; the files are committed."""
import os
import re
import sys

HERE = os.path.dirname(os.path.abspath(__file__))
LEAN = os.path.join(os.path.dirname(HERE), "lean")


def main():
    files = sorted(os.listdir(os.path.join(LEAN, "Blackbird", "Props")))
    for fn in files:
        if not re.fullmatch(r"C\d+\.lean", fn):
            continue
        pid = fn[:-5]
        names = []
        imports = []
        # Props/Cxx.lean and any Props/Cxx<Suffix>.lean
        for f2 in files:
            if re.fullmatch(pid + r"[A-Za-z]*\.lean", f2):
                src = open(os.path.join(LEAN, "Blackbird", "Props", f2), encoding="utf-8").read()
                names += re.findall(r"^theorem\s+(%s_[A-Za-z0-9_']+)" % pid, src, re.M)
                imports.append("import Blackbird.Props.%s" % f2[:-5])
        for g2 in sorted(os.listdir(os.path.join(LEAN, "GenProps"))):
            if re.fullmatch(pid + r"[A-Za-z]*\.lean", g2):
                gsrc = open(os.path.join(LEAN, "GenProps", g2), encoding="utf-8").read()
                names += re.findall(r"^theorem\s+(%s_[A-Za-z0-9_']+)" % pid, gsrc, re.M)
                imports.append("import GenProps.%s" % g2[:-5])
        with open(os.path.join(LEAN, "Audit", pid + ".lean"), "w", encoding="utf-8") as f:
            f.write("\n".join(imports) + "\n")
            for n in names:
                f.write("#print axioms Blackbird.%s\n" % n)
        print(pid, len(names))


if __name__ == "__main__":
    main()
