"""Regenerates lean/Audit/Cxx.lean: one `#print axioms` per theorem named Cxx_* in Props/Cxx.lean
(and GenProps/Cxx.lean). Run by hand after adding theorems; the files are committed."""
import os
import re
import sys

HERE = os.path.dirname(os.path.abspath(__file__))
LEAN = os.path.join(os.path.dirname(HERE), "lean")


def main():
    for fn in sorted(os.listdir(os.path.join(LEAN, "Blackbird", "Props"))):
        if not re.fullmatch(r"C\d+\.lean", fn):
            continue
        pid = fn[:-5]
        src = open(os.path.join(LEAN, "Blackbird", "Props", fn), encoding="utf-8").read()
        names = re.findall(r"^theorem\s+(%s_[A-Za-z0-9_']+)" % pid, src, re.M)
        imports = ["import Blackbird.Props.%s" % pid]
        gen = os.path.join(LEAN, "GenProps", fn)
        if os.path.exists(gen):
            gsrc = open(gen, encoding="utf-8").read()
            names += re.findall(r"^theorem\s+(%s_[A-Za-z0-9_']+)" % pid, gsrc, re.M)
            imports.append("import GenProps.%s" % pid)
        with open(os.path.join(LEAN, "Audit", pid + ".lean"), "w", encoding="utf-8") as f:
            f.write("\n".join(imports) + "\n")
            for n in names:
                f.write("#print axioms Blackbird.%s\n" % n)
        print(pid, len(names))


if __name__ == "__main__":
    main()
