"""Regenerates the machine-written tables of DESIGN.md (between <!-- AUTO:x --> and <!-- /AUTO:x -->):
theorem lists per property (from lean/Audit), findings (KNOWN_FINDINGS.jsonl), seeded changes
(seeded/*/*/result.json). Run by hand after changing any of those; DESIGN.md is committed."""
import glob
import json
import os
import re

HERE = os.path.dirname(os.path.abspath(__file__))
VERIF = os.path.dirname(HERE)


def theorems():
    out = ["| id | theorems (all axiom-audited on every run) |", "|---|---|"]
    for f in sorted(glob.glob(os.path.join(VERIF, "lean", "Audit", "C*.lean"))):
        pid = os.path.basename(f)[:-5]
        names = re.findall(r"#print axioms Blackbird\.(\S+)", open(f, encoding="utf-8").read())
        out.append("| %s | %s |" % (pid, ", ".join("`%s`" % n for n in names)))
    return "\n".join(out)


def status():
    out = ["| id | theorems | quick: cases / distinct non-trivial / model-vs-impl traces / wall | seed |", "|---|---|---|---|"]
    for f in sorted(glob.glob(os.path.join(VERIF, "evidence", "C*.json"))):
        d = json.load(open(f, encoding="utf-8"))
        c = d["coverage"]
        out.append("| %s | %d/%d | %d / %d / %d / %.0f s (%s) | %s |" % (
            d["property_id"], c["discharged"], c["obligations"], c["evaluations"], c["distinct_nontrivial"],
            c["traces_validated_against_impl"], d["wall_s"], d["tier"], d["seed"]))
    return "\n".join(out)


def findings():
    fixed, opened = [], []
    for l in open(os.path.join(VERIF, "KNOWN_FINDINGS.jsonl"), encoding="utf-8"):
        l = l.strip()
        if not l:
            continue
        e = json.loads(l)
        row = "| %s | %s | %s | %s |" % (e["property"], e["id"], e.get("commit", "") or "", e["what"].replace("|", "\\|").replace("\n", " "))
        (fixed if e["status"] == "fixed" else opened).append(row)
    return ("Repaired in `/repo` (each a `fix:` commit; the entry is replayed on every run and must pass):\n\n"
            "| property | id | commit | what failed |\n|---|---|---|---|\n" + "\n".join(fixed) +
            "\n\nOpen (printed as `KNOWN-FINDING`, identified by the exact input; any other violation of the same "
            "property is still reported):\n\n| property | id | | what fails |\n|---|---|---|---|\n" + "\n".join(opened))


def seeded():
    out = ["| property / change | what the change does | needs | caught by |", "|---|---|---|---|"]
    for f in sorted(glob.glob(os.path.join(VERIF, "seeded", "C*", "*", "meta.json"))):
        d = os.path.dirname(f)
        pid, x = d.split(os.sep)[-2:]
        m = json.load(open(f, encoding="utf-8"))
        rp = os.path.join(d, "result.json")
        r = json.load(open(rp, encoding="utf-8")) if os.path.exists(rp) else {}
        caught = r.get("caught", "not run")
        line = ""
        for ln in r.get("quick", {}).get("lines", []) + r.get("thorough", {}).get("lines", []):
            if ln.startswith("violation:") or ln.startswith("unchecked:"):
                line = ln.split(":", 1)[1].strip()[:160]
                break
        how = {"quick": "`./check %s quick`" % pid, "thorough": "`./check %s thorough`" % pid, "no": "**not caught**"}.get(caught, caught)
        if line:
            how += ": " + line.replace("|", "\\|").replace("\n", " ")
        out.append("| %s/%s | %s | %s | %s |" % (
            pid, x, str(m.get("summary", ""))[:300].replace("|", "\\|").replace("\n", " "),
            str(m.get("needs", ""))[:200].replace("|", "\\|").replace("\n", " "), how))
    return "\n".join(out)


def coverage():
    """union over all evidence files of the implementation lines the checks executed"""
    never = None
    totals = {}
    per = []
    for f in sorted(glob.glob(os.path.join(VERIF, "evidence", "C*.json"))):
        d = json.load(open(f, encoding="utf-8"))
        c = d["coverage"].get("impl_line_coverage")
        if not c:
            continue
        per.append("%s %d/%d" % (d["property_id"], c["total"][0], c["total"][1]))
        miss = {k: set(v) for k, v in c.get("lines_not_executed", {}).items()}
        for k, v in c.items():
            if isinstance(v, list) and k != "total":
                totals[k] = v[1]
        never = miss if never is None else {k: never.get(k, set()) & miss.get(k, set()) for k in set(never) | set(miss)}
    if never is None:
        return "(no coverage recorded yet)"

    def ranges(ls):
        out, ls = [], sorted(ls)
        i = 0
        while i < len(ls):
            j = i
            while j + 1 < len(ls) and ls[j + 1] == ls[j] + 1:
                j += 1
            out.append(str(ls[i]) if i == j else "%d-%d" % (ls[i], ls[j]))
            i = j + 1
        return ", ".join(out)
    rows = ["| file | executable lines in function bodies | executed by at least one check | never executed (line numbers) |", "|---|---|---|---|"]
    for k in sorted(totals):
        n = len(never.get(k, set()))
        rows.append("| `%s` | %d | %d | %s |" % (k, totals[k], totals[k] - n, ranges(never.get(k, set())) or "-"))
    return "Per check (quick tier): " + ", ".join(per) + ".\n\n" + "\n".join(rows)


def asbuilt(pid):
    import mkmanifest
    ent = mkmanifest.TABLE.get(pid)
    if not ent:
        return ""
    return "**As built** (`lean/Blackbird/Props/%s*.lean`, `harness/props/%s.py`). %s *Technique:* %s. *Note:* %s" % (
        pid, pid.lower(), ent[1], ent[2], ent[4])


def main():
    p = os.path.join(VERIF, "DESIGN.md")
    s = open(p, encoding="utf-8").read()
    for n in range(1, 20):
        pid = "C%02d" % n
        a, b = "<!-- AUTO:asbuilt-%s -->" % pid, "<!-- /AUTO:asbuilt-%s -->" % pid
        if a in s and b in s:
            i, j = s.index(a) + len(a), s.index(b)
            s = s[:i] + "\n" + asbuilt(pid) + "\n" + s[j:]
    for key, fn in (("theorems", theorems), ("status", status), ("findings", findings), ("seeded", seeded), ("coverage", coverage)):
        a, b = "<!-- AUTO:%s -->" % key, "<!-- /AUTO:%s -->" % key
        if a in s and b in s:
            i, j = s.index(a) + len(a), s.index(b)
            s = s[:i] + "\n" + fn() + "\n" + s[j:]
    open(p, "w", encoding="utf-8").write(s)


if __name__ == "__main__":
    main()
