"""Writes /verif/MANIFEST.json from the table below (run after changing what is claimed)."""
import json
import os
import subprocess

HERE = os.path.dirname(os.path.abspath(__file__))
VERIF = os.path.dirname(HERE)

COMMON_NOTE = ("Trusted: Lean 4.33.0 kernel; axioms propext, Classical.choice, Quot.sound only (audited per theorem on "
               "every run; no sorry/admit/axiom/native_decide/bv_decide in lean/). The Lean model is hand-written; it is "
               "tied to /repo on every run by the correspondence check (model driver vs real API on generated inputs) "
               "whose coverage is reported in the evidence. NumPy, SymPy, the ANTLR runtime, networkx and CPython "
               "number formatting are contract boundaries observed through the correspondence, not modelled. ")

# id -> (claimed, theorem summary, technique, design section, extra note)
TABLE = {
    "C16": (True,
            "Theorems over programs of any length (Props/C16.lean): nodes are exactly the operations that depend on a "
            "wire, each once, carrying their operation; every edge goes forward, hence no cycle; reachability in the "
            "graph equals the chain relation 'successively share a mode or measured register'; any topological order "
            "keeps every wire's order. Correspondence: model graph vs to_DiGraph, plus an implementation-only oracle "
            "(networkx reachability vs independently computed chains).",
            "Lean 4 proof (induction over operation lists) + model/implementation correspondence", "DESIGN.md 7 (C16)",
            "Hypothesis 'every operation acts on at least one mode' is explicit (open finding C16-empty-mode-list)."),
    "C02": (True,
            "Refinement theorem (Props/C02.lean): for every item list, include environment and listener state, the "
            "listener model (state threading, accumulators, loop replay, variable binding and deletion) computes exactly "
            "the denotation of Blackbird/Spec.lean (statements denote their modes and operation, loops the "
            "concatenation of the body per value, items the concatenation in textual order) or fails with the same "
            "error; read off the denotation: one operation per statement with the written name, modes as integers in "
            "order, arguments = values of the written expressions; denotation of a ++ b is that of a followed by that "
            "of b; script level: name, version, target/type names and options as written, operations/modes/variables = "
            "denotation of the items. Oracle: loaded program vs an independent Python evaluation of the generator's AST.",
            "Lean 4 proof (refinement to a denotational spec, induction over items/values/statements) + correspondence",
            "DESIGN.md 7 (C02)", "The parse tree walk order (ANTLR ParseTreeWalker) is represented by the item order."),
    "C05": (True,
            "Theorems (Props/C05.lean): a successfully assembled array has as many rows as written, element (r, c) of "
            "the flat data is the c-th entry of the r-th written row (index r*ncols + c), a declared shape equals the "
            "actual shape; rows of different length are rejected, a contradicting shape is rejected; A[k] is the k-th "
            "element in row-major order and out-of-range indices are refused; a stored scalar has its declared kind and "
            "complex values are never cast to int/float; re-insertion of any number of template parameters at any "
            "positions reproduces the written elements (and the pre-repair positions do not). Oracle: every element, "
            "dtype, shape and index of random declarations against an independent Python evaluation.",
            "Lean 4 proof (list arithmetic, induction over rows) + correspondence", "DESIGN.md 7 (C05)",
            "NumPy's cast of element values (np.array(..., dtype)) is a contract boundary."),
    "C06": (True,
            "Theorems (Props/C06.lean): for every loop-value list, every body not using the loop variable as an array "
            "name and every state in which the variable is fresh, replaying the body per value with the variable bound "
            "equals executing the unrolled statements (variable replaced by a literal of the converted value): same "
            "error or equal final states once the variable is deleted (substitution lemma over all expression forms, "
            "lifted through arguments, keyword/list arguments, modes, include expansion, statements, bodies, value "
            "lists); ranges a:b:c denote a, a+c, ... below b, empty when a >= b, default step 1; the variable is not "
            "visible afterwards; a wrongly typed listed value makes the loop fail at that value. Oracle: loads(loop "
            "script) vs loads(unrolled script).",
            "Lean 4 proof (substitution lemma, induction over values and statements) + correspondence", "DESIGN.md 7 (C06)",
            "The deferral of body statements during the tree walk (_in_for) is represented by its effect "
            "(the body is executed by exitForloop only)."),
    "C08": (True,
            "Theorems (Props/C08.lean) for every symbolic argument and EVERY iteration order of the symbol set: the "
            "transform's function applied to the measurement values of the listed symbols in the listed order equals the "
            "value of the written expression; the listed symbols are exactly the registers written, each once; register "
            "numbers are those of the symbols in the same order; an argument is wrapped iff it mentions a register, plain "
            "values stay plain. Correspondence and oracle: func(values in regrefs order) vs the written formula on the "
            "real RegRefTransform objects.",
            "Lean 4 proof (induction over expressions, permutation lemmas) + correspondence", "DESIGN.md 7 (C08)",
            "SymPy's simplification and lambdify are a contract boundary (registers that cancel identically are outside "
            "the property and not generated)."),
    "C12": (True,
            "Theorems (Props/C12.lean): the outcome of a load and the tables it leaves do not depend on the tables it "
            "starts from; every load of every finite history has its pristine-process outcome (induction on the "
            "history); a successful load leaves empty tables; plus the negation for the pre-repair mechanism from a "
            "concrete witness. Oracle: histories in one interpreter vs forked pristine children; id()-scan for shared "
            "mutable objects (sharing is not carried by the functional model).",
            "Lean 4 proof (state threaded explicitly; induction over histories) + correspondence", "DESIGN.md 7 (C12)",
            "'Share no mutable state' is decided by the harness only."),
    "C13": (True,
            "Theorems (Props/C13.lean): each read-only operation, modelled as returning the receiver as the operation "
            "leaves it, returns the receiver unchanged; lifted to every finite sequence by induction; serialisation "
            "before = after; negation for the pre-repair to_DiGraph from a concrete witness. Partial: independence of "
            "instances is aliasing between Python objects, decided by the harness (mutate-and-compare sequences) only.",
            "Lean 4 proof (induction over operation sequences) + mutate-and-compare harness", "DESIGN.md 7 (C13)",
            "Second sentence of the property (instance independence) is not carried by the functional model."),
    "C19": (True,
            "Theorems (Props/C19.lean) quantified over all iteration orders of the sets involved: the outcome of a load "
            "is independent of the order (include call-site mode maps go through a sort; proved via permutation "
            "invariance of sorting and lifted through statements, loops, items, includes of any depth); register "
            "transforms list the same registers and stay paired with their function under every order; the serialiser "
            "model takes no order; negation for the pre-repair brace insertion. Oracle: every script loaded and "
            "serialised under 8/32 values of PYTHONHASHSEED in fresh interpreters.",
            "Lean 4 proof (permutation invariance) + hash-seed sweep", "DESIGN.md 7 (C19)",
            "CPython's hashing itself is modelled as an arbitrary permutation of each set."),
}


def main():
    props = [json.loads(l) for l in open(os.path.join(VERIF, "properties.jsonl"), encoding="utf-8")]
    fixes = subprocess.run(["git", "-C", os.environ.get("VERIF_REPO", "/repo"), "log", "--reverse", "--format=%h %s",
                            "--grep=^fix:"], capture_output=True, text=True).stdout.strip().split("\n")
    checks = []
    na = []
    for p in props:
        pid = p["id"]
        ent = TABLE.get(pid)
        if ent and ent[0]:
            checks.append({
                "property_id": pid,
                "quick_cmd": "./check %s quick" % pid,
                "thorough_cmd": "./check %s thorough" % pid,
                "evidence_file": "evidence/%s.json" % pid,
                "replay_cmd_template": "./check %s --replay {path}" % pid,
                "engine": "lean4-model+correspondence",
                "level_claimed": {"category": "proof", "text": ent[1], "design_ref": ent[3]},
                "level_note": COMMON_NOTE + ent[4],
                "technique": ent[2],
            })
        else:
            na.append({"property_id": pid,
                       "reason": (ent[4] if ent else "check not registered yet: its Lean theorems are still being written "
                                  "(the technique applies; see DESIGN.md section 7)")})
    m = {
        "version": 1,
        "setup_cmd": "./check --setup",
        "hooks": {
            "guard": "BLACKBIRD_VERIF",
            "enable": "no source hooks are needed: the harness imports blackbird from /repo/blackbird_python, wraps the "
                      "error listener and reads blackbird.auxiliary._VAR/_PARAMS from outside",
            "baseline_off_cmd": "cd /repo && /venv/bin/python -m pytest -ra -q -p no:cacheprovider --timeout=900 "
                                "--continue-on-collection-errors",
            "source_commits": [f for f in fixes if f],
            "add_only": True,
        },
        "engines": [{"name": "lean4-model+correspondence", "path": "lean/ harness/",
                     "serves_properties": [c["property_id"] for c in checks],
                     "kind_free_text": "Lean 4 model and theorems (lean/Blackbird), compiled model driver, Python "
                                       "correspondence harness and implementation-only oracles (harness/)"}],
        "checks": checks,
        "not_applicable": na,
        "notes": "All checks share ./check (harness/run.py). KNOWN_FINDINGS.jsonl lists repaired (fixed) and open findings; "
                 "the fix: commits in /repo are listed under hooks.source_commits for information.",
    }
    with open(os.path.join(VERIF, "MANIFEST.json"), "w", encoding="utf-8") as f:
        json.dump(m, f, indent=1, ensure_ascii=False)
    print("claimed:", [c["property_id"] for c in checks])


if __name__ == "__main__":
    main()
