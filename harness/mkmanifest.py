"""Writes /verif/MANIFEST.json from the table below (run after changing what is claimed)."""
import json
import os
import subprocess

HERE = os.path.dirname(os.path.abspath(__file__))
VERIF = os.path.dirname(HERE)

COMMON_NOTE = ("Trusted: Lean 4.33.0 kernel; axioms propext, Classical.choice, Quot.sound only (audited per theorem on "
               "every run; no sorry/admit/axiom/native_decide/bv_decide in lean/). The Lean model is hand-written; it is "
               "tied to /repo on every run by the correspondence check (model driver vs real API on generated inputs) "
               "whose coverage is reported in the evidence. NumPy, SymPy, the ANTLR runtime, networkx and CPython "
               "number formatting are contract boundaries observed through the correspondence, not modelled. ")

# id -> (claimed, theorem summary, technique, design section, extra note)
TABLE = {
    "C01": (True,
            "Theorems (Props/C01.lean, Props/C09.lean, Lemmas/Unparse*.lean) about scriptOf p, the syntax tree of the "
            "text the serialiser writes (tied to the real dumps by the UNPARSE token correspondence): for every covered "
            "program and EVERY layout of line ends the model parser returns that script and the listener model rebuilds "
            "the program - same name, version, target, type, options, operations with positional and keyword "
            "arguments and modes in order; free parameters = those the operations mention; numbers, booleans, strings, "
            "lists and numeric arrays (any shape r x c >= 1x1) exactly; symbolic arguments come back as exactly the "
            "written tree; every generation n exists and equals the first, and writes the same script (fixpoint). "
            "Partial: non-tdm programs whose parameters reach an operation (the two open findings are the excluded "
            "cases); the tdm variable block, SymPy's printing/re-simplification of symbolic values and CPython's float "
            "repr (hypothesis class LawfulFmt: float(repr(x)) == x, shape of the complex literal) are covered by the "
            "oracle (loads(dumps(p)) for 3/6 generations on random scripts) and the DUMPS/LOADS correspondences.",
            "Lean 4 proof (printer/parser/listener composition, induction over operations and generations) + "
            "round-trip oracle", "DESIGN.md 7 (C01)",
            "Open findings: a parameter that reaches no operation is lost; a 1x1 whole-array parameter is renamed."),
    "C09": (True,
            "Theorems (Props/C09.lean): the written form of every integer/real/complex number evaluates to that number "
            "(decimal text of naturals proved to read back; reals under LawfulFmt); the declaration written for an "
            "r x c numeric array stores an array of the same element type and shape whose every element is the "
            "original (any r, c >= 1); each operation line evaluates to that one operation; target/type lines to the "
            "same options; the serialiser model refuses no covered program; whole programs: for every layout the "
            "parser accepts the serialised tokens and loading yields the same program (C09_serialised_program_loads_"
            "back). Kernel-evaluated concrete program as non-vacuity witness. Oracle: random API-built programs "
            "(NumPy scalars, special floats, arrays in C/Fortran/transposed/strided layout) must load back equal.",
            "Lean 4 proof (printer/parser/listener composition) + API round-trip oracle", "DESIGN.md 7 (C09)",
            "Open findings: positional lists and array-valued options have no syntax; an empty list drops its key "
            "(pinned by the test suite). CPython's float repr is a contract boundary (LawfulFmt)."),
    "C14": (True,
            "Theorems over data REGENERATED from /repo on every run by harness/translate.py (GenProps/C14.lean, "
            "GenProps/C14ATN.lean; kernel evaluation): the serialised ATNs embedded in blackbirdLexer.py, "
            "blackbirdLexer.cpp and both blackbirdLexer.interp files are identical integer for integer, likewise the "
            "four parser ATNs; the .tokens files are identical to each other and to the vocabulary the grammar "
            "prescribes; rule names, symbolic and literal names of both targets and the .interp files are the grammar's; "
            "the lexer rules (as regular expressions, fragments inlined, order and skip flags) and parser rules read "
            "from src/blackbird.g4 are exactly the model's. GRAMMAR TO AUTOMATON, LEXER (C14_lexer_rule_language): the "
            "shipped lexer ATN decodes (format v3), and for each of the 65 lexer rules the sub-automaton between the "
            "rule's start and stop state accepts exactly the words the grammar's regular expression matches - proved by "
            "a bisimulation certificate per rule whose checker is proved sound in Lean (Lemmas/Bisim.lean: derivatives "
            "vs configuration sets, one representative code point per character class) and which the kernel re-checks "
            "on every regeneration. GENERATED CODE AGAINST AUTOMATON AND GRAMMAR (re-proved on every run): the 44 control forms "
            "of the rule code (if / while / plus-loop / alternative switch, with the ATN state entered last) are the same in "
            "the Python and the C++ parser and each sits on a decision state of the matching kind, every decision having its "
            "form (C14_parser_control_matches_atn); both targets refresh the look-ahead token at the same places "
            "(C14_parser_lookahead_reads_identical); token-type and rule-index constants of the Python classes and the C++ "
            "headers are the grammar's numbering (C14_code_constants_match_grammar). The decoder of the serialised ATN is "
            "compared with ANTLR's own ATNDeserializer on every run; when a lexer certificate fails to close, the generator "
            "searches for a distinguishing word, which the harness lexes with the shipped lexer. "
            "Static theorems (Props/C14.lean): the model lexer takes the longest match over all "
            "rules, earliest rule on ties; what a rule contributes is the longest prefix in its language; 61 token "
            "kinds. PARSER (C14_parser_rule_language): for each of the 35 parser rules the ATN's rule-body automaton, read over "
            "the alphabet tokens + rule references, accepts exactly the grammar's right-hand side (for the left-recursive "
            "rule expression: the form ANTLR rewrites it to, primary (operator operand)*), same certificate method. "
            "Partial: precedence predicates are ignored (they select parse trees, not sentences), the step from rule "
            "bodies to the language of the whole grammar is the textbook substitution argument and is not formalised, "
            "and the ~6000 lines of generated recursive-descent code around the ATNs are compared with the grammar "
            "differentially only (shipped parser vs an Earley recogniser on all token sequences up to 5/7 tokens, random "
            "sentences, mutations; shipped lexer vs a reference lexer).",
            "Lean 4 proof over regenerated data (translator + certificate checker proved sound) + lexer/parser differential",
            "DESIGN.md 7 (C14)",
            "Trusted readers: harness/translate.py, harness/g4.py (validated each run). The ATN decoder and the "
            "configuration semantics (Blackbird/ATN.lean, ATNSem.lean) are my specification of ANTLR's format and of "
            "LexerATNSimulator; the certificate generator Tools/MkATNCert.lean is NOT trusted (its output is re-checked)."),
    "C15": (True,
            "Theorems (Props/C15.lean): a registered p-array is delivered as its name positionally and by keyword, "
            "other variables by value; declaring an array named p<digits> in a tdm program registers the name and "
            "stores the data, nothing is registered otherwise; registered names are never among the reported "
            "parameters, so a tdm program without {} is not a template; references are serialised bare (only in tdm "
            "programs) and the variable block writes every array with its type and rows. Oracle: delivery by name, "
            "data, dtype, parameters, is_template and loads(dumps(p)) on random tdm scripts.",
            "Lean 4 proof + correspondence", "DESIGN.md 7 (C15)",
            "Round trip of the variable block at text level is covered by C01's parser/printer theorems and the oracle."),
    "C16": (True,
            "Theorems over programs of any length (Props/C16.lean): nodes are exactly the operations that depend on a "
            "wire, each once, carrying their operation; every edge goes forward, hence no cycle; reachability in the "
            "graph equals the chain relation 'successively share a mode or measured register'; any topological order "
            "keeps every wire's order. Correspondence: model graph vs to_DiGraph, plus an implementation-only oracle "
            "(networkx reachability vs independently computed chains).",
            "Lean 4 proof (induction over operation lists) + model/implementation correspondence", "DESIGN.md 7 (C16)",
            "Hypothesis 'every operation acts on at least one mode' is explicit (open finding C16-empty-mode-list)."),
    "C02": (True,
            "Refinement theorem (Props/C02.lean): for every item list, include environment and listener state, the "
            "listener model (state threading, accumulators, loop replay, variable binding and deletion) computes exactly "
            "the denotation of Blackbird/Spec.lean (statements denote their modes and operation, loops the "
            "concatenation of the body per value, items the concatenation in textual order) or fails with the same "
            "error; read off the denotation: one operation per statement with the written name, modes as integers in "
            "order, arguments = values of the written expressions; denotation of a ++ b is that of a followed by that "
            "of b; script level: name, version, target/type names and options as written, operations/modes/variables = "
            "denotation of the items. Oracle: loaded program vs an independent Python evaluation of the generator's AST.",
            "Lean 4 proof (refinement to a denotational spec, induction over items/values/statements) + correspondence",
            "DESIGN.md 7 (C02)", "The parse tree walk order (ANTLR ParseTreeWalker) is represented by the item order."),
    "C03": (True,
            "Theorems (Props/C03.lean, Props/C03Parse.lean): the evaluator's shapes (a-b as sum [a, -b]; a/b as "
            "prod [a, b**-1] with integer divisors cast to real) compute a-b, a/b, a*b, a^n in every field whose scalar "
            "primitives are the field operations; + - * ** keep integers integers, / is true division also on integers; "
            "complex products/sums follow the textbook formulas; literal conversion of INT and splitting of COMPLEX "
            "tokens. Tree shape: the model parser returns, for every well-bracketed expression tree of any depth, exactly "
            "that tree when given its minimal-bracket token sequence (unary sign > right-assoc ** > * / > + -, "
            "left-assoc). Finite tables (15 functions) and float rounding are compared differentially (1e-12) against "
            "an independent Python evaluation of random expressions to depth 8/14.",
            "Lean 4 proof (field semantics with Mathlib; parser/printer round trip) + differential oracle", "DESIGN.md 7 (C03)",
            "IEEE rounding, libm and int64 wrap-around are outside the theorems (the property grants 1e-12 and excludes "
            "overflow); that ANTLR's precedence climbing builds the model parser's tree is checked differentially."),
    "C04": (True,
            "Theorems (Props/C04.lean): instantiating a symbolic value at a numeric assignment computes the value of the "
            "written expression tree with every parameter replaced by its value (all expression forms), a missing value "
            "is refused with ValueError also when nested; a program without parameters is refused; is_template iff the "
            "parameter set is non-empty; an instantiated program has no parameters and keeps name/version/target/type/"
            "modes; 2-D array values expand to name_i_j per element, other iterables are refused; re-insertion of array "
            "parameters (C05). Script level (Props/C04Script.lean): for a template made of statements, for-loops and "
            "parameter-free declarations, with every {p} replaced by the bracketed literal of its value "
            "(substPScript), calling the loaded template with the values returns exactly the program that loading the "
            "substituted script returns (C04_script_instantiation, with the one-expression and one-statement versions); "
            "hypotheses named: LawfulFmt (float repr reads back), RecipLaw (x*y**-1 in Python = NumPy reciprocal), both "
            "loads succeed; a concrete template run through both routes by kernel evaluation. The model's substituted "
            "script is printed and loaded by the implementation on every run (SUBSTP). Partial: agreement of "
            "Python-number and NumPy arithmetic on the substituted text is covered by the oracle loads(t)(**v) vs "
            "loads(substituted text), 1e-9; declarations holding parameters are outside the script-level theorem "
            "(declared type not re-applied: open finding).",
            "Lean 4 proof (induction over symbolic trees; simulation between the two walks) + correspondence", "DESIGN.md 7 (C04)",
            "SymPy (lambdify, free_symbols) is a contract boundary; symbolic values are the written trees."),
    "C05": (True,
            "Theorems (Props/C05.lean): a successfully assembled array has as many rows as written, element (r, c) of "
            "the flat data is the c-th entry of the r-th written row (index r*ncols + c), a declared shape equals the "
            "actual shape; rows of different length are rejected, a contradicting shape is rejected; A[k] is the k-th "
            "element in row-major order and out-of-range indices are refused; a stored scalar has its declared kind and "
            "complex values are never cast to int/float; re-insertion of any number of template parameters at any "
            "positions reproduces the written elements (and the pre-repair positions do not); a redeclaration replaces: after a "
            "name has been declared twice the tables are those of the second declaration alone, so A[k] afterwards is an "
            "element of the new array. Oracle: every element, "
            "dtype, shape and index of random declarations against an independent Python evaluation.",
            "Lean 4 proof (list arithmetic, induction over rows) + correspondence", "DESIGN.md 7 (C05)",
            "NumPy's cast of element values (np.array(..., dtype)) is a contract boundary."),
    "C06": (True,
            "Theorems (Props/C06.lean): for every loop-value list, every body not using the loop variable as an array "
            "name and every state in which the variable is fresh, replaying the body per value with the variable bound "
            "equals executing the unrolled statements (variable replaced by a literal of the converted value): same "
            "error or equal final states once the variable is deleted (substitution lemma over all expression forms, "
            "lifted through arguments, keyword/list arguments, modes, include expansion, statements, bodies, value "
            "lists); ranges a:b:c denote a, a+c, ... below b, empty when a >= b, default step 1; the variable is not "
            "visible afterwards; a wrongly typed listed value makes the loop fail at that value, and a range - a list of integers - "
            "is refused by a str loop at its first value and by a bool loop at any value other than 0 and 1. Oracle: loads(loop "
            "script) vs loads(unrolled script).",
            "Lean 4 proof (substitution lemma, induction over values and statements) + correspondence", "DESIGN.md 7 (C06)",
            "The deferral of body statements during the tree walk (_in_for) is represented by its effect "
            "(the body is executed by exitForloop only)."),
    "C07": (True,
            "Theorems (Props/C07.lean): a call of an included program without parameters contributes exactly copies of "
            "its operations with its modes, in increasing order and each once, renamed to the call's modes; a template "
            "called with exactly its parameters contributes the operations of the instantiated template, renamed; a "
            "call's contribution depends only on the included program and the call's own modes (k calls = k copies); "
            "repeated include lines are skipped; nested include dictionaries are merged; the file read for an absolute "
            "joined path does not depend on the process directory; negation for the pre-repair call site (in-place "
            "renaming, set-order pairing). Oracle: load(main) from several process directories vs loads(hand-inlined text).",
            "Lean 4 proof + correspondence on generated file trees", "DESIGN.md 7 (C07)",
            "os.path.join/dirname are mirrored on strings; general string lemmas about them are not proved (the path "
            "theorem assumes the joined path is absolute); the file system is a finite map."),
    "C08": (True,
            "Theorems (Props/C08.lean) for every symbolic argument and EVERY iteration order of the symbol set: the "
            "transform's function applied to the measurement values of the listed symbols in the listed order equals the "
            "value of the written expression; the listed symbols are exactly the registers written, each once; register "
            "numbers are those of the symbols in the same order; an argument is wrapped iff it mentions a register, plain "
            "values stay plain. Expression level (Props/C08Script.lean, C08_transform_computes_written_formula): for every "
            "written argument expression over registers (all fourteen expression forms, variables, array elements, "
            "functions of numbers), the transform built for it, applied to the values of its listed registers in its "
            "listed order, returns what the evaluator computes for the expression with the values written in place of "
            "the registers (substR); hypotheses LawfulFmt and RecipLaw, witness by kernel evaluation with the registers "
            "listed in reverse. Correspondence and oracle: func(values in regrefs order) vs the written formula on the "
            "real RegRefTransform objects; SUBSTR: the model's script with values written in is loaded by the "
            "implementation and compared argument by argument with the transforms of the original program.",
            "Lean 4 proof (induction over expressions, permutation lemmas) + correspondence", "DESIGN.md 7 (C08)",
            "SymPy's simplification and lambdify are a contract boundary (registers that cancel identically are outside "
            "the property and not generated)."),
    "C10": (True,
            "Theorems (Props/C10.lean): for every offending symbol, message and chain of parent contexts satisfying the "
            "context invariant (declaration contexts have their type and name children; the 'missing modes' message "
            "arises only when the statement has its operation child), the error listener raises BlackbirdSyntaxError "
            "carrying the reported line and the 1-based column; without the invariant the model exhibits the "
            "AttributeError / UnboundLocalError Python would raise; every printed script passes the model's syntax "
            "stage under every layout. Character level (Props/C10Lex.lean): the model scanner is total on arbitrary text - "
            "some rule matches at every non-empty rest (unknown characters become ANY tokens), every match takes between "
            "one and all remaining characters, the fuel `lex` passes is never exhausted, and the final EOF token stands "
            "behind the last character. Partial: ANTLR's ALL(*) prediction and error strategy are not modelled; 'passes "
            "iff sentence of the grammar' and 'reported token not earlier than the first bad token' are decided per "
            "input by an Earley recogniser over src/blackbird.g4 on the shipped lexer's tokens (single-token edits, "
            "truncations, soups); the listener model is compared with every real listener call and the invariant is "
            "checked on each.",
            "Lean 4 proof (decision tree, all contexts) + Earley-based oracle + listener correspondence", "DESIGN.md 7 (C10)",
            "ANTLR runtime is a contract boundary."),
    "C11": (True,
            "Theorems (Props/C11.lean): an expression that mentions an undefined name at any depth never evaluates "
            "(and the use itself is reported with identifier and token position); lifted to every slot: mode, "
            "positional argument, keyword argument, list element, array index, scalar initialiser, loop list, metadata "
            "option; reserved names (qN, name, version, target, type) are refused for scalars and arrays with identifier "
            "and position; float/complex/string modes are refused, in every statement including calls of included programs "
            "(any include dictionary); an array written as one template parameter without a declared shape is refused "
            "(Props/C11Array.lean); complex values are refused for int/float scalars and "
            "array elements; wrongly typed loop values (C06); include calls with wrong arity or keywords are refused; a "
            "failing item anywhere makes the whole walk fail. Oracle: fault injection at random positions of random scripts.",
            "Lean 4 proof (induction over expressions; error propagation through folds) + fault injection", "DESIGN.md 7 (C11)",
            "Error message texts are outside the model except identifier and position."),
    "C12": (True,
            "Theorems (Props/C12.lean): the outcome of a load and the tables it leaves do not depend on the tables it "
            "starts from; every load of every finite history has its pristine-process outcome (induction on the "
            "history); a successful load leaves empty tables; plus the negation for the pre-repair mechanism from a "
            "concrete witness. Oracle: histories in one interpreter vs forked pristine children; id()-scan for shared "
            "mutable objects (sharing is not carried by the functional model).",
            "Lean 4 proof (state threaded explicitly; induction over histories) + correspondence", "DESIGN.md 7 (C12)",
            "'Share no mutable state' is decided by the harness only."),
    "C13": (True,
            "Theorems (Props/C13.lean): each read-only operation, modelled as returning the receiver as the operation "
            "leaves it, returns the receiver unchanged; lifted to every finite sequence by induction; serialisation "
            "before = after; negation for the pre-repair to_DiGraph from a concrete witness. Partial: independence of "
            "instances is aliasing between Python objects, decided by the harness (mutate-and-compare sequences) only.",
            "Lean 4 proof (induction over operation sequences) + mutate-and-compare harness", "DESIGN.md 7 (C13)",
            "Second sentence of the property (instance independence) is not carried by the functional model."),
    "C17": (True,
            "Theorems (Props/C17.lean) in exact arithmetic: solving alpha*p+beta = y (alpha != 0) recovers the value "
            "instantiated; a bare parameter is bound to the program's argument; repeated parameters must match equal "
            "values, equal values are accepted; two parameters in one argument are refused; non-template / template "
            "program / version / target / operation count / a gate-or-mode-list label missing from the program are "
            "rejected with TemplateError; UNIQUENESS of the isomorphism (C17_isomorphism_unique, "
            "C17_matcher_choice_irrelevant): between the dependency graphs of programs whose operations each act on a "
            "mode, every label- and edge-preserving bijection maps the k-th operation with a (gate, modes) label to the "
            "k-th operation with that label, i.e. equals the canonical isomorphism the model's matchTemplate uses, so "
            "networkx's search order cannot matter. Oracle: match(t, reorder(t(**v))) recovers v; six single "
            "structural edits rejected.",
            "Lean 4 proof (field arithmetic with Mathlib) + correspondence", "DESIGN.md 7 (C17)",
            "SymPy's solve is a contract boundary (affine arguments are solved in the model); that networkx returns a genuine isomorphism when one exists is observed, not proved; exact comparison of recovered floats is an open finding."),
    "C18": (True,
            "Theorem (Props/C18.lean, Lemmas/ParseScript.lean): for every script (metadata with options and includes, "
            "scalar and array declarations, statements with every argument form and bracket style, loops) and EVERY "
            "layout of line ends - before the metadata, between metadata lines, before includes, between items, blank "
            "lines inside loop bodies, at the end (final newline or not) - the model parser returns exactly the script, "
            "hence the same loaded program. Character level (Props/C18Lex.lean, Lemmas/Lex{Comment,Space,Newline,Tab}.lean), "
            "theorems about the model lexer on ARBITRARY text: a `#` comment up to the line end emits no token and its "
            "text is irrelevant; a run of spaces that is not exactly four long emits no token, so the amount of spacing "
            "is irrelevant; LF, CR LF and a lone CR are each exactly one NEWLINE and give the same token kinds behind "
            "them; a tab and exactly four spaces are each one TAB; a string literal is ONE STR token whatever it contains (a `#` "
            "or blanks inside it are text). Still differential: that the shipped lexer behaves "
            "as the model lexer (whose rules are proved to be the grammar file's by C14) - LEX correspondence on every "
            "layout variant; runs of blanks that mix tabs and spaces are covered by that correspondence only.",
            "Lean 4 proof (parser inverts printer under all layouts; lexer lemmas on arbitrary text) + lexer correspondence", "DESIGN.md 7 (C18)",
            "Scripts ending in an array row without final newline: open finding C18-array-row-at-eof."),
    "C19": (True,
            "Theorems (Props/C19.lean) quantified over all iteration orders of the sets involved: the outcome of a load "
            "is independent of the order (include call-site mode maps go through a sort; proved via permutation "
            "invariance of sorting and lifted through statements, loops, items, includes of any depth); register "
            "transforms list the same registers and stay paired with their function under every order; the serialiser "
            "model takes no order; negation for the pre-repair brace insertion. Oracle: every script loaded and "
            "serialised under 8/32 values of PYTHONHASHSEED in fresh interpreters.",
            "Lean 4 proof (permutation invariance) + hash-seed sweep", "DESIGN.md 7 (C19)",
            "CPython's hashing itself is modelled as an arbitrary permutation of each set."),
}


def main():
    props = [json.loads(l) for l in open(os.path.join(VERIF, "properties.jsonl"), encoding="utf-8")]
    fixes = subprocess.run(["git", "-C", os.environ.get("VERIF_REPO", "/repo"), "log", "--reverse", "--format=%h %s",
                            "--grep=^fix:"], capture_output=True, text=True).stdout.strip().split("\n")
    checks = []
    na = []
    for p in props:
        pid = p["id"]
        ent = TABLE.get(pid)
        if ent and ent[0]:
            checks.append({
                "property_id": pid,
                "quick_cmd": "./check %s quick" % pid,
                "thorough_cmd": "./check %s thorough" % pid,
                "evidence_file": "evidence/%s.json" % pid,
                "replay_cmd_template": "./check %s --replay {path}" % pid,
                "engine": "lean4-model+correspondence",
                "level_claimed": {"category": "proof", "text": ent[1], "design_ref": ent[3]},
                "level_note": COMMON_NOTE + ent[4],
                "technique": ent[2],
            })
        else:
            na.append({"property_id": pid,
                       "reason": (ent[4] if ent else "check not registered yet: its Lean theorems are still being written "
                                  "(the technique applies; see DESIGN.md section 7)")})
    m = {
        "version": 1,
        "setup_cmd": "./check --setup",
        "hooks": {
            "guard": "BLACKBIRD_VERIF",
            "enable": "no source hooks are needed: the harness imports blackbird from /repo/blackbird_python, wraps the "
                      "error listener and reads blackbird.auxiliary._VAR/_PARAMS from outside",
            "baseline_off_cmd": "cd /repo && /venv/bin/python -m pytest -ra -q -p no:cacheprovider --timeout=900 "
                                "--continue-on-collection-errors",
            "source_commits": [f for f in fixes if f],
            "add_only": True,
        },
        "engines": [{"name": "lean4-model+correspondence", "path": "lean/ harness/",
                     "serves_properties": [c["property_id"] for c in checks],
                     "kind_free_text": "Lean 4 model and theorems (lean/Blackbird), compiled model driver, Python "
                                       "correspondence harness and implementation-only oracles (harness/)"}],
        "checks": checks,
        "not_applicable": na,
        "notes": "All checks share ./check (harness/run.py). KNOWN_FINDINGS.jsonl lists repaired (fixed) and open findings; "
                 "the fix: commits in /repo are listed under hooks.source_commits for information.",
    }
    with open(os.path.join(VERIF, "MANIFEST.json"), "w", encoding="utf-8") as f:
        json.dump(m, f, indent=1, ensure_ascii=False)
    print("claimed:", [c["property_id"] for c in checks])


if __name__ == "__main__":
    main()
