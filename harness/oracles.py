"""Property oracles that run on the implementation alone (DESIGN.md 5, step 3): each returns
None when the property holds on the given input and a message when it fails. They are also the
replay language of KNOWN_FINDINGS.jsonl and of the replay files (`generic_replay`)."""
import copy
import json
import os
import shutil
import subprocess
import sys
import tempfile

import numpy as np
import sympy as sym

import canon
import core
from props import common


def _loads(text):
    ic, obj = core.impl_canon_loads(text)
    return ic, obj


def o_loads_ok(text):
    ic, obj = _loads(text)
    if ic[0] != "prog":
        return "valid script is refused with %s: %r" % (ic[1:3], obj)
    return None


def o_loads_equal(a, b, check_vars=False, check_params=True):
    """loads(a) and loads(b) are the same program (numbers to 1e-9, symbols semantically)"""
    ia, oa = _loads(a)
    ib, ob = _loads(b)
    if ia[0] != "prog":
        return "first script is refused with %s: %r" % (ia[1:3], oa)
    if ib[0] != "prog":
        return "second script is refused with %s: %r" % (ib[1:3], ob)
    d = common.cmp_impl(ia[1], ib[1], check_vars=check_vars, check_params=check_params)
    return "; ".join(d[:4]) if d else None


def o_raises(text, want="any"):
    """loads(text) must raise; want = 'any' | 'syntax' (BlackbirdSyntaxError)"""
    ic, obj = _loads(text)
    if ic[0] == "prog":
        return "ill-formed script is accepted (operations: %s, variables: %s)" % (
            [o["op"] for o in ic[1]["ops"]][:6], ic[1]["vars"][:4])
    if want == "syntax" and ic[1] != "syntax":
        return "raises %r instead of BlackbirdSyntaxError" % (obj,)
    return None


def o_roundtrip(text, generations=3, prog=None):
    """C01: dumps then loads preserves the program, for every generation"""
    import blackbird
    if prog is None:
        ic, obj = _loads(text)
        if ic[0] != "prog":
            return None           # not a valid script: outside the property
    else:
        obj = prog
        ic = canon.canon_program(obj)
    cur_obj, cur = obj, ic[1]
    for g in range(1, generations + 1):
        with core.quiet():
            try:
                t = blackbird.dumps(cur_obj)
            except Exception as e:  # noqa: BLE001
                return "generation %d: dumps raises %r" % (g, e)
        ic2, obj2 = _loads(t)
        if ic2[0] != "prog":
            return "generation %d: serialised text does not load (%s %r); text: %r" % (g, ic2[1:3], obj2, t[:400])
        d = common.cmp_impl(cur, ic2[1], exact=True)
        if d:
            return "generation %d: %s; text: %r" % (g, "; ".join(d[:3]), t[:400])
        cur_obj, cur = obj2, ic2[1]
    return None


_FRESH_CACHE = {}
_SERVER = None


def _server():
    global _SERVER
    if _SERVER is None or _SERVER.poll() is not None:
        env = dict(os.environ)
        env["VERIF_REPO"] = core.REPO
        _SERVER = subprocess.Popen([sys.executable, os.path.join(core.HERE, "fresh_server.py")],
                                   stdin=subprocess.PIPE, stdout=subprocess.PIPE, env=env, cwd=core.VERIF)
    return _SERVER


def fresh_request(req):
    import struct
    srv = _server()
    data = json.dumps(req).encode("utf-8")
    srv.stdin.write(struct.pack(">I", len(data)) + data)
    srv.stdin.flush()
    hdr = srv.stdout.read(4)
    if len(hdr) < 4:
        raise RuntimeError("pristine-interpreter server died")
    n = struct.unpack(">I", hdr)[0]
    return json.loads(srv.stdout.read(n).decode("utf-8"))


def fresh_outcome(text):
    """canonical outcome of loads(text) in a process where no load has happened (cached per text)"""
    if text not in _FRESH_CACHE:
        _FRESH_CACHE[text] = fresh_request({"text": text})
    return _FRESH_CACHE[text]


def _noaddr(s):
    """object addresses (the lambdified function of a register transform) are not part of an outcome"""
    import re
    return re.sub(r" at 0x[0-9a-fA-F]+", "", s)


def outcome_here(text):
    """the same summary as fresh_outcome, in this process, WITHOUT clearing the tables"""
    import blackbird
    r = core.impl_loads(text, reset=False)
    if r[0] == "ok":
        with core.quiet():
            try:
                d = blackbird.dumps(r[1])
            except Exception as e:  # noqa: BLE001
                d = "dumps-raises " + type(e).__name__
        c = canon.canon_program(r[1])[1]
        return ["prog", _noaddr(repr(c["ops"])), sorted(r[1].parameters), d, repr(c["vars"]),
                repr((c["target"], c["type"]))], r[1]
    return list(canon.classify_exception(r[1])), None


def o_history(texts):
    """C12: every load of the history has the outcome it has in a pristine interpreter"""
    core.reset_tables()
    progs = []
    for i, t in enumerate(texts):
        here, obj = outcome_here(t)
        fresh = fresh_outcome(t)
        if here != fresh:
            return "load %d of the history gives %s here but %s in a pristine process" % (
                i + 1, common.short(repr(here), 300), common.short(repr(fresh), 300))
        if obj is not None:
            progs.append(obj)
    # programs returned by different loads share no mutable state
    seen = {}
    for k, p in enumerate(progs):
        for part in (p._operations, p._var, p._target, p._type, p._parameters, p._modes, p._target["options"],
                     p._type["options"]):
            if id(part) in seen and seen[id(part)] != k:
                return "programs of loads %d and %d share a mutable object" % (seen[id(part)] + 1, k + 1)
            seen[id(part)] = k
        for o in p._operations:
            if id(o) in seen and seen[id(o)] != k:
                return "programs of loads %d and %d share an operation dictionary" % (seen[id(o)] + 1, k + 1)
            seen[id(o)] = k
    return None


def o_template_call(text, kwargs, subst_text, shared=None, raw=False):
    """C04: loads(text)(**kwargs) equals loads(subst_text) in operations and variables; with `shared`
    the template object loaded earlier is instantiated again instead of a freshly loaded one"""
    if shared is not None:
        obj = shared
    else:
        ic, obj = _loads(text)
        if ic[0] != "prog":
            return "template is refused with %s: %r" % (ic[1:3], obj)
    kw = dict(kwargs) if raw else {k: (np.array(v) if isinstance(v, list) else v) for k, v in kwargs.items()}
    with core.quiet():
        try:
            inst = obj(**kw)
        except Exception as e:  # noqa: BLE001
            return "instantiation raises %r" % (e,)
    a = canon.canon_program(inst)[1]
    ib, ob = _loads(subst_text)
    if ib[0] != "prog":
        return "substituted script is refused with %s: %r" % (ib[1:3], ob)
    d = common.cmp_impl(a, ib[1], check_vars=True, loose_kinds=True)
    if inst.parameters:
        d.append("instantiated program still has parameters %s" % sorted(inst.parameters))
    if inst.is_template():
        d.append("instantiated program is still a template")
    return "; ".join(d[:4]) if d else None


def write_tree(files):
    d = tempfile.mkdtemp(prefix="bbinc", dir=core.WORK)
    for rel, content in files.items():
        path = os.path.join(d, rel)
        os.makedirs(os.path.dirname(path), exist_ok=True)
        with open(path, "w", encoding="utf-8") as f:
            f.write(content)
    return d


def impl_load_file(root, rel, proc_cwd_rel=None, absolute=True):
    """blackbird.load of root/rel, with the process directory set to root/proc_cwd_rel"""
    import blackbird
    core.reset_tables()
    old = os.getcwd()
    try:
        os.chdir(os.path.join(root, proc_cwd_rel) if proc_cwd_rel else root)
        path = os.path.join(root, rel)
        if not absolute:
            path = os.path.relpath(path, os.getcwd())
        with core.quiet():
            try:
                return ("ok", blackbird.load(path))
            except Exception as e:  # noqa: BLE001
                return ("exc", e)
    finally:
        os.chdir(old)


def o_include(files, main, inlined, proc_cwds=(None,), absolute=True):
    """C07: load(main) equals loads(inlined) whatever the process directory is"""
    root = write_tree(files)
    try:
        ib, ob = _loads(inlined)
        if ib[0] != "prog":
            return "inlined script is refused with %s: %r" % (ib[1:3], ob)
        for pc in proc_cwds:
            r = impl_load_file(root, main, pc, absolute)
            if r[0] != "ok":
                return "load (process directory %r) raises %r" % (pc, r[1])
            a = canon.canon_program(r[1])[1]
            d = common.cmp_impl(a, ib[1], loose_kinds=True)
            if d:
                return "process directory %r: %s" % (pc, "; ".join(d[:4]))
        return None
    finally:
        shutil.rmtree(root, ignore_errors=True)


def generic_replay(data):
    k = data.get("kind")
    if k == "loads_ok":
        return o_loads_ok(data["text"])
    if k == "loads_equal":
        return o_loads_equal(data["a"], data["b"], data.get("check_vars", False), data.get("check_params", True))
    if k == "raises":
        return o_raises(data["text"], data.get("want", "any"))
    if k == "roundtrip":
        return o_roundtrip(data["text"], data.get("generations", 3))
    if k == "history":
        return o_history(data["texts"])
    if k == "template_call":
        return o_template_call(data["text"], data["kwargs"], data["subst_text"], raw=data.get("raw", False))
    if k == "model_oracle":
        return common.model_oracle(data["text"])
    if k == "include":
        return o_include(data["files"], data["main"], data["inlined"], tuple(data.get("proc_cwds", [None])),
                         data.get("absolute", True))
    return "unknown replay kind %r" % (k,)
