"""C01 — serialise-then-parse round trip preserves every parsed program."""
import random

import canon
import core
import enc
import gen
import oracles
import sx
from props import common


def dumps_corr(ctx, progs):
    """model serialiser vs real dumps, on programs encoded from the implementation's objects"""
    import blackbird
    lines = []
    idx = []
    for k, p in enumerate(progs):
        try:
            lines.append("DUMPS\t" + sx.hexs(enc.enc_program(p)))
            idx.append(k)
        except enc.Unsupported:
            ctx.ood += 1
    outs = core.model_batch(lines)
    for k, o in zip(idx, outs):
        p = progs[k]
        with core.quiet():
            try:
                text = blackbird.dumps(p)
            except Exception as e:  # noqa: BLE001
                text = None
                exc = e
        if o.startswith("(ood"):
            ctx.ood += 1
            continue
        if text is None:
            if not o.startswith("(err"):
                ctx.disagree("DUMPS: implementation raises %r, model serialises" % (exc,),
                             {"kind": "correspondence", "cmd": "DUMPS", "program": lines[idx.index(k)][:3000]})
            continue
        pieces = enc.render_lines(o)
        if pieces is None:
            ctx.disagree("DUMPS: model gives %s, implementation serialises" % o[:80],
                         {"kind": "correspondence", "cmd": "DUMPS", "impl_text": text})
            continue
        ok, holes = enc.match_text(pieces, text)
        if not ok:
            mt = "".join(x[1] if x[0] == "txt" else "<%s>" % x[0] for x in pieces)
            ctx.disagree("DUMPS: texts differ", {"kind": "correspondence", "cmd": "DUMPS", "impl_text": text,
                                                 "model_text": mt})
            continue
        bad = [b for b in (enc.check_hole(*h) for h in holes) if b]
        if bad:
            ctx.disagree("DUMPS: symbolic fragment differs: " + bad[0],
                         {"kind": "correspondence", "cmd": "DUMPS", "impl_text": text})
        else:
            ctx.traces += 1


def _collapse(toks):
    """drop line-end multiplicity: runs of NEWLINE become one, none at either end"""
    out = []
    for t in toks:
        if t[0] == "NEWLINE":
            if out and out[-1][0] != "NEWLINE":
                out.append(("NEWLINE", "\n"))
        else:
            out.append(t)
    while out and out[-1][0] == "NEWLINE":
        out.pop()
    return out


def _lines(toks):
    out = [[]]
    for t in toks:
        if t[0] == "NEWLINE":
            out.append([])
        else:
            out[-1].append(t)
    return out


_CPLX = None


def _num_equal(kind, model_text, real_text):
    """model number tokens carry bit patterns (f<bits>); compare with what CPython printed"""
    import re
    import struct

    def bits(s):
        return struct.unpack("<d", struct.pack("<Q", int(s)))[0]
    if kind == "FLOAT":
        if not model_text.startswith("f"):
            return model_text == real_text          # the version number
        return bits(model_text[1:]) == float(real_text)
    m = re.fullmatch(r"(-?)f(\d+)([+-])f(\d+)j", model_text)
    if not m:
        return False
    re_ = bits(m.group(2)) * (-1 if m.group(1) else 1)
    im_ = bits(m.group(4)) * (-1 if m.group(3) == "-" else 1)
    try:
        c = complex(real_text.replace("J", "j"))
    except ValueError:
        return False
    return c.real == re_ and c.imag == im_


def unparse_corr(ctx, progs):
    """the script tree the model says the serialiser writes (scriptOf, the object of the C01/C09
    theorems) vs the shipped lexer's tokens of the real dumps text; lines with symbolic arguments
    are compared on operation name and modes only (SymPy chooses the brackets)"""
    import blackbird
    lines = []
    idx = []
    for k, p in enumerate(progs):
        try:
            lines.append("UNPARSE\t" + sx.hexs(enc.enc_program(p)))
            idx.append(k)
        except enc.Unsupported:
            ctx.ood += 1
    outs = core.model_batch(lines)
    nsym = 0
    for k, o in zip(idx, outs):
        p = progs[k]
        if o.startswith("(ood"):
            ctx.ood += 1
            continue
        with core.quiet():
            try:
                text = blackbird.dumps(p)
            except Exception:  # noqa: BLE001
                continue
        if o.startswith("(err"):
            ctx.disagree("UNPARSE: model refuses (%s), implementation serialises" % o[:60],
                         {"kind": "correspondence", "cmd": "UNPARSE", "impl_text": text})
            continue
        model = []
        for x in o.split(" "):
            parts = x.split(":")
            if parts[0] == "EOF":
                continue
            model.append((parts[0], sx.unhex(parts[1])))
        real = [(kk, tt) for (kk, tt, _l, _c) in core.real_tokens(text)[0]]
        ml, rl = _lines(_collapse(model)), _lines(_collapse(real))
        bad = None
        if len(ml) != len(rl):
            bad = "%d lines vs %d" % (len(ml), len(rl))
        else:
            for a, b in zip(ml, rl):
                symbolic = any(t[0] in ("LBRACE", "REGREF") for t in a + b)
                if symbolic:
                    nsym += 1
                    cut = lambda l: [l[0]] + l[max(i for i, t in enumerate(l) if t[0] == "APPLY"):] if any(t[0] == "APPLY" for t in l) else l[:1]
                    a, b = cut(a), cut(b)
                if len(a) != len(b):
                    bad = "line %r vs %r" % (" ".join(t[1] for t in a), " ".join(t[1] for t in b))
                    break
                for (ka, ta), (kb, tb) in zip(a, b):
                    if ka != kb:
                        bad = "token kind %s %r vs %s %r" % (ka, ta, kb, tb)
                        break
                    if ka in ("FLOAT", "COMPLEX"):
                        if not _num_equal(ka, ta, tb):
                            bad = "number %r vs %r" % (ta, tb)
                            break
                    elif ta != tb:
                        bad = "token text %r vs %r" % (ta, tb)
                        break
                if bad:
                    break
        if bad:
            ctx.disagree("UNPARSE: " + bad, {"kind": "correspondence", "cmd": "UNPARSE", "impl_text": text})
        else:
            ctx.traces += 1
    ctx.extra["unparse_symbolic_lines_compared_on_name_and_modes"] = ctx.extra.get(
        "unparse_symbolic_lines_compared_on_name_and_modes", 0) + nsym


def family_array(rng):
    """an array whose elements are the complete family base_i_j of its own shape, written in ANOTHER arrangement
    (a hand-written transpose, two entries exchanged): the names look like the expansion of a whole-array
    parameter, the arrangement is not"""
    base = rng.choice(["U", "V", "u", "M2"])
    r, c = rng.choice([(2, 2), (2, 3), (3, 2), (1, 3), (3, 3)])
    names = [["%s_%d_%d" % (base, i, j) for j in range(c)] for i in range(r)]
    flat = [n for row in names for n in row]
    how = rng.randrange(3)
    if how == 0 and r == c:
        flat = [names[j][i] for i in range(r) for j in range(c)]            # transpose
    elif how == 1:
        i, j = rng.sample(range(1, len(flat)), 2) if len(flat) > 2 else (1, 1)
        flat[i], flat[j] = flat[j], flat[i]
    else:
        rest = flat[1:]
        rng.shuffle(rest)
        flat = flat[:1] + rest
    rows = [flat[k * c:(k + 1) * c] for k in range(r)]
    shape = "[%d, %d]" % (r, c) if rng.random() < 0.5 else ""
    return ("name fam\nversion 1.0\n\nfloat array A%s =\n" % shape +
            "".join("    " + ", ".join("{%s}" % n for n in row) + "\n" for row in rows) +
            "%s(A) | [0, 1]\n" % rng.choice(["Interferometer", "G"]))


def gen_case(rng, i):
    r = i % 5
    if i % 23 == 7:
        return family_array(rng), "array-of-a-complete-parameter-family-rearranged"
    if r == 4:
        # programs of type tdm: variable block, p-arrays by name, strings next to variables of the same name
        from props import c15
        text, info = c15.gen_tdm(rng, templates=False)
        return text, "tdm"
    if r == 0:
        script, _ = gen.gen_script(rng, {"depth": 3, "array_args": True})
        tag = "plain"
    elif r == 1:
        script, info, _ = gen.gen_template(rng, {"depth": 2, "array_args": True})
        # exclusion (open finding C01-unused-array-parameter): parameters that reach no operation
        tag = "template"
    elif r == 2:
        script, _, _ = gen.gen_rrt_script(rng, {"depth": 2})
        tag = "registers"
    else:
        script, _ = gen.gen_script(rng, {"depth": 2, "array_args": True, "max_items": 6})
        tag = "plain-small"
    return script, tag


def params_reach_ops(obj):
    """the class excluded by the open finding: a parameter that occurs in no operation argument
    cannot survive serialisation, which writes operations only"""
    import sympy as sym
    import numpy as np
    reach = set()
    for o in obj.operations:
        for v in list(o.get("args", [])) + list(o.get("kwargs", {}).values()):
            if isinstance(v, sym.Expr):
                reach |= {str(s) for s in v.free_symbols}
            if isinstance(v, np.ndarray) and v.dtype == object:
                for x in v.flatten():
                    if isinstance(x, sym.Expr):
                        reach |= {str(s) for s in x.free_symbols}
            if isinstance(v, list):
                for x in v:
                    if isinstance(x, sym.Expr):
                        reach |= {str(s) for s in x.free_symbols}
    return set(obj.parameters) <= reach


def replay(ctx, data):
    return oracles.generic_replay(data)


def run(ctx):
    ctx.rule = ("random valid scripts (plain, templates with {parameters} in positional/keyword/scalar/array "
                "slots, measured-register arguments, arrays passed as arguments, target/type options, loops; every fifth a "
                "tdm script with a variable block, p-arrays by name and string arguments spelling variable names); "
                "each is loaded, serialised and re-loaded for 3 (quick) or 5 (thorough) generations on the "
                "implementation, the serialiser model is compared with the real dumps text, and the model's "
                "LOADS with the real loads on the serialised text; non-trivial = at least one operation with "
                "arguments; distinct by script text")
    n = ctx.n(400, 6000)
    gens = ctx.n(3, 5)
    progs = []
    texts2 = []
    for i in range(n):
        script, tag = gen_case(ctx.rng, i)
        text = script if isinstance(script, str) else gen.render(script, None)
        ctx.count(tag)
        ic, obj = core.impl_canon_loads(text)
        if ic[0] != "prog":
            ctx.count("generator-invalid")
            continue
        has_args = any(o["args"] and (o["args"][0] or o["args"][1]) for o in ic[1]["ops"])
        ctx.case(text, nontrivial=has_args)
        ctx.sample(text)
        if not params_reach_ops(obj):
            ctx.count("excluded:parameter-reaches-no-operation")
            continue
        msg = oracles.o_roundtrip(text, gens, prog=obj)
        if msg:
            ctx.violation("round trip fails: " + msg, {"kind": "roundtrip", "text": text, "generations": gens})
            continue
        progs.append(obj)
        import blackbird
        with core.quiet():
            texts2.append(blackbird.dumps(obj))
    dumps_corr(ctx, progs)
    unparse_corr(ctx, progs)
    common.loads_corr(ctx, texts2, "LOADS(dumps)", loose=True)
