"""C02 — loading a script yields exactly the program the script denotes."""
import random

import canon
import core
import gen
from props import common


def check_script(ctx, script, text):
    """oracle on the implementation: the loaded program equals the python-side denotation"""
    try:
        want = gen.denote(script)
    except gen.OutOfDomain:
        return None
    ic, obj = core.impl_canon_loads(text)
    if ic[0] != "prog":
        return "valid script is refused: %s %r" % (ic[1:], obj)
    d = common.cmp_impl(want, ic[1], check_vars=True)
    for o in ic[1]["ops"]:
        if not o.get("modes_are_ints", True):
            d.append("modes of %s are not integers" % o["op"])
    if len(obj) != len(want["ops"]):
        d.append("len(program) = %d, operations = %d" % (len(obj), len(want["ops"])))
    return "; ".join(d[:4]) if d else None


def replay(ctx, data):
    if data.get("kind") == "plike":
        from props import c05
        return c05.check_plike(data["text"], data["vals"])
    if data.get("kind") == "script":
        return check_script(ctx, data["script"], data["text"])
    if data.get("kind") == "text":
        ic, obj = core.impl_canon_loads(data["text"])
        want = data.get("expect")
        if want == "loads" and ic[0] != "prog":
            return "refused: %r" % (obj,)
        return None
    import oracles
    return oracles.generic_replay(data)


def run(ctx):
    ctx.rule = ("random valid scripts from harness/gen.py (metadata with/without target/type and options, "
                "scalar and array declarations, statements with every bracket style, positional / keyword / "
                "list-valued keyword arguments, Measure* operations, for-loops over ranges and lists), half of "
                "them under a random layout; a case is non-trivial when it has at least two operations and at "
                "least one argument or computed mode; distinct by script text; plus the interaction stream of "
                "harness/interact.py (items drawn from a catalogue over the names x, m, A, B: redeclaration of scalars "
                "and arrays under one name, index expressions between and after two declarations, empty loops followed "
                "by loops over the same variable, loop variables shadowing declarations, options mixing positional and "
                "keyword entries; about 60% valid) with the executable model as oracle")
    n = ctx.n(400, 6000)
    cases = []
    for i in range(n):
        script, scope = gen.gen_script(ctx.rng, {"depth": ctx.rng.choice([1, 2, 3, 4]), "max_items": 12,
                                                 "array_args": True, "dup_kw": True})
        lay = gen.Layout(random.Random(ctx.rng.random())) if i % 2 else None
        cases.append((script, gen.render(script, lay)))
    res = common.loads_corr(ctx, [t for _, t in cases])
    for (script, text), r in zip(cases, res):
        for f in gen.features(script):
            ctx.count(f)
        nops = len(r[2][1]["ops"]) if r[2][0] == "prog" else 0
        ctx.case(text, nontrivial=nops >= 2)
        ctx.sample(text)
        msg = check_script(ctx, script, text)
        if msg:
            ctx.violation("loaded program differs from the denotation: " + msg,
                          {"kind": "script", "script": script, "text": text})
    # ranges whose bounds lie around 2**63 and 2**64: the loop values are those integers, exactly
    for _ in range(ctx.n(12, 120)):
        b = ctx.rng.choice([2 ** 63 - 3, 2 ** 63, 2 ** 63 + 5, 2 ** 64 - 2, 2 ** 64 + 1, 2 ** 62 + 7])
        step = ctx.rng.choice(["", ":2"])
        text = "name r\nversion 1.0\n\nfor int m in %d:%d%s\n    G(m, k=m) | 0\nH | 1\n" % (b, b + 5, step)
        ctx.count("range-around-2**63")
        ctx.case(text, nontrivial=True)
        msg = common.model_oracle(text)
        if msg:
            ctx.violation("range loop: " + msg, {"kind": "model_oracle", "text": text})
    # interaction stream: items sharing a tiny pool of names (redeclarations, indexing between two declarations of
    # one array, an empty loop before a loop over the same variable, shadowing, mixed target options)
    common.interaction_stream(ctx, ctx.n(300, 4000))
    # programs of type tdm: an array whose name merely starts like a p-array is an ordinary variable and denotes
    # its value; an array named exactly p<digits> is delivered by name (C15)
    from props import c05
    extra = []
    for _ in range(ctx.n(40, 400)):
        nm = ctx.rng.choice(["p0_phase", "p1x", "p12a", "p3_", "pp0", "p_1", "P0"])
        nr, nc = ctx.rng.randrange(1, 3), ctx.rng.randrange(1, 4)
        vals = [[ctx.rng.randrange(0, 40) / 4 for _ in range(nc)] for _ in range(nr)]
        text = ("name t\nversion 1.0\ntype tdm (temporal_modes=2)\n\nfloat array %s =\n" % nm +
                "".join("    " + ", ".join(repr(float(v)) for v in row) + "\n" for row in vals) +
                "G(%s, w=%s) | 0\n" % (nm, nm))
        ctx.count("tdm-array-with-p-like-name")
        ctx.case(text, nontrivial=True)
        extra.append(text)
        msg = c05.check_plike(text, vals)
        if msg:
            ctx.violation("loaded program differs from the denotation: " + msg, {"kind": "plike", "text": text, "vals": vals})
    common.loads_corr(ctx, extra, "LOADS(tdm names)")
