"""C03 — expressions evaluate to their arithmetic value under the grammar's precedence."""
import math
import random

import numpy as np

import canon
import core
import gen
import oracles
import sx
from props import common

REL = 1e-12

# tree-shape probes: sign- and order-sensitive expressions with their exact values
PROBES = [
    ("-2**2", 4), ("2**3**2", 512), ("10-4-3", 3), ("16/4/2", 2.0), ("2+3*4", 14), ("(2+3)*4", 20),
    ("2*3**2", 18), ("-2*3", -6), ("2**-1.0", 0.5), ("- -3", 3), ("+-+3", -3), ("2-3+4", 3), ("2-(3+4)", -5),
    ("8/2*3", 12.0), ("8/(2*3)", 8 / 6), ("2**2**0", 2), ("-(2)**2", 4), ("1-2**2", -3), ("7/(1+1)", 3.5),
    ("6/3", 2.0), ("2*3+2j", 2 * (3 + 2j)), ("(2*3) + 2j", 6 + 2j), ("-1j**2", (-1j) ** 2), ("3 - 2-1j", 3 - (2 - 1j)),
    ("2**0.5", 2 ** 0.5), ("pi*2", math.pi * 2), ("sqrt(16)/2", 2.0), ("exp(log(5))", math.exp(math.log(5))),
    ("1e3/1E-3", 1e3 / 1e-3), ("007+1", 8), ("1.50*2", 3.0), ("2**3*2", 16), ("2*2**3", 16), ("-3-4", -7),
    # results that underflow gracefully are finite values like any other (the floating-point status flags are
    # nobody's business)
    ("exp(-709)", math.exp(-709)), ("exp(0 - 720.5)", math.exp(-720.5)), ("1 + exp(-800)", 1.0), ("exp(-800) + 0.5", 0.5),
    ("sinh(-20) + cosh(-20)", math.sinh(-20) + math.cosh(-20)), ("tanh(-800)", -1.0), ("exp(709.5)", math.exp(709.5)),
    ("1e-200 * 1e-120", 1e-200 * 1e-120), ("1e-300 * 1e-300 + 2", 2.0),
]


def script_for(expr_text, decls=""):
    return "name e\nversion 1.0\n\n%sG(%s) | 0\n" % (decls, expr_text)


def value_of(prog):
    return prog.operations[0]["args"][0]


def check_value(got, want):
    """relative 1e-12, and integer results must be integers"""
    if isinstance(want, bool):
        return "oracle bool"
    if isinstance(want, int):
        if isinstance(got, (bool, np.bool_)) or not isinstance(got, (int, np.integer)):
            return "integer expression gives %r of type %s" % (got, type(got).__name__)
        if int(got) != want:
            return "value %r, expected %r" % (got, want)
        return None
    if isinstance(got, (str, bool)) or not isinstance(got, (int, float, complex, np.number)):
        return "non-numeric result %r" % (got,)
    if isinstance(want, float) and isinstance(got, (complex, np.complexfloating)):
        return "real expression gives complex %r" % (got,)
    g = complex(got)
    w = complex(want)
    if abs(g - w) <= REL * max(abs(w), abs(g)) + 1e-300:
        return None
    return "value %r, expected %r (relative error %.3g)" % (got, want, abs(g - w) / max(abs(w), 1e-300))


def o_expr(text, want, decls=""):
    r = core.impl_loads(script_for(text, decls))
    if r[0] != "ok":
        return "expression %s is refused: %r" % (text, r[1])
    return check_value(value_of(r[1]), want)


def replay(ctx, data):
    if data.get("kind") == "expr":
        want = data["want"]
        if isinstance(want, list):
            want = complex(want[0], want[1])
        if data.get("want_int"):
            want = int(want)
        return o_expr(data["text"], want, data.get("decls", ""))
    return oracles.generic_replay(data)


def fn_table(ctx):
    """the fifteen functions at ~40 points each: implementation vs math, model vs implementation"""
    pts = {"default": [0.0, 0.1, 0.25, 0.5, 0.75, 0.9, 1.0, 1.5, 2.0, 3.0, 5.0, 10.0, 0.001, 7.5],
           "unit": [0.0, 0.1, 0.25, 0.5, 0.75, 0.9, 0.99, 1.0],
           "ge1": [1.0, 1.001, 1.5, 2.0, 3.0, 10.0, 100.0],
           "pos": [0.001, 0.1, 0.5, 1.0, 2.0, 2.718281828, 10.0, 1000.0]}
    dom = {"arcsin": "unit", "arccos": "unit", "arctanh": "unit", "arccosh": "ge1", "log": "pos", "sqrt": "pos"}
    texts, wants = [], []
    for f in gen.FUNCS:
        for x in pts[dom.get(f, "default")]:
            for sign in ("", "-"):
                if sign == "-" and f in dom and f not in ("arcsin", "arctanh"):
                    continue
                if f == "arctanh" and x >= 1.0:
                    continue
                e = "%s(%s%r)" % (f, sign, x)
                try:
                    w = gen.apply_fn(f, -x if sign else x)
                except gen.OutOfDomain:
                    continue
                texts.append(e)
                wants.append(w)
    outs = core.model_batch([core.cmd("LOADS", script_for(t), "/") for t in texts])
    for t, w, o in zip(texts, wants, outs):
        ctx.case("fn:" + t)
        ctx.count("function-table")
        msg = o_expr(t, w)
        if msg:
            ctx.violation("function table: %s: %s" % (t, msg), {"kind": "expr", "text": t, "want": w})
        m = sx.dec_result(o)
        if m[0] == "prog":
            mv = m[1]["ops"][0]["args"][0][0]
            if mv[0] in ("i", "f", "c") and not canon.close(mv[1], w, 1e-11):
                ctx.disagree("model function value %s = %r, math gives %r" % (t, mv[1], w),
                             {"kind": "correspondence", "cmd": "LOADS", "text": script_for(t)})
            else:
                ctx.traces += 1


def run(ctx):
    ctx.rule = ("(a) fixed tree-shape probes and left-to-right additive chains in which two integers above 2**53 cancel before a fraction is added; (b) the 15 functions at ~40 points each; (c) random well-formed "
                "expressions of result kind int/float/complex to nesting depth 8 (quick) / 14 (thorough) over "
                "literals in every lexical form, declared scalars and array elements, kept inside the property's "
                "domain by an independent Python evaluation (finite, |v| < 1e12, real function domains, no result "
                "below 1e-9 from cancellation); oracle = that evaluation, relative 1e-12, ints must stay ints; "
                "non-trivial = at least one binary operator; distinct by expression text")
    for t, w in PROBES:
        ctx.case("probe:" + t)
        ctx.count("probe")
        msg = o_expr(t, w)
        if msg:
            ctx.violation("probe %s: %s" % (t, msg),
                          {"kind": "expr", "text": t, "want": [w.real, w.imag] if isinstance(w, complex) else w,
                           "want_int": isinstance(w, int)})
    # additive chains are evaluated left to right: two large integers (exact, inside int64) that nearly cancel,
    # then a fraction - summing the chain in floating point in any other order loses the difference
    for _ in range(ctx.n(60, 600)):
        a = ctx.rng.randrange(2 ** 53, 2 ** 62)
        d = ctx.rng.randrange(1, 9)
        f = ctx.rng.choice([0.5, 0.25, 1.5, 0.125])
        form = ctx.rng.randrange(4)
        if form == 0:
            t, w, decls = "%d - %d + %r" % (a, a - d, f), d + f, ""
        elif form == 1:
            t, w, decls = "%d - %d + %r - 1" % (a + d, a, f), d + f - 1, ""
        elif form == 2:
            t, w, decls = "n - A[0] + %r - 1" % f, d + f - 1, "int n = %d\nint array A =\n    %d, 1\n" % (a + d, a)
        else:
            t, w, decls = "-%d + %d + %r" % (a, a + d, f), d + f, ""
        ctx.case("cancel:" + t + decls)
        ctx.count("large-integers-cancel-before-a-fraction")
        msg = o_expr(t, w, decls)
        if msg:
            ctx.violation("additive chain %s: %s" % (t, msg), {"kind": "expr", "text": t, "want": w, "decls": decls})
    # integer powers are integers, exactly: results between 2**53 and 2**63 have no binary64 representation
    # (seeded C03/k: int ** int computed through floating point and cast back)
    for _ in range(ctx.n(40, 400)):
        b = ctx.rng.choice([3, 5, 6, 7, 9, 10, 11, 13, 15, 17, 21])
        es = [e for e in range(2, 64) if 2 ** 53 < b ** e < 2 ** 63]
        e = ctx.rng.choice(es)
        d = ctx.rng.randrange(0, 9)
        form = ctx.rng.randrange(5)
        if form == 0:
            t, w, decls = "%d**%d" % (b, e), b ** e, ""
        elif form == 1:
            t, w, decls = "%d**%d - %d" % (b, e, b ** e - d), d, ""
        elif form == 2:
            t, w, decls = "(-%d)**%d" % (b, e), (-b) ** e, ""
        elif form == 3:
            t, w, decls = "n**m - %d" % (b ** e - d), d, "int n = %d\nint m = %d\n" % (b, e)
        else:
            t, w, decls = "%d - %d**%d" % (b ** e + d, b, e), d, ""
        ctx.case("intpow:" + t + decls)
        ctx.count("integer-power-beyond-2**53")
        msg = o_expr(t, w, decls)
        if msg:
            ctx.violation("integer power %s: %s" % (t, msg), {"kind": "expr", "text": t, "want": w, "decls": decls,
                                                            "want_int": True})
    # index expressions between and after two declarations of one array, redeclared scalars (interaction stream;
    # the executable model is the oracle)
    common.interaction_stream(ctx, ctx.n(150, 2000))
    fn_table(ctx)
    n = ctx.n(2500, 60000)
    maxd = ctx.n(8, 14)
    # declarations shared by the random expressions
    scope = gen.Scope()
    decl_items = []
    for _ in range(8):
        decl_items.append(gen.gen_decl(ctx.rng, scope, {"depth": 2, "max_rows": 3, "max_cols": 3}))
    decls = "".join(gen.r_item(it, gen.Layout()) for it in decl_items)
    cases = []
    for i in range(n):
        kind = ctx.rng.choice(["int", "float", "float", "complex"])
        depth = 1 + int(min(maxd - 1, ctx.rng.expovariate(0.45)))
        e, v = gen.gen_expr(ctx.rng, scope, kind, depth)
        lay = gen.Layout(random.Random(ctx.rng.random())) if i % 3 == 0 else gen.Layout()
        t = gen.r_expr(e, lay)
        cases.append((t, v, kind, e))
    outs = core.model_batch([core.cmd("LOADS", script_for(t, decls), "/") for t, _, _, _ in cases])
    for (t, v, kind, e), o in zip(cases, outs):
        nontrivial = e[0] in ("add", "sub", "mul", "div", "pow") or (e[0] in ("brk", "neg", "pos", "fn"))
        ctx.case(t, nontrivial)
        ctx.count("kind:" + kind)
        ctx.count("depth:%d" % min(gen_depth(e), 15))
        ctx.sample(t)
        msg = o_expr(t, v, decls)
        if msg:
            ctx.violation("expression value: %s: %s" % (t, msg),
                          {"kind": "expr", "text": t, "decls": decls,
                           "want": [v.real, v.imag] if isinstance(v, complex) else v, "want_int": isinstance(v, int)})
        m = sx.dec_result(o)
        if m[0] == "ood":
            ctx.ood += 1
        elif m[0] == "prog":
            mv = m[1]["ops"][0]["args"][0][0]
            if mv[0] == "i" and isinstance(v, int):
                ok = mv[1] == v
            else:
                ok = mv[0] in ("i", "f", "c") and (mv[0] == "i") == isinstance(v, int) and canon.close(mv[1], v, 1e-11)
            if ok:
                ctx.traces += 1
            else:
                ctx.disagree("model value of %s is %r, arithmetic value %r" % (t, mv, v),
                             {"kind": "correspondence", "cmd": "LOADS", "text": script_for(t, decls)})
        else:
            ctx.disagree("model refuses %s: %r" % (t, m[:3]),
                         {"kind": "correspondence", "cmd": "LOADS", "text": script_for(t, decls)})


def gen_depth(e):
    if not isinstance(e, tuple):
        return 0
    return 1 + max([gen_depth(x) for x in e[1:] if isinstance(x, tuple)] or [0])
