"""C04 — instantiating a template equals substituting values into its text."""
import random

import numpy as np

import canon
import core
import enc
import gen
import oracles
import sx
from props import common


def subst_maps(vals, arrays):
    sigma = {n: gen.literal_of(v) for n, v in vals.items()}
    arr = {n: [[gen.literal_of(x) for x in row] for row in rows] for n, rows in arrays.items()}
    return sigma, arr


def expected_params(script, info):
    """parameter names as written, array-valued ones expanded per element"""
    names = set(info["params"])
    for n, (r, c) in info["array_params"].items():
        names |= {"%s_%d_%d" % (n, i, j) for i in range(r) for j in range(c)}
    return sorted(names)


def check_template(script, info, vals, arrays, shared=None):
    text = gen.render(script)
    sigma, arr = subst_maps(vals, arrays)
    subst_text = gen.render(gen.subst_script(script, sigma, arr))
    ic, obj = core.impl_canon_loads(text)
    if ic[0] != "prog":
        return "template is refused with %s: %r" % (ic[1:3], obj), text, subst_text
    want = expected_params(script, info)
    if sorted(obj.parameters) != want:
        return "free parameters %s, written %s" % (sorted(obj.parameters), want), text, subst_text
    if obj.is_template() != bool(want):
        return "is_template() is %s with parameters %s" % (obj.is_template(), want), text, subst_text
    kwargs = dict(vals)
    kwargs.update(arrays)
    msg = oracles.o_template_call(text, kwargs, subst_text, shared=shared)
    if msg and shared is not None:
        msg = "(same template object instantiated again) " + msg
    if msg:
        return msg, text, subst_text
    # a missing value is refused with ValueError
    if want:
        scalar = [n for n in vals]
        if scalar:
            missing = dict(kwargs)
            del missing[scalar[0]]
            kw = {k: (np.array(v) if isinstance(v, list) else v) for k, v in missing.items()}
            with core.quiet():
                try:
                    obj(**kw)
                    return "missing value for %s is accepted" % scalar[0], text, subst_text
                except ValueError:
                    pass
                except Exception as e:  # noqa: BLE001
                    return "missing value for %s raises %r, not ValueError" % (scalar[0], e), text, subst_text
    return None, text, subst_text


def replay(ctx, data):
    if data.get("kind") == "template":
        return check_template(data["script"], data["info"], data["vals"], data["arrays"])[0]
    if data.get("kind") == "params":
        ic, obj = core.impl_canon_loads(data["text"])
        if ic[0] != "prog":
            return "refused: %r" % (obj,)
        if sorted(obj.parameters) != sorted(data["want"]):
            return "free parameters %s, written %s" % (sorted(obj.parameters), sorted(data["want"]))
        if obj.is_template() != bool(data["want"]):
            return "is_template() is %s" % obj.is_template()
        return None
    return oracles.generic_replay(data)


def fixjson(script):
    return script


def call_corr(ctx, items):
    """model instantiate vs implementation __call__ on the same program and values"""
    lines, keep = [], []
    for obj, kwargs in items:
        try:
            kw = {}
            for k, v in kwargs.items():
                kw[k] = np.array(v) if isinstance(v, list) else v
            line = "CALL\t" + sx.hexs(enc.enc_program(obj)) + "\t" + sx.hexs(enc.enc_kw(kw))
        except enc.Unsupported:
            ctx.ood += 1
            continue
        lines.append(line)
        keep.append((obj, kw))
    outs = core.model_batch(lines)
    for (obj, kw), o in zip(keep, outs):
        m = sx.dec_result(o)
        with core.quiet():
            try:
                ic = canon.canon_program(obj(**kw))
            except Exception as e:  # noqa: BLE001
                ic = canon.classify_exception(e)
        st, d = canon.cmp_result(m, ic, loose=True)
        if st == "ood":
            ctx.ood += 1
        elif st == "differ":
            ctx.disagree("CALL: " + "; ".join(d[:3]), {"kind": "correspondence", "cmd": "CALL", "diffs": d[:5],
                                                       "text": enc_text(obj), "kwargs": repr(kw)})
        else:
            ctx.traces += 1


def tokens_to_text(out):
    """text of the token list the model printed (numbers carry bit patterns: f<bits>)"""
    import re
    import struct

    def bits(m):
        return repr(struct.unpack("<d", struct.pack("<Q", int(m.group(1))))[0])
    parts = []
    for x in out.split(" "):
        f = x.split(":")
        kind = f[0]
        if kind == "EOF":
            continue
        t = sx.unhex(f[1])
        if kind in ("FLOAT", "COMPLEX"):
            t = re.sub(r"f(\d+)", bits, t)
        parts.append("\n" if kind == "NEWLINE" else t if kind == "TAB" else t + " ")
    return "".join(parts)


def substp_corr(ctx, cases):
    """the model's substituted script (substPScript, the object of the script-level theorems) against the
    implementation: the text the model writes and the text the harness substituted by hand load to the same
    program, and — inside the fragment the theorem covers — calling the template gives that program"""
    lines, keep = [], []
    for text, vals, subst_text in cases:
        try:
            lines.append("SUBSTP\t" + sx.hexs(text) + "\t" + sx.hexs(enc.enc_kw(vals)))
            keep.append((text, vals, subst_text))
        except enc.Unsupported:
            ctx.ood += 1
    outs = core.model_batch(lines)
    for (text, vals, subst_text), o in zip(keep, outs):
        if o.startswith("(err") or o.startswith("bad"):
            ctx.disagree("SUBSTP: model answers %s on a template the implementation loads" % o[:60],
                         {"kind": "correspondence", "cmd": "SUBSTP", "text": text, "kwargs": repr(vals)})
            continue
        flag, _, toks = o.partition(" ")
        mtext = tokens_to_text(toks)
        ia, oa = core.impl_canon_loads(mtext)
        ib, ob = core.impl_canon_loads(subst_text)
        if ib[0] != "prog":
            ctx.ood += 1
            continue
        if ia[0] != "prog":
            ctx.disagree("SUBSTP: the model's substituted script is refused (%s %r), the hand-substituted one loads" % (ia[1:3], oa),
                         {"kind": "correspondence", "cmd": "SUBSTP", "text": text, "model_text": mtext, "subst_text": subst_text})
            continue
        d = common.cmp_impl(ia[1], ib[1], check_vars=True, loose_kinds=False)
        if d:
            ctx.disagree("SUBSTP: model's substituted script vs hand-substituted text: " + "; ".join(d[:3]),
                         {"kind": "correspondence", "cmd": "SUBSTP", "text": text, "model_text": mtext, "subst_text": subst_text})
            continue
        ctx.count("substituted-script:" + flag)
        if flag == "covered":
            msg = oracles.o_template_call(text, vals, mtext)
            if msg:
                ctx.violation("template inside the fragment of C04_script_instantiation: " + msg,
                              {"kind": "template_call", "text": text, "kwargs": vals, "subst_text": mtext})
                continue
        ctx.traces += 1


def enc_text(obj):
    import blackbird
    with core.quiet():
        try:
            return blackbird.dumps(obj)
        except Exception as e:  # noqa: BLE001
            return "dumps raises %r" % (e,)


def run(ctx):
    ctx.rule = ("random template scripts with {name} parameters in positional and keyword arguments, scalar "
                "initialisers, bare {p} array elements at arbitrary positions, whole arrays with declared shape and "
                "loop bodies; 3 (quick) / 5 (thorough) value assignments each (exact-friendly dyadic and generic "
                "doubles), the later ones applied to one and the same loaded template object that was already instantiated; "
                "oracle: loads(t)(**v) vs loads(t with every {p} replaced by its parenthesised value), "
                "parameters / is_template / missing value; model instantiate vs __call__; a second stream of templates inside "
                "the fragment of C04_script_instantiation (parameters in statements and loop bodies only); SUBSTP: the "
                "model's substituted script (substPScript) printed as text loads, in the implementation, to the program "
                "the hand-substituted text loads to, and inside the fragment the call gives that program; non-trivial = at least two "
                "parameter occurrences; distinct by (script text, values)")
    n = ctx.n(250, 4000)
    reps = ctx.n(3, 5)
    corr = []
    texts = []
    substp = []
    for i in range(n):
        script, info, scope = gen.gen_template(ctx.rng, {"depth": 2, "max_items": 8, "array_args": True})
        text = gen.render(script)
        texts.append(text)
        for k in ("params", "array_params"):
            ctx.count("%s:%d" % (k, len(info[k])))
        # the same loaded template object is instantiated for every assignment after the first
        shared = None
        for r in range(reps):
            for _try in range(20):
                vals, arrays = gen.gen_param_values(ctx.rng, info, exact_friendly=(r % 2 == 0))
                if gen.values_in_domain(script, vals):
                    break
            else:
                ctx.count("no-values-in-domain")
                continue
            msg, text, subst_text = check_template(script, info, vals, arrays, shared=shared)
            if shared is None:
                r0 = core.impl_loads(text)
                shared = r0[1] if r0[0] == "ok" else None
                if shared is not None:
                    with core.quiet():
                        try:
                            shared(**{k: (np.array(v) if isinstance(v, list) else v) for k, v in dict(vals, **arrays).items()})
                        except Exception:  # noqa: BLE001
                            shared = None
            occurrences = text.count("{")
            ctx.case((text, sorted(vals.items()), repr(arrays)), nontrivial=occurrences >= 2)
            if r == 0:
                ctx.sample({"template": text, "values": vals, "arrays": arrays})
            if msg:
                ctx.violation("template instantiation: " + msg,
                              {"kind": "template", "script": script, "info": info, "vals": vals, "arrays": arrays,
                               "text": text, "subst_text": subst_text})
                break
            if r == 0 and not arrays:
                substp.append((text, dict(vals), subst_text))
            if r == 0:
                ic, obj = core.impl_canon_loads(text)
                if ic[0] == "prog":
                    kwargs = dict(vals)
                    kwargs.update(arrays)
                    corr.append((obj, kwargs))
    # templates inside the fragment of the script-level theorem: parameters in statements and loop
    # bodies only, next to parameter-free declarations
    for i in range(ctx.n(150, 2500)):
        script, info, scope = gen.gen_template(ctx.rng, {"depth": 2, "max_items": 8, "fragment": True})
        for _try in range(20):
            vals, arrays = gen.gen_param_values(ctx.rng, info, exact_friendly=(i % 2 == 0))
            if gen.values_in_domain(script, vals):
                break
        else:
            ctx.count("no-values-in-domain")
            continue
        msg, text, subst_text = check_template(script, info, vals, arrays)
        ctx.case((text, sorted(vals.items())), nontrivial=text.count("{") >= 2)
        ctx.count("fragment-template")
        texts.append(text)
        if msg:
            ctx.violation("template instantiation: " + msg,
                          {"kind": "template", "script": script, "info": info, "vals": vals, "arrays": arrays,
                           "text": text, "subst_text": subst_text})
            continue
        substp.append((text, dict(vals), subst_text))
    # an int array that holds parameters next to literals that are not integers: the literals are cast to the
    # declared element type when the template is loaded, exactly as in the substituted script
    for _ in range(ctx.n(20, 200)):
        lits = [ctx.rng.choice(["2.75", "-7/2", "1.5", "9/2", "3", "-0.5", "7.999"]) for _ in range(3)]
        pn = ctx.rng.choice(["p", "a", "op"])
        pos = ctx.rng.randrange(3)
        row = list(lits)
        row[pos] = "{%s}" % pn
        val = ctx.rng.choice([5, -2, 0, 11])
        head = "name t\nversion 1.0\n\n"
        body = "int array A_[1, 3] =\n    %s\nG(A_) | [0, 1]\nH(A_[%d], k=A_[%d]) | 0\n"
        text = head + body % (", ".join(row), (pos + 1) % 3, (pos + 2) % 3)
        row[pos] = "(%d)" % val
        subst_text = head + body % (", ".join(row), (pos + 1) % 3, (pos + 2) % 3)
        ctx.count("int-array-with-parameter-and-fractional-literals")
        ctx.case((text, val), nontrivial=True)
        texts.append(text)
        msg = oracles.o_template_call(text, {pn: val}, subst_text)
        if msg:
            ctx.violation("template instantiation: " + msg,
                          {"kind": "template_call", "text": text, "kwargs": {pn: val}, "subst_text": subst_text})
    # a whole-array parameter given as nested lists of large Python integers; the operations do arithmetic on its
    # elements (the array is declared float, so the substituted script computes in floating point: no overflow)
    for _ in range(ctx.n(10, 100)):
        a, b = ctx.rng.choice([(2 ** 62, 2 ** 32), (2 ** 40 + 1, 2 ** 33), (3 ** 39, 7), (2 ** 62, 3)])
        head = "name t\nversion 1.0\n\n"
        body = "float array U[1, 2] =\n    %s\nDgate(U[0]*U[1], U[1]**2, 3*U[0]) | 0\nG(U) | [0, 1]\n"
        text = head + body % "{U}"
        subst_text = head + body % ("(%d), (%d)" % (a, b))
        ctx.count("whole-array-parameter-of-large-integers")
        ctx.case((text, a, b), nontrivial=True)
        msg = oracles.o_template_call(text, {"U": [[a, b]]}, subst_text, raw=True)
        if msg:
            ctx.violation("template instantiation: " + msg,
                          {"kind": "template_call", "text": text, "kwargs": {"U": [[a, b]]}, "subst_text": subst_text, "raw": True})
    common.loads_corr(ctx, texts, "LOADS(template)")
    call_corr(ctx, corr)
    substp_corr(ctx, substp)
