"""C05 — variables have their declared type; arrays keep written layout and shape."""
import random

import numpy as np

import canon
import core
import gen
import oracles
import sx
from props import common

PYT = {"int": (int, np.integer), "float": (float, np.floating), "complex": (complex, np.complexfloating),
       "str": (str,), "bool": (bool, np.bool_)}
DK = {"int": "i", "float": "f", "complex": "c"}


def head():
    return "name d\nversion 1.0\n\n"


def check_decls(items, scope_vals, text):
    """every declared variable has its declared type, value, layout and shape"""
    ic, obj = core.impl_canon_loads(text)
    if ic[0] != "prog":
        return "valid declarations are refused with %s: %r" % (ic[1:3], obj)
    vars_ = obj.variables
    for it in items:
        if it[0] == "var":
            _, ty, name, val = it
            got = vars_.get(name)
            want = scope_vals[name]
            if ty == "bool":
                if not isinstance(got, (bool, np.bool_)) or bool(got) != want:
                    return "bool %s holds %r, expected %r" % (name, got, want)
                continue
            if isinstance(got, (bool, np.bool_)) or not isinstance(got, PYT[ty]):
                return "%s %s holds %r of type %s" % (ty, name, got, type(got).__name__)
            if ty == "str":
                if got != want:
                    return "str %s holds %r, expected %r" % (name, got, want)
            elif ty == "int":
                if int(got) != want:
                    return "int %s holds %r, expected %r" % (name, got, want)
            elif not canon.close(got, want, 1e-12):
                return "%s %s holds %r, expected %r" % (ty, name, got, want)
        elif it[0] == "arr":
            _, ty, name, shape, rows = it
            got = vars_.get(name)
            wty, nr, nc, flat = scope_vals[name]
            if not isinstance(got, np.ndarray) or got.ndim != 2:
                return "array %s is %r" % (name, type(got).__name__)
            if got.shape != (nr, nc):
                return "array %s has shape %s, written %dx%d" % (name, got.shape, nr, nc)
            if got.dtype.kind != DK[ty]:
                return "array %s has dtype %s, declared %s" % (name, got.dtype, ty)
            for r in range(nr):
                for c in range(nc):
                    w = flat[r * nc + c]
                    g = got[r][c]
                    if (ty == "int" and int(g) != w) or (ty != "int" and not canon.close(g, w, 1e-12)):
                        return "array %s element (%d, %d) is %r, written value %r" % (name, r, c, g, w)
    return None


def check_index(name, arr, k):
    """A[k] is the k-th element in row-major order"""
    ty, nr, nc, flat = arr
    return flat[k]


def o_rejected(text, what):
    ic, obj = core.impl_canon_loads(text)
    if ic[0] == "prog":
        v = {k: (x.tolist() if isinstance(x, np.ndarray) else x) for k, x in obj.variables.items()}
        return "%s is accepted: variables %r" % (what, v)
    return None


def param_array_case(rng, mx):
    """an array with two or more template parameters among literal elements"""
    ty = rng.choice(["int", "float", "complex"])
    nr, nc = rng.randrange(1, mx + 1), rng.randrange(2, mx + 1)
    n = nr * nc
    npar = rng.randrange(2, min(n, 5) + 1)
    pos = sorted(rng.sample(range(n), npar))
    names = rng.sample(["a", "b", "c", "p1", "p2", "th", "x_1"], npar)
    cells = []
    for k in range(n):
        if k in pos:
            cells.append(("par", names[pos.index(k)]))
        else:
            v = rng.randrange(0, 50)
            cells.append(("num", v))

    def lit(c):
        if c[0] == "par":
            return "{%s}" % c[1]
        return {"int": "%d", "float": "%d.5", "complex": "%d+1j"}[ty] % c[1]
    shape = "[%d, %d]" % (nr, nc) if rng.random() < 0.5 else ""
    text = head() + "%s array A%s =\n" % (ty, shape) + "".join(
        "    " + ", ".join(lit(c) for c in cells[r * nc:(r + 1) * nc]) + "\n" for r in range(nr))
    want = [["par", c[1]] if c[0] == "par" else
            ["num", {"int": c[1], "float": c[1] + 0.5, "complex": [c[1], 1]}[ty]] for c in cells]
    return text, [nr, nc], want


def check_param_array(text, shape, want):
    import sympy as sym
    r = core.impl_loads(text)
    if r[0] != "ok":
        return "array with parameters is refused: %r" % (r[1],)
    got = r[1].variables.get("A")
    if not isinstance(got, np.ndarray) or list(got.shape) != list(shape):
        return "array has shape %s, written %s" % (getattr(got, "shape", None), shape)
    flat = list(got.reshape(-1))
    for k, (g, w) in enumerate(zip(flat, want)):
        if w[0] == "par":
            if not (isinstance(g, sym.Symbol) and str(g) == w[1]):
                return "element (%d, %d) is %r, written {%s}" % (k // shape[1], k % shape[1], g, w[1])
        else:
            wv = complex(*w[1]) if isinstance(w[1], list) else w[1]
            if isinstance(g, sym.Basic) and not g.is_number:
                return "element (%d, %d) is %r, written %r" % (k // shape[1], k % shape[1], g, wv)
            if not canon.close(complex(g) if isinstance(wv, complex) else float(g), wv, 1e-12):
                return "element (%d, %d) is %r, written %r" % (k // shape[1], k % shape[1], g, wv)
    return None


def check_plike(text, vals):
    r = core.impl_loads(text)
    if r[0] != "ok":
        return "refused: %r" % (r[1],)
    op = r[1].operations[0]
    for what, a in (("positional", op["args"][0]), ("keyword", op["kwargs"]["w"])):
        if not isinstance(a, np.ndarray) or a.tolist() != vals:
            return "%s argument is %r, written array %r" % (what, a, vals)
    return None


def replay(ctx, data):
    k = data.get("kind")
    if k == "plike":
        return check_plike(data["text"], data["vals"])
    if k == "param_array":
        return check_param_array(data["text"], data["shape"], data["want"])
    if k == "decls":
        items = [tuple(i) for i in data["items"]]
        return check_decls(items, data["vals"], data["text"])
    if k == "rejected":
        return o_rejected(data["text"], data["what"])
    if k == "index":
        r = core.impl_loads(data["text"])
        if r[0] != "ok":
            return "refused: %r" % (r[1],)
        got = r[1].operations[0]["args"][0]
        want = data["want"]
        if isinstance(want, list):
            want = complex(*want)
        return None if canon.close(got, want, 1e-12) else "A[k] = %r, row-major element is %r" % (got, want)
    return oracles.generic_replay(data)


def jsonable_vals(vals):
    out = {}
    for k, v in vals.items():
        out[k] = v
    return out


def run(ctx):
    ctx.rule = ("random declarations: int/float/complex/bool/str scalars with type-compatible initialisers and "
                "int/float/complex arrays up to 6x6 (quick) / 12x12 (thorough), 150 / 1500 scripts, with and without declared shape; "
                "every element, dtype and shape is compared with the independent Python evaluation of the written "
                "rows; every index k of every array is read through G(A[k]); ragged and mis-shaped variants of "
                "every array (including ones that keep the first row and the total size) must be rejected; arrays with 2-5 "
                "template parameters among literal elements keep every element and parameter in the cell it was written in; model LOADS vs implementation on all of them; non-trivial = an "
                "array with at least 2 rows and 2 columns or at least 3 declarations; distinct by text")
    n = ctx.n(150, 1500)
    mx = ctx.n(6, 12)
    texts = []
    for i in range(n):
        scope = gen.Scope()
        items = [gen.gen_decl(ctx.rng, scope, {"depth": ctx.rng.choice([1, 2, 3]), "max_rows": mx, "max_cols": mx})
                 for _ in range(ctx.rng.randrange(1, 6))]
        lay = gen.Layout(random.Random(ctx.rng.random()), comments=False, blank=False) if i % 2 else gen.Layout()
        text = head() + "".join(gen.r_item(it, lay) for it in items)
        arrays = [it for it in items if it[0] == "arr"]
        big = any(len(it[4]) >= 2 and len(it[4][0]) >= 2 for it in arrays)
        ctx.case(text, nontrivial=big or len(items) >= 3)
        ctx.sample(text)
        for it in items:
            ctx.count(it[0] + ":" + it[1])
        texts.append(text)
        msg = check_decls(items, scope.vals, text)
        if msg:
            ctx.violation("declaration: " + msg, {"kind": "decls", "items": items, "vals": scope.vals, "text": text})
            continue
        # row-major indexing, every index (and one index outside)
        for it in arrays[:2]:
            _, ty, name, shape, rows = it
            arr = scope.vals[name]
            size = arr[1] * arr[2]
            ks = list(range(size)) if size <= 16 else ctx.rng.sample(range(size), 16)
            for k in ks:
                t2 = text + "G(%s[%d]) | 0\n" % (name, k)
                ctx.count("index")
                r = core.impl_loads(t2)
                want = arr[3][k]
                if r[0] != "ok":
                    ctx.violation("index: %s[%d] refused: %r" % (name, k, r[1]), {"kind": "loads_ok", "text": t2})
                    break
                got = r[1].operations[0]["args"][0]
                if not canon.close(got, want, 1e-12):
                    ctx.violation("index: %s[%d] = %r, row-major element is %r" % (name, k, got, want),
                                  {"kind": "index", "text": t2,
                                   "want": [want.real, want.imag] if isinstance(want, complex) else want})
                    break
            texts.append(text + "G(%s[%d]) | 0\n" % (name, ctx.rng.randrange(size)))
        # ragged and mis-shaped variants
        for it in arrays[:2]:
            _, ty, name, shape, rows = it
            nr, nc = len(rows), len(rows[0])
            variants = []
            if nr >= 2:
                # move one element from the last row to the first: total size unchanged
                if nc >= 2:
                    ragged = [list(r) for r in rows]
                    ragged[0].append(ragged[-1].pop())
                    variants.append(("ragged array (rows %s)" % [len(r) for r in ragged], ("arr", ty, name, None, ragged)))
                if nr >= 3 and nc >= 2:
                    # first row untouched, same total: one element moves from the last row to the second
                    ragged3 = [list(r) for r in rows]
                    ragged3[1].append(ragged3[-1].pop())
                    variants.append(("ragged array (rows %s)" % [len(r) for r in ragged3], ("arr", ty, name, None, ragged3)))
                    variants.append(("ragged array (rows %s) with matching declared shape" % [len(r) for r in ragged3],
                                     ("arr", ty, name, [nr, nc], ragged3)))
                ragged2 = [list(r) for r in rows]
                ragged2[-1] = ragged2[-1] + [("int", "1")]
                variants.append(("ragged array (rows %s)" % [len(r) for r in ragged2], ("arr", ty, name, None, ragged2)))
            bad_shapes = [[nr + 1, nc], [nr, nc + 1], [nc, nr]] if nr != nc else [[nr + 1, nc], [nr, nc + 1]]
            if nr * nc > 1:
                bad_shapes.append([1, nr * nc] if nr != 1 else [nr * nc, 1])
            # shapes with one or three entries contradict every two-dimensional array
            bad_shapes += [[nr * nc], [nc], [nr, nc, 1], [1, nr, nc]]
            for bs in bad_shapes:
                variants.append(("array declared %s but written %dx%d" % (bs, nr, nc), ("arr", ty, name, bs, rows)))
            for what, v in variants:
                t3 = head() + "".join(gen.r_item(x if x is not it else v, gen.Layout()) for x in items)
                ctx.count("rejected-variant")
                ctx.case(t3, nontrivial=True)
                texts.append(t3)
                msg = o_rejected(t3, what)
                if msg:
                    ctx.violation("rejection: " + msg, {"kind": "rejected", "text": t3, "what": what})
    # arrays with several template parameters among their elements keep every element where it was written
    for _ in range(ctx.n(100, 1000)):
        text, shape, want = param_array_case(ctx.rng, ctx.n(4, 6))
        ctx.count("array-with-parameters")
        ctx.case(text, nontrivial=True)
        texts.append(text)
        msg = check_param_array(text, shape, want)
        if msg:
            ctx.violation("layout with parameters: " + msg,
                          {"kind": "param_array", "text": text, "shape": shape, "want": want})
    # in a tdm program only names of the exact form p<digits> are p-arrays: an array called p0_phase or
    # p1x is an ordinary variable and reaches an operation by value, with its layout
    for _ in range(ctx.n(40, 400)):
        nm = ctx.rng.choice(["p0_phase", "p1x", "p12a", "p3_", "pp0", "p_1", "P0"])
        nr, nc = ctx.rng.randrange(1, 3), ctx.rng.randrange(1, 4)
        vals = [[ctx.rng.randrange(0, 40) / 4 for _ in range(nc)] for _ in range(nr)]
        text = ("name t\nversion 1.0\ntype tdm (temporal_modes=2)\n\nfloat array %s =\n" % nm +
                "".join("    " + ", ".join(repr(float(v)) for v in row) + "\n" for row in vals) +
                "G(%s, w=%s) | 0\n" % (nm, nm))
        ctx.count("tdm-array-with-p-like-name")
        ctx.case(text, nontrivial=True)
        texts.append(text)
        msg = check_plike(text, vals)
        if msg:
            ctx.violation("p-like name: " + msg, {"kind": "plike", "text": text, "vals": vals})
    common.loads_corr(ctx, texts, "LOADS(decl)")
    # integer scalars are exact whatever their size (only arithmetic beyond int64 is outside the properties: a
    # literal, its negation and a copy of the variable involve none)
    for _ in range(ctx.n(20, 200)):
        v = ctx.rng.choice([2 ** 63, 2 ** 63 + ctx.rng.randrange(1, 1000), 2 ** 64 + 1, 2 ** 70 + 12345, 10 ** 30])
        neg = ctx.rng.random() < 0.4
        text = "name b\nversion 1.0\n\nint v_ = %s%d\nint w_ = v_\nG(v_, k=w_) | 0\n" % ("-" if neg else "", v)
        want = -v if neg else v
        ctx.count("integer-scalar-beyond-64-bits")
        ctx.case(text, nontrivial=True)
        texts.append(text)
        r = core.impl_loads(text)
        msg = None
        if r[0] != "ok":
            msg = "refused: %r" % (r[1],)
        else:
            got = (r[1].variables.get("v_"), r[1].variables.get("w_"), r[1].operations[0]["args"][0], r[1].operations[0]["kwargs"]["k"])
            if any(isinstance(g, bool) or not isinstance(g, int) or g != want for g in got):
                msg = "int v_ = %d is held / delivered as %r" % (want, got)
        if msg:
            ctx.violation("declaration: " + msg, {"kind": "loads_ok", "text": text})
    common.loads_corr(ctx, texts[-ctx.n(20, 200):], "LOADS(big int)")
    # interaction stream (harness/interact.py): the executable model is the oracle
    common.interaction_stream(ctx, ctx.n(200, 2500))
