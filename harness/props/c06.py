"""C06 — a for-loop is equivalent to its textual unrolling."""
import random

import canon
import core
import gen
import oracles
from props import common


def check_loop(script):
    text = gen.render(script)
    unrolled = gen.render(gen.unroll_script(script))
    msg = oracles.o_loads_equal(text, unrolled, check_vars=True)
    return msg, text, unrolled


def replay(ctx, data):
    if data.get("kind") == "exact_tree":
        from props import c07
        return c07.exact_args(data["files"], data["main"], data["inlined"])
    if data.get("kind") == "loop":
        return check_loop(data["script"])[0]
    return oracles.generic_replay(data)


BAD_VALUES = {
    # also values that are nearly, but not, integers (a tolerance in the type check would let them in)
    "int": ['"a"', "2.5", "1j", "0.5+0.25", "2.00001", "2.9999999999999996", "3.0000000001", "0.07*100", "100000.4",
            "1e-9", "sqrt(2)**2"],
    "float": ['"a"', "1j", '"1.5"'],
    "str": ["1", "2.5", "True"],
    "bool": ['"a"', "2", "0.5"],
}


def run(ctx):
    ctx.rule = ("random scripts with for-loops over int/float ranges (with and without step, empty ranges) and "
                "bracketed / parenthesised / bare lists of int, float, bool and str values and expressions, bodies "
                "of 1-3 statements using the loop variable in modes, arguments, keyword arguments, statements "
                "before and after; oracle: loads(script) vs loads(script with every loop textually unrolled), plus "
                "loop variable invisible afterwards, plus wrongly typed listed values refused (including nearly-integral floats in int "
                "loops), plus bodies with register expressions over the loop variable; non-trivial = a loop "
                "executing at least twice whose body uses the variable; distinct by text")
    n = ctx.n(500, 8000)
    texts = []
    for i in range(n):
        script, scope = gen.gen_script(ctx.rng, {"depth": 2, "max_items": 7})
        # make sure there is at least one loop
        if not any(it[0] == "loop" for it in script["items"]):
            script["items"].append(gen.gen_loop(ctx.rng, scope, {"depth": 2}))
            if ctx.rng.random() < 0.6:
                script["items"].append(gen.gen_stmt(ctx.rng, scope, {"depth": 2}))
        msg, text, unrolled = check_loop(script)
        loops = [it for it in script["items"] if it[0] == "loop"]
        nt = any(gen.loop_count(l[3]) >= 2 and l[2] in gen.render({"name": "a", "version": "1.0", "items": [("stmt",) + tuple(s[1:]) for s in l[4]]}) for l in loops)
        ctx.case(text, nontrivial=nt)
        ctx.sample(text)
        for l in loops:
            ctx.count("loop:%s:%s" % (l[1], l[3][0]))
            ctx.count("iterations:%d" % min(gen.loop_count(l[3]), 6))
        texts.append(text)
        if msg:
            ctx.violation("loop vs unrolling: " + msg, {"kind": "loop", "script": script, "text": text,
                                                        "unrolled": unrolled})
            continue
        # the loop variable is not visible after the loop
        l = loops[-1]
        t2 = text + "G(%s) | 0\n" % l[2]
        ctx.count("visible-after")
        m2 = oracles.o_raises(t2, "syntax")
        if m2:
            ctx.violation("loop variable after the loop: " + m2, {"kind": "raises", "text": t2, "want": "syntax"})
        texts.append(t2)
        # a listed value that is not of the loop type is refused
        ty = ctx.rng.choice(list(BAD_VALUES))
        bad = ctx.rng.choice(BAD_VALUES[ty])
        good = {"int": "1", "float": "0.5", "str": '"s"', "bool": "True"}[ty]
        vals = [good, bad] if ctx.rng.random() < 0.5 else [bad, good]
        t3 = "name l\nversion 1.0\n\nfor %s w in %s\n    G(w) | 0\n" % (ty, ", ".join(vals))
        ctx.count("bad-list-value")
        m3 = oracles.o_raises(t3)
        if m3:
            ctx.violation("wrongly typed loop value %s in a %s loop: %s" % (bad, ty, m3), {"kind": "raises", "text": t3})
        texts.append(t3)
    # register expressions over the loop variable: every iteration has its own transform
    from props import c08
    for _ in range(ctx.n(40, 400)):
        loop, unrolled = c08.loop_rrt_case(ctx.rng)
        ctx.count("register-expression-over-loop-variable")
        ctx.case(loop, nontrivial=True)
        texts.append(loop)
        m4 = c08.check_loop_rrt(loop, unrolled)
        if m4:
            ctx.violation("loop vs unrolling: " + m4, {"kind": "loads_equal", "a": loop, "b": unrolled, "check_vars": False})
    common.loads_corr(ctx, texts, "LOADS(loop)")
    # loop values beyond 64 bits are exact Python integers (no arithmetic is applied to them)
    big = []
    for _ in range(ctx.n(20, 200)):
        v = ctx.rng.choice([2 ** 63, 2 ** 63 + ctx.rng.randrange(1, 1000), 2 ** 64 + 1, 10 ** 25])
        if ctx.rng.random() < 0.5:
            hdr, vals = "[%d, 3, %d]" % (v, v + 1), [v, 3, v + 1]
        else:
            hdr, vals = "%d:%d" % (v, v + 2), [v, v + 1]
        loop = "name l\nversion 1.0\n\nfor int k_ in %s\n    G(k_, a=k_) | 0\nH | 1\n" % hdr
        unrolled = "name l\nversion 1.0\n\n" + "".join("G(%d, a=%d) | 0\n" % (x, x) for x in vals) + "H | 1\n"
        ctx.count("loop-values-beyond-64-bits")
        ctx.case(loop, nontrivial=True)
        big.append(loop)
        msg = oracles.o_loads_equal(loop, unrolled)
        if msg:
            ctx.violation("loop vs unrolling: " + msg, {"kind": "loads_equal", "a": loop, "b": unrolled, "check_vars": False})
    common.loads_corr(ctx, big, "LOADS(big loop values)")
    # a call of an included program (plain and template) inside a loop body is expanded like anywhere else
    from props import c07
    for k in range(ctx.n(4, 40)):
        msg, rep = c07.special_tree(ctx.rng, 0)
        ctx.count("include-call-in-loop-body")
        ctx.case(("loopcall", k, repr(rep["files"])), nontrivial=True)
        if msg:
            ctx.violation("loop vs unrolling (include call in the body): " + msg, rep)
    # interaction stream (harness/interact.py): the executable model is the oracle
    common.interaction_stream(ctx, ctx.n(200, 2500))
