"""C07 — calling an included program equals inlining it with renamed modes."""
import os

import numpy as np
import random
import shutil

import canon
import core
import gen
import oracles
import sx
from props import common

GATES = ["Sgate", "BSgate", "Dgate", "Vac", "Rgate", "Xgate", "MeasureX", "Kgate"]


def lit(rng, lo=0):
    r = rng.random()
    if r < 0.4:
        return ("int", str(rng.randrange(lo, 9)))
    if r < 0.8:
        return ("float", rng.choice(["0.5", "1.5", "0.25", "2.0", "0.125", "3.75"]))
    return ("complex", rng.choice(["1+2j", "0.5j", "2-1j"]))


def gen_sub(rng, name, inner):
    """a subroutine: operations on arbitrary mode numbers in arbitrary first-use order, optionally
    with parameters, optionally calling earlier subroutines (nested includes)"""
    nm = rng.randrange(1, 4)
    modes = rng.sample(range(0, 10), nm)
    params = rng.sample(["a", "al", "phi", "x", "t1", "op", "expr", "lambda", "kwargs", "q1_phase", "bb", "modes"],
                        rng.choice([0, 0, 1, 2]))
    body = []
    for _ in range(rng.randrange(1, 5)):
        k = rng.randrange(1, min(nm, 2) + 1)
        ms = rng.sample(modes, k)
        args = []
        for _ in range(rng.choice([0, 1, 2])):
            if params and rng.random() < 0.6:
                args.append(gen.gen_symexpr(rng, [("par", p) for p in rng.sample(params, rng.choice([1, 1, min(2, len(params))]))], rng.choice([1, 2]), need_all=True))
            else:
                args.append(lit(rng))
        body.append(("op", rng.choice(GATES), args, ms))
    # every mode and every parameter is used
    for m in modes:
        if not any(m in b[3] for b in body):
            body.append(("op", rng.choice(GATES), [], [m]))
    for p in params:
        if not any(("{" + p + "}") in gen.expr_symbols(a) for b in body if b[0] == "op" for a in b[2]):
            body.append(("op", "Rgate", [("par", p)], [rng.choice(modes)]))
    calls = []
    for sub in inner:
        if rng.random() < 0.6 and len(sub_modes(sub)) <= nm:
            for _ in range(rng.choice([1, 2])):
                ms = rng.sample(modes, len(sub_modes(sub)))
                kw = {}
                for p in sub["params"]:
                    if params and rng.random() < 0.5:
                        q = rng.choice(params)
                        # pass a parameter through, bare or inside an expression (its name may be that of
                        # another parameter of the called program)
                        kw[p] = ("par", q) if rng.random() < 0.6 else ("add", ("par", q), ("int", "1"))
                    else:
                        kw[p] = lit(rng, 1) if rng.random() < 0.7 else ("float", "0.75")
                calls.append(("call", sub["name"], kw, ms))
    for c in calls:
        body.insert(rng.randrange(len(body) + 1), c)
    rng.shuffle(body) if rng.random() < 0.3 else None
    used = set(sub["name"] for sub in inner if any(b[0] == "call" and b[1] == sub["name"] for b in body))
    # parameters passed through must still all be used: recompute
    return {"name": name, "params": params, "body": body, "inner": [s for s in inner if s["name"] in used or rng.random() < 0.3]}


def sub_modes(sub):
    ms = set()
    for b in sub["body"]:
        ms |= set(b[3])
    return sorted(ms)


def sub_params(sub):
    return sorted(sub["params"])


def flatten(sub, subs, sigma):
    """operations of a subroutine with its parameters bound by sigma (name -> expression AST)"""
    out = []
    for b in sub["body"]:
        if b[0] == "op":
            out.append((b[1], [gen.subst_expr(a, sigma) if sigma else a for a in b[2]], list(b[3])))
        else:
            inner = subs[b[1]]
            isig = {p: (gen.subst_expr(v, sigma) if sigma else v) for p, v in b[2].items()}
            isig = {p: strip(v) for p, v in isig.items()}
            mm = dict(zip(sub_modes(inner), b[3]))
            for (op, args, ms) in flatten(inner, subs, isig):
                out.append((op, args, [mm[m] for m in ms]))
    return out


def strip(e):
    while e[0] == "brk":
        e = e[1]
    return e


def render_ops(ops):
    t = ""
    for op, args, ms in ops:
        a = "(" + ", ".join(gen.r_expr(gen.fix(x), gen.Layout()) for x in args) + ")" if args else ""
        t += "%s%s | [%s]\n" % (op, a, ", ".join(str(m) for m in ms)) if len(ms) != 1 else "%s%s | %d\n" % (op, a, ms[0])
    return t


def render_sub(sub, paths, here):
    """file text of a subroutine; include paths relative to its own directory"""
    t = "name %s\nversion 1.0\n" % sub["name"]
    for s in sub["inner"]:
        t += 'include "%s"\n' % rel_include(paths[s["name"]], here)
    t += "\n"
    for b in sub["body"]:
        if b[0] == "op":
            t += render_ops([(b[1], b[2], b[3])])
        else:
            kw = ", ".join("%s=%s" % (p, gen.r_expr(v, gen.Layout())) for p, v in sorted(b[2].items()))
            args = "(" + kw + ")" if b[2] else ""
            t += "%s%s | [%s]\n" % (b[1], args, ", ".join(str(m) for m in b[3]))
    return t


def rel_include(target, here_dir):
    return os.path.relpath(target, here_dir) if here_dir else target


def gen_tree(rng):
    """file tree (relative paths), main file, expected inlined text"""
    nsubs = rng.randrange(1, 4)
    subs = []
    for i in range(nsubs):
        subs.append(gen_sub(rng, "Sub%d" % i, [s for s in subs if rng.random() < 0.6]))
    subd = {s["name"]: s for s in subs}
    dirs = ["", "lib", "lib/deep", "other", "lib.v2", "my lib"]
    exts = [".xbb", ".xbb", ".xbb", "", ".bb", ".txt", ".v1.xbb", ".XBB"]
    paths = {s["name"]: os.path.join(rng.choice(dirs), s["name"].lower() + rng.choice(exts)) for s in subs}
    main_dir = rng.choice(["", "prog", "prog/x"])
    main_path = os.path.join(main_dir, "main.xbb")
    files = {}
    for s in subs:
        files[paths[s["name"]]] = render_sub(s, paths, os.path.dirname(paths[s["name"]]))
    # main: include the top-level subroutines (some twice, some via ./ or an absolute path placeholder)
    top = [s for s in subs if rng.random() < 0.8] or [subs[-1]]
    inc_lines = []
    for s in top:
        rel = rel_include(paths[s["name"]], main_dir)
        style = rng.random()
        if style < 0.2:
            rel = "./" + rel
        elif style < 0.35:
            rel = "@ROOT@/" + paths[s["name"]]
        inc_lines.append(rel)
        if rng.random() < 0.25:
            inc_lines.append(rel)                   # repeated include line
    body = []
    inl = []
    for _ in range(rng.randrange(1, 4)):
        op = (rng.choice(GATES), [lit(rng)], [rng.randrange(0, 8)])
        body.append(("own", op))
    for s in top:
        for _ in range(rng.randrange(1, 4)):
            ms = rng.sample(range(0, 12), len(sub_modes(s)))
            kw = {p: lit(rng, 1) for p in s["params"]}
            body.insert(rng.randrange(len(body) + 1), ("call", s["name"], kw, ms))
    text = "name main\nversion 1.0\n" + "".join('include "%s"\n' % r for r in inc_lines) + "\n"
    inlined = "name main\nversion 1.0\n\n"
    for b in body:
        if b[0] == "own":
            text += render_ops([b[1]])
            inlined += render_ops([b[1]])
        else:
            kw = ", ".join("%s=%s" % (p, gen.r_expr(v, gen.Layout())) for p, v in sorted(b[2].items()))
            text += "%s%s | [%s]\n" % (b[1], "(" + kw + ")" if b[2] else "", ", ".join(str(m) for m in b[3]))
            s = subd[b[1]]
            mm = dict(zip(sub_modes(s), b[3]))
            ops = [(op, args, [mm[m] for m in ms]) for (op, args, ms) in flatten(s, subd, dict(b[2]))]
            inlined += render_ops(ops)
    files[main_path] = text
    info = {"subs": len(subs), "nested": sum(1 for s in subs if s["inner"]),
            "calls": sum(1 for b in body if b[0] == "call"), "templates": sum(1 for s in subs if s["params"])}
    return files, main_path, inlined, info


def materialise(files):
    root = oracles.write_tree({})
    out = {}
    for rel, content in files.items():
        content = content.replace("@ROOT@", root)
        path = os.path.join(root, rel)
        os.makedirs(os.path.dirname(path), exist_ok=True)
        with open(path, "w", encoding="utf-8") as f:
            f.write(content)
        out[rel] = content
    return root, out


def symlink_variant(root, real, main):
    """move one included file that itself includes something to zz_shared/ and leave a symbolic link in its
    place; next to the link target put decoys of the files it includes (same relative names, other
    content). Includes are resolved next to the path that was written, so nothing changes."""
    cands = [rel for rel, c in real.items() if rel != main and "include " in c]
    if not cands:
        return False
    rel = sorted(cands)[0]
    src = os.path.join(root, rel)
    dst_dir = os.path.join(root, "zz_shared")
    os.makedirs(dst_dir, exist_ok=True)
    dst = os.path.join(dst_dir, os.path.basename(rel))
    os.replace(src, dst)
    os.symlink(dst, src)
    import re as _re
    for inc in _re.findall(r'include "([^"]+)"', real[rel]):
        if not os.path.isabs(inc):
            decoy = os.path.normpath(os.path.join(dst_dir, inc))
            if not os.path.exists(decoy) and decoy.startswith(root):
                os.makedirs(os.path.dirname(decoy), exist_ok=True)
                name = os.path.splitext(os.path.basename(inc))[0].capitalize()
                with open(decoy, "w", encoding="utf-8") as f:
                    f.write("name %s\nversion 1.0\n\nDecoy | 0\n" % name)
    return True


def retry_after_missing(root, real, main, want):
    """a load that fails because a nested include is missing leaves nothing behind: once the file is
    there, the same load gives the program"""
    # a file that is included from an included file (the failure then happens while that file is walked)
    import re as _re
    nested = set()
    for rel0, c in real.items():
        if rel0 != main:
            nested |= {os.path.basename(x) for x in _re.findall(r'include "([^"]+)"', c)}
    cands = [rel for rel in real if rel != main and os.path.basename(rel) in nested]
    if not cands:
        cands = [rel for rel, c in real.items() if rel != main and "include " not in c]
    if not cands:
        return None
    rel = sorted(cands)[-1]
    path = os.path.join(root, rel)
    hidden = path + ".hidden"
    os.replace(path, hidden)
    try:
        r1 = oracles.impl_load_file(root, main, None, True)
    finally:
        os.replace(hidden, path)
    if r1[0] == "ok":
        return None                      # the file was not needed
    r2 = oracles.impl_load_file(root, main, None, True)
    if r2[0] != "ok":
        return "after a load that failed on a missing include (%s), the same load with the file present raises %r" % (rel, r2[1])
    d = common.cmp_impl(canon.canon_program(r2[1])[1], want, loose_kinds=True)
    if d:
        return "after a failed load the same tree loads differently: " + "; ".join(d[:3])
    return None


OOD = "out-of-domain"


def not_finite(x):
    """some number in the canonical structure is inf or nan"""
    if isinstance(x, (list, tuple)):
        return any(not_finite(y) for y in x)
    if isinstance(x, dict):
        return any(not_finite(y) for y in x.values())
    if isinstance(x, (float, complex)):
        return x != x or abs(x) == float("inf")
    return False


def check_tree(files, main, inlined, proc_dirs, model_lines=None, extras=0):
    root, real = materialise(files)
    try:
        if extras & 1:
            symlink_variant(root, real, main)
        ib, ob = core.impl_canon_loads(inlined)
        if ib[0] != "prog":
            return "inlined script is refused with %s: %r" % (ib[1:3], ob)
        if not_finite(ib[1]["ops"]):
            return OOD                         # a division by zero in the generated arithmetic: no finite value
        for pd, absolute in proc_dirs:
            pc = os.path.join(root, pd) if pd else root
            os.makedirs(pc, exist_ok=True)
            r = oracles.impl_load_file(root, main, pd or None, absolute)
            if r[0] != "ok":
                return "load with process directory %r (%s path) raises %r" % (
                    pd, "absolute" if absolute else "relative", r[1])
            a = canon.canon_program(r[1])[1]
            d = common.cmp_impl(a, ib[1], loose_kinds=True)
            if d:
                return "process directory %r: %s" % (pd, "; ".join(d[:4]))
        if extras & 2:
            msg = retry_after_missing(root, real, main, ib[1])
            if msg:
                return msg
        if model_lines is not None and not (extras & 1):
            fl = []
            for rel, content in real.items():
                fl += [os.path.join(root, rel), content]
            model_lines.append((core.cmd("LOAD", os.path.join(root, main), root, *fl), inlined))
        return None
    finally:
        shutil.rmtree(root, ignore_errors=True)


def exact_args(files, main, inlined):
    """load(main) against loads(inlined), argument by argument with repr (2 is not 2.0, -0.0 is not 0.0, 0 is
    not 0j), transforms by their listed registers and their value at a point"""
    root, real = materialise(files)
    try:
        r = oracles.impl_load_file(root, main, None, True)
        ib = core.impl_loads(inlined)
        if r[0] != "ok":
            return "load raises %r" % (r[1],)
        if ib[0] != "ok":
            return "inlined script is refused: %r" % (ib[1],)
        a, b = r[1].operations, ib[1].operations
        if [(o["op"], list(map(int, o["modes"]))) for o in a] != [(o["op"], list(map(int, o["modes"]))) for o in b]:
            return "operations %s, inlined %s" % ([(o["op"], o["modes"]) for o in a], [(o["op"], o["modes"]) for o in b])

        def show(v):
            if hasattr(v, "regrefs"):
                vals = {q: 0.75 + 0.5 * q for q in v.regrefs}
                return ("transform", sorted(v.regrefs), "%.12g" % complex(v.func(*[vals[q] for q in v.regrefs])).real)
            if isinstance(v, (bool, np.bool_)):
                return ("b", bool(v))
            if isinstance(v, (int, np.integer)):
                return ("i", int(v))
            if isinstance(v, (float, np.floating)):
                return ("f", repr(float(v)))
            if isinstance(v, (complex, np.complexfloating)):
                return ("c", repr(complex(v)))
            if isinstance(v, list):
                return [show(x) for x in v]
            return repr(v)
        for x, y in zip(a, b):
            ax = [show(v) for v in x.get("args", [])] + [(k, show(v)) for k, v in sorted(x.get("kwargs", {}).items())]
            ay = [show(v) for v in y.get("args", [])] + [(k, show(v)) for k, v in sorted(y.get("kwargs", {}).items())]
            if ax != ay:
                return "%s | %s: arguments %s, inlined %s" % (x["op"], x["modes"], ax, ay)
        return None
    finally:
        shutil.rmtree(root, ignore_errors=True)


def special_tree(rng, k):
    H = "name %s\nversion 1.0\n\n"
    kind = k % 4
    if kind == 0:
        # calls of included programs inside a loop body
        lo = rng.randrange(0, 3)
        files = {"prep.xbb": H % "Prep" + "Sgate(0.5) | 0\nBSgate | [0, 1]\n", "rot.xbb": H % "Rot" + "Rgate({alpha}, 2*{alpha}) | 0\n",
                 "main.xbb": 'name main\nversion 1.0\ninclude "prep.xbb"\ninclude "rot.xbb"\n\nfor int m in %d:%d\n    Prep | [m, m+1]\n    Rot(alpha=m) | 7\nVac | 0\n' % (lo, lo + 2)}
        inl = "name main\nversion 1.0\n\n" + "".join(
            "Sgate(0.5) | %d\nBSgate | [%d, %d]\nRgate(%d, 2*%d) | 7\n" % (m, m, m + 1, m, m) for m in (lo, lo + 1)) + "Vac | 0\n"
    elif kind == 1:
        # one template applied with values that are equal as numbers and different as values
        vals = rng.sample(["2", "2.0", "2+0j", "0", "0.0", "-0.0", "0j", "1", "1.0", "True"], 4)
        files = {"damp.xbb": H % "Damp" + "Dgate({g}, k=[{g}, 1]) | 0\n",
                 "main.xbb": 'name main\nversion 1.0\ninclude "damp.xbb"\n\n' + "".join("Damp(g=%s) | %d\n" % (v, i + 1) for i, v in enumerate(vals))}
        inl = "name main\nversion 1.0\n\n" + "".join("Dgate(%s, k=[%s, 1]) | %d\n" % (v, v, i + 1) for i, v in enumerate(vals))
    elif kind == 2:
        # a file that uses, as a plain operation, a name that is ALSO the name of a program its includer included
        nm = rng.choice(["Fourier", "Prep", "U2"])
        files = {"f.xbb": H % nm + "Rgate(0.5) | 0\n", "stage.xbb": H % "Stage" + "%s | 0\nSgate(1) | 1\n" % nm,
                 "main.xbb": 'name main\nversion 1.0\ninclude "f.xbb"\ninclude "stage.xbb"\n\n%s | 2\nStage | [6, 5]\n' % nm}
        inl = "name main\nversion 1.0\n\nRgate(0.5) | 2\n%s | 6\nSgate(1) | 5\n" % nm
    else:
        # an included program whose arguments are register transforms, applied to other modes: the transforms
        # are the ones written (expression, listed registers and function stay together)
        a, b, c = rng.sample(range(3, 9), 3)
        body = "MeasureX | 0\nMeasureX | 1\nDgate(2*q0 - q1/4, phi=3/(q1 + 2)) | 2\n"
        files = {"ff.xbb": H % "Feedfwd" + body, "main.xbb": 'name main\nversion 1.0\ninclude "ff.xbb"\n\nFeedfwd | [%d, %d, %d]\n' % (a, b, c)}
        inl = "name main\nversion 1.0\n\nMeasureX | %d\nMeasureX | %d\nDgate(2*q0 - q1/4, phi=3/(q1 + 2)) | %d\n" % (a, b, c)
    msg = exact_args(files, "main.xbb", inl)
    return msg, {"kind": "exact_tree", "files": files, "main": "main.xbb", "inlined": inl}


def replay(ctx, data):
    if data.get("kind") == "exact_tree":
        return exact_args(data["files"], data["main"], data["inlined"])
    if data.get("kind") == "tree":
        msg = check_tree(data["files"], data["main"], data["inlined"], [tuple(x) for x in data["proc_dirs"]],
                         extras=data.get("extras", 0))
        return None if msg == OOD else msg
    return oracles.generic_replay(data)


def run(ctx):
    ctx.rule = ("random file trees: 1-3 subroutine files in different directories (operations on arbitrary mode "
                "numbers in arbitrary first-use order, 0-2 template parameters, nested includes calling earlier "
                "subroutines and passing parameters through), a main file including them by relative, ./ and "
                "absolute paths with repeated include lines and calling each 1-3 times; loaded from 3 (quick) / 5 "
                "(thorough) process directories by absolute and relative file name; every fourth tree has an included file replaced by a symbolic link into another directory that holds decoys, every third is first loaded with a nested file missing and then again; oracle: load(main) equals "
                "loads(hand-inlined text computed from the generator's AST); model LOAD vs implementation; "
                "non-trivial = at least two calls of one subroutine or a nested include; distinct by file contents")
    n = ctx.n(150, 2500)
    dirs_all = [("", True), ("prog", True), ("lib/deep", False), ("other", True), ("", False)]
    lines = []
    for i in range(n):
        files, main, inlined, info = gen_tree(ctx.rng)
        proc_dirs = dirs_all[: ctx.n(3, 5)]
        ctx.case(sorted(files.items()), nontrivial=info["calls"] >= 2 or info["nested"] >= 1)
        for k, v in info.items():
            ctx.count("%s:%d" % (k, min(v, 6)))
        ctx.sample({"files": files, "main": main})
        extras = (1 if i % 4 == 1 else 0) | (2 if i % 3 == 2 else 0)
        if extras & 1:
            ctx.count("an included file is a symbolic link")
        if extras & 2:
            ctx.count("retry after a missing include")
        msg = check_tree(files, main, inlined, proc_dirs, lines, extras)
        if msg == OOD:
            ctx.ood += 1
            ctx.count("ood:division-by-zero")
        elif msg:
            ctx.violation("include: " + msg, {"kind": "tree", "files": files, "main": main, "inlined": inlined,
                                              "proc_dirs": proc_dirs, "extras": extras})
    # fixed shapes that random trees do not produce
    for k in range(ctx.n(8, 60)):
        msg, rep = special_tree(ctx.rng, k)
        ctx.count("special-shape:%d" % (k % 4))
        ctx.case(("special", k, repr(rep.get("files"))), nontrivial=True)
        if msg:
            ctx.violation("include: " + msg, rep)
    # files are text in UTF-8: a string literal with non-ASCII characters in the main file and in an included one
    for _ in range(ctx.n(3, 30)):
        w1, w2 = ctx.rng.sample(["é", "ü ö", "日本", "a·b", "naïve", "π"], 2)
        m = ctx.rng.randrange(0, 6)
        files = {"lib/u.xbb": 'name U\nversion 1.0\n\nG("%s", 0.5) | 0\n' % w1,
                 "main.xbb": 'name main\nversion 1.0\ninclude "lib/u.xbb"\n\nU | %d\nH("%s") | 1\n' % (m, w2)}
        inlined = 'name main\nversion 1.0\n\nG("%s", 0.5) | %d\nH("%s") | 1\n' % (w1, m, w2)
        ctx.count("non-ascii-text-in-files")
        ctx.case(sorted(files.items()), nontrivial=True)
        msg = check_tree(files, "main.xbb", inlined, [("", True)], lines, 0)
        if msg and msg != OOD:
            ctx.violation("include: " + msg, {"kind": "tree", "files": files, "main": "main.xbb", "inlined": inlined,
                                              "proc_dirs": [("", True)], "extras": 0})
    outs = core.model_batch([l for l, _ in lines])
    for (l, inlined), o in zip(lines, outs):
        m = sx.dec_result(o)
        ib, _ = core.impl_canon_loads(inlined)
        st, d = canon.cmp_result(m, ib, loose=True)
        if st == "ood":
            ctx.ood += 1
            ctx.count("ood:" + m[1])
        elif st == "differ":
            ctx.disagree("LOAD(include tree): " + "; ".join(d[:3]),
                         {"kind": "correspondence", "cmd": "LOAD", "inlined": inlined, "model": o[:1500]})
        else:
            ctx.traces += 1
