"""C08 — measured-register arguments become transforms computing the written formula."""
import random

import numpy as np
import sympy as sym

import canon
import core
import gen
import oracles
from props import common


def find_rrt_cases(script, scope, cases, text):
    """check every register argument of the loaded program against the written expression"""
    from blackbird.listener import RegRefTransform
    ic, obj = core.impl_canon_loads(text)
    if ic[0] != "prog":
        return "script with register arguments is refused with %s: %r" % (ic[1:3], obj)
    # collect written register expressions in order of appearance
    written = []
    for it in script["items"]:
        if it[0] != "stmt" or it[2] is None:
            continue
        for v in it[2]["pos"]:
            if v[0] == "expr" and any(s.startswith("q") for s in gen.expr_symbols(v[1])):
                written.append((it[1], v[1]))
        for k, v in it[2]["kw"]:
            if v[0] == "expr" and any(s.startswith("q") for s in gen.expr_symbols(v[1])):
                written.append((it[1], v[1]))
    got = []
    for o in obj.operations:
        for a in list(o.get("args", [])) + list(o.get("kwargs", {}).values()):
            if isinstance(a, RegRefTransform):
                got.append(a)
            elif isinstance(a, sym.Expr) and any(str(s).startswith("q") for s in a.free_symbols):
                return "register expression %s is delivered as a plain symbolic value" % a
    if len(got) != len(written):
        return "%d register arguments written, %d transforms delivered" % (len(written), len(got))
    for (op, e), t in zip(written, got):
        regs = sorted(int(s[1:]) for s in gen.expr_symbols(e) if s.startswith("q"))
        if sorted(t.regrefs) != regs or len(t.regrefs) != len(set(t.regrefs)):
            return "transform of %s lists registers %s, written registers %s" % (gen.r_expr(e, gen.Layout()), t.regrefs, regs)
        # float points and integer points (measurement results of photon-number detectors are integers; the
        # function must compute with them exactly as Python does, also beyond 64 bits)
        for pt in list(canon.POINTS) + [lambda i: 3 + 2 * i]:
            vals = {r: pt(i) for i, r in enumerate(regs)}
            env = dict(scope.vals)
            env.update({"q%d" % r: v for r, v in vals.items()})
            try:
                want = gen.py_eval(e, env)
            except (gen.OutOfDomain, ZeroDivisionError):
                continue
            try:
                have = t.func(*[vals[r] for r in t.regrefs])
            except ZeroDivisionError:
                continue
            if all(isinstance(v, int) for v in vals.values()):
                # the same integer results as NumPy integers (what a simulator returns for photon numbers)
                try:
                    have_np = t.func(*[np.int64(vals[r]) for r in t.regrefs])
                except ZeroDivisionError:
                    have_np = have
                except Exception as ex:  # noqa: BLE001
                    return "transform of %s applied to NumPy integer results %s raises %r" % (gen.r_expr(e, gen.Layout()), vals, ex)
                if not (np.all(np.isfinite(have_np)) and canon.close(have_np, want, 1e-9, 1e-12)) and np.all(np.isfinite(have_np)):
                    return "transform of %s gives %r at the NumPy integers %s, the written formula gives %r" % (
                        gen.r_expr(e, gen.Layout()), have_np, vals, want)
            if not isinstance(have, (int, float, complex, np.number)):
                return "transform of %s applied to the values of its listed registers returns %r, not a number" % (
                    gen.r_expr(e, gen.Layout()), have)
            if not canon.close(have, want, 1e-9, 1e-12):
                return "transform of %s gives %r at %s, the written formula gives %r" % (
                    gen.r_expr(e, gen.Layout()), have, vals, want)
    # arguments without registers stay plain values
    for o in obj.operations:
        pass
    return None


def check_tiny(text, regs):
    """a register with a minute (but non-zero) coefficient is still a register of the transform"""
    r = core.impl_loads(text)
    if r[0] != "ok":
        return "refused: %r" % (r[1],)
    for o in r[1].operations:
        for a in list(o.get("args", [])) + list(o.get("kwargs", {}).values()):
            if hasattr(a, "regrefs"):
                if sorted(a.regrefs) != regs:
                    return "transform %s lists registers %s, written registers %s" % (a.func_str, sorted(a.regrefs), regs)
    return None


def substr_corr(ctx, texts):
    """the model's script with register values written in (substRScript, the object of
    C08_transform_computes_written_formula) against the implementation: every transform of the loaded
    program, applied to the values of its listed registers, gives the number the implementation loads from
    the model's substituted text at the same argument position"""
    import enc
    import sx
    from blackbird.listener import RegRefTransform
    from props import c04
    import re as _re
    vals = {"q%d" % r: canon.POINTS[1](r) for r in range(0, 16)}
    lines = []
    for t in texts:
        # every spelling of a register in the text (q08 is register 8) gets that register's value
        spelled = {m: vals["q%d" % int(m[1:])] for m in set(_re.findall(r"\bq\d+\b", t)) if int(m[1:]) < 16}
        lines.append("SUBSTR\t" + sx.hexs(t) + "\t" + sx.hexs(enc.enc_kw(spelled)))
    outs = core.model_batch(lines)
    for text, o in zip(texts, outs):
        if o.startswith("(err") or o.startswith("bad"):
            ctx.disagree("SUBSTR: model answers %s" % o[:60], {"kind": "correspondence", "cmd": "SUBSTR", "text": text})
            continue
        mtext = c04.tokens_to_text(o)
        ia, oa = core.impl_canon_loads(text)
        ib, ob = core.impl_canon_loads(mtext)
        if ia[0] != "prog":
            ctx.ood += 1
            continue
        if ib[0] != "prog":
            if isinstance(ob, ZeroDivisionError) or "divide" in repr(ob) or "power" in repr(ob):
                ctx.ood += 1
                continue
            ctx.disagree("SUBSTR: the script with register values written in is refused (%s %r)" % (ib[1:3], ob),
                         {"kind": "correspondence", "cmd": "SUBSTR", "text": text, "model_text": mtext})
            continue
        bad = None
        if len(oa.operations) != len(ob.operations):
            bad = "%d operations vs %d" % (len(oa.operations), len(ob.operations))
        else:
            for k, (x, y) in enumerate(zip(oa.operations, ob.operations)):
                xa = list(x.get("args", [])) + [x.get("kwargs", {})[key] for key in x.get("kwargs", {})]
                ya = list(y.get("args", [])) + [y.get("kwargs", {}).get(key) for key in x.get("kwargs", {})]
                if len(xa) != len(ya):
                    bad = "operation %d: %d arguments vs %d" % (k, len(xa), len(ya))
                    break
                for u, v in zip(xa, ya):
                    if isinstance(u, RegRefTransform):
                        try:
                            have = u.func(*[vals["q%d" % r] for r in u.regrefs])
                        except ZeroDivisionError:
                            continue
                        if isinstance(v, RegRefTransform) or not isinstance(v, (int, float, complex, np.number)):
                            bad = "operation %d: transform %s, but the text with values written in gives %r" % (k, u.func_str, v)
                            break
                        if not (np.isfinite(have) and np.isfinite(v)):
                            continue
                        if not canon.close(have, v, 1e-9, 1e-12):
                            bad = "operation %d: transform %s gives %r, the written formula at the same values %r" % (
                                k, u.func_str, have, v)
                            break
                if bad:
                    break
        if bad:
            ctx.disagree("SUBSTR: " + bad, {"kind": "correspondence", "cmd": "SUBSTR", "text": text, "model_text": mtext})
        else:
            ctx.traces += 1


def check_intpoint(text, vals, want, np_too=False):
    """the transform of the first argument at integer values, against exact Python arithmetic"""
    r = core.impl_loads(text)
    if r[0] != "ok":
        return "refused: %r" % (r[1],)
    t = r[1].operations[0]["args"][0]
    if not hasattr(t, "regrefs"):
        # SymPy cancelled a register: only the remaining ones are listed
        return None
    try:
        have = t.func(*[vals[q] for q in t.regrefs])
    except KeyError:
        return "transform %s lists registers %s, written %s" % (t.func_str, t.regrefs, sorted(vals))
    if isinstance(want, int):
        ok = (not isinstance(have, bool)) and have == want
    else:
        ok = canon.close(have, want, 1e-12, 0.0)
    if not ok:
        return "transform %s gives %r at %s, exact arithmetic gives %r" % (t.func_str, have, vals, want)
    if np_too and not isinstance(want, int) and all(abs(v) < 2 ** 15 for v in vals.values()):
        # the same values as NumPy integers (fractional results only: no 64-bit wrap-around is involved)
        try:
            have_np = t.func(*[np.int64(vals[q]) for q in t.regrefs])
        except Exception as ex:  # noqa: BLE001
            return "transform %s applied to the NumPy integers %s raises %r" % (t.func_str, vals, ex)
        if not canon.close(have_np, want, 1e-9, 0.0):
            return "transform %s gives %r at the NumPy integers %s, exact arithmetic gives %r" % (t.func_str, have_np, vals, want)
    return None


def check_mixed(text, pn, regs):
    """one statement holds a template-parameter argument and a register argument"""
    from blackbird.listener import RegRefTransform
    r = core.impl_loads(text)
    if r[0] != "ok":
        return "refused: %r" % (r[1],)
    if sorted(r[1].parameters) != [pn]:
        return "free parameters %s, written {%s}" % (sorted(r[1].parameters), pn)
    seen_par, seen_reg = False, False
    for o in r[1].operations:
        for a in list(o.get("args", [])) + list(o.get("kwargs", {}).values()):
            if isinstance(a, RegRefTransform):
                if any(str(s) == pn for s in sym.sympify(a.expr).free_symbols) if hasattr(a, "expr") else False:
                    return "the template parameter %s is delivered inside a register transform" % pn
                if sorted(a.regrefs) == regs:
                    seen_reg = True
            elif isinstance(a, sym.Expr):
                names = sorted(str(s) for s in a.free_symbols)
                if names == [pn]:
                    seen_par = True
                else:
                    return "symbolic argument over %s delivered as a plain value" % names
    if not seen_par:
        return "the argument {%s} is not delivered as a free parameter" % pn
    if not seen_reg:
        return "the register expression over %s is not delivered as a transform of those registers" % regs
    return None


def replay(ctx, data):
    if data.get("kind") == "exact_tree":
        from props import c07
        return c07.exact_args(data["files"], data["main"], data["inlined"])
    if data.get("kind") == "intpoint":
        w = data["want"]
        return check_intpoint(data["text"], {int(k): v for k, v in data["vals"].items()}, float(w) if ("." in w or "e" in w) else int(w), data.get("np_too", False))
    if data.get("kind") == "mixed":
        return check_mixed(data["text"], data["param"], data["regs"])
    if data.get("kind") == "tiny":
        return check_tiny(data["text"], data["regs"])
    if data.get("kind") == "loop_rrt":
        return check_loop_rrt(data["loop"], data["unrolled"])
    if data.get("kind") == "rrt":
        scope = gen.Scope()
        scope.vals = data["vals"]
        return find_rrt_cases(data["script"], scope, None, data["text"])
    return oracles.generic_replay(data)


LOOP_FORMS = ["(k+1)*q%d - 2*q%d/k", "q%d/(q%d + k*k)", "k*q%d + q%d", "q%d**k - q%d", "(q%d - k)*(q%d + 1)"]


def loop_rrt_case(rng):
    """a register expression that mentions the loop variable: every iteration has its own transform"""
    a, b = rng.sample(range(0, 13), 2)
    lo = rng.randrange(1, 3)
    hi = lo + rng.randrange(2, 4)
    ty = rng.choice(["int", "float"])
    body = []
    for _ in range(rng.randrange(1, 3)):
        f = rng.choice(LOOP_FORMS) % (a, b)
        if rng.random() < 0.5:
            body.append("Dgate(%s, 0.1) | 3" % f)
        else:
            body.append("G(0.5, select=%s) | 1" % f)
    head = "name r\nversion 1.0\n\n"
    loop = head + "for %s k in %d:%d\n" % (ty, lo, hi) + "".join("    %s\n" % l for l in body) + "Vac | 0\n"
    lit = (lambda v: "%d.0" % v) if ty == "float" else (lambda v: "%d" % v)
    import re as _re
    unrolled = head + "".join(_re.sub(r"\bk\b", "(%s)" % lit(v), l) + "\n" for v in range(lo, hi) for l in body) + "Vac | 0\n"
    return loop, unrolled


def check_loop_rrt(loop, unrolled):
    a, oa = core.impl_canon_loads(loop)
    b, ob = core.impl_canon_loads(unrolled)
    if a[0] != "prog":
        return "loop script refused: %r" % (oa,)
    if b[0] != "prog":
        return "unrolled script refused: %r" % (ob,)
    d = common.cmp_impl(a[1], b[1], loose_kinds=True)
    if d:
        return "loop body with a register expression over the loop variable differs from its unrolling: " + "; ".join(d[:3])
    # the functions themselves, at a point
    for x, y in zip(oa.operations, ob.operations):
        for u, v in zip(list(x.get("args", [])) + list(x.get("kwargs", {}).values()),
                        list(y.get("args", [])) + list(y.get("kwargs", {}).values())):
            if hasattr(u, "func") and hasattr(v, "func"):
                vals = {r: 0.37 + 0.11 * r for r in set(u.regrefs) | set(v.regrefs)}
                try:
                    fu = u.func(*[vals[r] for r in u.regrefs])
                    fv = v.func(*[vals[r] for r in v.regrefs])
                except Exception as e:  # noqa: BLE001
                    return "transform raises %r" % (e,)
                if not canon.close(fu, fv, 1e-9, 1e-12):
                    return "transform of %s evaluates to %r, of the unrolled statement %s to %r" % (u.func_str, fu, v.func_str, fv)
    return None


def run(ctx):
    ctx.rule = ("random scripts with 1-3 polynomial/rational arguments over 1-5 distinct registers qN (int/float "
                "coefficients, declared variables), in positional and keyword position, next to plain arguments; "
                "oracle: regrefs = registers written (each once) and func(values in the listed order) = the written "
                "formula at 3 points, 1e-9; expressions in which SymPy cancels a register are not generated; for-loops "
                "whose body holds register expressions over the loop variable, compared with their unrolling statement by statement; model "
                "LOADS vs implementation; SUBSTR: the model's script with register values written in (substRScript) is "
                "loaded by the implementation and every transform of the original program, applied to those values, "
                "must give the number found at the same argument position; non-trivial = at least two distinct registers in one argument; distinct "
                "by text. Hash-seed independence of the pairing is C19's sweep.")
    n = ctx.n(400, 6000)
    texts = []
    rrt_texts = []
    for i in range(n):
        script, scope, cases = gen.gen_rrt_script(ctx.rng, {"depth": 2, "max_items": 5})
        text = gen.render(script)
        nregs = max(len([s for s in gen.expr_symbols(e) if s.startswith("q")]) for e, _ in cases)
        ctx.case(text, nontrivial=nregs >= 2)
        ctx.count("registers:%d" % nregs)
        for _, kwpos in cases:
            ctx.count("keyword" if kwpos else "positional")
        ctx.sample(text)
        texts.append(text)
        rrt_texts.append(text)
        msg = find_rrt_cases(script, scope, cases, text)
        if msg:
            ctx.violation("register transform: " + msg, {"kind": "rrt", "script": script, "vals": scope.vals, "text": text})
    for _ in range(ctx.n(40, 400)):
        a, b = ctx.rng.sample(range(0, 13), 2)
        tiny = ctx.rng.choice(["1e-17", "4e-19", "2.5e-300", "1e-16"])
        form = ctx.rng.choice(["0.5*q%d + %s*q%d", "q%d**2 - %s*q%d*q%d", "q%d/(2 + %s*q%d)"])
        ex = form % ((a, tiny, b) if form.count("%") == 3 else (a, tiny, a, b))
        text = "name r\nversion 1.0\n\nDgate(%s, 0.1) | 3\nG(select=%s) | 1\n" % (ex, ex)
        ctx.count("sub-epsilon-coefficient")
        ctx.case(text, nontrivial=True)
        texts.append(text)
        msg = check_tiny(text, sorted({a, b}))
        if msg:
            ctx.violation("register transform: " + msg, {"kind": "tiny", "text": text, "regs": sorted({a, b})})
    # integer measurement results (photon numbers) of any size: the transform computes with them as Python does,
    # exactly, also when an intermediate result leaves the 64-bit range
    for _ in range(ctx.n(40, 400)):
        a, b = ctx.rng.sample(range(0, 13), 2)
        form, fn = ctx.rng.choice([
            ("q%d**2*q%d**12 - 3*q%d" % (a, b, a), lambda x, y: x ** 2 * y ** 12 - 3 * x),
            ("1000003*q%d**3/(q%d + 1)" % (a, b), lambda x, y: 1000003 * x ** 3 / (y + 1)),
            ("q%d**9 - 3*q%d**8 + q%d" % (a, a, b), lambda x, y: x ** 9 - 3 * x ** 8 + y),
            ("(q%d + 1)**11 - q%d**11*q%d" % (a, a, b), lambda x, y: (x + 1) ** 11 - x ** 11 * y),
            ("1/(q%d + q%d)**2" % (a, b), lambda x, y: 1 / (x + y) ** 2),
            ("q%d**-3 + q%d" % (a, b), lambda x, y: x ** -3 + y),
            ("q%d + 1/q%d**2" % (b, a), lambda x, y: y + 1 / x ** 2)])
        text = "name r\nversion 1.0\n\nDgate(%s, 0.5) | 3\n" % form
        x, y = ctx.rng.choice([(7, 41), (2500000, 1), (99991, 3), (12, 2 ** 40)])
        recip = "1/" in form or "**-" in form
        if recip:
            x, y = ctx.rng.choice([(7, 41), (3, 5), (12, 2)])
        ctx.count("integer-results-beyond-64-bits")
        ctx.case((text, x, y), nontrivial=True)
        texts.append(text)
        msg = check_intpoint(text, {a: x, b: y}, fn(x, y), np_too=recip)
        if msg:
            ctx.violation("register transform: " + msg, {"kind": "intpoint", "text": text, "vals": {str(a): x, str(b): y}, "want": repr(fn(x, y)), "np_too": recip})
    # transforms inside an included program applied to other modes: expression, listed registers and function stay
    # together (they are the ones written in the included file)
    from props import c07
    for k in range(ctx.n(4, 40)):
        msg, rep = c07.special_tree(ctx.rng, 3)
        ctx.count("transform-inside-an-included-program")
        ctx.case(("inc-rrt", k, repr(rep["files"])), nontrivial=True)
        if msg:
            ctx.violation("register transform (included program): " + msg, rep)
    # a register argument next to a pure template-parameter argument in one statement: the parameter stays a
    # parameter, the register expression becomes a transform
    for _ in range(ctx.n(60, 600)):
        pn = ctx.rng.choice(["alpha", "p1", "a", "q1_phase", "op", "x"])
        a, b, c = ctx.rng.sample(range(0, 13), 3)
        rexpr = ctx.rng.choice(["0.5*q%d - q%d/4" % (a, b), "q%d + 2*q%d" % (a, b), "q%d**2 - q%d" % (b, a)])
        form = ctx.rng.randrange(3)
        if form == 0:
            text = "name r\nversion 1.0\n\nDgate({%s}, %s, phi=3/(q%d + 2)) | 2\n" % (pn, rexpr, c)
        elif form == 1:
            text = "name r\nversion 1.0\n\nDgate(%s, {%s}*2) | 2\nG(select={%s}) | 1\n" % (rexpr, pn, pn)
        else:
            text = "name r\nversion 1.0\n\nG(a={%s}, select=%s) | 1\n" % (pn, rexpr)
        ctx.count("register-argument-next-to-a-parameter-argument")
        ctx.case(text, nontrivial=True)
        texts.append(text)
        msg = check_mixed(text, pn, sorted({a, b}))
        if msg:
            ctx.violation("register transform: " + msg, {"kind": "mixed", "text": text, "param": pn, "regs": sorted({a, b})})
    for _ in range(ctx.n(60, 600)):
        loop, unrolled = loop_rrt_case(ctx.rng)
        ctx.count("loop-with-register-expression-over-loop-variable")
        ctx.case(loop, nontrivial=True)
        texts.append(loop)
        msg = check_loop_rrt(loop, unrolled)
        if msg:
            ctx.violation("register transform in a loop: " + msg, {"kind": "loop_rrt", "loop": loop, "unrolled": unrolled})
    common.loads_corr(ctx, texts, "LOADS(registers)")
    substr_corr(ctx, rrt_texts)
