"""C08 — measured-register arguments become transforms computing the written formula."""
import random

import sympy as sym

import canon
import core
import gen
import oracles
from props import common


def find_rrt_cases(script, scope, cases, text):
    """check every register argument of the loaded program against the written expression"""
    from blackbird.listener import RegRefTransform
    ic, obj = core.impl_canon_loads(text)
    if ic[0] != "prog":
        return "script with register arguments is refused with %s: %r" % (ic[1:3], obj)
    # collect written register expressions in order of appearance
    written = []
    for it in script["items"]:
        if it[0] != "stmt" or it[2] is None:
            continue
        for v in it[2]["pos"]:
            if v[0] == "expr" and any(s.startswith("q") for s in gen.expr_symbols(v[1])):
                written.append((it[1], v[1]))
        for k, v in it[2]["kw"]:
            if v[0] == "expr" and any(s.startswith("q") for s in gen.expr_symbols(v[1])):
                written.append((it[1], v[1]))
    got = []
    for o in obj.operations:
        for a in list(o.get("args", [])) + list(o.get("kwargs", {}).values()):
            if isinstance(a, RegRefTransform):
                got.append(a)
            elif isinstance(a, sym.Expr) and any(str(s).startswith("q") for s in a.free_symbols):
                return "register expression %s is delivered as a plain symbolic value" % a
    if len(got) != len(written):
        return "%d register arguments written, %d transforms delivered" % (len(written), len(got))
    for (op, e), t in zip(written, got):
        regs = sorted(int(s[1:]) for s in gen.expr_symbols(e) if s.startswith("q"))
        if sorted(t.regrefs) != regs or len(t.regrefs) != len(set(t.regrefs)):
            return "transform of %s lists registers %s, written registers %s" % (gen.r_expr(e, gen.Layout()), t.regrefs, regs)
        for pt in canon.POINTS:
            vals = {r: pt(i) for i, r in enumerate(regs)}
            env = dict(scope.vals)
            env.update({"q%d" % r: v for r, v in vals.items()})
            try:
                want = gen.py_eval(e, env)
            except (gen.OutOfDomain, ZeroDivisionError):
                continue
            try:
                have = t.func(*[vals[r] for r in t.regrefs])
            except ZeroDivisionError:
                continue
            if not canon.close(have, want, 1e-9):
                return "transform of %s gives %r at %s, the written formula gives %r" % (
                    gen.r_expr(e, gen.Layout()), have, vals, want)
    # arguments without registers stay plain values
    for o in obj.operations:
        pass
    return None


def replay(ctx, data):
    if data.get("kind") == "rrt":
        scope = gen.Scope()
        scope.vals = data["vals"]
        return find_rrt_cases(data["script"], scope, None, data["text"])
    return oracles.generic_replay(data)


def run(ctx):
    ctx.rule = ("random scripts with 1-3 polynomial/rational arguments over 1-5 distinct registers qN (int/float "
                "coefficients, declared variables), in positional and keyword position, next to plain arguments; "
                "oracle: regrefs = registers written (each once) and func(values in the listed order) = the written "
                "formula at 3 points, 1e-9; expressions in which SymPy cancels a register are not generated; model "
                "LOADS vs implementation; non-trivial = at least two distinct registers in one argument; distinct "
                "by text. Hash-seed independence of the pairing is C19's sweep.")
    n = ctx.n(400, 6000)
    texts = []
    for i in range(n):
        script, scope, cases = gen.gen_rrt_script(ctx.rng, {"depth": 2, "max_items": 5})
        text = gen.render(script)
        nregs = max(len([s for s in gen.expr_symbols(e) if s.startswith("q")]) for e, _ in cases)
        ctx.case(text, nontrivial=nregs >= 2)
        ctx.count("registers:%d" % nregs)
        for _, kwpos in cases:
            ctx.count("keyword" if kwpos else "positional")
        ctx.sample(text)
        texts.append(text)
        msg = find_rrt_cases(script, scope, cases, text)
        if msg:
            ctx.violation("register transform: " + msg, {"kind": "rrt", "script": script, "vals": scope.vals, "text": text})
    common.loads_corr(ctx, texts, "LOADS(registers)")
