"""C09 — programs assembled through the API serialise to valid, equivalent scripts."""
import numpy as np

import apigen
import canon
import core
import oracles
from props import c01, common


def check_spec(spec):
    import blackbird
    p = apigen.build(spec)
    before = canon.canon_program(p)[1]
    with core.quiet():
        try:
            text = blackbird.dumps(p)
        except Exception as e:  # noqa: BLE001
            return "dumps raises %r" % (e,), None
    ic, obj = core.impl_canon_loads(text)
    if ic[0] != "prog":
        return "serialised script is refused with %s: %r; text: %r" % (ic[1:3], obj, text[:500]), text
    d = common.cmp_impl(before, ic[1], exact=True)
    if d:
        return "%s; text: %r" % ("; ".join(d[:3]), text[:500]), text
    # array declarations reproduce shape and every element exactly (bit patterns)
    return None, text


def replay(ctx, data):
    if data.get("kind") == "api":
        return check_spec(data["spec"])[0]
    return oracles.generic_replay(data)


def run(ctx):
    ctx.rule = ("random BlackbirdProgram objects built through the API: Python and NumPy ints/floats/complex "
                "(special pool: +-0.0, 5e-324, 2.2e-308, 1e+-300, 1e16, int64 bounds, 2**70), bools, quote-free "
                "strings, lists of these in keyword position and in options, 2-D int/float/complex arrays (C order, Fortran order, transposed and strided views) up to "
                "4x4, real SymPy expressions in named parameters, operations with and without arguments, NumPy "
                "mode numbers; oracle: loads(dumps(p)) succeeds and equals p exactly (numbers ==, arrays element "
                "by element, symbolic values semantically); model serialiser vs real dumps text; excluded (no "
                "syntax exists, see open findings): positional list arguments, array-valued options; non-trivial "
                "= at least one non-integer argument; distinct by specification")
    n = ctx.n(400, 8000)
    progs = []
    for i in range(n):
        spec = apigen.g_program(ctx.rng)
        kinds = set()
        for o in spec["ops"]:
            for v in (o["args"] or []) + [v for _, v in (o["kwargs"] or [])]:
                kinds.add(v[0])
                ctx.count("value:" + v[0])
        ctx.case(repr(spec), nontrivial=bool(kinds - {"int", "npint"}))
        msg, text = check_spec(spec)
        if i < 3 and text:
            ctx.sample(text)
        if msg:
            ctx.violation("API round trip: " + msg, {"kind": "api", "spec": spec})
        else:
            progs.append(apigen.build(spec))
    c01.dumps_corr(ctx, progs)
    c01.unparse_corr(ctx, progs)
