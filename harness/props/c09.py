"""C09 — programs assembled through the API serialise to valid, equivalent scripts."""
import numpy as np

import apigen
import canon
import core
import oracles
import sx
from props import c01, common


def check_spec(spec):
    import blackbird
    p = apigen.build(spec)
    before = canon.canon_program(p)[1]
    with core.quiet():
        try:
            text = blackbird.dumps(p)
        except Exception as e:  # noqa: BLE001
            return "dumps raises %r" % (e,), None
    ic, obj = core.impl_canon_loads(text)
    if ic[0] != "prog":
        return "serialised script is refused with %s: %r; text: %r" % (ic[1:3], obj, text[:500]), text
    d = common.cmp_impl(before, ic[1], exact=True)
    if d:
        return "%s; text: %r" % ("; ".join(d[:3]), text[:500]), text
    # a program modified after it was serialised once is serialised as it is NOW
    import copy
    for o in p._operations:
        for a in list(o.get("args", [])) + list(o.get("kwargs", {}).values()):
            if isinstance(a, np.ndarray) and a.size and a.dtype.kind in "if":
                with core.quiet():
                    a.flat[0] = a.flat[0] + 1 if abs(float(a.flat[0])) < 1e15 else 0
                with core.quiet():
                    try:
                        t_now = blackbird.dumps(p)
                        t_copy = blackbird.dumps(copy.deepcopy(p))
                    except Exception as e:  # noqa: BLE001
                        return "dumps of the modified program raises %r" % (e,), text
                ic2, _ = core.impl_canon_loads(t_now)
                d2 = common.cmp_impl(canon.canon_program(p)[1], ic2[1], exact=True) if ic2[0] == "prog" else ["refused"]
                if d2 or t_now != t_copy:
                    return ("after an array argument was changed in place, dumps writes the old elements: %s" %
                            "; ".join(d2[:2]) or "text differs from that of a deep copy"), text
                return None, text
    return None, text


def fmt_laws(ctx):
    """The three facts about CPython's number formatting that the C01/C09 theorems assume (`LawfulFmt`),
    checked on the interpreter that runs the implementation: repr(x) starts with '-' exactly for a set sign
    bit and float(repr(abs(x))) == abs(x); repr(abs(x)) is ONE token of kind FLOAT for the shipped lexer and
    for the model lexer; the complex literal written by the serialiser is one COMPLEX token that the model's
    reader splits back into the two parts."""
    import math
    import struct
    from props import c14 as _c14
    pool = [0.0, -0.0, 5e-324, -5e-324, 2.2250738585072014e-308, 1e-300, 1e300, 1.7976931348623157e308, 1e16, 1e15,
            123456789012345678.0, 0.1, 1 / 3, 2.5, 1e-5, 1e-4, 0.0001, 100000.0, 1e22, 1e21, 9007199254740993.0]
    for _ in range(ctx.n(1500, 15000)):
        bits = ctx.rng.getrandbits(64)
        x = struct.unpack("<d", struct.pack("<Q", bits))[0]
        if math.isfinite(x):
            pool.append(x)
    lex_lines, lex_keep, cplx_lines, cplx_keep = [], [], [], []
    bad = 0
    for x in pool:
        t = repr(abs(x))
        neg = math.copysign(1.0, x) < 0
        if repr(x).startswith("-") != neg or float(t) != abs(x) or (neg and -float(t) != x):
            ctx.disagree("formatting law: repr(%r) = %r does not read back" % (x, repr(x)),
                         {"kind": "correspondence", "cmd": "FMT", "x": repr(x)})
            bad += 1
            continue
        toks = _c14.real_lex(t)
        if len(toks) != 1 or toks[0][0] != "FLOAT" or toks[0][1] != t:
            ctx.disagree("formatting law: repr(abs(x)) = %r is not one FLOAT token: %r" % (t, toks),
                         {"kind": "correspondence", "cmd": "FMT", "text": t})
            bad += 1
            continue
        lex_lines.append(core.cmd("LEX", t))
        lex_keep.append(t)
    # complex literals as the serialiser writes them
    for _ in range(ctx.n(400, 4000)):
        a, b = ctx.rng.choice(pool), ctx.rng.choice(pool)
        text = "%r%s%rj" % (a, "+-"[b < 0], abs(b))
        toks = _c14.real_lex(text)
        if len(toks) != 1 or toks[0][0] != "COMPLEX":
            ctx.disagree("formatting law: complex literal %r is not one COMPLEX token: %r" % (text, toks),
                         {"kind": "correspondence", "cmd": "FMT", "text": text})
            bad += 1
            continue
        cplx_lines.append(core.cmd("LOADS", "name a\nversion 1.0\n\nG(%s) | 0\n" % text, "/"))
        cplx_keep.append((text, a, abs(b) * (-1 if b < 0 else 1)))
    outs = core.model_batch(lex_lines)
    for t, o in zip(lex_keep, outs):
        ks = [x.split(":")[0] for x in o.split(" ") if x and not x.startswith("EOF:")]
        if ks != ["FLOAT"]:
            ctx.disagree("formatting law: the model lexer reads %r as %s" % (t, ks), {"kind": "correspondence", "cmd": "FMT", "text": t})
            bad += 1
        else:
            ctx.traces += 1
    outs = core.model_batch(cplx_lines)
    for (text, a, b), o in zip(cplx_keep, outs):
        m = sx.dec_result(o)
        try:
            v = m[1]["ops"][0]["args"][0][0]
            ok = v[0] == "c" and v[1].real == a and v[1].imag == b
        except Exception:  # noqa: BLE001
            ok = False
        if not ok:
            ctx.disagree("formatting law: the model reads the complex literal %r as %r" % (text, o[:200]),
                         {"kind": "correspondence", "cmd": "FMT", "text": text})
            bad += 1
        else:
            ctx.traces += 1
    ctx.extra["formatting_law_checks"] = {"reals": len(pool), "complex_literals": len(cplx_keep), "failed": bad}


def check_tdm_api(strs):
    import blackbird
    from blackbird.program import BlackbirdProgram
    p = BlackbirdProgram(name="t", version="1.0")
    p._type = {"name": "tdm", "options": {"temporal_modes": 2}}
    p._var = {"p0": np.array([[0.5, 1.5]])}
    p._operations = [{"op": "G", "args": [strs[0], "p0"], "kwargs": {"label": strs[1]}, "modes": [0]}]
    with core.quiet():
        try:
            text = blackbird.dumps(p)
        except Exception as e:  # noqa: BLE001
            return "dumps raises %r" % (e,)
    ic, obj = core.impl_canon_loads(text)
    if ic[0] != "prog":
        return "serialised script is refused: %r; text %r" % (obj, text[:300])
    o = obj.operations[0]
    if o["args"][0] != strs[0] or o["args"][1] != "p0" or o["kwargs"].get("label") != strs[1]:
        return "string arguments %r come back as %r / %r; text %r" % (strs, o["args"], o["kwargs"], text[:300])
    return None


CONST_EXPRS = ["-pi**2", "-pi**2/4", "-sin(1)**2", "pi/2", "1 - pi**2", "-2*pi**2", "sqrt(2)", "-E**2", "exp(1)**2",
               "-(pi + 1)**3", "-pi**-2", "2**pi", "-sqrt(3)**3/2"]


def check_api_special(kind, what):
    """values the random API generator does not produce: SymPy expressions WITHOUT free symbols (constants such
    as -pi**2, which still go through the printer's binding-order rules) and arrays of the less common integer
    and float dtypes"""
    import blackbird
    import sympy as sym
    from blackbird.program import BlackbirdProgram
    p = BlackbirdProgram(name="p", version="1.0")
    if kind == "const":
        v = sym.sympify(what)
        want = complex(v.evalf(30))
        p._operations = [{"op": "G", "args": [v, 0.5], "kwargs": {"k": v, "l": [v, 1]}, "modes": [0]}]
        p._modes = {0}
    else:
        a = np.array([[1, 2, 3], [4, 5, 120]], dtype=getattr(np, what))
        want = a.astype(float).tolist()
        p._operations = [{"op": "G", "args": [a], "kwargs": {"u": a.T.copy()}, "modes": [0, 1]}]
        p._modes = {0, 1}
    with core.quiet():
        try:
            text = blackbird.dumps(p)
        except Exception as e:  # noqa: BLE001
            return "dumps raises %r" % (e,)
    r = core.impl_loads(text)
    if r[0] != "ok":
        return "serialised script is refused: %r; text: %r" % (r[1], text[:300])
    o = r[1].operations[0]
    if kind == "const":
        got = [o["args"][0], o["kwargs"]["k"], o["kwargs"]["l"][0]]
        for g in got:
            if not isinstance(g, (int, float, complex, np.number)) or not canon.close(g, want, 1e-12, 0.0):
                return "the constant %s (= %r) comes back as %r; text: %r" % (what, want, g, text[:300])
    else:
        g = o["args"][0]
        if not isinstance(g, np.ndarray) or g.astype(float).tolist() != want or o["kwargs"]["u"].astype(float).tolist() != np.array(want).T.tolist():
            return "the %s array comes back as %r; text: %r" % (what, g, text[:300])
        if what.startswith(("uint", "int")) and g.dtype.kind != "i":
            return "the %s array comes back with dtype %s" % (what, g.dtype)
    return None


def replay(ctx, data):
    if data.get("kind") == "api_special":
        return check_api_special(data["what"][0], data["what"][1])
    if data.get("kind") == "tdm_api":
        return check_tdm_api(data["strs"])
    if data.get("kind") == "api":
        return check_spec(data["spec"])[0]
    return oracles.generic_replay(data)


def special_stream(ctx):
    for what in [("const", e) for e in CONST_EXPRS] + [("array", d) for d in ("uint8", "uint16", "uint32", "uint64", "int8", "int16", "int32", "float32", "float16")]:
        ctx.count("api-special:" + what[0])
        ctx.case(("api-special", what), nontrivial=True)
        msg = check_api_special(*what)
        if msg:
            ctx.violation("API round trip: " + msg, {"kind": "api_special", "what": list(what)})


def run(ctx):
    ctx.rule = ("random BlackbirdProgram objects built through the API: Python and NumPy ints/floats/complex "
                "(special pool: +-0.0, 5e-324, 2.2e-308, 1e+-300, 1e16, int64 bounds, 2**70), bools, quote-free "
                "strings, lists of these in keyword position and in options, 2-D int/float/complex arrays (C order, Fortran order, transposed and strided views) up to "
                "4x4, real SymPy expressions in named parameters, operations with and without arguments, NumPy "
                "mode numbers; the formatting hypotheses of the theorems (LawfulFmt) checked on 1500 / 15000 random doubles and the special pool; oracle: loads(dumps(p)) succeeds and equals p exactly (numbers ==, arrays element "
                "by element, symbolic values semantically); model serialiser vs real dumps text; excluded (no "
                "syntax exists, see open findings): positional list arguments, array-valued options; non-trivial "
                "= at least one non-integer argument; distinct by specification")
    special_stream(ctx)
    n = ctx.n(400, 8000)
    progs = []
    for i in range(n):
        spec = apigen.g_program(ctx.rng)
        kinds = set()
        for o in spec["ops"]:
            for v in (o["args"] or []) + [v for _, v in (o["kwargs"] or [])]:
                kinds.add(v[0])
                ctx.count("value:" + v[0])
        ctx.case(repr(spec), nontrivial=bool(kinds - {"int", "npint"}))
        msg, text = check_spec(spec)
        if i < 3 and text:
            ctx.sample(text)
        if msg:
            ctx.violation("API round trip: " + msg, {"kind": "api", "spec": spec})
        else:
            progs.append(apigen.build(spec))
    # programs of type tdm built through the API: string arguments that only begin like a p-array name stay strings
    for _ in range(ctx.n(40, 400)):
        strs = [ctx.rng.choice(["p0x", "p12 ab", "p1_", "p", "px1", "hello", "q0", "P0", "p0.5"]) for _ in range(2)]
        ctx.count("tdm-api-string-arguments")
        ctx.case(("tdm-api", tuple(strs)), nontrivial=True)
        msg = check_tdm_api(strs)
        if msg:
            ctx.violation("API round trip (tdm): " + msg, {"kind": "tdm_api", "strs": strs})
    c01.dumps_corr(ctx, progs)
    c01.unparse_corr(ctx, progs)
    fmt_laws(ctx)
