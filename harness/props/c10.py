"""C10 — ungrammatical scripts always raise BlackbirdSyntaxError at the offending token."""
import os
import random
import re

import canon
import core
import g4
import gen
import oracles
import sx
from props import common

VOCAB = ["+", "-", "*", "/", "**", "=", "for", "in", "1", "2.5", "3+2j", '"s"', "True", "1,2", "pi", "\n", "\t",
         "name", "version", "target", "type", "include", "sqrt", "sin", "log", ".", ",", ":", '"', "(", ")", "[", "]",
         "{", "}", "|", "array", "float", "complex", "int", "str", "bool", "q0", "MeasureX", "x", "G", "fock.sim",
         ";", "$", "@", "&", "%", "~", "`", "?", "\\", "é", "#c",
         # invisible and exotic characters: none of them is white space or a line end of the grammar
         "\x0b", "\x0c", "\x1c", "\x1d", "\x1e", "\x1f", "\x85", "\u00a0", "\u2028", "\u2029", "\u200b", "\ufeff",
         "\u3000", "\x00", "\x7f"]


def join_tokens(toks):
    """text of a token sequence: a space between tokens unless one of them is a line break or a tab"""
    out = ""
    prev = None
    for t in toks:
        if prev is not None and prev not in ("\n", "\r\n", "\r", "\t", "    ") and t not in ("\n", "\r\n", "\r", "\t", "    "):
            out += " "
        out += t
        prev = t
    return out


RECORDS = []
_PATCHED = [False]

MSG = {
    "is not a valid Blackbird symbol": "invalidSymbol", "missing an assignment": "missingAssignment",
    "has an incomplete value or expression": "incompleteValue", "which is not a valid": "invalidInVariable",
    "array declaration requires a new line": "arrayNeedsNewline", "- array": "invalidInArray",
    "is missing modes": "missingModes", "multiple modes must be separated": "modesNotSeparated",
    "blackbird 'name' statement is missing": "missingName", "blackbird 'version' statement is missing": "missingVersion",
}


def node_of(ctx):
    from blackbird.blackbirdParser import blackbirdParser as P
    cls = {P.StartContext: "start", P.MetadatablockContext: "metadatablock", P.ExpressionvarContext: "expressionvar",
           P.ArrayvarContext: "arrayvar", P.StatementContext: "statement"}.get(type(ctx), "other")

    def has(name):
        f = getattr(ctx, name, None)
        if f is None:
            return False
        try:
            return f() is not None
        except Exception:  # noqa: BLE001
            return False
    return "%s:%d%d%d%d%d" % (cls, has("name"), has("vartype"), has("ASSIGN"), has("operation"), has("measure"))


def patch_listener():
    """wrap BlackbirdErrorListener.syntaxError: record what it is handed and what it does"""
    if _PATCHED[0]:
        return
    from blackbird.error import BlackbirdErrorListener, BlackbirdSyntaxError
    orig = BlackbirdErrorListener.syntaxError

    def wrapped(self, recognizer, offendingSymbol, line, column, msg, e):
        ctx = e.ctx if e else recognizer._ctx
        anc = []
        p = getattr(ctx, "parentCtx", None)
        while p is not None:
            anc.append(node_of(p))
            p = getattr(p, "parentCtx", None)
        txt = offendingSymbol.text
        flags = [txt in {";", "[", "]", "\\", "$", "@", "&", "%", "~", "`", "?"}, txt == "\n",
                 "expecting NEWLINE" in msg, msg == "mismatched input '\\n' expecting {INT, '(', '['}",
                 "expecting {NEWLINE, ')', ']'}" in msg, "expecting {NEWLINE, 'name'}" in msg,
                 "expecting {NEWLINE, 'version'}" in msg]
        rec = {"ctx": node_of(ctx), "anc": ";".join(anc), "flags": "".join("1" if f else "0" for f in flags),
               "line": line, "col": column, "symbol": txt, "msg": msg}
        try:
            orig(self, recognizer, offendingSymbol, line, column, msg, e)
            rec["outcome"] = "returned"
        except BlackbirdSyntaxError as ex:
            m = str(ex.args[0]) if ex.args else ""
            kind = "generic"
            for k, v in MSG.items():
                if k in m:
                    kind = v
                    break
            mm = re.match(r"Blackbird SyntaxError \(line (\d+):(\d+)\)", m)
            rec["outcome"] = "syntax %s %s %s" % (mm.group(1) if mm else "?", mm.group(2) if mm else "?", kind)
            RECORDS.append(rec)
            raise
        except AttributeError:
            rec["outcome"] = "attribute"
            RECORDS.append(rec)
            raise
        except UnboundLocalError:
            rec["outcome"] = "unbound"
            RECORDS.append(rec)
            raise
        except Exception as ex:  # noqa: BLE001
            rec["outcome"] = "other " + type(ex).__name__
            RECORDS.append(rec)
            raise
        RECORDS.append(rec)
    BlackbirdErrorListener.syntaxError = wrapped
    _PATCHED[0] = True


def listener_corr(ctx):
    """model of the error listener's decision tree vs every real call recorded in this run"""
    recs = list(RECORDS)
    seen = set()
    uniq = []
    for r in recs:
        key = (r["ctx"], r["anc"], r["flags"], r["line"], r["col"], r["outcome"])
        if key not in seen:
            seen.add(key)
            uniq.append(r)
    outs = core.model_batch([core.cmd("ERRL", r["ctx"], r["anc"], r["flags"], str(r["line"]), str(r["col"])) for r in uniq])
    ninv = 0
    for r, o in zip(uniq, outs):
        parts = o.split(" ")
        if parts[-1] != "inv":
            ninv += 1
            ctx.disagree("ERRL: a context outside CtxInv reached the listener: %s ancestors %s" % (r["ctx"], r["anc"]),
                         {"kind": "correspondence", "cmd": "ERRL", "record": r})
            continue
        model = " ".join(parts[:-1])
        if model != r["outcome"]:
            ctx.disagree("ERRL: model %r, listener %r for context %s (%s)" % (model, r["outcome"], r["ctx"], r["msg"][:80]),
                         {"kind": "correspondence", "cmd": "ERRL", "record": r})
        else:
            ctx.traces += 1
    ctx.extra["error_listener_calls"] = len(recs)
    ctx.extra["error_listener_distinct_calls"] = len(uniq)
    ctx.extra["error_listener_contexts"] = sorted(set(r["ctx"].split(":")[0] for r in uniq))


def check_text(text, bnf):
    """returns (message|None, info)"""
    toks, eof = core.real_tokens(text)
    names = [t[0] for t in toks] + ["EOF"]
    acc, first_bad = g4.earley(bnf, names)
    info = {"grammatical": acc, "first_bad": first_bad, "tokens": len(toks)}
    st = core.syntax_stage(text)
    info["stage"] = st[0]
    if acc:
        if st[0] != "ok":
            return "grammatical script does not pass the syntax stage: %r" % (st[1],), info
        return None, info
    if st[0] == "ok":
        return "ungrammatical script passes the syntax stage (first bad token %d)" % first_bad, info
    if st[0] == "other":
        return "ungrammatical script raises %r instead of BlackbirdSyntaxError" % (st[1],), info
    m = re.match(r"Blackbird SyntaxError \(line (\d+):(\d+)\)", st[1])
    if not m:
        return "message carries no position: %r" % (st[1],), info
    line, col = int(m.group(1)), int(m.group(2)) - 1
    idx = None
    for k, t in enumerate(toks):
        if t[2] == line and t[3] == col:
            idx = k
            break
    if idx is None and (line, col) == eof:
        idx = len(toks)
    if idx is None:
        return "reported position %d:%d (1-based column) is not the start of a token: %r" % (line, col + 1, st[1]), info
    if idx < first_bad:
        return "reported token %d (line %d:%d) is earlier than the first bad token %d: %r" % (
            idx, line, col + 1, first_bad, st[1]), info
    info["reported"] = idx
    # load/loads as a whole
    r = core.impl_loads(text)
    if r[0] == "ok":
        return "ungrammatical script is loaded as a program", info
    from blackbird.error import BlackbirdSyntaxError
    if not isinstance(r[1], BlackbirdSyntaxError):
        return "loads raises %r instead of BlackbirdSyntaxError" % (r[1],), info
    return None, info


def check_deep(d, kind):
    """a stray or missing token at the bottom of d nested brackets: still a BlackbirdSyntaxError at that token
    (the error path must not need more stack than the parse that led to it)"""
    inner = {"stray": "1 2", "missing": "1 +", "stray-in-function": "1 2"}[kind]
    if kind == "stray-in-function":
        text = "name a\nversion 1.0\n\nG(" + "sin(" * d + inner + ")" * d + ") | 0\n"
        col = 2 + 4 * d + 2
    else:
        text = "name a\nversion 1.0\n\nG(" + "(" * d + inner + ")" * d + ") | 0\n"
        col = 2 + d + (2 if kind == "stray" else 3)
    r = core.impl_loads(text)
    from blackbird.error import BlackbirdSyntaxError
    if r[0] == "ok":
        return "ungrammatical script (nesting depth %d) is loaded as a program" % d
    if not isinstance(r[1], BlackbirdSyntaxError):
        return "an ungrammatical script with nesting depth %d raises %s instead of BlackbirdSyntaxError" % (d, type(r[1]).__name__)
    m = re.match(r"Blackbird SyntaxError \(line (\d+):(\d+)\)", str(r[1]))
    if not m or (int(m.group(1)), int(m.group(2)) - 1) != (4, col):
        return "nesting depth %d: position %s, the offending token is at 4:%d" % (d, str(r[1])[:50], col + 1)
    return None


def check_file_rewrite(good, bad):
    """load(path) reads the file as it is NOW: a grammatical file replaced, at the same path, by an
    ungrammatical text of the same length with the modification time put back, is refused (and the other
    way round is accepted)"""
    import blackbird
    import shutil
    from blackbird.error import BlackbirdSyntaxError
    assert len(good.encode("utf-8")) == len(bad.encode("utf-8"))
    root = oracles.write_tree({"f.xbb": good})
    path = os.path.join(root, "f.xbb")
    try:
        with core.quiet():
            try:
                blackbird.load(path)
            except Exception as e:  # noqa: BLE001
                return "the grammatical file is refused: %r" % (e,)
        st = os.stat(path)
        with open(path, "w", encoding="utf-8") as f:
            f.write(bad)
        os.utime(path, ns=(st.st_atime_ns, st.st_mtime_ns))
        with core.quiet():
            try:
                blackbird.load(path)
                return "after the file was replaced by an ungrammatical text (same length, same mtime) load still returns a program"
            except BlackbirdSyntaxError:
                pass
            except Exception as e:  # noqa: BLE001
                return "the ungrammatical file raises %r instead of BlackbirdSyntaxError" % (e,)
        with open(path, "w", encoding="utf-8") as f:
            f.write(good)
        os.utime(path, ns=(st.st_atime_ns, st.st_mtime_ns))
        with core.quiet():
            try:
                blackbird.load(path)
            except Exception as e:  # noqa: BLE001
                return "after the grammatical text was put back load raises %r" % (e,)
        return None
    finally:
        shutil.rmtree(root, ignore_errors=True)


def check_file_oddities(good):
    """(a) a byte order mark is a character like any other: a file that starts with U+FEFF is ungrammatical for
    load() exactly as the same text is for loads(); (b) loads() takes TEXT: a one-line text that happens to spell
    the path of an existing script file is a token soup, not that file"""
    import blackbird
    import shutil
    from blackbird.error import BlackbirdSyntaxError
    root = oracles.write_tree({"prog.xbb": good, "bom.xbb": "\ufeff" + good, "dir/inner.xbb": good})
    old = os.getcwd()
    try:
        os.chdir(root)
        with core.quiet():
            try:
                blackbird.load(os.path.join(root, "bom.xbb"))
                return "a file that starts with a byte order mark (U+FEFF, an invalid symbol) is loaded as a program"
            except BlackbirdSyntaxError:
                pass
            except Exception as e:  # noqa: BLE001
                return "a file that starts with a byte order mark raises %r instead of BlackbirdSyntaxError" % (e,)
        for text in (os.path.join(root, "prog.xbb"), "prog.xbb", "dir/inner.xbb", "./prog.xbb"):
            r = core.impl_loads(text)
            if r[0] == "ok":
                return "loads(%r) returns the program stored in the file of that name" % (text,)
            if not isinstance(r[1], BlackbirdSyntaxError):
                return "loads(%r) raises %r instead of BlackbirdSyntaxError" % (text, r[1])
        return None
    finally:
        os.chdir(old)
        shutil.rmtree(root, ignore_errors=True)


def replay(ctx, data):
    if data.get("kind") == "file_oddities":
        return check_file_oddities(data["good"])
    if data.get("kind") == "file_rewrite":
        return check_file_rewrite(data["good"], data["bad"])
    if data.get("kind") == "deep":
        return check_deep(data["depth"], data["what"])
    if data.get("kind") == "syntax":
        return check_text(data["text"], g4.load_bnf(core.REPO))[0]
    return oracles.generic_replay(data)


def mutants(rng, text, per_script):
    """single-token deletions, insertions, substitutions, adjacent swaps and truncations of a script"""
    toks, _ = core.real_tokens(text)
    ts = [t[1] for t in toks]
    n = len(ts)
    out = []
    positions = list(range(n))
    rng.shuffle(positions)
    for p in positions[:per_script]:
        k = rng.randrange(5)
        if k == 0:
            out.append(("delete", ts[:p] + ts[p + 1:]))
        elif k == 1:
            out.append(("insert", ts[:p] + [rng.choice(VOCAB)] + ts[p:]))
        elif k == 2:
            out.append(("substitute", ts[:p] + [rng.choice(VOCAB)] + ts[p + 1:]))
        elif k == 3 and p + 1 < n:
            out.append(("swap", ts[:p] + [ts[p + 1], ts[p]] + ts[p + 2:]))
        else:
            out.append(("truncate", ts[:p]))
    return [(k, join_tokens(t)) for k, t in out]


def run(ctx):
    ctx.rule = ("valid scripts (plain, templates, register arguments, loops, arrays, options) and, for each, "
                "single-token deletions / insertions / substitutions / adjacent swaps / truncations at random "
                "positions (40 per script quick, every position thorough), the same scripts and mutants behind leading indentation or blank lines, token soups over the vocabulary "
                "including the eleven 'invalid symbol' characters, and character soups; for every text the token "
                "stream of the shipped lexer is classified by an Earley recogniser over src/blackbird.g4 "
                "(grammatical? first token at which no sentence can continue); oracle on the implementation: "
                "grammatical <=> passes the syntax stage; ungrammatical => BlackbirdSyntaxError from the syntax "
                "stage and from loads, message position (1-based column) is the start of a token not earlier than "
                "the first bad token; a stray / missing token at the bottom of 40-800 nested brackets (below the depth at which the parser itself exhausts the stack) must still be reported as BlackbirdSyntaxError at that token; a file replaced at the same path by an ungrammatical text of the same length and modification time; model parser verdict vs Earley verdict; non-trivial = ungrammatical input "
                "with at least 5 tokens; distinct by text")
    bnf = g4.load_bnf(core.REPO)
    patch_listener()
    del RECORDS[:]
    nscripts = ctx.n(60, 400)
    per = ctx.n(40, 10 ** 6)
    texts = []
    for i in range(nscripts):
        r = i % 4
        if r == 0:
            s, _ = gen.gen_script(ctx.rng, {"depth": 2, "max_items": 6})
        elif r == 1:
            s, _, _ = gen.gen_template(ctx.rng, {"depth": 1, "max_items": 5})
        elif r == 2:
            s, _, _ = gen.gen_rrt_script(ctx.rng, {"depth": 1, "max_items": 5})
        else:
            s, _ = gen.gen_script(ctx.rng, {"depth": 1, "max_items": 4})
        lay = gen.Layout(random.Random(ctx.rng.random())) if i % 3 == 0 else None
        t = gen.render(s, lay)
        texts.append(("valid", t))
        texts += mutants(ctx.rng, t, per)
        if i < ctx.n(25, 200):
            # what comes before `name` matters: an indentation there is ungrammatical, blank lines there shift
            # every later position
            ms = mutants(ctx.rng, t, 2)
            for lead in ("    ", "\t", "\n\n", " \n", "\n    "):
                texts.append(("leading-whitespace", lead + t))
                for _k, m in ms[:1]:
                    texts.append(("leading-whitespace", lead + m))
    for _ in range(ctx.n(300, 3000)):
        texts.append(("token-soup", join_tokens([ctx.rng.choice(VOCAB) for _ in range(ctx.rng.randrange(1, 12))])))
    for _ in range(ctx.n(200, 2000)):
        texts.append(("char-soup", "".join(ctx.rng.choice("ab1 .,()[]{}|=+-*/\n\t\"#qjeE;$é0\x0c\x85\u00a0\u2028\x1f") for _ in range(ctx.rng.randrange(1, 25)))))
    for _ in range(ctx.n(100, 1000)):
        head = "name a\nversion 1.0\n"
        texts.append(("soup-after-header", head + join_tokens([ctx.rng.choice(VOCAB) for _ in range(ctx.rng.randrange(1, 10))])))
    seen = set()
    uniq = []
    for k, t in texts:
        if t not in seen:
            seen.add(t)
            uniq.append((k, t))
    outs = core.model_batch([core.cmd("SYNTAX", t) for _, t in uniq])
    for (k, t), o in zip(uniq, outs):
        msg, info = check_text(t, bnf)
        ctx.count(k)
        ctx.count("grammatical" if info["grammatical"] else "ungrammatical")
        ctx.case(t, nontrivial=(not info["grammatical"]) and info["tokens"] >= 5)
        if k != "valid" and len(ctx.samples) < 4 and not info["grammatical"]:
            ctx.sample(t)
        if msg:
            ctx.violation("syntax stage: " + msg, {"kind": "syntax", "text": t})
        mv = (o == "ok")
        if mv != info["grammatical"]:
            ctx.disagree("SYNTAX: model parser says %s, the grammar (Earley) says %s" % (o, info["grammatical"]),
                         {"kind": "correspondence", "cmd": "SYNTAX", "text": t})
        else:
            ctx.traces += 1
    for d in (40, 200, 350, 500, 650, 800):
        for kind in ("stray", "missing") + (("stray-in-function",) if d <= 200 else ()):
            ctx.count("deep-nesting-with-a-fault")
            ctx.case(("deep", d, kind), nontrivial=True)
            msg = check_deep(d, kind)
            if msg:
                ctx.violation("syntax stage: " + msg, {"kind": "deep", "depth": d, "what": kind})
    for _ in range(ctx.n(10, 100)):
        sc, _ = gen.gen_script(ctx.rng, {"depth": 1, "max_items": 4})
        good = gen.render(sc)
        cands = [i for i, c in enumerate(good) if c == "|"]
        if not cands:
            continue
        i = ctx.rng.choice(cands)
        bad = good[:i] + "," + good[i + 1:]
        ctx.count("file-replaced-at-the-same-path")
        ctx.case(("file", good, i), nontrivial=True)
        msg = check_file_rewrite(good, bad)
        if msg:
            ctx.violation("syntax stage (load from a file): " + msg, {"kind": "file_rewrite", "good": good, "bad": bad})
        msg = check_file_oddities(good)
        if msg:
            ctx.violation("syntax stage (files): " + msg, {"kind": "file_oddities", "good": good})
    listener_corr(ctx)
