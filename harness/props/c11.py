"""C11 — ill-formed but grammatical programs are refused, never silently accepted."""
import os
import random
import re
import shutil

import canon
import core
import gen
import oracles
import sx
from props import common

UNDEF = "zz_undefined"


def locate(text, ident, last=False, span=None):
    """1-based line and 0-based column of the first (or last) occurrence of ident as a whole word
    inside the faulty fragment (`span` = its character range; default: after the metadata block)"""
    start = text.index("\n\n") if "\n\n" in text else 0
    end = len(text)
    if span:
        start, end = span
    rx = re.compile(r"(?<![0-9A-Za-z_])" + re.escape(ident) + r"(?![0-9A-Za-z_])")
    ms = list(rx.finditer(text, start, end))
    m = ms[-1] if last else ms[0]
    before = text[: m.start()]
    return before.count("\n") + 1, len(before) - (before.rfind("\n") + 1)


def faults(rng, base_decls):
    """(class, slot, statement text) — each a grammatical fragment carrying exactly one fault;
    base_decls declares int n_ = 2, float f_ = 0.5, complex c_ = 1+2j, str s_ = "a", float array A_ (2x2)"""
    u = UNDEF
    f = []
    # undefined names in every slot
    f += [("undefined", "positional", "G(%s) | 0\n" % u), ("undefined", "positional-expr", "G(2*%s+1) | 0\n" % u),
          ("undefined", "keyword", "G(a=%s) | 0\n" % u), ("undefined", "list-element", "G(a=[1, %s]) | 0\n" % u),
          ("undefined", "mode", "G | %s\n" % u), ("undefined", "mode-list", "G | [0, %s]\n" % u), ("undefined", "mode-list-first", "G | [%s, 1]\n" % u),
          ("undefined", "array-index", "G(A_[%s]) | 0\n" % u),
          ("undefined", "indexed-array-name", "G(%s[0]) | 0\n" % u),
          ("undefined", "loop-list", "for int m_ in [1, %s]\n    G | m_\n" % u),
          ("undefined", "loop-body", "for int m_ in 0:2\n    G(%s) | m_\n" % u),
          ("undefined", "scalar-declaration", "float w_ = 1 + %s\n" % u),
          ("undefined", "array-declaration", "float array B_ =\n    1, %s\n" % u),
          ("undefined", "function-argument", "G(sin(%s)) | 0\n" % u)]
    # the loop variable is not defined after its loop (the unrolled script would be refused)
    lv = "lv_"
    for slot, use in (("mode", "G | %s\n"), ("positional", "G(%s) | 0\n"), ("keyword", "G(a=2*%s) | 0\n"),
                      ("list-element", "G(a=[1, %s]) | 0\n"), ("array-index", "G(A_[%s]) | 0\n"),
                      ("scalar-declaration", "int w_ = %s + 1\n"), ("later-loop-list", "for int m_ in [0, %s]\n    G | m_\n")):
        loop = rng.choice(["for int %s in 0:2\n    G | %s\n", "for int %s in [1, 0]\n    G(%s) | 0\n",
                           "for int %s in 1:3\n    G | 0\n    H(%s) | 1\n"]) % (lv, lv)
        f.append(("undefinedAfterLoop", slot + ":" + lv, loop + use % lv))
    # reserved names
    for nm in ("q0", "q12", "name", "version", "target", "type"):
        kind = "reservedRegref" if nm.startswith("q") else "reservedKeyword"
        f.append((kind, "scalar-declaration:" + nm, "float %s = 1\n" % nm))
        f.append((kind, "array-declaration:" + nm, "float array %s =\n    1, 2\n" % nm))
    # non-integer modes
    for what, e in (("float-literal", "0.5"), ("float-variable", "f_"), ("computed-float", "n_/2"), ("complex", "c_"),
                    ("complex-literal", "1j"), ("string-variable", "s_"), ("float-integer-valued", "2.0")):
        f.append(("mode", what, "G | %s\n" % e))
        f.append(("mode", what + "-in-list", "G | [0, %s]\n" % e))
        f.append(("mode", what + "-first-in-list", "G | [%s, 0]\n" % e))
        f.append(("mode", what + "-middle-in-list", "G(1) | (2, %s, 0)\n" % e))
    # complex value for int / float variables
    for ty in ("int", "float"):
        for what, e in (("literal", "1+2j"), ("literal-pure", "2j"), ("computed", "2*1j"), ("computed-variable", "c_*2"),
                        ("variable", "c_"), ("power", "1j**3"),
                        # complex values whose imaginary part happens to be zero are complex all the same
                        ("zero-imaginary-product", "1j*1j"), ("zero-imaginary-difference", "2j - 2j"),
                        ("zero-imaginary-literal", "1+0j"), ("zero-imaginary-square", "c_*c_ - c_*c_")):
            f.append(("complex-to-" + ty, "scalar:" + what, "%s w_ = %s\n" % (ty, e)))
            f.append(("complex-to-" + ty, "array:" + what, "%s array B_ =\n    1, %s\n" % (ty, e)))
    # loop values not of the loop type
    for ty, bad in (("int", '"a"'), ("int", "2.5"), ("int", "1j"), ("int", "f_"), ("float", '"a"'), ("float", "c_"),
                    ("int", "2.00001"), ("int", "2.9999999999999996"), ("int", "0.07*100"), ("int", "100000.4"), ("int", "1e-9"),
                    ("str", "1"), ("str", "n_"), ("bool", '"a"'), ("bool", "2")):
        f.append(("loop-value", "%s:%s" % (ty, bad), "for %s m_ in [%s]\n    G(m_) | 0\n" % (ty, bad)))
        good = {"int": "1", "float": "0.5", "str": '"s"', "bool": "True"}[ty]
        f.append(("loop-value", "%s:%s:after-good" % (ty, bad), "for %s m_ in %s, %s\n    G(m_) | 0\n" % (ty, good, bad)))
    # a range is a list of integers: as values of a str loop, or of a bool loop beyond 0 and 1, they are of the wrong type
    for ty, rg in (("str", "0:2"), ("str", "1:2"), ("bool", "0:3"), ("bool", "2:4"), ("bool", "1:6:2")):
        f.append(("loop-value", "%s:range %s" % (ty, rg), "for %s m_ in %s\n    G(m_) | 0\n" % (ty, rg)))
    # a value of the wrong type that EQUALS an earlier listed value (1+0j == 1.0 and hash alike in Python)
    for ty, goods, bad in (("float", "1.0", "1+0j"), ("int", "0, 2", "2+0j"), ("int", "3, 0, 1", "0j"), ("float", "0.5, 2.0", "2+0j"),
                           ("int", "2", "2.5 - 0.5 + 0j"), ("float", "0.0", "0j")):
        f.append(("loop-value", "%s:%s:equal-to-earlier" % (ty, bad), "for %s m_ in [%s, %s]\n    G(m_) | 0\n" % (ty, goods, bad)))
    # an array given as ONE template parameter needs a declared shape to be split into elements
    for ty in ("float", "int", "complex"):
        f.append(("array-parameter-without-shape", ty, "%s array B_ =\n    {pp_}\n" % ty))
        f.append(("array-parameter-without-shape", ty + ":used", "%s array B_ =\n    {pp_}\nG(B_) | 0\n" % ty))
    return f


INC_FILES = {
    "sub2.xbb": "name Sub2\nversion 1.0\n\nSgate(0.5) | 3\nBSgate | [3, 7]\n",
    "tmpl.xbb": "name Tmpl\nversion 1.0\n\nSgate({a}) | 0\nRgate({b}) | 1\n",
}
INC_FAULTS = [
    ("include-arity", "too-few-modes", 'include "sub2.xbb"', "Sub2 | 1\n"),
    ("include-arity", "too-many-modes", 'include "sub2.xbb"', "Sub2 | [1, 2, 3]\n"),
    # the count that matters is the number of modes WRITTEN, not of distinct modes (seeded C11/k)
    ("include-arity", "too-many-modes-repeated", 'include "sub2.xbb"', "Sub2 | [2, 1, 2]\n"),
    ("include-arity", "too-many-modes-repeated-adjacent", 'include "sub2.xbb"', "Sub2 | [1, 1, 2]\n"),
    ("include-arity", "too-many-modes-all-equal", 'include "sub2.xbb"', "Sub2 | [3, 3, 3, 3]\n"),
    ("include-arity", "template-too-many-modes-repeated", 'include "tmpl.xbb"', "Tmpl(a=1, b=2) | [0, 1, 0]\n"),
    ("include-keywords", "arguments-for-non-template", 'include "sub2.xbb"', "Sub2(a=1) | [1, 2]\n"),
    ("include-keywords", "empty-arguments-for-non-template", 'include "sub2.xbb"', "Sub2() | [1, 2]\n"),
    ("include-keywords", "missing-arguments", 'include "tmpl.xbb"', "Tmpl | [1, 2]\n"),
    ("include-keywords", "missing-one", 'include "tmpl.xbb"', "Tmpl(a=1) | [1, 2]\n"),
    ("include-keywords", "extra-one", 'include "tmpl.xbb"', "Tmpl(a=1, b=2, c=3) | [1, 2]\n"),
    ("include-keywords", "wrong-name", 'include "tmpl.xbb"', "Tmpl(a=1, bb=2) | [1, 2]\n"),
    ("include-arity", "template-arity", 'include "tmpl.xbb"', "Tmpl(a=1, b=2) | [1]\n"),
    # the modes listed at the call of an included program are modes like any other
    ("mode", "include-call:float-literal", 'include "sub2.xbb"', "Sub2 | [1, 1.5]\n"),
    ("mode", "include-call:float-integer-valued", 'include "sub2.xbb"', "Sub2 | [2.0, 1]\n"),
    ("mode", "include-call:computed-float", 'include "sub2.xbb"', "Sub2 | [3/2, 0]\n"),
    ("mode", "include-call:complex", 'include "sub2.xbb"', "Sub2 | [0, 1j]\n"),
    ("mode", "include-call:template-float", 'include "tmpl.xbb"', "Tmpl(a=1, b=2) | [0.5, 1]\n"),
    ("mode", "include-call:string", 'include "sub2.xbb"', 'str sm_ = "a"\nSub2 | [sm_, 1]\n'),
]

DECLS = 'int n_ = 2\nfloat f_ = 0.5\ncomplex c_ = 1+2j\nstr s_ = "a"\nfloat array A_ =\n    1, 2\n    3, 4\n'


def check_fault(cls, text, ident=None, span=None):
    ic, obj = core.impl_canon_loads(text)
    if ic[0] == "prog":
        return "faulty script (%s) is accepted: operations %s, variables %s" % (
            cls, [(o["op"], o["modes"]) for o in ic[1]["ops"]][:5], ic[1]["vars"][:6])
    if cls in ("undefined", "undefinedAfterLoop", "reservedRegref", "reservedKeyword"):
        if ic[1] != "syntax":
            return "%s name raises %r, not BlackbirdSyntaxError" % (cls, obj)
        msg = str(obj.args[0]) if obj.args else ""
        if ident is not None:
            line, col = locate(text, ident, last=(cls == "undefinedAfterLoop"), span=span)
            if ("'%s'" % ident) not in msg:
                return "message does not name the identifier %s: %r" % (ident, msg)
            m = re.search(r"\(line (\d+):(\d+)\)", msg)
            if not m or int(m.group(1)) != line or int(m.group(2)) not in (col, col + 1):
                return "message position %s, identifier %s is at line %d column %d: %r" % (
                    m.groups() if m else None, ident, line, col, msg)
    return None


def replay(ctx, data):
    if data.get("kind") == "fault":
        if data.get("files"):
            root = oracles.write_tree(data["files"])
            old = os.getcwd()
            try:
                os.chdir(root)
                return check_fault(data["cls"], data["text"], data.get("ident"), data.get("span"))
            finally:
                os.chdir(old)
                shutil.rmtree(root, ignore_errors=True)
        return check_fault(data["cls"], data["text"], data.get("ident"), data.get("span"))
    return oracles.generic_replay(data)


def run(ctx):
    ctx.rule = ("otherwise valid random scripts with exactly one fault injected at a random statement position: "
                "an undefined name in each of 12 syntactic slots, a reserved name (qN, name, version, target, type) "
                "as scalar or array variable, the variable of a finished loop in each of seven slots, a mode of float/complex/string value (literal, variable, computed; alone and at the first, middle and last position of a mode list), a "
                "literal or computed complex value for an int/float scalar or array, a wrongly typed loop value, an "
                "included program called with the wrong number of modes or wrong keyword arguments; oracle: loads "
                "raises; for undefined and reserved names a BlackbirdSyntaxError naming the identifier with its line "
                "and column; model LOADS vs implementation (same error class and position); every case is "
                "non-trivial; distinct by text")
    reps = ctx.n(2, 30)
    fl = faults(ctx.rng, DECLS)
    texts = []
    for rep in range(reps):
        for cls, slot, frag in fl:
            s, _ = gen.gen_script(ctx.rng, {"depth": 1, "max_items": 4, "loops": False})
            items = s["items"]
            at = ctx.rng.randrange(len(items) + 1)
            body_before = "".join(gen.r_item(it, gen.Layout()) for it in items[:at])
            body_after = "".join(gen.r_item(it, gen.Layout()) for it in items[at:])
            pre = "name f\nversion 1.0\n\n" + DECLS + body_before
            text = pre + frag + body_after
            span = [len(pre), len(pre) + len(frag)]
            ident = UNDEF if cls == "undefined" else (
                slot.split(":")[1] if cls.startswith("reserved") or cls == "undefinedAfterLoop" else None)
            ctx.case(text)
            ctx.count(cls)
            ctx.count("slot:" + cls + ":" + slot.split(":")[0])
            if rep == 0 and len(ctx.samples) < 4 and ctx.rng.random() < 0.1:
                ctx.sample(text)
            texts.append(text)
            msg = check_fault(cls, text, ident, span)
            if msg:
                ctx.violation("fault %s/%s: %s" % (cls, slot, msg),
                              {"kind": "fault", "cls": cls, "text": text, "ident": ident, "span": span})
        # undefined name in a metadata option, keyword or positional (positional options are ignored with a
        # warning, but an undefined name in one is an undefined name)
        for kw, opt in (("target", "opt=%s"), ("type", "opt=%s"), ("target", "%s, opt=1"), ("type", "2*%s"),
                        ("target", "1, %s + 1, opt=3"), ("type", "a=1, b=[2, %s]")):
            text = "name f\nversion 1.0\n\n%s dev (%s)\n\nG | 0\n" % (kw, opt % UNDEF)
            ctx.case(text)
            ctx.count("undefined")
            ctx.count("slot:undefined:metadata-option")
            texts.append(text)
            msg = check_fault("undefined", text, UNDEF)
            if msg:
                ctx.violation("fault undefined/metadata-option: " + msg,
                              {"kind": "fault", "cls": "undefined", "text": text, "ident": UNDEF})
    common.loads_corr(ctx, texts, "LOADS(fault)")
    # include call faults (files needed)
    root = oracles.write_tree(INC_FILES)
    old = os.getcwd()
    lines = []
    try:
        os.chdir(root)
        for cls, slot, inc, call in INC_FAULTS:
            for rep in range(reps):
                s, _ = gen.gen_script(ctx.rng, {"depth": 1, "max_items": 3, "loops": False})
                items = s["items"]
                at = ctx.rng.randrange(len(items) + 1)
                text = "name f\nversion 1.0\n" + inc + "\n\n" + "".join(gen.r_item(it, gen.Layout()) for it in items[:at]) \
                    + call + "".join(gen.r_item(it, gen.Layout()) for it in items[at:])
                ctx.case(text)
                ctx.count(cls)
                msg = check_fault(cls, text)
                if msg:
                    ctx.violation("fault %s/%s: %s" % (cls, slot, msg),
                                  {"kind": "fault", "cls": cls, "text": text, "files": INC_FILES})
                fl2 = []
                for rel, content in INC_FILES.items():
                    fl2 += [os.path.join(root, rel), content]
                lines.append((core.cmd("LOADS", text, root, *fl2), text))
        outs = core.model_batch([l for l, _ in lines])
        for (l, text), o in zip(lines, outs):
            m = sx.dec_result(o)
            ic, _ = core.impl_canon_loads(text)
            st, d = canon.cmp_result(m, ic)
            if st == "differ":
                ctx.disagree("LOADS(include fault): " + "; ".join(d[:3]), {"kind": "correspondence", "cmd": "LOADS", "text": text})
            elif st == "ood":
                ctx.ood += 1
            else:
                ctx.traces += 1
    finally:
        os.chdir(old)
        shutil.rmtree(root, ignore_errors=True)
    # interaction stream (harness/interact.py): the executable model is the oracle
    common.interaction_stream(ctx, ctx.n(200, 2500))
