"""C12 — each load is independent of every earlier load in the process."""
import os
import random
import shutil

import canon
import core
import gen
import oracles
import sx
from props import common

NAMES = ["x", "y", "alpha", "m", "k", "A", "p0", "opt"]


def pool(rng, n):
    """scripts of every kind the property lists, with deliberately colliding names"""
    out = []
    H = "name h\nversion 1.0\n"
    for i in range(n):
        v = rng.choice(NAMES)
        w = rng.choice(NAMES)
        val = rng.choice(["0.5", "3", "1+2j", "2.5e-1", "7"])
        k = i % 17
        if k == 0:
            s, _ = gen.gen_script(rng, {"depth": 2, "max_items": 5})
            out.append(("valid", gen.render(s)))
        elif k == 1:
            s, info, _ = gen.gen_template(rng, {"depth": 1, "max_items": 4})
            out.append(("template", gen.render(s)))
        elif k == 2:
            out.append(("valid-defines", H + "\nfloat %s = %s\nG(%s) | 0\n" % (v, val, v)))
        elif k == 3:
            # the same stage, failing with different exception classes (seeded C12/k: tables cleared after a failed
            # load only for a list of expected classes; an IndexError or OverflowError left the declarations behind)
            how = rng.randrange(4)
            if how <= 1:
                out.append(("fails-undefined-after-define", H + "\nfloat %s = %s\nG(zz_undefined) | 0\n" % (v, val)))
            elif how == 2:
                out.append(("fails-index-after-define", H + "\nfloat %s = %s\nfloat array zzA =\n    1, 2\nfloat zzx = zzA[5]\nG(1) | 0\n" % (v, val)))
            else:
                out.append(("fails-overflow-after-define", H + "\nfloat %s = %s\nint zzi = 1/0\nG(1) | 0\n" % (v, val)))
        elif k == 4:
            out.append(("fails-in-loop", H + "\nfor int %s in 2:5\n    G(%s, zz_undefined) | %s\n" % (v, v, v)))
        elif k == 5:
            out.append(("fails-syntax", H + "\nfloat %s = %s\nG(1 2) | 0\n" % (v, val)))
        elif k == 6:
            out.append(("option-mentions-name", "name h\nversion 1.0\ntarget foo (opt=%s)\n\nG(1) | 0\n" % v))
        elif k == 7:
            out.append(("type-option-mentions-name", "name h\nversion 1.0\ntype bar (n=2*%s)\n\nG | 0\n" % v))
        elif k == 8:
            out.append(("fails-template-then", H + "\nG({%s}, {%s}) | 0\nint array %s =\n    1, 2.5j\n" % (v, w, v)))
        elif k == 9:
            out.append(("fails-mode", H + "\nint %s = 2\nfloat %s = 0.5\nG | %s\n" % (v, w + "f", w + "f")))
        elif k == 12:
            out.append(("valid-include", 'name h\nversion 1.0\ninclude "inc_ok.xbb"\n\nfloat %s = %s\nSub | [2, 3]\nG(%s) | 0\n' % (v, val, v)))
        elif k == 13:
            # not a load: the included file is rewritten on disk between two loads
            out.append(("rewrite-include", WRITE + "inc_ok.xbb\n" + INC_OK[rng.randrange(len(INC_OK))]))
        elif k == 14:
            # includes a file that includes a file which other steps of the history create and delete
            out.append(("include-with-nested-file", 'name h\nversion 1.0\ninclude "inc_mid.xbb"\n\nMid | [1, 0]\nG(%s) | 0\n' % val))
        elif k == 15:
            out.append(("create-nested-file", WRITE + "inc_leaf.xbb\n" + "name Leaf\nversion 1.0\n\nK(%s) | 0\n" % val))
        elif k == 16:
            if i % 34 == 16:
                out.append(("delete-nested-file", DELETE + "inc_leaf.xbb"))
            else:
                # deeper than the interpreter's default recursion limit allows: RecursionError in a pristine process
                out.append(("very-deep-nesting", H + "\nG(" + "(" * 1200 + "1" + ")" * 1200 + ") | 0\n"))
        elif k == 10:
            out.append(("fails-in-include", 'name h\nversion 1.0\ninclude "inc_bad_%s.xbb"\n\nG | 0\n' % v))
        else:
            out.append(("uses-param-name-as-var", H + "\nG({%s}) | 0\nH(%s) | 1\n" % (v, v)))
    return out


WRITE = "#!write "
DELETE = "#!delete "
CHDIR = "#!chdir "
INC_MID = "name Mid\nversion 1.0\ninclude \"inc_leaf.xbb\"\n\nLeaf | 0\nH(0.5) | 1\n"
INC_OK = ["name Sub\nversion 1.0\n\nG(1, 0.5) | 0\nH(0.25, k=[1, 2]) | [0, 1]\n",
          "name Sub\nversion 1.0\n\nG(2, 0.75) | 1\nH(0.5, k=[3]) | [1, 0]\nK | 0\n",
          "name Sub\nversion 1.0\n\nH(7) | [0, 1]\n"]


def include_files():
    files = {"inc_ok.xbb": INC_OK[0], "inc_mid.xbb": INC_MID,
             # the same file name in two sub-directories: after the process changes directory, a relative include of
             # a script given as text is looked up there
             "d1/inc_ok.xbb": INC_OK[1], "d2/inc_ok.xbb": INC_OK[2]}
    for v in NAMES:
        files["inc_bad_%s.xbb" % v] = "name Inc%s\nversion 1.0\n\nfloat %s = 0.25\nfor int k in 1:3\n    G(k, undefined_inside) | k\n" % (v, v)
    return files


_FRESH = {}


def check_history(texts, root=None):
    own = root is None
    if own:
        root = oracles.write_tree(include_files())
    old = os.getcwd()
    try:
        os.chdir(root)
        return o_history_in(texts, root)
    finally:
        os.chdir(old)
        if own:
            _FRESH.clear()
            shutil.rmtree(root, ignore_errors=True)


def o_history_in(texts, root):
    core.reset_tables()
    progs = []
    with open(os.path.join(root, "inc_ok.xbb"), "w", encoding="utf-8") as f:
        f.write(INC_OK[0])
    leaf = os.path.join(root, "inc_leaf.xbb")
    if os.path.exists(leaf):
        os.remove(leaf)
    version = {"inc_ok.xbb": INC_OK[0], "inc_leaf.xbb": None}
    cwd = root
    for i, t in enumerate(texts):
        if t.startswith(CHDIR):
            d = t[len(CHDIR):]
            cwd = root if d == "." else os.path.join(root, d)
            os.chdir(cwd)
            continue
        if t.startswith(WRITE):
            fn, content = t[len(WRITE):].split("\n", 1)
            with open(os.path.join(root, fn), "w", encoding="utf-8") as f:
                f.write(content)
            version[fn] = content
            continue
        if t.startswith(DELETE):
            fn = t[len(DELETE):]
            if os.path.exists(os.path.join(root, fn)):
                os.remove(os.path.join(root, fn))
            version[fn] = None
            continue
        here, obj = oracles.outcome_here(t)
        key = (cwd, t, (version["inc_ok.xbb"] if cwd == root else "static") if "inc_ok.xbb" in t else None,
               version["inc_leaf.xbb"] if "inc_mid.xbb" in t else None)
        if key not in _FRESH:
            _FRESH[key] = oracles.fresh_request({"text": t, "cwd": cwd, "chdir": cwd})
        fresh = _FRESH[key]
        if here != fresh:
            return "load %d of the history gives %s here but %s in a pristine process" % (
                i + 1, common.short(repr(here), 300), common.short(repr(fresh), 300))
        if obj is not None:
            progs.append(obj)
    seen = {}
    for k, p in enumerate(progs):
        parts = [p._operations, p._var, p._target, p._type, p._parameters, p._modes, p._target["options"],
                 p._type["options"]] + list(p._operations)
        for op in p._operations:
            for key_ in ("args", "kwargs", "modes"):
                if isinstance(op.get(key_), (list, dict)):
                    parts.append(op[key_])
            for v_ in (op.get("kwargs") or {}).values():
                if isinstance(v_, list):
                    parts.append(v_)
        for part in parts:
            if id(part) in seen and seen[id(part)] != k:
                return "programs returned by loads %d and %d share a mutable object" % (seen[id(part)] + 1, k + 1)
            seen[id(part)] = k
    return None


def replay(ctx, data):
    if data.get("kind") == "history":
        return check_history(data["texts"])
    return oracles.generic_replay(data)


def run(ctx):
    ctx.rule = ("histories of 2-8 loads drawn from a pool of valid scripts, templates, scripts failing at each stage "
                "(syntax, undefined name after a definition, inside a loop, inside an include, wrong mode type, "
                "array type), scripts of the interaction stream (harness/interact.py: redeclarations, tdm type lines, arrays named p0), changes of the process's working directory between loads (a relative include is then looked up in the new directory), scripts that include a file which other steps of the history rewrite on disk, scripts whose include has a nested include that other steps create and delete (missing file, then present), a script nested deeper than the default recursion limit, and scripts whose target/type options mention names, all over a small set of colliding "
                "variable and parameter names; each load's outcome (operations, parameters, variables, options, "
                "serialisation, or error class with identifier and position) is compared with its outcome in a "
                "forked child of a process that has never loaded anything; returned programs are scanned for shared "
                "mutable objects (operation lists, operation dicts, argument lists, keyword dicts and lists, mode lists); model HIST (tables threaded through the history) vs implementation; non-trivial = "
                "a failing load followed by a load that mentions a name the failing one defined; distinct by texts")
    n = ctx.n(300, 6000)
    pl = pool(ctx.rng, ctx.n(96, 600))
    # scripts of the interaction stream (redeclarations, tdm headers with and without a type line, arrays named p0,
    # loops): what one of them leaves behind must not reach the next
    import interact
    pl += [("interaction", interact.script(ctx.rng)) for _ in range(ctx.n(60, 400))]
    # texts that differ only in what a cache key might drop: blanks that decide how a complex literal is tokenised,
    # a boolean variable where another script has the integer 0 or 1
    HH = "name s\nversion 1.0\n\n"
    pl += [("literal-spelling", HH + t) for t in (
        "G(1+2j*3) | 0\n", "G(1 + 2j*3) | 0\n", "G(2-1j**2) | 0\n", "G(2 - 1j**2) | 0\n", "G(3/1+1j) | 0\n", "G(3/1 + 1j) | 0\n",
        "G(2*3+4j) | 0\n", "G(2*3 + 4j) | 0\n")] * ctx.n(1, 4)
    pl += [("function-of-bool-or-int", HH + t) for t in (
        "bool b = True\nG(sin(b), cos(b), exp(b)) | 0\n", "G(sin(1), cos(1), exp(1)) | 0\n", "bool b = False\nG(cos(b), exp(b), sqrt(b)) | 0\n",
        "G(cos(0), exp(0), sqrt(0)) | 0\n", "int n = 1\nG(sin(n), tanh(n)) | 0\n", "float x = 1.0\nG(sin(x), tanh(x)) | 0\n")] * ctx.n(1, 4)
    # the process changes its working directory between loads
    pl += [("chdir", CHDIR + d) for d in ("d1", "d2", ".", "d1", "d2")] * ctx.n(1, 6)
    lines = []
    hists = []
    root = oracles.write_tree(include_files())
    for i in range(n):
        ln = ctx.rng.randrange(2, 9)
        h = [ctx.rng.choice(pl) for _ in range(ln)]
        texts = [t for _, t in h]
        kinds = [k for k, _ in h]
        for k in kinds:
            ctx.count(k)
        nt = any(a.startswith("fails") and b in ("option-mentions-name", "type-option-mentions-name", "uses-param-name-as-var")
                 for a, b in zip(kinds, kinds[1:]))
        ctx.case(texts, nontrivial=nt)
        if i < 2:
            ctx.sample(texts)
        msg = check_history(texts, root)
        if msg:
            ctx.violation("history: " + msg, {"kind": "history", "texts": texts})
        if not any(k in ("fails-in-include", "valid-include", "rewrite-include", "include-with-nested-file",
                         "create-nested-file", "delete-nested-file", "very-deep-nesting", "chdir") for k in kinds):
            lines.append(core.cmd("HIST", "/", *texts))
            hists.append(texts)
    shutil.rmtree(root, ignore_errors=True)
    outs = core.model_batch(lines)
    for texts, o in zip(hists, outs):
        parts = o.split(" ;; ")
        core.reset_tables()
        for t, mo in zip(texts, parts):
            m = sx.dec_result(mo)
            r = core.impl_loads(t, reset=False)
            ic = canon.canon_program(r[1]) if r[0] == "ok" else canon.classify_exception(r[1])
            st, d = canon.cmp_result(m, ic)
            if st == "ood":
                ctx.ood += 1
            elif st == "differ":
                ctx.disagree("HIST: " + "; ".join(d[:3]), {"kind": "correspondence", "cmd": "HIST", "texts": texts, "at": t})
                break
            else:
                ctx.traces += 1
