"""C13 — read-only operations leave programs unchanged; instances are independent."""
import copy
import random

import numpy as np

import canon
import core
import enc
import gen
import oracles
import sx
from props import common


_CHANGED_BY_DUMPS = []


def snapshot(p):
    """observable content: serialisation (or the error it raises) and deep canonical content. The content is
    taken BEFORE the program is serialised and again after: serialising is itself one of the read-only operations"""
    import blackbird
    c0 = repr(strip_funcs(canon.canon_program(p)[1]))
    with core.quiet():
        try:
            d = blackbird.dumps(p)
        except Exception as e:  # noqa: BLE001
            d = "dumps raises " + type(e).__name__
    c1 = repr(strip_funcs(canon.canon_program(p)[1]))
    if c0 != c1 and not _CHANGED_BY_DUMPS:
        _CHANGED_BY_DUMPS.append("serialising the program changed its content: before %s, after %s" % (
            common.short(c0, 400), common.short(c1, 400)))
    return d, c0


def strip_funcs(c):
    """drop the lambdified function objects (compared through expr)"""
    def sv(v):
        if isinstance(v, tuple) and v and v[0] == "rrt":
            return ("rrt", str(v[1]), sorted(v[2]))
        if isinstance(v, tuple) and v and v[0] == "sym":
            return ("sym", str(v[1]))
        if isinstance(v, tuple) and v and v[0] == "list":
            return ("list", [sv(x) for x in v[1]])
        if isinstance(v, tuple) and v and v[0] == "arr":
            return v[:4] + ([sv(x) for x in v[4]],)
        return v
    out = dict(c)
    out["ops"] = [{"op": o["op"], "modes": o["modes"],
                   "args": None if o["args"] is None else ([sv(a) for a in o["args"][0]], [(k, sv(v)) for k, v in o["args"][1]])}
                  for o in c["ops"]]
    out["vars"] = [(k, sv(v)) for k, v in c["vars"]]
    out["target"] = {"name": c["target"]["name"], "options": [(k, sv(v)) for k, v in c["target"]["options"]]}
    out["type"] = {"name": c["type"]["name"], "options": [(k, sv(v)) for k, v in c["type"]["options"]]}
    return out


def mutate(rng, q):
    """modify a program object in place (something a user may do to a returned instance)"""
    k = rng.randrange(8)
    if k == 7:
        # edit a register transform object itself
        for o in q._operations:
            for a in list(o.get("args", [])) + list(o.get("kwargs", {}).values()):
                if hasattr(a, "regrefs") and hasattr(a, "func_str"):
                    a.regrefs.append(99)
                    a.func_str = "mutated"
                    try:
                        a.expr = a.expr + 1
                    except Exception:  # noqa: BLE001
                        pass
                    return
        k = 1
    if k == 0 and q._operations:
        q._operations[rng.randrange(len(q._operations))]["modes"][0] = 99
    elif k == 1 and q._operations:
        o = q._operations[rng.randrange(len(q._operations))]
        if "args" in o:
            o["args"].append(123.5)
            o["kwargs"]["mutated"] = True
        else:
            o["op"] = o["op"] + "_m"
    elif k == 2:
        q._operations.append({"op": "Added", "modes": [7]})
    elif k == 3:
        for name, v in q._var.items():
            if isinstance(v, np.ndarray) and v.size:
                v.flat[0] = 77 if v.dtype != object else 77.0
                break
    elif k == 4:
        q._target["options"]["mutated"] = 1
        q._type["options"]["mutated"] = 2
    elif k == 5:
        q._modes.add(55)
        q._var["mutated"] = 1.0
    else:
        for o in q._operations:
            if "args" in o:
                for i, a in enumerate(o["args"]):
                    if isinstance(a, np.ndarray) and a.size:
                        a.flat[0] = 5
                    elif isinstance(a, list):
                        a.append(9)
                o["kwargs"].clear()


def run_sequence(text, info, seq_seed, length):
    """returns a message if some step changes a live program that it should not change"""
    from blackbird.utils import to_DiGraph, match_template
    rng = random.Random(seq_seed)
    r = core.impl_loads(text)
    if r[0] != "ok":
        return None
    p = r[1]
    del _CHANGED_BY_DUMPS[:]
    live = [("template" if p.is_template() else "program", p, snapshot(p))]
    if _CHANGED_BY_DUMPS:
        return _CHANGED_BY_DUMPS[0]
    supplied = {}          # array values handed to the template: the same ndarray object may be passed again
    for step in range(length):
        k = rng.randrange(6)
        what = ""
        with core.quiet():
            try:
                if k == 0:
                    import blackbird
                    what = "dumps"
                    blackbird.dumps(rng.choice(live)[1])
                elif k == 1 and p.is_template():
                    what = "template call"
                    vals, arrays = gen.gen_param_values(rng, info)
                    kw = dict(vals)
                    for n, v in arrays.items():
                        if n in supplied and rng.random() < 0.5:
                            kw[n] = supplied[n]
                        else:
                            kw[n] = supplied[n] = np.array(v, dtype=float)
                    q = p(**kw)
                    live.append(("instance", q, snapshot(q)))
                elif k == 2:
                    what = "to_DiGraph"
                    to_DiGraph(rng.choice(live)[1])
                elif k == 3:
                    what = "match_template"
                    insts = [x for x in live if x[0] == "instance"]
                    if p.is_template() and insts:
                        match_template(p, rng.choice(insts)[1])
                    else:
                        match_template(p, p)
                elif k == 4:
                    what = "attribute reads"
                    q = rng.choice(live)[1]
                    _ = (q.name, q.version, q.modes, q.target, q.programtype, q.operations, q.parameters, q.variables,
                         q.is_template(), len(q))
                else:
                    insts = [i for i, x in enumerate(live) if x[0] == "instance"]
                    if insts:
                        i = rng.choice(insts)
                        what = "mutation of instance %d" % i
                        mutate(rng, live[i][1])
                        live[i] = (live[i][0], live[i][1], snapshot(live[i][1]))
            except Exception:  # noqa: BLE001
                pass          # errors of the operations themselves are other properties' business
        for i, (kind, q, snap) in enumerate(live):
            now = snapshot(q)
            if now != snap:
                diff = "serialisation" if now[0] != snap[0] else "content"
                return "step %d (%s) changed the %s of %s %d: before %r, after %r" % (
                    step, what, diff, kind, i, common.short(snap[0] if diff == "serialisation" else snap[1], 300),
                    common.short(now[0] if diff == "serialisation" else now[1], 300))
        if _CHANGED_BY_DUMPS:
            return "step %d (%s): %s" % (step, what, _CHANGED_BY_DUMPS[0])
    return None


def shared_array_value(text, info):
    """two instances made from one and the same ndarray object do not share it: changing the array held by the
    first (or the caller's array afterwards) leaves the second as it was"""
    if not info.get("array_params"):
        return None
    r = core.impl_loads(text)
    if r[0] != "ok" or not r[1].is_template():
        return None
    t = r[1]
    rng = random.Random(7)
    vals, arrays = gen.gen_param_values(rng, info)
    kw = dict(vals)
    objs = {n: np.array(v, dtype=float) for n, v in arrays.items()}
    kw.update(objs)
    with core.quiet():
        try:
            i1 = t(**kw)
            i2 = t(**kw)
        except Exception:  # noqa: BLE001
            return None
    before = snapshot(i2)
    for v in list(i1._var.values()):
        if isinstance(v, np.ndarray) and v.size and v.dtype != object:
            v.flat[0] = 4242.0
    for o in i1._operations:
        for a in list(o.get("args", [])) + list(o.get("kwargs", {}).values()):
            if isinstance(a, np.ndarray) and a.size and a.dtype != object:
                a.flat[0] = 4343.0
    for a in objs.values():
        a.flat[0] = 4444.0
    after = snapshot(i2)
    if before != after:
        return "an instance changes when another instance made from the same array value (or that array) is edited: %r -> %r" % (
            common.short(before[0], 200), common.short(after[0], 200))
    return None


def graph_readonly(text):
    from blackbird.utils import to_DiGraph
    r = core.impl_loads(text)
    if r[0] != "ok":
        return "refused: %r" % (r[1],)
    before = snapshot(r[1])
    with core.quiet():
        to_DiGraph(r[1])
    after = snapshot(r[1])
    if before != after:
        return "to_DiGraph changed the program: serialisation %r -> %r" % (before[0], after[0])
    return None


def corner_case(kind, seed):
    """read-only operations on programs from two corners the random programs do not reach: (a) a {placeholder}
    inside a target/type option, instantiated with a value passed for it as well; (b) register expressions as
    ELEMENTS of a list-valued keyword argument, converted to a graph and matched"""
    from blackbird.utils import to_DiGraph, match_template
    rng = random.Random(seed)
    if kind == "option-placeholder":
        text = ("name t\nversion 1.0\ntarget X8 (shots={shots}, a=[{shots}, 1])\ntype foo (n={n_}, m=2)\n\n"
                "Dgate({a}, 0.5) | 0\nRgate({a}*2) | 1\n")
        kws = [{"a": 0.5}, {"a": 0.25, "shots": 100, "n_": 3}, {"a": 1.5, "shots": 7}]
    else:
        text = ("name t\nversion 1.0\n\nMeasureX | 0\nMeasureHomodyne(select=[q0, 2*q0, 1], phi=q0/2) | 1\n"
                "Dgate({a}, l=[q0 + 1, {a}, 0.5]) | 2\n")
        kws = [{"a": 0.5}, {"a": 0.75}]
    r = core.impl_loads(text)
    if r[0] != "ok":
        return "refused: %r" % (r[1],)
    p = r[1]
    del _CHANGED_BY_DUMPS[:]
    live = [("template", p, snapshot(p))]
    for step in range(8):
        k = rng.randrange(4)
        what = ""
        with core.quiet():
            try:
                if k == 0:
                    what = "template call %s" % (kws[step % len(kws)],)
                    q = p(**kws[step % len(kws)])
                    live.append(("instance", q, snapshot(q)))
                elif k == 1:
                    what = "to_DiGraph"
                    to_DiGraph(rng.choice(live)[1])
                elif k == 2:
                    what = "match_template"
                    match_template(p, live[-1][1])
                else:
                    what = "dumps"
                    import blackbird
                    blackbird.dumps(rng.choice(live)[1])
            except Exception:  # noqa: BLE001
                pass
        for i, (kd, q, snap) in enumerate(live):
            now = snapshot(q)
            if now != snap:
                return "step %d (%s) changed %s %d: before %s, after %s" % (
                    step, what, kd, i, common.short(repr(snap), 300), common.short(repr(now), 300))
        if _CHANGED_BY_DUMPS:
            return "step %d (%s): %s" % (step, what, _CHANGED_BY_DUMPS[0])
    return None


def replay(ctx, data):
    if data.get("kind") == "corner":
        return corner_case(data["what"], data["seed"])
    if data.get("kind") == "graph_readonly":
        return graph_readonly(data["text"])
    if data.get("kind") == "sequence":
        return run_sequence(data["text"], data["info"], data["seq_seed"], data["length"])
    return oracles.generic_replay(data)


def readonly_corr(ctx, texts):
    """model: GRAPH returns the program next to the graph; it must be the program that went in"""
    lines, keep = [], []
    for t in texts:
        r = core.impl_loads(t)
        if r[0] != "ok":
            continue
        try:
            e = enc.enc_program(r[1])
        except enc.Unsupported:
            continue
        lines.append("GRAPH\t" + sx.hexs(e))
        keep.append((t, r[1]))
    outs = core.model_batch(lines)
    for (t, p), o in zip(keep, outs):
        if " (prog" not in o:
            continue
        m = sx.dec_result(o[o.index(" (prog") + 1:])
        st, d = canon.cmp_result(m, canon.canon_program(p), loose=True)
        if st == "differ":
            ctx.disagree("GRAPH changes the program in the model: " + "; ".join(d[:3]),
                         {"kind": "correspondence", "cmd": "GRAPH", "text": t})
        elif st == "agree":
            ctx.traces += 1


def run(ctx):
    ctx.rule = ("random programs and templates (argument-less operations, arrays, parameters, registers) with a "
                "random sequence of up to 12 (quick) / 40 (thorough) operations among dumps, template call with "
                "fresh values, to_DiGraph, match_template, attribute reads and in-place mutation of a previously "
                "returned instance; after every step the serialisation and the deep content of every live program "
                "other than the one mutated must be what it was; non-trivial = sequence contains a graph conversion "
                "or a template call followed by a mutation; distinct by (text, sequence seed). The independence of "
                "instances is an aliasing property decided by this harness only; the functional model has no "
                "sharing to violate.")
    n = ctx.n(300, 5000)
    ln = ctx.n(12, 40)
    texts = []
    for i in range(n):
        if i % 3 == 2:
            # operations fed by measured registers of modes they do not act on themselves
            script, _, _ = gen.gen_rrt_script(ctx.rng, {"depth": 1, "max_items": 6, "array_args": True})
            info = {"params": [], "array_params": {}}
            if i % 2 == 0:
                # ... in a template: instances then carry the template's register transforms
                script = dict(script)
                script["items"] = list(script["items"]) + [("stmt", "Rgate", {"pos": [("expr", ("par", "a"))], "kw": []},
                                                            None, [("int", "0")], None)]
                info = {"params": ["a"], "array_params": {}}
            ctx.count("program-with-register-arguments")
        elif i % 3 == 1:
            script, info, _ = gen.gen_template(ctx.rng, {"depth": 2, "max_items": 6, "array_args": True})
            ctx.count("template")
        else:
            script, _ = gen.gen_script(ctx.rng, {"depth": 2, "max_items": 8, "array_args": True})
            info = {"params": [], "array_params": {}}
            ctx.count("program")
        text = gen.render(script)
        if i % 5 == 3:
            # a complex array whose entries carry components far below machine precision (what exp(1j*pi) gives):
            # nothing may "clean them up" in the program while it is serialised or converted
            text += ("complex array Zz_ =\n    exp(1j*pi), 0.5+1e-17j\n    1e-300+2j, 3\nG(Zz_) | [0, 1]\n"
                     "%s(0.7) | [1, 0]\n" % ctx.rng.choice(["CZgate", "CKgate", "CXgate", "BSgate", "S2gate", "MZgate"]))
            ctx.count("array-with-sub-epsilon-components")
        seq_seed = ctx.rng.randrange(1 << 30)
        ctx.case((text, seq_seed), nontrivial=True)
        ctx.sample({"text": text, "sequence_seed": seq_seed, "length": ln})
        texts.append(text)
        msg = run_sequence(text, info, seq_seed, ln) or shared_array_value(text, info)
        if msg:
            ctx.violation("read-only operation: " + msg, {"kind": "sequence", "text": text, "info": info,
                                                         "seq_seed": seq_seed, "length": ln})
    for k in range(ctx.n(12, 100)):
        what = ("option-placeholder", "registers-in-list-argument")[k % 2]
        sd = ctx.rng.randrange(1 << 30)
        ctx.count("corner:" + what)
        ctx.case(("corner", what, sd), nontrivial=True)
        msg = corner_case(what, sd)
        if msg:
            ctx.violation("read-only operation: " + msg, {"kind": "corner", "what": what, "seed": sd})
    readonly_corr(ctx, texts)
