"""C14 — the shipped lexers and parsers recognise exactly the language of src/blackbird.g4.

Decided by the theorems of lean/GenProps/C14.lean over data regenerated from /repo on every run
(harness/translate.py), the static theorems of lean/Blackbird/Props/C14.lean, and three differential
checks that double as the failing-input search when a theorem over the regenerated data breaks:

  * lexer: shipped blackbirdLexer  vs  a reference lexer that interprets the lexer rules of the
    *current* src/blackbird.g4 (longest match, earliest rule on ties)  vs  the Lean model lexer;
  * parser: shipped blackbirdParser fed token sequences directly  vs  an Earley recogniser over the
    parser rules of the current src/blackbird.g4;
  * extraction: the ATN the translator reads out of the .py files  vs  what the imported module
    hands the ANTLR runtime, which must deserialise to the grammar's rule and token counts.
"""
import os
import random

import core
import g4
import oracles
import sx

USES_GENERATED = True


# ------------------------------------------------------------------ reference lexer from the grammar AST

class RefLexer:
    """interprets the lexer rules of a g4 AST directly: set-of-end-positions matching"""

    def __init__(self, g):
        self.rules = {r["name"]: r for r in g["rules"] if r["lexer"]}
        self.tokens = [r for r in g["rules"] if r["lexer"] and not r["fragment"]]

    def m_elem(self, e, s, starts):
        k = e[0]
        if k == "lit":
            return {p + len(e[1]) for p in starts if s.startswith(e[1], p)}
        if k == "set":
            return {p + 1 for p in starts if p < len(s) and any(a <= ord(s[p]) <= b for a, b in e[1])}
        if k == "nset":
            return {p + 1 for p in starts if p < len(s) and not any(a <= ord(s[p]) <= b for a, b in e[1])}
        if k == "any":
            return {p + 1 for p in starts if p < len(s)}
        if k == "ref":
            return self.m_alts(self.rules[e[1]]["alts"], s, starts)
        if k == "group":
            return self.m_alts(e[1], s, starts)
        if k == "labelled":
            return self.m_elem(e[2], s, starts)
        if k == "opt":
            return set(starts) | self.m_elem(e[1], s, starts)
        if k in ("star", "plus"):
            seen = set()
            cur = self.m_elem(e[1], s, starts)
            while cur - seen:
                new = cur - seen
                seen |= new
                cur = self.m_elem(e[1], s, new)
            return (set(starts) | seen) if k == "star" else seen
        raise g4.G4Error("element %r in a lexer rule" % (e,))

    def m_alts(self, alts, s, starts):
        out = set()
        for a in alts:
            cur = set(starts)
            for e in a["elems"]:
                cur = self.m_elem(e, s, cur)
                if not cur:
                    break
            out |= cur
        return out

    def lex(self, s):
        """[(name, text, line, col)] without skipped tokens; characters no rule matches are dropped
        one at a time, which is what ANTLR's default lexer recovery does"""
        out = []
        i = 0
        line, col = 1, 0
        while i < len(s):
            best = None
            for r in self.tokens:
                ends = [p for p in self.m_alts(r["alts"], s, {i}) if p > i]
                if ends:
                    n = max(ends)
                    if best is None or n > best[1]:
                        best = (r, n)
            if best is None:
                n, r = i + 1, None
            else:
                r, n = best
            text = s[i:n]
            if r is not None and not r["skip"]:
                out.append((r["name"], text, line, col))
            for c in text:
                if c == "\n":
                    line += 1
                    col = 0
                else:
                    col += 1
            i = n
        return out

    # ---- sampling strings from a rule

    def sample_elem(self, e, rng, depth):
        k = e[0]
        if k == "lit":
            return e[1]
        if k == "set":
            a, b = rng.choice(e[1])
            return chr(rng.choice([a, b, rng.randint(a, b)]))
        if k in ("nset", "any"):
            excl = e[1] if k == "nset" else []
            for _ in range(50):
                c = rng.choice("az09AZ _.,;:+-*/=()[]{}|\"#\t\n\r$@é\\")
                if not any(a <= ord(c) <= b for a, b in excl):
                    return c
            return "z"
        if k == "ref":
            return self.sample_alts(self.rules[e[1]]["alts"], rng, depth)
        if k == "group":
            return self.sample_alts(e[1], rng, depth)
        if k == "labelled":
            return self.sample_elem(e[2], rng, depth)
        if k == "opt":
            return self.sample_elem(e[1], rng, depth) if rng.random() < 0.5 else ""
        if k in ("star", "plus"):
            lo = 0 if k == "star" else 1
            n = rng.choice([lo, lo, 1, 2, 3]) if depth < 3 else lo
            return "".join(self.sample_elem(e[1], rng, depth + 1) for _ in range(n))
        raise g4.G4Error("element %r" % (e,))

    def sample_alts(self, alts, rng, depth):
        a = rng.choice(alts)
        return "".join(self.sample_elem(e, rng, depth) for e in a["elems"])

    def sample(self, rule, rng):
        return self.sample_alts(rule["alts"], rng, 0)


def real_lex(text):
    toks, _eof = core.real_tokens(text)
    return toks


def lexer_case(ref, text):
    """grammar-prescribed tokens vs the shipped lexer; returns message|None"""
    want = ref.lex(text)
    got = real_lex(text)
    if want != got:
        j = next((i for i, (a, b) in enumerate(zip(want, got)) if a != b), min(len(want), len(got)))
        return "token %d: the grammar prescribes %r, the shipped lexer produces %r" % (
            j, want[j] if j < len(want) else None, got[j] if j < len(got) else None)
    return None


# ------------------------------------------------------------------ parser on token sequences

SAMPLE_TEXT = {"INT": "1", "FLOAT": "2.5", "COMPLEX": "1+2j", "STR": '"s"', "BOOL": "True", "SEQUENCE": "1,2",
               "NAME": "x", "DEVICE": "a.b", "REGREF": "q0", "MEASURE": "MeasureX", "PARAMETER": "{p}",
               "NEWLINE": "\n", "TAB": "\t", "SPACE": " ", "COMMENT": "#c", "ANY": ";", "NONNUMERIC": "x"}


def token_text(name, literal):
    if literal.get(name):
        return literal[name]
    return SAMPLE_TEXT.get(name, name.lower())


def parser_verdict(names, literal):
    """feed a token-name sequence (without EOF) straight to the shipped parser; True = accepted"""
    import antlr4
    from antlr4.ListTokenSource import ListTokenSource
    from antlr4.Token import CommonToken
    from antlr4.error.ErrorListener import ErrorListener
    from blackbird.blackbirdParser import blackbirdParser

    class Stop(Exception):
        pass

    class L(ErrorListener):
        def syntaxError(self, recognizer, offendingSymbol, line, column, msg, e):
            raise Stop()

    types = {n: i for i, n in enumerate(blackbirdParser.symbolicNames) if n and n != "<INVALID>"}
    toks = []
    col = 0
    for n in names:
        t = CommonToken(type=types[n])
        t.text = token_text(n, literal)
        t.line = 1
        t.column = col
        col += len(t.text) + 1
        toks.append(t)
    with core.quiet():
        stream = antlr4.CommonTokenStream(ListTokenSource(toks))
        parser = blackbirdParser(stream)
        parser.removeErrorListeners()
        parser.addErrorListener(L())
        try:
            parser.start()
            return True
        except Stop:
            return False
        except RecursionError:
            return None


def parser_case(bnf, names, literal):
    acc, first_bad = g4.earley(bnf, list(names) + ["EOF"])
    got = parser_verdict(names, literal)
    if got is None:
        return None, acc
    if got != acc:
        return ("the grammar %s the token sequence, the shipped parser %s it" % (
            "derives" if acc else "does not derive", "accepts" if got else "rejects")), acc
    return None, acc


def derive(bnf, rng, budget):
    """a random sentence of the grammar (token names, without the final EOF), or None when the budget runs out"""
    out = []
    stack = [bnf.start]
    steps = 0
    while stack:
        steps += 1
        if steps > 4000:
            return None
        s = stack.pop()
        if not bnf.is_nt(s):
            out.append(s)
            continue
        prods = bnf.prods[s]
        if len(out) + len(stack) > budget:
            # prefer the shortest production once the sentence is long enough
            p = min(prods, key=lambda q: (len(q), sum(1 for x in q if bnf.is_nt(x))))
            if rng.random() < 0.2:
                p = rng.choice(prods)
        else:
            p = rng.choice(prods)
        for x in reversed(p):
            stack.append(x)
    if out and out[-1] == "EOF":
        out.pop()
    if "EOF" in out:
        return None
    return out


def enumerate_prefixes(bnf, terminals, max_len, cap):
    """breadth-first: every viable prefix of the language up to max_len tokens (capped), each with the
    information whether it is a complete sentence"""
    out = []
    frontier = [()]
    for _ in range(max_len):
        nxt = []
        for pre in frontier:
            for t in terminals:
                cand = pre + (t,)
                acc, bad = g4.earley(bnf, list(cand) + ["EOF"])
                viable = bad >= len(cand)
                out.append((cand, acc))
                if viable and not acc or viable:
                    nxt.append(cand)
                if len(out) >= cap:
                    return out
        frontier = nxt
    return out


# ------------------------------------------------------------------ extraction check

def atn_decoder_check(label, text):
    """the Lean decoder's reading of a serialised ATN against ANTLR's own ATNDeserializer"""
    from antlr4.atn.ATNDeserializer import ATNDeserializer
    from antlr4.atn.Transition import Transition
    nums = [ord(c) for c in text]
    o = core.model_batch([core.cmd("ATNDEC", " ".join(str(n) for n in nums))])[0]
    if o == "undecodable":
        return ["%s: the model does not decode the serialised ATN" % label], 0, 0
    f = dict(kv.split("=", 1) for kv in o.split(";"))
    atn = ATNDeserializer().deserialize(text)
    msgs = []
    mst = [tuple(map(int, x.split(":"))) for x in f["states"].split()]
    if len(mst) != len(atn.states):
        return ["%s: %d states decoded, ANTLR has %d" % (label, len(mst), len(atn.states))], 0, 0
    for k, (ty, rule) in enumerate(mst):
        s = atn.states[k]
        if s is None:
            if ty != 0: msgs.append("%s: state %d is invalid for ANTLR, type %d in the model" % (label, k, ty))
            continue
        none = lambda v: v in (-1, 65533, 65534, 65535)
        if s.stateType != ty or not (s.ruleIndex == rule or (none(s.ruleIndex) and none(rule))):
            msgs.append("%s: state %d: model (type %d, rule %d), ANTLR (type %d, rule %d)" % (label, k, ty, rule, s.stateType, s.ruleIndex))
    sets = [[tuple(map(int, r.split("-"))) for r in x.split(",")] if x else [] for x in f["sets"].split(" ")] if f["sets"] else []
    edges = [tuple(map(int, x.split(":"))) for x in f["edges"].split()]
    used = set()
    for (src, trg, ty, a1, a2, a3) in edges:
        found = False
        for j, t in enumerate(atn.states[src].transitions):
            if (src, j) in used or t.serializationType != ty:
                continue
            if ty == Transition.RULE:
                ok = (t.target.stateNumber == a1 and t.ruleIndex == a2 and t.precedence == a3 and t.followState.stateNumber == trg)
            else:
                ok = t.target.stateNumber == trg
                if ty == Transition.RANGE:
                    ok = ok and (t.start == (-1 if a3 else a1)) and t.stop == a2
                elif ty == Transition.ATOM:
                    ok = ok and t.label_ == (-1 if a3 else a1)
                elif ty in (Transition.SET, Transition.NOT_SET):
                    iv = [(r.start, r.stop - 1) for r in t.label.intervals if r.stop - 1 >= 0 and not (r.start == -1 and r.stop == 0)]
                    iv = [(max(a, 0), b) for a, b in iv]
                    ok = ok and a1 < len(sets) and sorted(iv) == sorted(sets[a1])
                elif ty == Transition.PREDICATE:
                    ok = ok and t.ruleIndex == a1 and t.predIndex == a2
                elif ty == Transition.ACTION:
                    ok = ok and t.ruleIndex == a1 and (t.actionIndex == a2 or (a2 >= 65533 and t.actionIndex in (-1, 65533, 65534, 65535)))
                elif ty == Transition.PRECEDENCE:
                    ok = ok and t.precedence == a1
            if ok:
                used.add((src, j)); found = True
                break
        if not found:
            msgs.append("%s: edge %s of the model has no counterpart among ANTLR's transitions of state %d" % (label, (src, trg, ty, a1, a2, a3), src))
    # transitions ANTLR has beyond the serialised edges: returns from rule stop states, mode start edges, and for
    # left-recursive rules the precedence bypass - all epsilon
    extra = 0
    for s in atn.states:
        if s is None: continue
        for j, t in enumerate(s.transitions):
            if (s.stateNumber, j) not in used:
                extra += 1
                if t.serializationType != Transition.EPSILON:
                    msgs.append("%s: ANTLR has a non-epsilon transition %d -> %d the serialisation does not list" % (label, s.stateNumber, t.target.stateNumber))
    if [d.stateNumber for d in atn.decisionToState] != list(map(int, f["decisions"].split())):
        msgs.append("%s: decision states differ" % label)
    if [r.stateNumber for r in atn.ruleToStartState] != list(map(int, f["rulestart"].split())):
        msgs.append("%s: rule start states differ" % label)
    if atn.grammarType == 0 and list(atn.ruleToTokenType) != [(-1 if x == 0xFFFF else x) for x in map(int, f["ruletok"].split())]:
        msgs.append("%s: rule token types differ: %s vs %s" % (label, list(atn.ruleToTokenType)[:5], f["ruletok"][:30]))
    if int(f["rest"]) != (0 if atn.grammarType == 1 else None) and atn.grammarType == 1:
        msgs.append("%s: %s numbers left over after decoding" % (label, f["rest"]))
    return msgs, len(edges), extra


def extraction_check(ctx):
    """what the translator reads out of the .py files is what the module gives the ANTLR runtime"""
    import translate
    from antlr4.atn.ATNDeserializer import ATNDeserializer
    from blackbird.blackbirdLexer import blackbirdLexer, serializedATN as lex_atn
    from blackbird.blackbirdParser import blackbirdParser, serializedATN as par_atn
    msgs = []
    for label, fn, path, cls in (("lexer", lex_atn, "blackbirdLexer.py", blackbirdLexer),
                                 ("parser", par_atn, "blackbirdParser.py", blackbirdParser)):
        runtime = [ord(c) for c in fn()]
        static = translate.py_serialized_atn(os.path.join(core.REPO, "blackbird_python", "blackbird", path))
        if runtime != static:
            msgs.append("%s: the serialised ATN read from the file differs from the one the module returns" % label)
            continue
        atn = ATNDeserializer().deserialize(fn())
        if len(atn.ruleToStartState) != len(cls.ruleNames):
            msgs.append("%s: ATN has %d rules, ruleNames has %d" % (label, len(atn.ruleToStartState), len(cls.ruleNames)))
        # the Lean decoder (Blackbird/ATN.lean) against ANTLR's own deserializer, on the same numbers
        dm, nedges, nextra = atn_decoder_check(label, fn())
        msgs += ["decoder, " + m for m in dm[:5]]
        ctx.extra["%s_atn_edges_compared_with_ANTLR_deserializer" % label] = nedges
        ctx.extra["%s_atn_epsilon_edges_ANTLR_adds" % label] = nextra
        ctx.extra["%s_atn_states" % label] = len(atn.states)
        ctx.extra["%s_atn_ints" % label] = len(runtime)
        ctx.traces += 1
    return msgs


# ------------------------------------------------------------------ replay / run

def literals_of(g):
    lit = {}
    for r in g["rules"]:
        if r["lexer"] and not r["fragment"] and len(r["alts"]) == 1 and len(r["alts"][0]["elems"]) == 1 \
                and r["alts"][0]["elems"][0][0] == "lit":
            lit[r["name"]] = r["alts"][0]["elems"][0][1]
    return lit


def replay(ctx, data):
    g = g4.read(os.path.join(core.REPO, "src", "blackbird.g4"))
    if data.get("kind") == "lexer":
        return lexer_case(RefLexer(g), data["text"])
    if data.get("kind") == "parser":
        return parser_case(g4.load_bnf(core.REPO), data["tokens"], literals_of(g))[0]
    return oracles.generic_replay(data)


def lexer_inputs(ref, rng, n_per_rule, n_soup):
    """boundary-adversarial strings: a sample of every rule alone, truncated, extended by one
    character, glued to a sample of another rule with and without a separator; character soups"""
    out = []
    rules = ref.tokens
    tails = list("aj0.+-eE ,\"#\n\t{}1q")
    for r in rules:
        for _ in range(n_per_rule):
            s = ref.sample(r, rng)
            out.append(("rule:" + r["name"], s))
            if len(s) > 1:
                out.append(("truncated", s[: rng.randrange(1, len(s))]))
            out.append(("extended", s + rng.choice(tails)))
            o = ref.sample(rng.choice(rules), rng)
            out.append(("glued", s + o))
            out.append(("separated", s + " " + o))
            out.append(("prefixed", rng.choice(tails) + s))
    alphabet = "ab1 .,()[]{}|=+-*/\n\r\t\"#qjeE;$é0_:x9"
    for _ in range(n_soup):
        out.append(("char-soup", "".join(rng.choice(alphabet) for _ in range(rng.randrange(1, 30)))))
    for _ in range(n_soup // 2):
        parts = [ref.sample(rng.choice(rules), rng) for _ in range(rng.randrange(2, 8))]
        out.append(("rule-soup", rng.choice(["", " "]).join(parts)))
    # spaces and tabs: the TAB / SPACE tie
    for k in range(0, 10):
        out.append(("spaces", "x" + " " * k + "y"))
        out.append(("spaces", " " * k + "y"))
    return out


def run(ctx):
    ctx.rule = ("lexer: for every token rule of the current src/blackbird.g4, strings sampled from the rule's own "
                "regular expression (set boundaries included), each also truncated, extended or prefixed by one "
                "character, glued to a sample of another rule with and without a separator, plus rule soups, "
                "character soups and 0-9 space runs; the token stream (kinds, texts, lines, columns) of the shipped "
                "blackbirdLexer is compared with a reference lexer interpreting the grammar's lexer rules (longest "
                "match, earliest rule on ties) and with the Lean model lexer. parser: every token sequence of up to "
                "5 (quick) / 7 (thorough) tokens, capped at 4000 / 60000 sequences, over the whole 61-token vocabulary reachable as an "
                "extension of a viable prefix, random sentences derived from the grammar's parser rules of growing "
                "size, single-token deletions / insertions / substitutions / swaps of those, every window of 1-3 tokens written twice, and expressions nested 30 / 100 / 150 (250) "
                "levels deep through brackets, signs, powers, function calls and array indices; the verdict of the "
                "shipped blackbirdParser fed the token sequence directly is compared with an Earley recogniser over "
                "the grammar. extraction: the serialised ATNs the translator reads are what the modules hand to the "
                "ANTLR runtime. non-trivial = lexer input with at least 2 tokens or parser input with at least 3 "
                "tokens; distinct by input")
    ctx.extra["trusted_extra"] = [
        "harness/translate.py and harness/g4.py: readers that regenerate lean/Gen/*.lean from src/blackbird.g4, the "
        "four generated lexer/parser sources, the four .interp and two .tokens files; validated on every run "
        "(re-rendered grammar equals the source text modulo comments and spacing; the ATN read statically equals the "
        "one the imported module hands the ANTLR runtime and deserialises there)",
        "Blackbird/ATN.lean's decoder of the serialisation format is compared on every run with ANTLR's own ATNDeserializer "
        "(states, every serialised edge with its label, sets, decisions, rule start states, token types); the configuration "
        "semantics of Blackbird/ATNSem.lean stays a reading of LexerATNSimulator",
        "the ANTLR 4.9.2 tool's translation of the grammar to the ATN is NOT proved: the differential lexer/parser "
        "checks in 'rule' stand for it"]
    g = g4.read(os.path.join(core.REPO, "src", "blackbird.g4"))
    ref = RefLexer(g)
    bnf = g4.load_bnf(core.REPO)
    lit = literals_of(g)
    terminals = [r["name"] for r in g["rules"] if r["lexer"] and not r["fragment"] and not r["skip"]]

    for m in extraction_check(ctx):
        ctx.disagree("extraction: " + m, {"kind": "correspondence", "what": m})

    # ---- lexer
    inputs = lexer_inputs(ref, ctx.rng, ctx.n(6, 60), ctx.n(600, 8000))
    seen = set()
    texts = []
    for k, t in inputs:
        if t and t not in seen:
            seen.add(t)
            texts.append((k, t))
    outs = core.model_batch([core.cmd("LEX", t) for _, t in texts])
    for (k, t), o in zip(texts, outs):
        ctx.count("lexer:" + k.split(":")[0])
        want = ref.lex(t)
        ctx.case("L" + t, nontrivial=len(want) >= 2)
        msg = lexer_case(ref, t)
        if msg:
            ctx.violation("lexer: " + msg, {"kind": "lexer", "text": t})
        real = ["%s:%s:%d:%d" % (kk, sx.hexs(x), l, c) for (kk, x, l, c) in want]
        model = [x for x in o.split(" ") if x and not x.startswith("EOF:")]
        if real != model:
            j = next((i for i, (a, b) in enumerate(zip(real, model)) if a != b), min(len(real), len(model)))
            ctx.disagree("LEX: token %d: model %s, grammar %s" % (
                j, model[j] if j < len(model) else None, real[j] if j < len(real) else None),
                {"kind": "correspondence", "cmd": "LEX", "text": t})
        else:
            ctx.traces += 1
    for _k, t in texts[:3]:
        ctx.sample(t)
    # words on which a rule's automaton and the rule's regular expression disagree, found by the certificate
    # generator when a certificate does not close (none on a tree where the lexer ATN matches the grammar)
    try:
        cert = open(os.path.join(os.environ.get("VERIF_GEN_DIR") or os.path.join(core.LEAN_DIR, "Gen"), "ATNCert.lean"), encoding="utf-8").read()
    except OSError:
        cert = ""
    for line in cert.splitlines():
        if line.startswith("-- CEX lexer "):
            parts = line.split()
            word = "".join(chr(int(c)) for c in parts[4:] if 0 < int(c) < 0x110000)
            ctx.count("lexer:certificate-counterexample")
            for t in (word, word + " ", "x " + word, word + "(1)"):
                ctx.case("L" + t, nontrivial=True)
                msg = lexer_case(ref, t)
                if msg:
                    ctx.violation("lexer (word from the failed certificate of rule %s): %s" % (parts[3], msg),
                                  {"kind": "lexer", "text": t})
                    break

    # ---- parser
    seqs = []
    for cand, _acc in enumerate_prefixes(bnf, terminals, ctx.n(5, 7), ctx.n(4000, 60000)):
        seqs.append(("short", list(cand)))
    nsent = ctx.n(150, 1500)
    made = 0
    tries = 0
    while made < nsent and tries < nsent * 20:
        tries += 1
        s = derive(bnf, ctx.rng, ctx.rng.choice([5, 10, 20, 40, 80]))
        if s is None:
            continue
        made += 1
        seqs.append(("sentence", s))
        n = len(s)
        for _ in range(ctx.n(6, 20)):
            if n == 0:
                break
            p = ctx.rng.randrange(n)
            kind = ctx.rng.randrange(4)
            if kind == 0:
                seqs.append(("delete", s[:p] + s[p + 1:]))
            elif kind == 1:
                seqs.append(("insert", s[:p] + [ctx.rng.choice(terminals)] + s[p:]))
            elif kind == 2:
                seqs.append(("substitute", s[:p] + [ctx.rng.choice(terminals)] + s[p + 1:]))
            elif p + 1 < n:
                seqs.append(("swap", s[:p] + [s[p + 1], s[p]] + s[p + 2:]))
        # every window of one to three tokens written twice (what a `?` turned into a `*` in the rule code, or a
        # loop that runs once too often, would accept): all positions for the first sentences, a sample later
        if made <= ctx.n(40, 400) and n <= 60:
            for w in (1, 2, 3):
                for p in range(0, n - w + 1):
                    seqs.append(("repeat", s[:p + w] + s[p:p + w] + s[p + w:]))
        elif n:
            for _ in range(3):
                w = ctx.rng.choice([1, 2, 3])
                p = ctx.rng.randrange(max(1, n - w + 1))
                seqs.append(("repeat", s[:p + w] + s[p:p + w] + s[p + w:]))
    # the token sequences of generated scripts (loops with two- and three-part ranges, shaped arrays, options, includes)
    # with every window of one to three tokens written twice
    import gen
    for _ in range(ctx.n(25, 250)):
        sc, _ = gen.gen_script(ctx.rng, {"depth": 1, "max_items": 4})
        toks, _ = core.real_tokens(gen.render(sc))
        s = [t[0] for t in toks]
        seqs.append(("script", s))
        n = len(s)
        if n <= 80:
            for w in (1, 2, 3):
                for p in range(0, n - w):
                    seqs.append(("repeat", s[:p + w] + s[p:p + w] + s[p + w:]))
    # deep nesting: the grammar has no bound on it (150 levels is far inside what the interpreter's stack allows)
    head = ["PROGNAME", "NAME", "NEWLINE", "VERSION", "FLOAT", "NEWLINE", "NAME", "LBRAC"]
    for d in (30, 100, ctx.n(150, 250)):
        for mid in (["LBRAC"] * d + ["INT"] + ["RBRAC"] * d, ["MINUS"] * d + ["INT"], ["INT", "PWR"] * d + ["INT"],
                    ["SIN", "LBRAC"] * d + ["INT"] + ["RBRAC"] * d,
                    ["NAME", "LSQBRAC"] * d + ["INT"] + ["RSQBRAC"] * d):
            seqs.append(("deep", head + mid + ["RBRAC", "APPLY", "INT"]))
            seqs.append(("deep", head + mid + ["RBRAC", "APPLY"]))
    seen = set()
    nacc = 0
    for k, s in seqs:
        key = tuple(s)
        if key in seen:
            continue
        seen.add(key)
        msg, acc = parser_case(bnf, s, lit)
        ctx.count("parser:" + k)
        ctx.count("parser:derivable" if acc else "parser:not-derivable")
        nacc += 1 if acc else 0
        ctx.case("P" + " ".join(s), nontrivial=len(s) >= 3)
        if msg:
            ctx.violation("parser: " + msg + ": " + " ".join(s), {"kind": "parser", "tokens": list(s)})
        else:
            ctx.traces += 1
    ctx.extra["parser_sentences_accepted"] = nacc
    ctx.extra["lexer_inputs"] = len(texts)
    ctx.extra["longest_sentence_tokens"] = max((len(s) for k, s in seqs if k == "sentence"), default=0)
