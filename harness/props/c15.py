"""C15 — TDM programs pass p-arrays by name and keep their data."""
import random

import numpy as np

import canon
import core
import enc
import gen
import oracles
import sx
from props import c01, common


def gen_tdm(rng, templates=False):
    """tdm script: p-arrays of each dtype and length, ordinary scalars and arrays, operations using
    p-arrays positionally and by keyword, loops; returns (text, info)"""
    npar = rng.randrange(0, 5)
    pnames = ["p%d" % k for k in rng.sample(range(0, 12), npar)]
    lines = []
    info = {"parrays": {}, "scalars": {}, "arrays": {}, "uses": []}
    long_one = rng.random() < 0.02          # once in a while a p-array beyond NumPy's print threshold
    for pn in pnames:
        ty = rng.choice(["float", "float", "int", "complex"])
        n = rng.randrange(1, 6)
        if long_one and ty != "complex":
            n = rng.randrange(1001, 1500)
            long_one = False
        if ty == "int":
            vals = [rng.randrange(-5, 9) for _ in range(n)]
            txt = ", ".join(str(v) for v in vals)
        elif ty == "float":
            vals = [rng.randrange(-16, 17) / rng.choice([1, 2, 4, 8]) for _ in range(n)]
            txt = ", ".join(repr(float(v)) for v in vals)
            vals = [float(v) for v in vals]
        else:
            vals = [complex(rng.randrange(-4, 5) / 2, rng.randrange(-4, 5) / 2) for _ in range(n)]
            if rng.random() < 0.3:
                # a complex array all of whose entries happen to be real is a complex array all the same
                vals = [complex(v.real, 0.0) for v in vals]
            txt = ", ".join("%r%s%rj" % (v.real, "+" if v.imag >= 0 else "-", abs(v.imag)) for v in vals)
        lines.append("%s array %s =\n    %s\n" % (ty, pn, txt))
        info["parrays"][pn] = (ty, vals)
    # ordinary variables
    if rng.random() < 0.6:
        lines.append("float x = 0.25\n")
        info["scalars"]["x"] = 0.25
    if rng.random() < 0.4:
        lines.append("int n = 3\n")
        info["scalars"]["n"] = 3
    if rng.random() < 0.3:
        lines.append("complex z = 1+2j\n")
        info["scalars"]["z"] = 1 + 2j
    if rng.random() < 0.3:
        # (a string variable may hold characters that Python's splitlines() takes for line ends; the grammar does not)
        sv = rng.choice(["abc", "abc", "a\x0bb", "x\u2028y", "a\x85b", "two  blanks", "a\x0cb", "tab\there", "q\x1cr"])
        lines.append('str s = "%s"\n' % sv)
        info["scalars"]["s"] = sv
    if rng.random() < 0.3:
        lines.append("bool flag = True\n")
        info["scalars"]["flag"] = True
    if rng.random() < 0.4:
        lines.append("float array B =\n    0.5, 1.5\n    2.5, 3.5\n")
        info["arrays"]["B"] = [0.5, 1.5, 2.5, 3.5]
    plike = None
    if rng.random() < 0.25:
        # an ordinary array whose name only starts like a p-array: by value, never by name
        plike = rng.choice(["p0_phase", "p1x", "p12a", "p0_1", "p1_0", "p0_0_0", "p_1", "p1_"])
        lines.append("float array %s =\n    0.25, 0.75\n" % plike)
        info["arrays"][plike] = [0.25, 0.75]
    # (templates) a p-array declared wholesale by one shaped parameter: still passed by name
    info["symbolic_parrays"] = {}
    if templates and rng.random() < 0.35:
        pn = "p%d" % rng.randrange(20, 30)
        w = rng.randrange(1, 4)
        # the parameter may be spelled like a p-array declared in the same script (it is a parameter all the same)
        sympar = rng.choice(list(info["parrays"])) if (info["parrays"] and rng.random() < 0.4) else "rs"
        info["sympar"] = sympar
        lines.append("float array %s[1, %d] =\n    {%s}\n" % (pn, w, sympar))
        info["symbolic_parrays"][pn] = w
        pnames = pnames + [pn]
    rng.shuffle(lines)
    if info.get("sympar", "rs") != "rs":
        # the p-array whose name the parameter borrows is declared BEFORE the array that uses the parameter
        decl = [l for l in lines if l.startswith(("float array %s =" % info["sympar"], "int array %s =" % info["sympar"], "complex array %s =" % info["sympar"]))]
        rest = [l for l in lines if l not in decl]
        lines = decl + rest
    ops = []
    params = []
    declared = [k for k in ("x", "n", "z", "s", "flag", "B") if k in info["scalars"] or k in info["arrays"]]
    for _ in range(rng.randrange(1, 7)):
        gate = rng.choice(["Sgate", "BSgate", "Rgate", "MeasureHomodyne", "G"])
        pos, kw = [], []
        for _ in range(rng.choice([0, 1, 2])):
            r = rng.random()
            if pnames and r < 0.5:
                pn = rng.choice(pnames)
                # redundant brackets or a unary plus around the whole reference do not change what it denotes
                pos.append(rng.choice([pn, pn, pn, "(%s)" % pn, "+%s" % pn]))
                info["uses"].append(("pos", pn))
            elif pnames and r < 0.56:
                # an ELEMENT of a p-array is a number like any other array element
                pn = rng.choice(pnames)
                n_el = len(info["parrays"][pn][1]) if pn in info["parrays"] else 1
                pos.append("%s[%d]" % (pn, rng.randrange(n_el)))
            elif plike and r < 0.6:
                pos.append(plike)
            elif "x" in info["scalars"] and r < 0.65:
                pos.append("x")
            elif templates and r < 0.8:
                q = rng.choice(["a", "al", "phi"])
                params.append(q)
                pos.append("2*{%s}" % q)
            elif declared and r < 0.9:
                # a STRING that happens to be the name of a declared (non-p) variable stays a string
                pos.append('"%s"' % rng.choice(declared + ["p0x", "p12 ab", "p1_", "p"]))
            else:
                pos.append(rng.choice(["0.5", "1", "0.0", "2.5"]))
        if declared and rng.random() < 0.15:
            kw.append('label="%s"' % rng.choice(declared))
        if rng.random() < 0.4:
            if pnames and rng.random() < 0.6:
                pn = rng.choice(pnames)
                kw.append("phi=%s" % rng.choice([pn, pn, "(%s)" % pn, "+%s" % pn]))
                info["uses"].append(("kw", pn))
            else:
                kw.append("phi=%s" % rng.choice(["0.5", "x" if "x" in info["scalars"] else "1"]))
        args = "(" + ", ".join(pos + kw) + ")" if (pos or kw) else ""
        k = rng.choice([1, 1, 2])
        ms = rng.sample(range(3), k)
        ops.append("%s%s | %s" % (gate, args, str(ms[0]) if k == 1 else "[" + ", ".join(map(str, ms)) + "]"))
    if rng.random() < 0.3 and pnames:
        ops.append("for int m in 0:2\n    Rgate(%s, m) | m" % rng.choice(pnames))
        info["uses"].append(("loop", pnames[0]))
    if rng.random() < 0.2 and info["parrays"]:
        pn = rng.choice(sorted(info["parrays"]))
        if len(info["parrays"][pn][1]) >= 2:
            ops.append("for int m in 0:2\n    Rgate(%s[m]) | m" % pn)
    opts = rng.choice(["", " (temporal_modes=3)", " (temporal_modes=2, copies=1)"])
    text = "name t\nversion 1.0\n" + rng.choice(["", "target TD2 (shots=10)\n"]) + "type tdm%s\n\n" % opts + "".join(lines) + "\n" + "\n".join(ops) + "\n"
    for pn, w in info["symbolic_parrays"].items():
        if any(u[1] == pn for u in info["uses"]):
            params += ["%s_0_%d" % (info.get("sympar", "rs"), j) for j in range(w)]
        else:
            params += ["%s_0_%d" % (info.get("sympar", "rs"), j) for j in range(w)]
    info["params"] = sorted(set(params))
    info["pnames"] = pnames
    return text, info


def check_tdm(text, info, roundtrip=True):
    ic, obj = core.impl_canon_loads(text)
    if ic[0] != "prog":
        return "tdm script is refused with %s: %r" % (ic[1:3], obj)
    # p-arrays are delivered by name; others by value
    for o in obj.operations:
        for a in list(o.get("args", [])) + list(o.get("kwargs", {}).values()):
            if isinstance(a, np.ndarray) and False:
                pass
    text_ops = [l for l in text.split("\n\n", 2)[-1].split("\n")]
    for pn, (ty, vals) in info["parrays"].items():
        v = obj.variables.get(pn)
        if not isinstance(v, np.ndarray):
            return "p-array %s is not available in the variables (%r)" % (pn, type(v).__name__)
        if v.shape != (1, len(vals)) or not all(canon.close(a, b, 1e-12) for a, b in zip(v.flatten(), vals)):
            return "p-array %s holds %r, declared %r" % (pn, v.tolist(), vals)
        if v.dtype.kind != {"int": "i", "float": "f", "complex": "c"}[ty]:
            return "p-array %s has dtype %s, declared %s" % (pn, v.dtype, ty)
    seen_names = []
    for o in obj.operations:
        for a in list(o.get("args", [])) + list(o.get("kwargs", {}).values()):
            if isinstance(a, str) and (a in info["parrays"] or a in info.get("symbolic_parrays", {})):
                seen_names.append(a)
            if isinstance(a, np.ndarray):
                # an array delivered by value must not be a p-array
                for pn, (ty, vals) in info["parrays"].items():
                    if a.shape == (1, len(vals)) and list(a.flatten()) == vals and len(vals) > 0:
                        uses_b = "B" in info["arrays"]
                        if not uses_b:
                            return "p-array %s is delivered by value" % pn
    want_uses = sum(1 for k, _ in info["uses"] if k in ("pos", "kw")) + sum(2 for k, _ in info["uses"] if k == "loop")
    if len(seen_names) != want_uses:
        return "%d p-array references written, %d delivered by name" % (want_uses, len(seen_names))
    if sorted(obj.parameters) != info["params"]:
        return "free parameters %s, written parameters %s" % (sorted(obj.parameters), info["params"])
    if obj.is_template() != bool(info["params"]):
        return "is_template() is %s with written parameters %s" % (obj.is_template(), info["params"])
    for n, v in info["scalars"].items():
        if n not in obj.variables or obj.variables[n] != v:
            return "scalar %s holds %r, declared %r" % (n, obj.variables.get(n), v)
    if not roundtrip:
        return None
    import blackbird
    with core.quiet():
        try:
            t2 = blackbird.dumps(obj)
        except Exception as e:  # noqa: BLE001
            return "dumps raises %r" % (e,)
    ic2, obj2 = core.impl_canon_loads(t2)
    if ic2[0] != "prog":
        return "serialised tdm program is refused with %s: %r; text %r" % (ic2[1:3], obj2, t2[:400])
    d = common.cmp_impl(ic[1], ic2[1], exact=True, check_vars="hoisting")
    if d:
        return "after dumps/loads: %s; text %r" % ("; ".join(d[:3]), t2[:400])
    return None


def replay(ctx, data):
    if data.get("kind") == "tdm":
        info = data["info"]
        def num(x):
            # complex numbers travel through JSON as [re, im] (jinfo) or, in files written with default=str, as "(1+2j)"
            if isinstance(x, list):
                return complex(*x)
            if isinstance(x, str) and x.endswith("j)") and x.startswith("("):
                return complex(x)
            return x
        info["parrays"] = {k: (v[0], [num(x) for x in v[1]]) for k, v in info["parrays"].items()}
        info["uses"] = [tuple(u) for u in info["uses"]]
        info["scalars"] = {k: (num(v) if k != "s" else v) for k, v in info["scalars"].items()}
        return check_tdm(data["text"], info, data.get("roundtrip", True))
    return oracles.generic_replay(data)


def jinfo(info):
    out = dict(info)
    out["parrays"] = {k: (v[0], [[x.real, x.imag] if isinstance(x, complex) else x for x in v[1]]) for k, v in info["parrays"].items()}
    out["scalars"] = {k: ([v.real, v.imag] if isinstance(v, complex) else v) for k, v in info["scalars"].items()}
    return out


def run(ctx):
    ctx.rule = ("random tdm scripts with 0-4 p-arrays (int/float/complex, length 1-5, occasionally 1001-1500; in templates also a p-array declared wholesale by one shaped parameter) used positionally, by keyword "
                "and in loop bodies, next to ordinary scalars of every type, an ordinary array, string arguments that spell the name of a declared variable, and (every third "
                "script) template parameters; oracle: p-arrays delivered by name and available in the variables with "
                "declared data and dtype, p-names never among the free parameters, is_template iff braces are "
                "written, then loads(dumps(p)) preserves operations, references and variables exactly; model LOADS "
                "and DUMPS vs implementation; excluded (open finding): tdm templates whose variables hold parameters; non-trivial = at "
                "least one p-array reference; distinct by text")
    n = ctx.n(400, 6000)
    texts = []
    progs = []
    for i in range(n):
        tmpl = (i % 3 == 2)
        text, info = gen_tdm(ctx.rng, templates=tmpl)
        ctx.case(text, nontrivial=bool(info["uses"]))
        ctx.count("parrays:%d" % len(info["parrays"]))
        ctx.count("template" if info["params"] else "no-parameters")
        ctx.sample(text)
        texts.append(text)
        # parameters occur in operation arguments only; a tdm template whose *variables* hold
        # parameters cannot be serialised (open finding C15-tdm-parametrised-variable)
        rt = not info["symbolic_parrays"]
        if info["symbolic_parrays"]:
            ctx.count("whole-array-parameter p-array (no round trip: open finding)")
        if any(len(v[1]) > 1000 for v in info["parrays"].values()):
            ctx.count("p-array longer than 1000")
        msg = check_tdm(text, info, roundtrip=rt)
        if msg:
            ctx.violation("tdm: " + msg, {"kind": "tdm", "text": text, "info": jinfo(info), "roundtrip": rt})
        elif rt:
            progs.append(core.impl_loads(text)[1])
    common.loads_corr(ctx, texts, "LOADS(tdm)")
    c01.dumps_corr(ctx, progs)
    c01.unparse_corr(ctx, progs)
