"""C16 — the dependency graph is an order-respecting DAG of the operations."""
import random

import networkx as nx

import canon
import core
import enc
import gen
import oracles
import sx
from props import common

GATES = ["Sgate", "BSgate", "Dgate", "Vac", "Rgate", "MeasureX", "MeasureFock", "Kgate", "G"]


def gen_circuit_text(rng, maxops, nmodes=8):
    """a script of operations over a few modes, some arguments depending on measured registers"""
    lines = []
    # modes may be written as arithmetic or as elements of an integer array (they then reach the operation as
    # NumPy integers), and a register may reach an argument through a variable
    use_arr = rng.random() < 0.3
    if use_arr:
        lines.append("int array M_ =\n    " + ", ".join(str(m) for m in range(nmodes)))
    regvars = []

    def spell(m):
        r = rng.random()
        if use_arr and r < 0.3:
            return "M_[%d]" % m
        if r < 0.45:
            return rng.choice(["%d+%d" % (m - 1, 1), "%d-1" % (m + 1), "2*%d-%d" % (m, m)]) if m >= 1 else "1-1"
        return str(m)

    for _ in range(rng.randrange(1, maxops + 1)):
        k = rng.choice([1, 1, 2, 2, 3])
        modes = rng.sample(range(nmodes), min(k, nmodes))
        r = rng.random()
        if rng.random() < 0.12:
            q = rng.randrange(nmodes + 2)
            v = "g%d_" % len(regvars)
            lines.append("float %s = %s" % (v, rng.choice(["2*q%d", "q%d + 0.5", "q%d"]) % q))
            regvars.append(v)
        if r < 0.3:
            args = ""
        else:
            parts = []
            for _ in range(rng.choice([1, 1, 2])):
                if rng.random() < 0.06:
                    # a template parameter whose NAME starts like a register reference is a parameter, not a wire
                    parts.append(rng.choice(["{q0_%d}", "2*{q0_%d}", "{q%d_0}"]) % rng.randrange(nmodes))
                elif regvars and rng.random() < 0.25:
                    parts.append(rng.choice([rng.choice(regvars), "0.5*" + rng.choice(regvars)]))
                elif rng.random() < 0.3:
                    regs = rng.sample(range(nmodes + 2), rng.choice([1, 1, 2]))
                    # q01 is register 1 as much as q1 is (one spelling per register here: two spellings of one
                    # register in a single expression are two SymPy symbols)
                    regs = [("0" * rng.choice([0, 0, 0, 1, 2]) + str(q)) for q in regs]
                    parts.append(gen.r_expr(gen.gen_symexpr(rng, [("reg", q) for q in regs], 1, None, need_all=True), gen.Layout()))
                else:
                    parts.append(rng.choice(["0.5", "1", "2.5", "0.1", "1+2j"]))
            if rng.random() < 0.3:
                regs = [("0" * rng.choice([0, 0, 1]) + str(q)) for q in rng.sample(range(nmodes + 2), 1)]
                parts.append("phi=" + gen.r_expr(gen.gen_symexpr(rng, [("reg", q) for q in regs], 1, None), gen.Layout()))
            args = "(" + ", ".join(parts) + ")"
        ms = ", ".join(spell(m) for m in modes)
        lines.append("%s%s | %s" % (rng.choice(GATES), args, ms if len(modes) == 1 else "[" + ms + "]"))
    # the dependency graph does not depend on the declared program type
    head = rng.choice(["", "", "", "type tdm (temporal_modes=2)\n", "type tdm\n", "target X8 (shots=3)\n"])
    return "name c\nversion 1.0\n" + head + "\n" + "\n".join(lines) + "\n"


def wires_of(op):
    from blackbird.listener import RegRefTransform
    w = set(int(m) for m in op["modes"])
    import re as _re
    import sympy as _sym
    for a in list(op.get("args", [])) + list(op.get("kwargs", {}).values()):
        if isinstance(a, RegRefTransform):
            w |= set(a.regrefs)
        elif isinstance(a, _sym.Expr):
            # a symbolic argument that mentions a measured register depends on it, however it was delivered
            w |= {int(str(x)[1:]) for x in a.free_symbols if _re.fullmatch(r"q\d+", str(x))}
    return w


def check_regraph(text, seed):
    """the graph is a function of the program as it is NOW: convert, change some modes in place (same
    number of operations), convert again, compare with the graph of a deep copy"""
    import copy
    import random as _r
    from blackbird.utils import to_DiGraph
    rng = _r.Random(seed)
    r = core.impl_loads(text)
    if r[0] != "ok":
        return None
    p = r[1]
    fresh = core.impl_loads(text)[1]          # a second, independent object: never converted before
    with core.quiet():
        to_DiGraph(p)
        for o, o2 in zip(p._operations, fresh._operations):
            if rng.random() < 0.5:
                o["modes"] = [(int(m) + 1) % 8 for m in o["modes"]]
                o2["modes"] = list(o["modes"])
        g1 = to_DiGraph(p)
        g2 = to_DiGraph(fresh)

    def desc(g):
        return (sorted((n, g.nodes[n]["name"], tuple(g.nodes[n]["modes"])) for n in g.nodes()), sorted(g.edges()))
    if desc(g1) != desc(g2):
        return "after operations were edited in place, to_DiGraph returns a graph that is not the program's: %s vs %s" % (
            desc(g1)[0][:4], desc(g2)[0][:4])
    return None


def check_graph(text, rng):
    from blackbird.utils import to_DiGraph
    r = core.impl_loads(text)
    if r[0] != "ok":
        return "script refused: %r" % (r[1],)
    p = r[1]
    ops = p.operations
    wires = [wires_of(o) for o in ops]
    with core.quiet():
        G = to_DiGraph(p)
    n = len(ops)
    if sorted(G.nodes()) != list(range(n)):
        return "nodes %s, operations 0..%d" % (sorted(G.nodes())[:20], n - 1)
    for i in range(n):
        d = G.nodes[i]
        if d.get("name") != ops[i]["op"] or tuple(d.get("modes", ())) != tuple(ops[i]["modes"]):
            return "node %d carries %r, operation is %r" % (i, (d.get("name"), d.get("modes")), (ops[i]["op"], ops[i]["modes"]))
        if list(d.get("args", [])) != list(ops[i].get("args", [])) or dict(d.get("kwargs", {})) != dict(ops[i].get("kwargs", {})):
            return "node %d carries arguments %r / %r, operation has %r / %r" % (
                i, d.get("args"), d.get("kwargs"), ops[i].get("args", []), ops[i].get("kwargs", {}))
    for (i, j) in G.edges():
        if not i < j:
            return "edge (%d, %d) does not point from an earlier to a later operation" % (i, j)
    if not nx.is_directed_acyclic_graph(G):
        return "graph has a cycle"
    # reachability = chains of operations successively sharing a wire
    reach = [set() for _ in range(n)]
    for i in range(n - 1, -1, -1):
        for j in range(i + 1, n):
            if wires[i] & wires[j]:
                reach[i].add(j)
                reach[i] |= reach[j]
    for i in range(n):
        have = set(nx.descendants(G, i))
        if have != reach[i]:
            return "operations reachable from %d: graph %s, chain relation %s" % (i, sorted(have), sorted(reach[i]))
    # topological orders keep the program's order on every wire
    for _ in range(3):
        order = random_topo(G, rng)
        pos = {v: k for k, v in enumerate(order)}
        for q in set().union(*wires) if wires else []:
            on = [i for i in range(n) if q in wires[i]]
            if [pos[i] for i in on] != sorted(pos[i] for i in on):
                return "topological order %s reorders the operations on wire %d" % (order, q)
    return None


def random_topo(G, rng):
    indeg = {v: G.in_degree(v) for v in G.nodes()}
    ready = [v for v, d in indeg.items() if d == 0]
    out = []
    while ready:
        v = ready.pop(rng.randrange(len(ready)))
        out.append(v)
        for w in G.successors(v):
            indeg[w] -= 1
            if indeg[w] == 0:
                ready.append(w)
    return out


def api_graph(spec):
    import apigen
    from blackbird.utils import to_DiGraph
    p = apigen.build(spec)
    with core.quiet():
        G = to_DiGraph(p)
    if sorted(G.nodes()) != list(range(len(p.operations))):
        return "nodes %s for %d operations" % (sorted(G.nodes()), len(p.operations))
    return None


def replay(ctx, data):
    if data.get("kind") == "regraph":
        return check_regraph(data["text"], data.get("seed", 0))
    if data.get("kind") == "api_graph":
        return api_graph(data["spec"])
    if data.get("kind") == "graph":
        return check_graph(data["text"], random.Random(0))
    return oracles.generic_replay(data)


def graph_corr(ctx, texts):
    from blackbird.utils import to_DiGraph
    lines, keep = [], []
    for t in texts:
        r = core.impl_loads(t)
        if r[0] != "ok":
            continue
        try:
            lines.append("GRAPH\t" + sx.hexs(enc.enc_program(r[1])))
            keep.append((t, r[1]))
        except enc.Unsupported:
            ctx.ood += 1
    outs = core.model_batch(lines)
    for (t, p), o in zip(keep, outs):
        x = sx.parse(o[: o.index(" (prog")] if " (prog" in o else o)
        with core.quiet():
            G = to_DiGraph(p)
        mnodes = sorted(int(nd[1]) for nd in x[1][1:])
        medges = sorted((int(e[1]), int(e[2])) for e in x[2][1:])
        if mnodes != sorted(G.nodes()) or medges != sorted(G.edges()):
            ctx.disagree("GRAPH: model nodes/edges %s / %s, implementation %s / %s" % (
                mnodes[:12], medges[:12], sorted(G.nodes())[:12], sorted(G.edges())[:12]),
                {"kind": "correspondence", "cmd": "GRAPH", "text": t})
        else:
            ctx.traces += 1


def run(ctx):
    ctx.rule = ("random programs of up to 40 (quick) / 200 (thorough) operations over 8 modes: operations without "
                "arguments, multi-mode operations, arguments depending on measured registers in positional and "
                "keyword position, also through variables declared from a register expression; modes written as literals, as arithmetic and as elements of an integer array; oracle: one node per operation with its name/args/modes, all edges forward, "
                "acyclic, networkx reachability equals the independently computed chain relation, three random "
                "topological orders keep every wire's order; model graph vs to_DiGraph; non-trivial = at least 4 "
                "operations and one shared wire; distinct by text")
    n = ctx.n(500, 6000)
    mx = ctx.n(40, 200)
    texts = []
    for i in range(n):
        t = gen_circuit_text(ctx.rng, ctx.rng.choice([3, 6, 12, mx]))
        nops = t.count(" | ")
        ctx.case(t, nontrivial=nops >= 4)
        ctx.count("ops<=%d" % (4 if nops <= 4 else 12 if nops <= 12 else 40 if nops <= 40 else 200))
        if "q" in t.split("\n\n", 1)[1]:
            ctx.count("register-dependency")
        ctx.sample(t)
        texts.append(t)
        msg = check_graph(t, ctx.rng)
        if msg:
            ctx.violation("graph: " + msg, {"kind": "graph", "text": t})
        elif i % 5 == 0:
            msg = check_regraph(t, ctx.rng.randrange(1 << 30))
            ctx.count("graph-after-in-place-edit")
            if msg:
                ctx.violation("graph: " + msg, {"kind": "regraph", "text": t, "seed": 0})
    graph_corr(ctx, texts)
