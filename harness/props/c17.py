"""C17 — template matching inverts instantiation, independent of commuting order."""
import copy
import random

import numpy as np
import sympy as sym

import canon
import core
import enc
import gen
import oracles
import sx
from props import c16, common

GATES = ["Sgate", "BSgate", "Dgate", "Rgate", "Xgate", "Zgate", "Kgate", "Vac", "MeasureX"]
PARS = ["r", "phi", "a", "al", "alpha", "t", "x1"]


def affine(rng, p, simple=False):
    c = rng.choice(["2", "3", "0.5", "4", "1.5", "8"])
    d = rng.choice(["1", "0.25", "3", "0.5", "2"])
    forms = ["{%s}" % p, "-{%s}" % p] if simple else \
        ["{%s}" % p, "-{%s}" % p, "%s*{%s}" % (c, p), "%s*{%s}+%s" % (c, p, d), "%s*{%s}-%s" % (c, p, d),
         "{%s}+%s" % (p, d), "%s-{%s}" % (d, p), "{%s}/%s" % (p, c), "-%s*{%s}+%s" % (c, p, d)]
    return rng.choice(forms)


def gen_template_text(rng, repeated_exact):
    """template with affine single-parameter positional arguments; `repeated_exact`: parameters may be
    repeated across operations in different affine forms (values must then be exact-friendly)"""
    npar = rng.randrange(1, 4)
    pars = rng.sample(PARS, npar)
    nops = rng.randrange(2, 9)
    lines = []
    used = {}
    for i in range(nops):
        k = rng.choice([1, 1, 2])
        modes = rng.sample(range(5), k)
        args = []
        for _ in range(rng.choice([0, 1, 1, 2])):
            r = rng.random()
            if r < 0.55:
                p = rng.choice(pars)
                if p in used and not repeated_exact:
                    # generic values: a parameter occurs once, or again in the very same form
                    args.append(used[p])
                else:
                    f = affine(rng, p)
                    used.setdefault(p, f)
                    args.append(f)
            else:
                args.append(rng.choice(["0.45", "1", "2.5", "0.1"]))
        a = "(" + ", ".join(args) + ")" if args else ""
        ms = str(modes[0]) if k == 1 else "[" + ", ".join(map(str, modes)) + "]"
        lines.append("%s%s | %s" % (rng.choice(GATES), a, ms))
    decl = ""
    if rng.random() < 0.3:
        # an operation with a constant array argument takes part in the matching like any other
        decl = "float array U =\n    0.5, 1.5\n    2.5, 3.5\n"
        lines.insert(rng.randrange(len(lines) + 1), "Interferometer(U) | [%d, %d]" % tuple(rng.sample(range(5), 2)))
    for p in pars:
        if p not in used:
            lines.append("Rgate({%s}) | %d" % (p, rng.randrange(5)))
            used[p] = "{%s}" % p
    tgt = rng.choice(["", "target fock\n", "target gaussian (shots=5)\n"])
    return "name t\nversion 1.0\n" + tgt + "\n" + decl + "\n".join(lines) + "\n", pars


def values_for(rng, pars, exact):
    if exact:
        return {p: rng.choice([1, 3, 5, 7, 9, 11, 13]) / rng.choice([2, 4, 8]) for p in pars}
    return {p: rng.uniform(0.2, 3.0) * rng.choice([1, -1]) for p in pars}


def reorder(prog, rng):
    """a random reordering of the operations that preserves the order on every mode"""
    from blackbird.utils import to_DiGraph
    with core.quiet():
        G = to_DiGraph(prog)
    order = c16.random_topo(G, rng)
    if sorted(order) != list(range(len(prog._operations))):
        return prog
    q = copy.deepcopy(prog)
    q._operations = [q._operations[i] for i in order]
    return q


def check_match(text, vals, seed, edits=True):
    from blackbird.utils import match_template, TemplateError
    rng = random.Random(seed)
    r = core.impl_loads(text)
    if r[0] != "ok":
        return "template refused: %r" % (r[1],)
    t = r[1]
    with core.quiet():
        inst = t(**vals)
    prog = reorder(inst, rng)
    with core.quiet():
        try:
            res = match_template(t, prog)
        except Exception as e:  # noqa: BLE001
            return "matching the template against its own instance (values %s, reordered) raises %r" % (vals, e)
    # the returned values reproduce the program's arguments
    try:
        with core.quiet():
            again = t(**{k: res[k] for k in t.parameters})
    except Exception as e:  # noqa: BLE001
        return "returned values %r do not instantiate the template: %r" % (res, e)
    d = common.cmp_impl(canon.canon_program(again)[1], canon.canon_program(inst)[1], loose_kinds=True)
    if d:
        return "returned values %r do not reproduce the arguments: %s" % (res, "; ".join(d[:3]))
    for p, v in vals.items():
        if p in res and not canon.close(res[p], v, 1e-9):
            return "parameter %s recovered as %r, instantiated with %r" % (p, res[p], v)
    if not edits:
        return None
    # single structural edits must be rejected with TemplateError
    for name, edited in structural_edits(prog, rng):
        with core.quiet():
            try:
                match_template(t, edited)
                return "program with %s is accepted" % name
            except TemplateError:
                pass
            except Exception as e:  # noqa: BLE001
                return "program with %s raises %r instead of TemplateError" % (name, e)
    # the same program OBJECT edited in place after it has been matched once (a result remembered per object
    # would still be served), then restored and matched again
    i = rng.randrange(len(prog._operations))
    old = prog._operations[i]["op"]
    prog._operations[i]["op"] = old + "X"
    with core.quiet():
        try:
            match_template(t, prog)
            return "the matched program edited in place (another gate at operation %d) is still accepted" % i
        except TemplateError:
            pass
        except Exception as e:  # noqa: BLE001
            return "the matched program edited in place raises %r instead of TemplateError" % (e,)
    prog._operations[i]["op"] = old
    with core.quiet():
        try:
            match_template(t, prog)
        except Exception as e:  # noqa: BLE001
            return "the program restored after an in-place edit no longer matches: %r" % (e,)
    return None


def check_tdm_match(text_t, text_p, want):
    """tdm programs: a bare {parameter} is matched by the p-array standing in its place, also when the
    parameter occurs several times"""
    from blackbird.utils import match_template
    t = core.impl_loads(text_t)
    p = core.impl_loads(text_p)
    if t[0] != "ok" or p[0] != "ok":
        return "tdm template or program refused: %r %r" % (t[1], p[1])
    with core.quiet():
        try:
            res = match_template(t[1], p[1])
        except Exception as e:  # noqa: BLE001
            return "matching a tdm template against a program with p-arrays in its parameters' places raises %r" % (e,)
    for k, rows in want.items():
        if k not in res:
            return "parameter %s is not returned (%r)" % (k, sorted(res))
        if np.asarray(res[k]).tolist() != rows:
            return "parameter %s is matched to %r, the array in its place is %r" % (k, res[k], rows)
    return None


def special_match(rng, k):
    """(a) the program's arguments at parametrised places are NumPy integers (they were computed, or read from an
    integer array, or passed as np.int64); (b) the template has fixed keyword arguments, among them a register
    expression, next to its parameters"""
    from blackbird.utils import match_template
    if k % 2 == 0:
        r, kk = rng.randrange(1, 6), rng.randrange(1, 6)
        tt = "name t\nversion 1.0\n\nSgate(2*{r} + 1, 0.5) | 0\nFock({k}) | 1\nRgate(3 - {r}) | 0\n"
        form = rng.randrange(3)
        if form == 0:
            tp = "name t\nversion 1.0\n\nSgate(2*%d + 1, 0.5) | 0\nFock(%d + 0) | 1\nRgate(3 - %d) | 0\n" % (r, kk, r)
        elif form == 1:
            tp = "name t\nversion 1.0\n\nint array ks =\n    %d, %d, %d\nSgate(ks[0], 0.5) | 0\nFock(ks[1]) | 1\nRgate(ks[2]) | 0\n" % (2 * r + 1, kk, 3 - r)
        else:
            tp = None
        t = core.impl_loads(tt)
        if t[0] != "ok":
            return "template refused: %r" % (t[1],), tt
        if tp is None:
            with core.quiet():
                prog = t[1](r=np.int64(r), k=np.int64(kk))
        else:
            pr = core.impl_loads(tp)
            if pr[0] != "ok":
                return "program refused: %r" % (pr[1],), tp
            prog = pr[1]
        want = {"r": r, "k": kk}
    else:
        a = rng.choice([0.5, 0.25, 1.5])
        tt = ("name t\nversion 1.0\n\nMeasureX | 0\nDgate({a}, phi=0.5*q0, k=[1, 2], s=\"x\") | 1\n"
              "Rgate(2*{a}, select=q0 + 1) | 2\n")
        t = core.impl_loads(tt)
        if t[0] != "ok":
            return "template refused: %r" % (t[1],), tt
        with core.quiet():
            prog = reorder(t[1](a=a), rng)
        want = {"a": a}
    with core.quiet():
        try:
            res = match_template(t[1], prog)
        except Exception as e:  # noqa: BLE001
            return "matching raises %r" % (e,), tt
    for p_, v in want.items():
        if p_ not in res or not canon.close(res[p_], v, 1e-9):
            return "parameter %s recovered as %r, the program was written with %r" % (p_, res.get(p_), v), tt
    return None, tt


def gen_tdm_match(rng):
    npar = rng.randrange(1, 3)
    pars = rng.sample(["phi", "r", "al", "x"], npar)
    arrs = {}
    decl = ""
    for k, pn in enumerate(pars):
        rows = [[rng.randrange(1, 9) / 2 for _ in range(rng.randrange(2, 4))]]
        arrs[pn] = ("p%d" % k, rows)
        decl += "float array p%d =\n    %s\n" % (k, ", ".join(repr(v) for v in rows[0]))
    ops_t, ops_p = "", ""
    for j in range(rng.randrange(2, 6)):
        pn = rng.choice(pars)
        g = rng.choice(["Rgate", "Sgate", "Dgate", "MeasureHomodyne"])
        extra = rng.choice(["", ", 0.5"])
        m = rng.randrange(0, 3)
        ops_t += "%s({%s}%s) | %d\n" % (g, pn, extra, m)
        ops_p += "%s(%s%s) | %d\n" % (g, arrs[pn][0], extra, m)
    head = "name t\nversion 1.0\ntype tdm (temporal_modes=2)\n\n"
    used = {pn for pn in pars if "{%s}" % pn in ops_t}
    return head + ops_t, head + decl + ops_p, {pn: arrs[pn][1] for pn in used}


def structural_edits(prog, rng):
    out = []
    ops = prog._operations
    q = copy.deepcopy(prog)
    i = rng.randrange(len(ops))
    q._operations[i]["op"] = q._operations[i]["op"] + "X"
    out.append(("a different gate at operation %d" % i, q))
    q = copy.deepcopy(prog)
    i = rng.randrange(len(ops))
    q._operations[i]["modes"] = [m + 1 for m in q._operations[i]["modes"]]
    out.append(("a different mode list at operation %d" % i, q))
    multi = [j for j, o in enumerate(ops) if len(o["modes"]) >= 2]
    if multi:
        q = copy.deepcopy(prog)
        j = rng.choice(multi)
        q._operations[j]["modes"] = list(reversed(q._operations[j]["modes"]))
        out.append(("the mode list of operation %d permuted" % j, q))
    # per-mode order: swap two adjacent operations that share a mode and differ in label
    for i in range(len(ops) - 1):
        a, b = ops[i], ops[i + 1]
        if set(a["modes"]) & set(b["modes"]) and (a["op"], a["modes"]) != (b["op"], b["modes"]):
            q = copy.deepcopy(prog)
            q._operations[i], q._operations[i + 1] = q._operations[i + 1], q._operations[i]
            out.append(("operations %d and %d (sharing a mode) exchanged" % (i, i + 1), q))
            break
    q = copy.deepcopy(prog)
    q._version = "9.9"
    out.append(("a different version", q))
    q = copy.deepcopy(prog)
    q._version = str(prog._version) + "0"          # 1.0 vs 1.00: another version text, the same number
    out.append(("a version spelled differently (%s)" % q._version, q))
    q = copy.deepcopy(prog)
    q._target = {"name": "other_device", "options": {}}
    out.append(("a different target", q))
    return out


def regroup_match(rng):
    """modes of two and more digits: a program whose mode list has the same DIGITS grouped differently
    ([1, 12] -> [11, 2] -> [112]) is another program (seeded C17/k: node labels built by joining gate name and
    mode numbers without a separator); the true instantiation, in either order, still matches"""
    import blackbird
    from blackbird.utils import match_template, TemplateError
    a = rng.randrange(3, 10)
    b = rng.randrange(1, 10)
    c = rng.randrange(10, 100)
    r, t = rng.randrange(1, 9) / 4, rng.randrange(1, 9) / 8
    H = "name t\nversion 1.0\n\n"
    gate = rng.choice(["BSgate(2*{t} + 1, 0.5)", "MeasureFock()", "S2gate({t}, 0.0)"])
    tt = H + "Sgate({r}, 0.0) | %d\n%s | [%d, %d]\n" % (a * 1000, gate, b, c)
    inst = gate.replace("{t}", repr(t))
    groups = [[int(str(b) + str(c)[0]), int(str(c)[1:])], [int(str(b) + str(c))], [int(str(b) + str(c)[0]), int(str(c)[1]), 0][:2 + (c % 2)]]
    template = blackbird.loads(tt)
    good = blackbird.loads(H + "%s | [%d, %d]\nSgate(%r, 0.0) | %d\n" % (inst, b, c, r, a * 1000))
    try:
        res = match_template(template, good)
    except Exception as e:  # noqa: BLE001
        return "the true instantiation is rejected: %r" % (e,), tt
    if abs(res.get("r", 1e9) - r) > 1e-9 or ("{t}" in gate and abs(res.get("t", 1e9) - t) > 1e-9):
        return "wrong values %r for r=%r t=%r" % (res, r, t), tt
    for g in groups:
        if g == [b, c]:
            continue
        edited = blackbird.loads(H + "%s | %s\nSgate(%r, 0.0) | %d\n" % (inst, g, r, a * 1000))
        try:
            res = match_template(template, edited)
        except TemplateError:
            continue
        except Exception as e:  # noqa: BLE001
            return "mode list %s instead of [%d, %d] raises %r instead of TemplateError" % (g, b, c, e), tt
        return "mode list %s instead of [%d, %d] is accepted: %r" % (g, b, c, res), tt
    return None, tt


def replay(ctx, data):
    if data.get("kind") == "regroup_match":
        return regroup_match(random.Random(data["seed"]))[0]
    if data.get("kind") == "special_match":
        return special_match(random.Random(data["seed"]), data["k"])[0]
    if data.get("kind") == "tdm_match":
        return check_tdm_match(data["template"], data["program"], data["want"])
    if data.get("kind") == "match":
        return check_match(data["text"], data["vals"], data["seed"])
    return oracles.generic_replay(data)


def match_corr(ctx, items):
    """model matchTemplate vs implementation on (template, reordered instance)"""
    from blackbird.utils import match_template
    lines, keep = [], []
    for text, vals, seed in items:
        r = core.impl_loads(text)
        if r[0] != "ok":
            continue
        t = r[1]
        with core.quiet():
            prog = reorder(t(**vals), random.Random(seed))
        try:
            lines.append("MATCH\t" + sx.hexs(enc.enc_program(t)) + "\t" + sx.hexs(enc.enc_program(prog)))
            keep.append((text, vals, t, prog))
        except enc.Unsupported:
            ctx.ood += 1
    outs = core.model_batch(lines)
    for (text, vals, t, prog), o in zip(keep, outs):
        with core.quiet():
            try:
                res = match_template(t, prog)
            except Exception as e:  # noqa: BLE001
                res = e
        if o.startswith("(ood"):
            ctx.ood += 1
            continue
        if o.startswith("(kw"):
            m = dict(sx.dec_kw(sx.parse(o)))
            if isinstance(res, Exception):
                ctx.disagree("MATCH: model matches, implementation raises %r" % (res,),
                             {"kind": "correspondence", "cmd": "MATCH", "text": text, "vals": vals})
                continue
            bad = [k for k in res if k not in m or m[k][0] not in ("i", "f", "c") or not canon.close(m[k][1], res[k], 1e-9)]
            if bad or sorted(m) != sorted(res):
                ctx.disagree("MATCH: model %r, implementation %r" % (m, res),
                             {"kind": "correspondence", "cmd": "MATCH", "text": text, "vals": vals})
            else:
                ctx.traces += 1
        else:
            if not isinstance(res, Exception):
                ctx.disagree("MATCH: model gives %s, implementation matches %r" % (o[:60], res),
                             {"kind": "correspondence", "cmd": "MATCH", "text": text, "vals": vals})
            else:
                ctx.traces += 1


def run(ctx):
    ctx.rule = ("random templates of 2-9 operations with affine single-parameter positional arguments; two "
                "streams: (exact) parameters repeated across operations in different affine forms with "
                "exact-friendly dyadic values, (generic) each parameter in one form with generic doubles; the "
                "instance is reordered by a random topological order of its dependency graph; oracle: "
                "match_template succeeds, its values re-instantiate to the same arguments (1e-9) and equal the "
                "values used, and seven single structural edits (gate, mode list, permuted mode list of a multi-mode gate, per-mode order, version, the same version number spelled differently, target); a third of the templates carry an operation with a constant array argument "
                "raise TemplateError, as does the matched program object itself once edited in place (restored, it matches again); tdm templates whose bare parameters (also repeated) are matched by the p-arrays in their places; model matchTemplate vs implementation; non-trivial = at least 3 operations "
                "and 2 parameter occurrences; distinct by (template, values, seed)")
    n = ctx.n(300, 5000)
    corr = []
    for i in range(n):
        exact = (i % 2 == 0)
        text, pars = gen_template_text(ctx.rng, repeated_exact=exact)
        vals = values_for(ctx.rng, pars, exact)
        seed = ctx.rng.randrange(1 << 30)
        ctx.count("stream:" + ("exact-repeated" if exact else "generic-single-form"))
        ctx.case((text, sorted(vals.items()), seed), nontrivial=text.count("|") >= 3 and text.count("{") >= 2)
        ctx.sample({"template": text, "values": vals})
        msg = check_match(text, vals, seed)
        if msg:
            ctx.violation("template matching: " + msg, {"kind": "match", "text": text, "vals": vals, "seed": seed})
        else:
            corr.append((text, vals, seed))
    match_corr(ctx, corr)
    for k in range(ctx.n(30, 300)):
        sd = ctx.rng.randrange(1 << 30)
        msg, tt = special_match(random.Random(sd), k)
        ctx.count("stream:numpy-integer-arguments" if k % 2 == 0 else "stream:fixed-keyword-arguments-with-registers")
        ctx.case(("special", k, sd), nontrivial=True)
        if msg:
            ctx.violation("template matching: " + msg, {"kind": "special_match", "seed": sd, "k": k})
    for k in range(ctx.n(20, 200)):
        sd = ctx.rng.randrange(1 << 30)
        msg, tt = regroup_match(random.Random(sd))
        ctx.count("stream:mode-digits-regrouped")
        ctx.case(("regroup", sd), nontrivial=True)
        if msg:
            ctx.violation("template matching: " + msg, {"kind": "regroup_match", "seed": sd})
    for _ in range(ctx.n(60, 600)):
        tt, tp, want = gen_tdm_match(ctx.rng)
        ctx.count("stream:tdm-p-arrays-in-parameter-places")
        ctx.case((tt, tp), nontrivial=tt.count("{") >= 2)
        msg = check_tdm_match(tt, tp, want)
        if msg:
            ctx.violation("template matching (tdm): " + msg, {"kind": "tdm_match", "template": tt, "program": tp, "want": want})
