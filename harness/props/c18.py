"""C18 — comments, blank lines, spacing and line-ending style do not change the program."""
import random

import canon
import core
import gen
import oracles
import sx
from props import common


def variants(script, rng, k):
    out = []
    for i in range(k):
        nl = rng.choice(["\n", "\n", "\r\n", "\r", "mixed"])
        tab = rng.choice([None, "\t", "    "])
        ends_with_array = script["items"] and script["items"][-1][0] == "arr"
        final = rng.random() < 0.6 or ends_with_array
        lay = gen.Layout(random.Random(rng.random()), newline=nl, final_newline=final, tab=tab)
        text = gen.render(script, lay)
        tail = ""
        if not final and not text.endswith(("\n", "\r")) and rng.random() < 0.4:
            # the text ends in a comment (no line end after it): whatever the comment says, it is a comment
            tail = rng.choice([" # converted from examples/teleport.xbb", "#x.xbb", " # see lib/a.bb", "#", " # name x",
                               "# .xbb", " #include \"a.xbb\""])
            if text.endswith(" "):
                tail = tail.lstrip()          # a fourth space would make a TAB token
            text += tail
        out.append((text, {"newline": repr(nl), "tab": repr(tab), "final_newline": final, "ends_in_comment": bool(tail)}))
    return out


def check_layouts(base_text, texts):
    ib, ob = core.impl_canon_loads(base_text)
    if ib[0] != "prog":
        return None, None
    for t in texts:
        ic, obj = core.impl_canon_loads(t)
        if ic[0] != "prog":
            return "layout variant is refused with %s: %r" % (ic[1:3], obj), t
        d = common.cmp_impl(ib[1], ic[1], exact=True, check_vars=True)
        if d:
            return "layout variant loads differently: " + "; ".join(d[:3]), t
    return None, None


def replay(ctx, data):
    if data.get("kind") == "layout":
        return check_layouts(data["base"], [data["variant"]])[0]
    return oracles.generic_replay(data)


def lex_corr(ctx, texts):
    outs = core.model_batch([core.cmd("LEX", t) for t in texts])
    for t, o in zip(texts, outs):
        toks, eof = core.real_tokens(t)
        real = ["%s:%s:%d:%d" % (k, sx.hexs(x), l, c) for (k, x, l, c) in toks]
        model = [x for x in o.split(" ") if not x.startswith("EOF:")]
        if real != model:
            j = next((i for i, (a, b) in enumerate(zip(real, model)) if a != b), min(len(real), len(model)))
            ctx.disagree("LEX: token %d differs: model %s, lexer %s" % (
                j, model[j] if j < len(model) else None, real[j] if j < len(real) else None),
                {"kind": "correspondence", "cmd": "LEX", "text": t})
        else:
            ctx.traces += 1


def run(ctx):
    ctx.rule = ("valid scripts (plain, templates, loops, arrays, options) each rendered under 10 (quick) / 60 "
                "(thorough) random layouts: # comments at line ends and on their own lines, blank and "
                "whitespace-only lines between items and before the metadata, one to three spaces at every token "
                "boundary where a space is written and zero to three where it is optional, trailing spaces, LF / "
                "CRLF / CR, tab or four spaces as indentation, final newline present or absent (kept when the script "
                "ends in an array row: open finding C18-array-row-at-eof); oracle: every variant loads to exactly the "
                "program of the canonical rendering; model lexer vs shipped lexer on every variant (kinds, texts, "
                "lines, columns); non-trivial = script with a loop or an array; distinct by variant text")
    n = ctx.n(100, 800)
    k = ctx.n(10, 60)
    all_texts = []
    for i in range(n):
        r = i % 3
        if r == 0:
            s, _ = gen.gen_script(ctx.rng, {"depth": 2, "max_items": 8, "array_args": True})
        elif r == 1:
            s, _, _ = gen.gen_template(ctx.rng, {"depth": 1, "max_items": 6})
        else:
            s, _, _ = gen.gen_rrt_script(ctx.rng, {"depth": 1, "max_items": 6})
        base = gen.render(s, None)
        vs = variants(s, ctx.rng, k)
        nt = any(it[0] in ("loop", "arr") for it in s["items"])
        for t, opts in vs:
            ctx.case(t, nontrivial=nt)
            for kk, v in opts.items():
                ctx.count("%s=%s" % (kk, v))
        ctx.sample(vs[0][0])
        msg, bad = check_layouts(base, [t for t, _ in vs])
        if msg:
            ctx.violation("layout: " + msg, {"kind": "layout", "base": base, "variant": bad})
        all_texts += [t for t, _ in vs[:4]] + [base]
    lex_corr(ctx, all_texts)
    common.loads_corr(ctx, all_texts[: ctx.n(300, 3000)], "LOADS(layout)")
