"""C19 — loading and serialising are deterministic across runs and hash seeds."""
import json
import os
import shutil
import subprocess
import sys
from concurrent.futures import ThreadPoolExecutor

import canon
import core
import gen
import oracles
from props import c07, common


def run_seed(seed, cases):
    env = dict(os.environ)
    env["PYTHONHASHSEED"] = str(seed)
    env["VERIF_REPO"] = core.REPO
    p = subprocess.run([sys.executable, os.path.join(core.HERE, "hash_worker.py")], input=json.dumps(cases).encode("utf-8"),
                       stdout=subprocess.PIPE, stderr=subprocess.PIPE, env=env, timeout=1200)
    if p.returncode != 0:
        raise RuntimeError("hash worker failed: " + p.stderr.decode("utf-8", "replace")[-1500:])
    return [json.loads(l) for l in p.stdout.decode("utf-8").strip().split("\n")]


def sweep(cases, seeds):
    with ThreadPoolExecutor(max_workers=min(16, len(seeds))) as ex:
        return list(ex.map(lambda s: run_seed(s, cases), seeds))


def compare(results, seeds, k):
    ref = results[0][k]
    for s, res in zip(seeds[1:], results[1:]):
        if res[k] != ref:
            keys = [key for key in set(ref) | set(res[k]) if ref.get(key) != res[k].get(key)]
            return "PYTHONHASHSEED=%d and %d differ in %s: %s vs %s" % (
                seeds[0], s, keys, common.short(repr({x: ref.get(x) for x in keys}), 400),
                common.short(repr({x: res[k].get(x) for x in keys}), 400))
    return None


def replay(ctx, data):
    if data.get("kind") == "hashseed":
        cases = [data["case"]]
        root = None
        if "files" in data["case"]:
            root = oracles.write_tree(data["case"]["files"])
            cases = [dict(data["case"], root=root)]
        try:
            seeds = data.get("seeds", list(range(8)))
            return compare(sweep(cases, seeds), seeds, 0)
        finally:
            if root:
                shutil.rmtree(root, ignore_errors=True)
    return oracles.generic_replay(data)


def run(ctx):
    ctx.rule = ("scripts that emphasise set iteration: templates with several parameters per argument and with "
                "names that are substrings of each other, several measured registers per argument, include trees "
                "acting on several modes in non-increasing first-use order, five to nine registers in one argument, templates holding register transforms that are instantiated (directly and through an include called with values); each is loaded and serialised in fresh "
                "interpreters with PYTHONHASHSEED = 0..23 (quick) / 0..47 (thorough); oracle: identical canonical "
                "content, serialisation text, parameter set, mode set and register pairing values in every process "
                "(only the listing order inside a register transform may differ); non-trivial = at least two "
                "symbols in one argument or an include on at least two modes; distinct by text / file contents")
    seeds = list(range(ctx.n(24, 48)))
    n = ctx.n(200, 1500)
    cases = []
    meta = []
    roots = []
    for i in range(n):
        r = i % 4
        if i % 8 == 7:
            # an included template called with an expression over a parameter of the including template whose
            # name is also (another) parameter of the included one
            p1, p2 = ctx.rng.sample(["r", "phi", "a", "al", "x", "t1"], 2)
            form = ctx.rng.choice(["{%s} - 2*{%s}", "{%s}/{%s}", "{%s}**2 + 3*{%s}"]) % (p1, p2)
            files = {"inc/disp.xbb": "name Disp\nversion 1.0\n\nDgate(%s, 0.5) | 0\nRgate({%s}) | 1\n" % (form, p2),
                     "main.xbb": 'name m\nversion 1.0\ninclude "inc/disp.xbb"\n\nDisp(%s={%s} + 1, %s=0.25) | [3, 1]\n' % (p1, p2, p2)}
            root, real = c07.materialise(files)
            roots.append(root)
            cases.append({"files": real, "main": os.path.join(root, "main.xbb"), "root": root})
            meta.append(("include-with-clashing-parameter-names", True))
            continue
        if i % 16 == 9:
            # a tdm program with a p-array AND a template parameter of the same name (the table holds the name as a
            # string and the parameter as a symbol), next to other parameters
            pn = ctx.rng.choice(["p0", "p1", "p12"])
            other = ctx.rng.sample(["r", "phi", "a"], 2)
            t = ("name s\nversion 1.0\ntype tdm (temporal_modes=2)\n\nfloat array %s =\n    1, 2\nSgate(%s, {%s}) | 0\n"
                 "Rgate({%s} + {%s}) | 1\nG({%s}) | 0\n" % (pn, pn, other[0], pn, other[1], other[0]))
            cases.append({"text": t})
            meta.append(("tdm-parameter-named-like-its-p-array", True))
            continue
        if i % 16 == 1:
            # an included template one of whose arguments is a LIST of differently built expressions over the same
            # parameters, called with values
            p1, p2 = ctx.rng.sample(["r", "phi", "a", "al", "x"], 2)
            files = {"feed.xbb": "name Feed\nversion 1.0\n\nSgate(0.1, w=[{%s} - 2*{%s}, {%s} - 2*{%s}, {%s}*{%s} + {%s}]) | 0\nRgate([{%s}/{%s}, {%s}/{%s}][0]) | 1\n".replace("Rgate([{%s}/{%s}, {%s}/{%s}][0]) | 1\n", "Rgate({%s}/{%s}) | 1\n") % (
                         p1, p2, p2, p1, p1, p2, p2, p2, p1),
                     "main.xbb": 'name m\nversion 1.0\ninclude "feed.xbb"\n\nFeed(%s=0.5, %s=0.125) | [2, 3]\nFeed(%s=0.125, %s=0.5) | [3, 2]\n' % (p1, p2, p1, p2)}
            root, real = c07.materialise(files)
            roots.append(root)
            cases.append({"files": real, "main": os.path.join(root, "main.xbb"), "root": root})
            meta.append(("included-template-with-list-of-expressions", True))
            continue
        if i % 8 == 3:
            # five to nine registers in ONE argument, in a function that is not symmetric in them (small sets are
            # copied slot for slot by CPython, larger ones are rehashed), alone or next to a template parameter
            k = ctx.rng.randrange(5, 10)
            regs = ctx.rng.sample(range(0, 14), k)
            e = " ".join("%s %d*q%d" % ("-" if j % 2 else "+", j + 1, q) for j, q in enumerate(regs)).lstrip("+ ")
            t = "name s\nversion 1.0\n\nDgate(%s, 0.5) | 5\nG(k=(q%d - q%d)*q%d%s) | 1\n" % (
                e, regs[0], regs[1], regs[2], ctx.rng.choice(["", ", a={phi}"]))
            cases.append({"text": t})
            meta.append(("many-registers-in-one-argument", True))
            continue
        if i % 8 == 5:
            # a template holding register transforms, included and called with values (the listener instantiates it)
            a, b, c, d = ctx.rng.sample(range(0, 4), 4)
            files = {"feed.xbb": "name Feed\nversion 1.0\n\nDgate((q%d - q%d)*q%d + 3*q%d, {phi}) | 3\nRgate(q%d/(q%d + 2) - q%d*q%d, {phi}*2) | %d\nXgate(q0 - 2*q1 + 3*q2 - 4*q3, {phi}) | 2\nBSgate | [0, 1]\nBSgate | [2, 3]\n" % (a, b, c, d, b, a, c, d, a),
                     "main.xbb": 'name m\nversion 1.0\ninclude "feed.xbb"\n\nMeasureX | 0\nFeed(phi=0.25) | [0, 1, 2, 3]\nFeed(phi=0.5) | [3, 2, 1, 0]\n'}
            root, real = c07.materialise(files)
            roots.append(root)
            cases.append({"files": real, "main": os.path.join(root, "main.xbb"), "root": root})
            meta.append(("included-template-with-register-transforms", True))
            continue
        if r == 0:
            s, info, _ = gen.gen_template(ctx.rng, {"depth": 2, "max_items": 5})
            t = gen.render(s)
            cases.append({"text": t})
            meta.append(("template", t.count("{") >= 2))
        elif r == 1:
            s, _, rc = gen.gen_rrt_script(ctx.rng, {"depth": 1, "max_items": 4})
            t = gen.render(s)
            cases.append({"text": t})
            meta.append(("registers", any(len([x for x in gen.expr_symbols(e) if x.startswith("q")]) >= 2 for e, _ in rc)))
        elif r == 2:
            files, main, inlined, info = c07.gen_tree(ctx.rng)
            root, real = c07.materialise(files)
            roots.append(root)
            cases.append({"files": real, "main": os.path.join(root, main), "root": root})
            meta.append(("include", True))
        else:
            names = ctx.rng.sample(["a", "al", "alpha", "e", "E", "x", "ex", "p", "pa", "I", "S"], 3)
            t = "name s\nversion 1.0\n\nG({%s}+{%s}*{%s}, 0.00001*{%s}, k={%s}-{%s}) | [0, 1]\n" % (
                names[0], names[1], names[2], names[0], names[1], names[0])
            cases.append({"text": t})
            meta.append(("overlapping-names", True))
    try:
        results = sweep(cases, seeds)
    finally:
        for r in roots:
            shutil.rmtree(r, ignore_errors=True)
    for k, (c, (kind, nt)) in enumerate(zip(cases, meta)):
        ctx.case(c.get("text") or sorted(c["files"].items()), nontrivial=nt)
        ctx.count(kind)
        if k < 3:
            ctx.sample(c.get("text") or c["files"])
        if "error" in results[0][k]:
            ctx.count("load-error")
            if kind in ("included-template-with-register-transforms", "many-registers-in-one-argument",
                        "tdm-parameter-named-like-its-p-array", "included-template-with-list-of-expressions"):
                ctx.violation("hash seed sweep: a case built to load is refused: %s" % results[0][k]["error"],
                              {"kind": "hashseed", "case": {kk: v for kk, v in c.items() if kk != "root"}, "seeds": seeds})
        msg = compare(results, seeds, k)
        if msg:
            rep = {"kind": "hashseed", "case": {kk: v for kk, v in c.items() if kk != "root"}, "seeds": seeds}
            if "files" in c:
                rep["case"]["main"] = os.path.relpath(c["main"], c["root"])
            ctx.violation("hash seed dependence: " + msg, rep)
    ctx.extra["hash_seeds"] = seeds
    ctx.traces += len(cases)
