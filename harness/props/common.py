"""Helpers shared by the property modules."""
import canon
import core
import gen
import sx


def short(text, n=400):
    return text if len(text) <= n else text[:n] + "…"


def loads_corr(ctx, texts, label="LOADS", loose=False):
    """Model LOADS vs implementation loads on each text. Returns list of
    (text, model_result, impl_canon, impl_obj, status)."""
    outs = core.model_batch([core.cmd("LOADS", t, "/") for t in texts])
    res = []
    for t, o in zip(texts, outs):
        m = sx.dec_result(o)
        ic, obj = core.impl_canon_loads(t)
        st, d = canon.cmp_result(m, ic, loose)
        if st == "ood":
            ctx.ood += 1
            ctx.count("ood:" + m[1])
        elif st == "differ":
            ctx.disagree("%s: %s" % (label, "; ".join(d[:3])),
                         {"kind": "correspondence", "cmd": "LOADS", "text": t, "model": short(o, 2000),
                          "impl": short(repr(ic), 2000), "diffs": d[:5]})
        else:
            ctx.traces += 1
        res.append((t, m, ic, obj, st))
    return res


def model_oracle(text):
    """the executable model as the oracle for one script text: None when model and implementation give the
    same outcome, else a message. (The model's `loads` refines the denotational specification, C02 theorems;
    on the unchanged tree the two agree on every generated input.)"""
    o = core.model_batch([core.cmd("LOADS", text, "/")])[0]
    m = sx.dec_result(o)
    ic, obj = core.impl_canon_loads(text)
    st, d = canon.cmp_result(m, ic, False)
    if st != "differ":
        return None
    if m[0] == "prog" and ic[0] == "prog":
        return "the loaded program differs from the one the script denotes: " + "; ".join(d[:3])
    if m[0] == "prog":
        return "a script that denotes a program is refused: %s %r" % (ic[1:3], obj)
    if ic[0] == "prog":
        return "a script that must be refused (%s) is loaded as a program" % (m[1:4],)
    return "refused in another way than the model prescribes: " + "; ".join(d[:2])


def interaction_stream(ctx, n, label="interaction"):
    """scripts from harness/interact.py (shared tiny name pool: redeclarations, indexing between two
    declarations, empty loop then loop, shadowing); the executable model is the oracle"""
    import interact
    texts = [interact.script(ctx.rng) for _ in range(n)]
    outs = core.model_batch([core.cmd("LOADS", t, "/") for t in texts])
    nvalid = 0
    for t, o in zip(texts, outs):
        m = sx.dec_result(o)
        ic, obj = core.impl_canon_loads(t)
        st, d = canon.cmp_result(m, ic, False)
        ctx.case(t, nontrivial=True)
        ctx.count("%s:%s" % (label, "valid" if ic[0] == "prog" else "refused"))
        if st == "ood":
            ctx.ood += 1
        elif st == "differ":
            if m[0] == "prog" or ic[0] == "prog":
                ctx.violation("%s: %s" % (label, model_oracle(t) or "; ".join(d[:3])), {"kind": "model_oracle", "text": t})
            else:
                ctx.disagree("LOADS(%s): %s" % (label, "; ".join(d[:3])),
                             {"kind": "correspondence", "cmd": "LOADS", "text": t, "model": short(o, 2000),
                              "impl": short(repr(ic), 2000)})
        else:
            ctx.traces += 1
            nvalid += ic[0] == "prog"
    return nvalid


def same_program(a, b, loose=False, check_vars=False):
    """Differences between two canonical implementation programs (both from the implementation or
    from the python-side oracle): numbers to 1e-9 relative, symbolic values semantically."""
    return cmp_impl(a, b, loose, check_vars)


def _val_eq(a, b, path, diffs, exact, loose_kinds=False):
    import math
    ka, kb = a[0], b[0]
    if ka in ("sym", "rrt") or kb in ("sym", "rrt"):
        if ka != kb:
            diffs.append("%s: kind %s vs %s" % (path, ka, kb))
            return
        ea, eb = a[1], b[1]
        sa = sorted(str(s) for s in ea.free_symbols)
        sb = sorted(str(s) for s in eb.free_symbols)
        if sa != sb:
            diffs.append("%s: symbols %s vs %s (%s | %s)" % (path, sa, sb, ea, eb))
            return
        import sympy as sym
        syms = [sym.Symbol(n) for n in sa]
        fa = sym.lambdify(syms, ea, "math")
        fb = sym.lambdify(syms, eb, "math")
        for pt in canon.POINTS:
            vals = [pt(i) for i in range(len(sa))]
            try:
                va, vb = fa(*vals), fb(*vals)
            except (ZeroDivisionError, OverflowError, ValueError, TypeError):
                continue
            if not canon.close(va, vb, 1e-9, 1e-9):
                diffs.append("%s: %s vs %s differ at %s: %r vs %r" % (path, ea, eb, vals, va, vb))
                return
        if ka == "rrt" and len(a) > 2 and len(b) > 2:
            if sorted(a[2]) != sorted(b[2]):
                diffs.append("%s: regrefs %s vs %s" % (path, a[2], b[2]))
        return
    if ka in ("i", "f", "c") and kb in ("i", "f", "c"):
        if exact:
            if ka != kb or a[1] != b[1]:
                diffs.append("%s: %s %r vs %s %r (exact)" % (path, ka, a[1], kb, b[1]))
        else:
            if not loose_kinds and ((ka == "i") != (kb == "i") or (ka == "c") != (kb == "c")):
                diffs.append("%s: number kind %s vs %s (%r vs %r)" % (path, ka, kb, a[1], b[1]))
            elif not canon.close(a[1], b[1], abs_tol=(1e-12 if loose_kinds else 1e-300)):
                # loose comparisons (template instantiation vs textual substitution) are between two
                # different evaluation orders of the same expression: a difference that is pure
                # cancellation noise around zero is outside C04's quantifier
                diffs.append("%s: %r vs %r" % (path, a[1], b[1]))
        return
    if ka == "pn" or kb == "pn":
        if a[1] != b[1]:
            diffs.append("%s: %r vs %r" % (path, a[1], b[1]))
        return
    if ka != kb:
        diffs.append("%s: kind %s vs %s (%r vs %r)" % (path, ka, kb, a[1:2], b[1:2]))
        return
    if ka in ("b", "s"):
        if a[1] != b[1]:
            diffs.append("%s: %r vs %r" % (path, a[1], b[1]))
    elif ka == "list":
        if len(a[1]) != len(b[1]):
            diffs.append("%s: list length %d vs %d" % (path, len(a[1]), len(b[1])))
        else:
            for i, (x, y) in enumerate(zip(a[1], b[1])):
                _val_eq(x, y, "%s[%d]" % (path, i), diffs, exact, loose_kinds)
    elif ka == "arr":
        if (a[2:4] != b[2:4]) if loose_kinds else (a[1:4] != b[1:4]):
            diffs.append("%s: array header %s vs %s" % (path, a[1:4], b[1:4]))
        else:
            for i, (x, y) in enumerate(zip(a[4], b[4])):
                _val_eq(x, y, "%s[%d]" % (path, i), diffs, exact, loose_kinds)
    else:
        diffs.append("%s: unknown kind %s" % (path, ka))


def cmp_impl(a, b, exact=False, check_vars=False, check_params=True, loose_kinds=False):
    diffs = []
    for key in ("name", "version"):
        if a[key] != b[key]:
            diffs.append("%s: %r vs %r" % (key, a[key], b[key]))
    for key in ("target", "type"):
        if a[key]["name"] != b[key]["name"]:
            diffs.append("%s name: %r vs %r" % (key, a[key]["name"], b[key]["name"]))
        ka = [k for k, _ in a[key]["options"]]
        kb = [k for k, _ in b[key]["options"]]
        if ka != kb:
            diffs.append("%s option keys: %s vs %s" % (key, ka, kb))
        else:
            for (k, x), (_, y) in zip(a[key]["options"], b[key]["options"]):
                _val_eq(x, y, "%s.options.%s" % (key, k), diffs, exact, loose_kinds)
    if len(a["ops"]) != len(b["ops"]):
        diffs.append("ops: %d vs %d operations (%s | %s)" % (
            len(a["ops"]), len(b["ops"]), [o["op"] for o in a["ops"]][:10], [o["op"] for o in b["ops"]][:10]))
    else:
        for i, (x, y) in enumerate(zip(a["ops"], b["ops"])):
            p = "ops[%d]" % i
            if x["op"] != y["op"]:
                diffs.append("%s: name %r vs %r" % (p, x["op"], y["op"]))
            if x["modes"] != y["modes"]:
                diffs.append("%s: modes %r vs %r" % (p, x["modes"], y["modes"]))
            xa, ya = x["args"], y["args"]
            # an operation without arguments and one with empty arguments denote the same thing
            xa = xa if xa is not None else ([], [])
            ya = ya if ya is not None else ([], [])
            if len(xa[0]) != len(ya[0]):
                diffs.append("%s: %d vs %d positional arguments" % (p, len(xa[0]), len(ya[0])))
            else:
                for j, (u, v) in enumerate(zip(xa[0], ya[0])):
                    _val_eq(u, v, "%s.args[%d]" % (p, j), diffs, exact, loose_kinds)
            if [k for k, _ in xa[1]] != [k for k, _ in ya[1]]:
                diffs.append("%s: keyword names %s vs %s" % (p, [k for k, _ in xa[1]], [k for k, _ in ya[1]]))
            else:
                for (k, u), (_, v) in zip(xa[1], ya[1]):
                    _val_eq(u, v, "%s.kwargs.%s" % (p, k), diffs, exact, loose_kinds)
    if check_params and a["params"] != b["params"]:
        diffs.append("params: %s vs %s" % (a["params"], b["params"]))
    if a["modes"] != b["modes"]:
        diffs.append("modes: %s vs %s" % (a["modes"], b["modes"]))
    if check_vars:
        da, db = dict(a["vars"]), dict(b["vars"])
        if check_vars == "hoisting":
            # after a dumps/loads cycle array arguments passed by value come back as hoisted variables
            # A0, A1, ...: every original variable must still be there with its data, the hoisted ones are extra
            import re as _re
            db = {k: v for k, v in db.items() if k in da or not _re.fullmatch(r"A\d+", k)}
        if sorted(da) != sorted(db):
            diffs.append("variables: %s vs %s" % (sorted(da), sorted(db)))
        else:
            for k in da:
                _val_eq(da[k], db[k], "vars.%s" % k, diffs, exact, loose_kinds)
    return diffs
