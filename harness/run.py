"""Entry point behind ./check — orchestration, verdict logic, evidence (DESIGN.md 5 and 10).

  ./check --setup
  ./check <id> quick|thorough
  ./check <id> --replay <file>

Exit codes: 0 property held on everything explored; 1 violation (a VIOLATION line was printed);
2 infrastructure failure or timeout (never a verdict).
"""
import fcntl
import hashlib
import importlib
import json
import os
import random
import re
import subprocess
import sys
import time
import traceback

HERE = os.path.dirname(os.path.abspath(__file__))
sys.path.insert(0, HERE)

import core  # noqa: E402

ALLOWED_AXIOMS = {"propext", "Classical.choice", "Quot.sound"}
FORBIDDEN = re.compile(r"\b(sorry|admit|native_decide|bv_decide|implemented_by|unsafe)\b|^\s*axiom\s|maxHeartbeats\s+0")

TRUSTED_BASE = [
    "Lean 4.33.0 kernel and elaborator (leanchecker re-checks the .olean files in the thorough tier)",
    "axioms propext, Classical.choice, Quot.sound only (audited per theorem on every run)",
    "the hand-written Lean model is a reading of the Python source; it is tied to the code only by "
    "the correspondence run of this check (differential testing with the generators listed in 'rule')",
    "NumPy, SymPy, the ANTLR runtime, networkx and CPython formatting are contract boundaries "
    "(DESIGN.md section 3): observed through the correspondence, not modelled",
    "the driver's I/O code (Blackbird/Encode.lean, Decode.lean, Driver.lean) and harness/canon.py, enc.py",
]


def log(*a):
    print(*a, file=sys.stderr, flush=True)


class Lock:
    def __init__(self, path):
        self.path = path

    def __enter__(self):
        os.makedirs(os.path.dirname(self.path), exist_ok=True)
        self.f = open(self.path, "w")
        fcntl.flock(self.f, fcntl.LOCK_EX)
        return self

    def __exit__(self, *a):
        fcntl.flock(self.f, fcntl.LOCK_UN)
        self.f.close()


def lake_build(targets=None):
    """Build the Lean library and the driver. Returns (ok, output)."""
    with Lock(os.path.join(core.WORK, "lean.lock")):
        cmd = ["lake", "build"] + (targets or [])
        p = subprocess.run(cmd, cwd=core.LEAN_DIR, stdout=subprocess.PIPE, stderr=subprocess.STDOUT, timeout=3000)
        return p.returncode == 0, p.stdout.decode("utf-8", "replace")


def forbidden_tokens():
    """grep the Lean sources for constructs that would weaken a proof (comments stripped)."""
    hits = []
    for root, _dirs, files in os.walk(core.LEAN_DIR):
        if ".lake" in root:
            continue
        for fn in files:
            if not fn.endswith(".lean"):
                continue
            path = os.path.join(root, fn)
            text = open(path, encoding="utf-8").read()
            text = re.sub(r"/-.*?-/", lambda m: "\n" * m.group(0).count("\n"), text, flags=re.S)
            for n, line in enumerate(text.split("\n"), 1):
                line = line.split("--")[0]
                if FORBIDDEN.search(line):
                    hits.append("%s:%d: %s" % (os.path.relpath(path, core.VERIF), n, line.strip()))
    return hits


def audit(pid, gen=False):
    """Run the property's audit file: every theorem listed there must exist, be compiled, and
    depend on allowed axioms only. Returns dict(obligations, discharged, theorems, problems)."""
    path = os.path.join(core.LEAN_DIR, "Audit", pid + ".lean")
    res = {"obligations": 0, "discharged": 0, "theorems": {}, "problems": []}
    if not os.path.exists(path):
        res["problems"].append("no audit file " + path)
        return res
    src = open(path, encoding="utf-8").read()
    names = re.findall(r"^#print axioms\s+(\S+)", src, re.M)
    res["obligations"] = len(names)
    with Lock(os.path.join(core.WORK, "lean.lock")):
        p = subprocess.run(["lake", "env", "lean", path], cwd=core.LEAN_DIR, stdout=subprocess.PIPE,
                           stderr=subprocess.STDOUT, timeout=1800)
    out = p.stdout.decode("utf-8", "replace")
    # "'name' depends on axioms: [a, b]" or "'name' does not depend on any axioms"
    for m in re.finditer(r"'([^']+)' depends on axioms: \[([^\]]*)\]", out, re.S):
        axs = [a.strip() for a in m.group(2).replace("\n", " ").split(",") if a.strip()]
        res["theorems"][m.group(1)] = axs
    for m in re.finditer(r"'([^']+)' does not depend on any axioms", out):
        res["theorems"][m.group(1)] = []
    for n in names:
        short = n
        found = None
        for k in res["theorems"]:
            if k == short or k.endswith("." + short) or short.endswith("." + k):
                found = k
        if found is None:
            res["problems"].append("theorem %s: no axiom report (does not compile?)" % n)
            continue
        bad = [a for a in res["theorems"][found] if a not in ALLOWED_AXIOMS]
        if bad:
            res["problems"].append("theorem %s depends on %s" % (n, bad))
            continue
        res["discharged"] += 1
    if p.returncode != 0:
        res["problems"].append("audit file does not compile: " + out[-1500:])
        res["discharged"] = min(res["discharged"], max(res["obligations"] - 1, 0))
    return res


def load_findings(pid):
    path = os.path.join(core.VERIF, "KNOWN_FINDINGS.jsonl")
    out = []
    if os.path.exists(path):
        for line in open(path, encoding="utf-8"):
            line = line.strip()
            if line:
                e = json.loads(line)
                if e.get("property") == pid:
                    out.append(e)
    return out


class Ctx:
    """What a property module sees."""

    def __init__(self, pid, tier, seed):
        self.pid = pid
        self.tier = tier
        self.seed = seed
        self.rng = random.Random(seed * 1000003 + int(pid[1:]))
        self.t0 = time.time()
        self.evaluations = 0
        self.nontrivial = set()
        self.samples = []
        self.dist = {}
        self.violations = []       # (message, replay dict): the implementation breaks the property
        self.disagreements = []    # (message, replay dict): model and implementation differ
        self.ood = 0
        self.traces = 0
        self.notes = []
        self.rule = ""
        self.assumptions = []
        self.extra = {}

    def quick(self):
        return self.tier == "quick"

    def n(self, quick, thorough):
        return quick if self.tier == "quick" else thorough

    def count(self, key, k=1):
        self.dist[key] = self.dist.get(key, 0) + k

    def case(self, canonical_input, nontrivial=True):
        """Register one evaluated case; canonical_input identifies it for distinctness."""
        self.evaluations += 1
        if nontrivial:
            h = hashlib.sha1(repr(canonical_input).encode("utf-8", "replace")).hexdigest()
            self.nontrivial.add(h)

    def sample(self, s):
        if len(self.samples) < 5:
            self.samples.append(s)

    def violation(self, message, replay):
        if len(self.violations) < 50:
            self.violations.append((message, replay))

    def disagree(self, message, replay):
        if len(self.disagreements) < 50:
            self.disagreements.append((message, replay))

    def elapsed(self):
        return time.time() - self.t0


def write_replay(pid, k, data):
    d = os.path.join(core.WORK, pid)
    os.makedirs(d, exist_ok=True)
    path = os.path.join(d, "replay-%d.json" % k)
    with open(path, "w", encoding="utf-8") as f:
        json.dump(data, f, indent=1, ensure_ascii=False, default=str)
    return path


def write_evidence(pid, tier, seed, aud, ctx, wall, nviol, checker_cmd):
    cov = {
        "obligations": aud["obligations"],
        "discharged": aud["discharged"],
        "checker_cmd": checker_cmd,
        "trusted_base": TRUSTED_BASE + list(ctx.extra.pop("trusted_extra", [])),
        "theorems": aud["theorems"],
        "evaluations": ctx.evaluations,
        "distinct_nontrivial": len(ctx.nontrivial),
        "rule": ctx.rule,
        "samples": ctx.samples or ["(no generated case in this run)"],
        "traces_validated_against_impl": ctx.traces,
        "out_of_model_domain": ctx.ood,
        "input_distribution": dict(sorted(ctx.dist.items())),
        "model_vs_impl_disagreements": len(ctx.disagreements),
        "notes": ctx.notes,
    }
    cov.update(ctx.extra)
    ev = {
        "property_id": pid,
        "tier": tier,
        "seed": seed,
        "level": "proof",
        "coverage": cov,
        "assumptions": ctx.assumptions,
        "wall_s": round(wall, 2),
        "violations": nviol,
    }
    # seeded-change experiments (harness/seedcheck.py) redirect their evidence so that the committed
    # evidence always comes from a run against the unmodified /repo
    evdir = os.environ.get("VERIF_EVIDENCE_DIR") or os.path.join(core.VERIF, "evidence")
    os.makedirs(evdir, exist_ok=True)
    with open(os.path.join(evdir, pid + ".json"), "w", encoding="utf-8") as f:
        json.dump(ev, f, indent=1, ensure_ascii=False, default=str)


def setup():
    os.makedirs(core.WORK, exist_ok=True)
    try:
        import translate
        translate.regenerate(log)
    except ImportError:
        pass
    ok, out = lake_build()
    if not ok:
        print(out[-4000:])
        return 2
    print("setup ok")
    return 0


def _watchdog(pid, tier):
    """a check that neither finishes nor fails is an infrastructure failure (exit 2), never a verdict"""
    import faulthandler
    import signal
    limit = int(os.environ.get("VERIF_TIMEOUT", "0") or 0) or (2400 if tier == "quick" else 6 * 3600)

    def on_alarm(signum, frame):
        sys.stderr.write("infrastructure failure: %s %s did not finish within %d s\n" % (pid, tier, limit))
        faulthandler.dump_traceback(file=sys.stderr)
        sys.stderr.flush()
        print("infrastructure failure: timeout")
        sys.stdout.flush()
        os._exit(2)
    try:
        signal.signal(signal.SIGALRM, on_alarm)
        signal.alarm(limit)
    except (ValueError, OSError):
        pass


def run_check(pid, tier, replay_path=None):
    t0 = time.time()
    _watchdog(pid, tier)
    seed = int(os.environ.get("VERIF_SEED", "0") or 0)
    os.makedirs(core.WORK, exist_ok=True)
    mod = importlib.import_module("props." + pid.lower())
    ctx = Ctx(pid, tier, seed)

    # 1. build (translator first when the property uses regenerated data)
    pre_problems = []
    if getattr(mod, "USES_GENERATED", False):
        import translate
        pre_problems += translate.regenerate(log)
    # properties whose theorems do not depend on the regenerated data build only the model, the static
    # proofs and the driver, so that a broken C14 obligation cannot take the other 18 checks down with it
    ok, out = lake_build(None if getattr(mod, "USES_GENERATED", False) else ["Blackbird", "Proofs", "bbmodel"])
    build_broken = not ok
    if build_broken and not getattr(mod, "USES_GENERATED", False):
        print(out[-3000:])
        print("infrastructure failure: lake build failed")
        return 2
    if not os.path.exists(core.DRIVER):
        print("infrastructure failure: model driver missing")
        return 2

    # 2. proof audit
    aud = audit(pid)
    if build_broken:
        # name the obligations that no longer check (the error lines of the build), before anything else
        errs = [l.strip() for l in out.split("\n") if l.startswith("error:") and ".lean:" in l]
        failed = sorted(set(re.findall(r"(GenProps/[A-Za-z0-9_]+\.lean:\d+)", out)))
        names = []
        for f in failed:
            fn, ln = f.rsplit(":", 1)
            try:
                src = open(os.path.join(core.LEAN_DIR, fn), encoding="utf-8").read().split("\n")
                k = int(ln) - 1
                while k >= 0 and not src[k].startswith("theorem "):
                    k -= 1
                if k >= 0:
                    names.append(src[k].split()[1])
            except Exception:  # noqa: BLE001
                pass
        aud["problems"] = ["theorems over the regenerated data that no longer hold: %s" % ", ".join(sorted(set(names)) or ["(see build output)"]),
                           "lake build failed: " + " | ".join(errs[:6])[:1500]] + \
            [w for w in aud["problems"] if "no axiom report" not in w]
    hits = forbidden_tokens()
    if hits:
        aud["problems"] += ["forbidden token: " + h for h in hits]
        aud["discharged"] = 0
    proof_broken = bool(aud["problems"]) or aud["discharged"] != aud["obligations"] or bool(pre_problems)
    if proof_broken and not getattr(mod, "USES_GENERATED", False):
        # the static theorems do not depend on /repo: this is a defect of the framework itself
        for w in aud["problems"]:
            print("audit: " + w[:1000])
        print("infrastructure failure: proof audit failed for static theorems")
        return 2

    # thorough tier: the toolchain's independent checker replays the property's compiled modules
    if tier == "thorough" and not proof_broken and replay_path is None:
        mods = ["Blackbird.Props." + f[:-5] for f in sorted(os.listdir(os.path.join(core.LEAN_DIR, "Blackbird", "Props")))
                if re.fullmatch(pid + r"[A-Za-z]*\.lean", f)]
        if getattr(mod, "USES_GENERATED", False):
            mods += ["GenProps." + f[:-5] for f in sorted(os.listdir(os.path.join(core.LEAN_DIR, "GenProps")))
                     if re.fullmatch(pid + r"[A-Za-z]*\.lean", f)]
        try:
            with Lock(os.path.join(core.WORK, "lean.lock")):
                lc = subprocess.run(["lake", "env", "leanchecker"] + mods, cwd=core.LEAN_DIR, stdout=subprocess.PIPE,
                                    stderr=subprocess.STDOUT, timeout=3000)
            ctx.extra["leanchecker"] = {"modules": mods, "exit": lc.returncode}
            if lc.returncode != 0:
                print(lc.stdout.decode("utf-8", "replace")[-2000:])
                print("infrastructure failure: leanchecker rejects the compiled proofs")
                return 2
        except FileNotFoundError:
            ctx.extra["leanchecker"] = {"modules": mods, "exit": "not installed"}

    core.import_blackbird()
    import implcov
    pkg = os.path.join(core.REPO, "blackbird_python", "blackbird")
    cov_on = implcov.start(pkg)

    # 3. replay mode
    if replay_path is not None:
        data = json.load(open(replay_path, encoding="utf-8"))
        msg = mod.replay(ctx, data)
        if msg:
            print("replay reproduces: " + msg)
            print("VIOLATION property=%s replay=%s" % (pid, replay_path))
            return 1
        print("replay passes")
        return 0

    # 4. known findings: fixed entries must pass, open entries are reported when they reproduce
    findings = load_findings(pid)
    known_inputs = []
    for e in findings:
        try:
            msg = mod.replay(ctx, e["input"])
        except Exception as ex:  # noqa: BLE001
            msg = "replay raised %r" % (ex,)
        if e["status"] == "fixed":
            if msg:
                ctx.violation("fixed finding %s is back: %s" % (e["id"], msg), e["input"])
        else:
            known_inputs.append(json.dumps(e["input"], sort_keys=True))
            if msg:
                print("KNOWN-FINDING: property=%s %s" % (pid, e["what"]))
            else:
                log("note: open finding %s no longer reproduces" % e["id"])
                ctx.notes.append("open finding %s did not reproduce in this run" % e["id"])

    # 4b. corpus: concrete inputs on which earlier (seeded) regressions failed; they pass on a tree where
    # the property holds and are replayed before anything is generated
    import glob
    ncorp = 0
    for f in sorted(glob.glob(os.path.join(core.VERIF, "seeded", pid, "*", "replay.json")) +
                    glob.glob(os.path.join(core.VERIF, "corpus", pid, "*.json"))):
        try:
            data = json.load(open(f, encoding="utf-8"))
            msg = mod.replay(ctx, data)
        except Exception as ex:  # noqa: BLE001
            msg = None
            ctx.notes.append("corpus entry %s could not be replayed: %r" % (os.path.relpath(f, core.VERIF), ex))
        ncorp += 1
        if msg:
            ctx.violation("corpus input %s fails: %s" % (os.path.relpath(f, core.VERIF), msg), data)
    ctx.extra["corpus_inputs_replayed"] = ncorp

    # 5. corpus + generated cases
    try:
        mod.run(ctx)
    except Exception:  # noqa: BLE001
        traceback.print_exc()
        print("infrastructure failure: check raised")
        return 2

    # 6. verdict
    rc = 0
    k = 0
    reported = set()
    for msg, rep in ctx.violations:
        key = json.dumps(rep, sort_keys=True, default=str)
        if key in known_inputs or key in reported:
            continue
        reported.add(key)
        k += 1
        path = write_replay(pid, k, rep)
        print("violation: " + msg)
        print("VIOLATION property=%s replay=%s" % (pid, path))
        rc = 1
        if k >= 5:
            break
    if rc == 0 and (proof_broken or ctx.disagreements):
        # a proof obligation or the correspondence no longer checks and no failing input was found
        what = []
        if proof_broken:
            what += aud["problems"] + pre_problems
        for msg, rep in ctx.disagreements[:5]:
            what.append("correspondence: " + msg)
        rep = {"kind": "no-failing-input-found", "unchecked": what,
               "disagreements": [r for _m, r in ctx.disagreements[:5]]}
        path = write_replay(pid, 1, rep)
        for w in what[:6]:
            print("unchecked: " + w[:600])
        print("VIOLATION property=%s replay=%s no-failing-input-found" % (pid, path))
        rc = 1
    wall = time.time() - t0
    if cov_on:
        ctx.extra["impl_line_coverage"] = implcov.report(pkg)
    write_evidence(pid, tier, seed, aud, ctx, wall, len(ctx.violations),
                   "cd lean && lake build && lake env lean Audit/%s.lean" % pid)
    log("%s %s: %d evaluations, %d distinct non-trivial, %d ood, %d disagreements, %d violations, "
        "%d/%d theorems, %.1fs" % (pid, tier, ctx.evaluations, len(ctx.nontrivial), ctx.ood,
                                   len(ctx.disagreements), len(ctx.violations), aud["discharged"],
                                   aud["obligations"], wall))
    return rc


def main(argv):
    if len(argv) >= 1 and argv[0] == "--setup":
        return setup()
    if len(argv) >= 3 and argv[1] == "--replay":
        return run_check(argv[0], "quick", argv[2])
    if len(argv) >= 1:
        tier = argv[1] if len(argv) > 1 else os.environ.get("VERIF_TIER", "quick")
        if tier not in ("quick", "thorough"):
            tier = "quick"
        return run_check(argv[0], tier)
    print(__doc__)
    return 2


if __name__ == "__main__":
    try:
        sys.exit(main(sys.argv[1:]))
    except subprocess.TimeoutExpired:
        print("infrastructure failure: timeout")
        sys.exit(2)
