"""Runs the registered check of a property against a seeded change (seeded/<id>/<x>/patch.diff):
applies the patch to /repo, runs the demonstration and `./check <id> quick` (thorough if quick
misses it), undoes the patch, runs the demonstration again, and records result.json next to the
patch. Evidence of these runs goes to work/seeded-evidence, never to evidence/.

usage: seedcheck.py <id> <x> [--import /tmp/seed/<id>/SEED/<x>]"""
import json
import os
import shutil
import subprocess
import sys
import time

HERE = os.path.dirname(os.path.abspath(__file__))
VERIF = os.path.dirname(HERE)
REPO = "/repo"


def sh(cmd, timeout=3600, env=None, cwd=None):
    t0 = time.time()
    try:
        p = subprocess.run(cmd, shell=True, capture_output=True, text=True, timeout=timeout, env=env, cwd=cwd)
        return p.returncode, p.stdout + p.stderr, time.time() - t0
    except subprocess.TimeoutExpired as e:
        return 124, (e.stdout or "") + "\nTIMEOUT", time.time() - t0


def demo_root(pid, x, dst):
    """a directory that looks like the sub-agent's worktree to its demo.py (SEED/<x>/demo.py next to
    blackbird_python, src, ...) but whose package directories are /repo's"""
    root = os.path.join(VERIF, "work", "demo", "%s_%s" % (pid, x))
    shutil.rmtree(root, ignore_errors=True)
    # a copy, not symlinks: some demonstrations insist that blackbird.__file__ is inside "their" worktree
    shutil.copytree(REPO, root, ignore=shutil.ignore_patterns(".git", "__pycache__", "*.pyc"))
    os.makedirs(os.path.join(root, "SEED", x))
    shutil.copy(os.path.join(dst, "demo.py"), os.path.join(root, "SEED", x, "demo.py"))
    return root


def run_demo(pid, x, dst, env):
    root = demo_root(pid, x, dst)
    try:
        env = dict(env)
        env["PYTHONPATH"] = os.path.join(root, "blackbird_python")
        return sh("/venv/bin/python %s" % os.path.join("SEED", x, "demo.py"), env=env, cwd=root, timeout=900)
    finally:
        shutil.rmtree(root, ignore_errors=True)


def main(argv):
    pid, x = argv[0], argv[1]
    dst = os.path.join(VERIF, "seeded", pid, x)
    if "--import" in argv:
        src = argv[argv.index("--import") + 1]
        os.makedirs(dst, exist_ok=True)
        for f in ("patch.diff", "demo.py", "meta.json"):
            shutil.copy(os.path.join(src, f), os.path.join(dst, f))
    patch = os.path.join(dst, "patch.diff")
    env = dict(os.environ)
    env["PYTHONPATH"] = os.path.join(REPO, "blackbird_python")
    env["VERIF_EVIDENCE_DIR"] = os.path.join(VERIF, "work", "seeded-evidence")
    res = {"property": pid, "change": x}
    rc, out, _ = sh("git -C %s status --porcelain" % REPO)
    if out.strip():
        print("refusing: /repo is not clean:\n" + out)
        return 2
    rc, out, _ = sh("git -C %s apply %s" % (REPO, patch))
    if rc != 0:
        print("patch does not apply: " + out)
        return 2
    try:
        rc, out, _ = run_demo(pid, x, dst, env)
        res["demo_with_change"] = rc
        res["demo_output_tail"] = out[-1500:]
        rc, out, wall = sh("./check %s quick" % pid, env=env, cwd=VERIF, timeout=3600)
        res["quick"] = {"exit": rc, "wall_s": round(wall, 1),
                        "lines": [l for l in out.split("\n") if l.startswith(("VIOLATION", "violation:", "unchecked:", "KNOWN-FINDING"))][:12]}
        # keep the first concrete failing input as a corpus entry (replayed first on every later run)
        m = [l for l in out.split("\n") if l.startswith("VIOLATION") and "no-failing-input-found" not in l]
        if rc == 1 and m:
            rp = m[0].split("replay=")[1].split()[0]
            try:
                data = json.load(open(rp, encoding="utf-8"))
                if data.get("kind") not in ("no-failing-input-found", "correspondence"):
                    json.dump(data, open(os.path.join(dst, "replay.json"), "w", encoding="utf-8"), indent=1, default=str)
            except Exception:  # noqa: BLE001
                pass
        if rc == 0 and "--no-thorough" not in argv:
            rc, out, wall = sh("./check %s thorough" % pid, env=env, cwd=VERIF, timeout=7200)
            res["thorough"] = {"exit": rc, "wall_s": round(wall, 1),
                               "lines": [l for l in out.split("\n") if l.startswith(("VIOLATION", "violation:", "unchecked:", "KNOWN-FINDING"))][:12]}
    finally:
        sh("git -C %s checkout -- ." % REPO)
    rc, out, _ = sh("git -C %s status --porcelain" % REPO)
    res["repo_clean_after"] = (out.strip() == "")
    rc, out, _ = run_demo(pid, x, dst, env)
    res["demo_unchanged_tree"] = rc
    res["caught"] = ("quick" if res["quick"]["exit"] == 1 else
                     "thorough" if res.get("thorough", {}).get("exit") == 1 else "no")
    with open(os.path.join(dst, "result.json"), "w", encoding="utf-8") as f:
        json.dump(res, f, indent=1)
    print("%s/%s: demo %s->%s, quick exit %s, caught=%s" % (
        pid, x, res["demo_with_change"], res["demo_unchanged_tree"], res["quick"]["exit"], res["caught"]))
    for l in res["quick"]["lines"][:3]:
        print("   " + l[:300])
    return 0


if __name__ == "__main__":
    sys.exit(main(sys.argv[1:]))
