"""S-expression reader for the model driver's output, and decoding into the harness's
canonical value language (shared with canon.py)."""
import struct


def parse(text):
    """Parse one S-expression (or a bare word) into nested lists of str."""
    toks = text.replace("(", " ( ").replace(")", " ) ").split()
    pos = 0

    def rd():
        nonlocal pos
        t = toks[pos]
        pos += 1
        if t == "(":
            out = []
            while toks[pos] != ")":
                out.append(rd())
            pos += 1
            return out
        return t

    if not toks:
        return []
    v = rd()
    return v


def unhex(h):
    if h == "-":
        return ""
    return bytes.fromhex(h).decode("utf-8")


def hexs(s):
    if s == "":
        return "-"
    return s.encode("utf-8").hex()


def bits_to_float(h):
    return struct.unpack(">d", bytes.fromhex(h))[0]


def float_to_bits(x):
    return struct.pack(">d", float(x)).hex()


# canonical value language (tuples):
#   ("i", int) ("f", float) ("c", complex) ("b", bool) ("s", str) ("pn", str)
#   ("sym", tree|sympy) ("rrt", tree|sympy, regrefs?, func?)
#   ("arr", dtype, rows, cols, [elem...]) ("list", [atom...])
# model symbolic trees: ("num", numvalue) ("par", name) ("reg", name) ("neg", a) ("add", a, b) ...

def dec_num(x):
    k = x[0]
    if k == "i":
        return ("i", int(x[1]))
    if k == "f":
        return ("f", bits_to_float(x[1]))
    if k == "c":
        return ("c", complex(bits_to_float(x[1]), bits_to_float(x[2])))
    raise ValueError("bad num %r" % (x,))


def dec_tree(x):
    k = x[0]
    if k in ("i", "f", "c"):
        return ("num", dec_num(x))
    if k == "par":
        return ("par", unhex(x[1]))
    if k == "reg":
        return ("reg", unhex(x[1]))
    if k == "neg":
        return ("neg", dec_tree(x[1]))
    if k in ("add", "mul", "pow"):
        return (k, dec_tree(x[1]), dec_tree(x[2]))
    raise ValueError("bad tree %r" % (x,))


def dec_val(x):
    k = x[0]
    if k in ("i", "f", "c"):
        return dec_num(x)
    if k == "b":
        return ("b", x[1] == "T")
    if k == "s":
        return ("s", unhex(x[1]))
    if k == "pn":
        return ("pn", unhex(x[1]))
    if k == "sym":
        return ("sym", dec_tree(x[1]))
    if k == "rrt":
        return ("rrt", dec_tree(x[1]))
    if k == "arr":
        return ("arr", x[1], int(x[2]), int(x[3]), [dec_elem(e) for e in x[4:]])
    if k == "list":
        return ("list", [dec_val(e) for e in x[1:]])
    raise ValueError("bad val %r" % (x,))


def dec_elem(x):
    if x[0] in ("i", "f", "c"):
        return dec_num(x)
    return ("sym", dec_tree(x))


def dec_kw(x):
    assert x[0] == "kw"
    return [(unhex(e[0]), dec_val(e[1])) for e in x[1:]]


def dec_op(x):
    assert x[0] == "op"
    name = unhex(x[1])
    a = x[2]
    if a[0] == "noargs":
        args = None
    else:
        args = ([dec_val(v) for v in a[1][1:]], dec_kw(a[2]))
    modes = [int(m) for m in x[3][1:]]
    return {"op": name, "args": args, "modes": modes}


def dec_meta(x):
    name = None if x[0] == "none" else unhex(x[0])
    return {"name": name, "options": dec_kw(x[1])}


def dec_result(text):
    """Decode a LOADS / CALL result line into ('prog', {...}) | ('err', kind, ...) | ('ood', why)."""
    x = parse(text)
    if not isinstance(x, list):
        return ("raw", x)
    if x[0] == "prog":
        return ("prog", {
            "name": unhex(x[1]),
            "version": unhex(x[2]),
            "target": dec_meta(x[3]),
            "type": dec_meta(x[4]),
            "ops": [dec_op(o) for o in x[5][1:]],
            "vars": dec_kw(x[6]),
            "params": sorted(set(unhex(p) for p in x[7][1:])),
            "modes": sorted(set(int(m) for m in x[8][1:])),
        })
    if x[0] == "err":
        if x[1] == "syntax":
            return ("err", "syntax", x[2], unhex(x[3]), int(x[4]), int(x[5]))
        return ("err", x[1])
    if x[0] == "ood":
        return ("ood", unhex(x[1]))
    return ("raw", x)
