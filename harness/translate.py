"""Translator for C14: regenerates lean/Gen/*.lean from /repo on every run.

  Gen/G4.lean         lexer rules of src/blackbird.g4 as `Blackbird.Re` terms (in the same uniform
                      transcription scheme as Blackbird/Lexer.lean), parser rules as normalised text,
                      rule and token names in grammar order
  Gen/Artefacts.lean  serialised ATNs of the Python and C++ lexers/parsers and of the .interp files,
                      the .tokens files, the literal / symbolic / rule name tables of every target

Nothing is executed from /repo: Python sources are read with `ast`, C++ sources and .interp/.tokens
files lexically. The reader of the grammar is validated by re-rendering (g4.normalised vs
g4.normalise_source); the extracted ATNs are validated by decoding them with the installed antlr4
runtime (state counts > 0, grammar type) in harness/props/c14.py.
"""
import ast
import json
import os
import re

import g4 as g4mod

HERE = os.path.dirname(os.path.abspath(__file__))
VERIF = os.path.dirname(HERE)
REPO = os.environ.get("VERIF_REPO", "/repo")
GEN = os.environ.get("VERIF_GEN_DIR") or os.path.join(VERIF, "lean", "Gen")


# ------------------------------------------------------------------ extraction

def py_serialized_atn(path):
    tree = ast.parse(open(path, encoding="utf-8").read())
    for node in ast.walk(tree):
        if isinstance(node, ast.FunctionDef) and node.name == "serializedATN":
            s = ""
            for call in ast.walk(node):
                if isinstance(call, ast.Call) and getattr(call.func, "attr", "") == "write":
                    arg = call.args[0]
                    if isinstance(arg, ast.Constant) and isinstance(arg.value, str):
                        s += arg.value
            return [ord(c) for c in s]
    raise ValueError("no serializedATN in " + path)


def py_name_tables(path, cls):
    tree = ast.parse(open(path, encoding="utf-8").read())
    out = {}
    for node in ast.walk(tree):
        if isinstance(node, ast.ClassDef) and node.name == cls:
            for st in node.body:
                if isinstance(st, ast.Assign) and len(st.targets) == 1 and isinstance(st.targets[0], ast.Name):
                    if st.targets[0].id in ("literalNames", "symbolicNames", "ruleNames"):
                        out[st.targets[0].id] = [e.value for e in st.value.elts]
    return out


def cpp_unescape(s):
    return bytes(s, "utf-8").decode("unicode_escape") if "\\" in s else s


def cpp_vector(text, name):
    m = re.search(r"::" + name + r"\s*=\s*\{(.*?)\};", text, re.S)
    if not m:
        raise ValueError("no vector " + name)
    return [cpp_unescape(x) for x in re.findall(r'"((?:[^"\\]|\\.)*)"', m.group(1))]


def cpp_serialized_atn(text):
    out = []
    for m in re.finditer(r"serializedATNSegment(\d+)\[\]\s*=\s*\{(.*?)\};", text, re.S):
        out.append((int(m.group(1)), [int(x, 16) for x in re.findall(r"0x[0-9a-fA-F]+", m.group(2))]))
    out.sort()
    res = []
    for _k, seg in out:
        res += seg
    return res


def interp_sections(path):
    secs = {}
    cur = None
    for line in open(path, encoding="utf-8").read().split("\n"):
        if line.endswith(":") and line[:-1] in ("token literal names", "token symbolic names", "rule names",
                                                "channel names", "mode names", "atn"):
            cur = line[:-1]
            secs[cur] = []
        elif cur is not None:
            secs[cur].append(line)
    atn = json.loads("".join(secs["atn"]))

    def names(key):
        xs = secs[key]
        while xs and xs[-1] == "":
            xs = xs[:-1]
        return xs
    return {"atn": atn, "literal": names("token literal names"), "symbolic": names("token symbolic names"),
            "rules": names("rule names")}


def tokens_file(path):
    out = []
    for line in open(path, encoding="utf-8").read().split("\n"):
        if line.strip():
            k, v = line.rsplit("=", 1)
            out.append((k, int(v)))
    return out


def norm_names(xs, null_marker):
    """name tables in one normal form: missing entries become the empty string"""
    return ["" if (x is None or x in null_marker) else x for x in xs]


# ------------------------------------------------------------------ Lean emission

def lean_str(s):
    out = '"'
    for c in s:
        if c == '"':
            out += '\\"'
        elif c == "\\":
            out += "\\\\"
        elif c == "\n":
            out += "\\n"
        elif c == "\r":
            out += "\\r"
        elif c == "\t":
            out += "\\t"
        elif ord(c) < 32 or ord(c) > 126:
            out += "\\u{%x}" % ord(c)
        else:
            out += c
    return out + '"'


def emit_nat_list(name, xs, chunk=64):
    lines = []
    parts = []
    for i in range(0, len(xs), chunk):
        pn = "%s_%d" % (name, i // chunk)
        parts.append(pn)
        lines.append("def %s : List Nat := [%s]" % (pn, ", ".join(str(x) for x in xs[i:i + chunk])))
    lines.append("def %s : List Nat := %s" % (name, " ++ ".join(parts) if parts else "[]"))
    return "\n".join(lines) + "\n"


def emit_str_list(name, xs, chunk=16):
    lines = []
    parts = []
    for i in range(0, len(xs), chunk):
        pn = "%s_%d" % (name, i // chunk)
        parts.append(pn)
        lines.append("def %s : List String := [%s]" % (pn, ", ".join(lean_str(x) for x in xs[i:i + chunk])))
    lines.append("def %s : List String := %s" % (name, " ++ ".join(parts) if parts else "[]"))
    return "\n".join(lines) + "\n"


def emit_tokens(name, pairs):
    return "def %s : List (String × Nat) := [%s]\n" % (
        name, ", ".join("(%s, %d)" % (lean_str(k), v) for k, v in pairs))


def re_of_elem(e, frags):
    k = e[0]
    if k == "lit":
        return "(Re.lit %s)" % lean_str(e[1])
    if k == "set":
        return "(Re.set [%s])" % ", ".join("(%d, %d)" % r for r in e[1])
    if k == "nset":
        return "(Re.nset [%s])" % ", ".join("(%d, %d)" % r for r in e[1])
    if k == "any":
        return "(Re.nset [])"
    if k == "ref":
        return frags[e[1]]
    if k == "group":
        return re_of_alts(e[1], frags)
    if k == "labelled":
        return re_of_elem(e[2], frags)
    inner = re_of_elem(e[1], frags)
    return "(Re.%s %s)" % (k, inner)


def re_of_alt(a, frags):
    parts = [re_of_elem(e, frags) for e in a["elems"]]
    if len(parts) == 1:
        return parts[0]
    return "(Re.seqs [%s])" % ", ".join(parts)


def re_of_alts(alts, frags):
    parts = [re_of_alt(a, frags) for a in alts]
    if len(parts) == 1:
        return parts[0]
    return "(Re.alts [%s])" % ", ".join(parts)


RULE_BASE = 1000


def sym_re(code):
    return "(Re.set [(%d, %d)])" % (code, code)


def pre_of_elem(e, tok, rul):
    """parser-rule element as a regular expression over symbol codes: token type for a token, 0 for EOF,
    1000 + rule index for a reference to a parser rule"""
    k = e[0]
    if k == "ref":
        n = e[1]
        if n == "EOF":
            return sym_re(0)
        if n in tok:
            return sym_re(tok[n])
        return sym_re(RULE_BASE + rul[n])
    if k == "group":
        return pre_of_alts(e[1], tok, rul)
    if k == "labelled":
        return pre_of_elem(e[2], tok, rul)
    if k in ("opt", "star", "plus"):
        return "(Re.%s %s)" % (k, pre_of_elem(e[1], tok, rul))
    raise g4mod.G4Error("element %r in a parser rule" % (e,))


def pre_of_seq(elems, tok, rul):
    parts = [pre_of_elem(e, tok, rul) for e in elems]
    if not parts:
        return "Re.eps"
    if len(parts) == 1:
        return parts[0]
    return "(Re.seqs [%s])" % ", ".join(parts)


def pre_of_alts(alts, tok, rul):
    parts = [pre_of_seq(a["elems"], tok, rul) for a in alts]
    if len(parts) == 1:
        return parts[0]
    return "(Re.alts [%s])" % ", ".join(parts)


def pre_of_rule(r, tok, rul):
    """right-hand side of a parser rule; a directly left-recursive rule is first rewritten the way ANTLR
    does it (LeftRecursiveRuleTransformer): R : primary | R rest  ==>  R : (primary alts) (rest alts)*"""
    def leftrec(a):
        e = a["elems"][0] if a["elems"] else None
        while e is not None and e[0] == "labelled":
            e = e[2]
        return e is not None and e[0] == "ref" and e[1] == r["name"]
    rec = [a for a in r["alts"] if leftrec(a)]
    if not rec:
        return pre_of_alts(r["alts"], tok, rul), False
    prim = [a for a in r["alts"] if not leftrec(a)]
    p = [pre_of_seq(a["elems"], tok, rul) for a in prim]
    q = [pre_of_seq(a["elems"][1:], tok, rul) for a in rec]
    pr = p[0] if len(p) == 1 else "(Re.alts [%s])" % ", ".join(p)
    qr = q[0] if len(q) == 1 else "(Re.alts [%s])" % ", ".join(q)
    return "(Re.seqs [%s, (Re.star %s)])" % (pr, qr), True


def emit_g4(g):
    lex = [r for r in g["rules"] if r["lexer"]]
    par = [r for r in g["rules"] if not r["lexer"]]
    frags = {}
    out = ["/- GENERATED by harness/translate.py from src/blackbird.g4 — do not edit -/", "import Blackbird.Lexer", "",
           "namespace Gen", "open Blackbird", ""]
    rules = []
    for r in lex:
        body = re_of_alts(r["alts"], frags)
        nm = "re_" + r["name"]
        out.append("def %s : Re := %s" % (nm, body))
        frags[r["name"]] = nm
        if not r["fragment"]:
            rules.append((r["name"], nm, r["skip"]))
    out.append("")
    out.append("/-- every lexer rule, fragments included, in grammar order (= rule index in the lexer ATN) -/")
    out.append("def lexAllRules : List (String × Re) :=\n  [%s]" % ",\n   ".join(
        "(%s, %s)" % (lean_str(r["name"]), frags[r["name"]]) for r in lex))
    out.append("")
    out.append("/-- non-fragment lexer rules in grammar order: name, regular expression, `-> skip` -/")
    out.append("def lexRules : List (String × Re × Bool) :=\n  [%s]" % ",\n   ".join(
        "(%s, %s, %s)" % (lean_str(n), nm, "true" if sk else "false") for n, nm, sk in rules))
    out.append("")
    out.append(emit_str_list("lexerRuleNames", [r["name"] for r in lex]))
    out.append(emit_str_list("tokenNames", [n for n, _, _ in rules]))
    out.append(emit_str_list("parserRuleNames", [r["name"] for r in par]))
    out.append("/-- parser rules: name and normalised right-hand side -/")
    out.append("def parserRules : List (String × String) :=\n  [%s]" % ",\n   ".join(
        "(%s, %s)" % (lean_str(r["name"]), lean_str("|".join(g4mod.r_alt(a) for a in r["alts"]))) for r in par))
    out.append("")
    tok = {n: i + 1 for i, (n, _, _) in enumerate(rules)}
    rul = {r["name"]: i for i, r in enumerate(par)}
    pres = [(r["name"],) + pre_of_rule(r, tok, rul) for r in par]
    out.append("/-- every parser rule as a regular expression over symbol codes: a token is its type, EOF is 0, a "
               "reference to a parser rule is 1000 + its index; a directly left-recursive rule is given in the form "
               "ANTLR rewrites it to, primary (operator operand)* -/")
    out.append("def parserAllRules : List (String × Re) :=\n  [%s]" % ",\n   ".join(
        "(%s, %s)" % (lean_str(n), e) for n, e, _ in pres))
    out.append("")
    out.append(emit_str_list("leftRecursiveRules", [n for n, _, lr in pres if lr]))
    out.append("/-- literal of every token whose rule is a single string literal (as ANTLR's vocabulary lists it) -/")
    lits = []
    for r in lex:
        if r["fragment"]:
            continue
        if len(r["alts"]) == 1 and len(r["alts"][0]["elems"]) == 1 and r["alts"][0]["elems"][0][0] == "lit":
            lits.append("'" + r["alts"][0]["elems"][0][1] + "'")
        else:
            lits.append("")
    out.append(emit_str_list("tokenLiterals", lits))
    out.append("end Gen")
    return "\n".join(out) + "\n"


def collect(repo):
    py = os.path.join(repo, "blackbird_python", "blackbird")
    cpp = os.path.join(repo, "blackbird_cpp")
    data = {}
    data["pyLexerATN"] = py_serialized_atn(os.path.join(py, "blackbirdLexer.py"))
    data["pyParserATN"] = py_serialized_atn(os.path.join(py, "blackbirdParser.py"))
    cl = open(os.path.join(cpp, "blackbirdLexer.cpp"), encoding="utf-8").read()
    cp = open(os.path.join(cpp, "blackbirdParser.cpp"), encoding="utf-8").read()
    data["cppLexerATN"] = cpp_serialized_atn(cl)
    data["cppParserATN"] = cpp_serialized_atn(cp)
    inter = {}
    for tag, d, fn in (("pyLexerInterp", py, "blackbirdLexer.interp"), ("pyParserInterp", py, "blackbird.interp"),
                       ("cppLexerInterp", cpp, "blackbirdLexer.interp"), ("cppParserInterp", cpp, "blackbird.interp")):
        inter[tag] = interp_sections(os.path.join(d, fn))
        data[tag + "ATN"] = inter[tag]["atn"]
    names = {}
    pl = py_name_tables(os.path.join(py, "blackbirdLexer.py"), "blackbirdLexer")
    pp = py_name_tables(os.path.join(py, "blackbirdParser.py"), "blackbirdParser")
    null = {"<INVALID>", "null", ""}
    names["pyLexerLiteral"] = norm_names(pl["literalNames"], null)
    names["pyLexerSymbolic"] = norm_names(pl["symbolicNames"], null)
    names["pyLexerRules"] = pl["ruleNames"]
    names["pyParserLiteral"] = norm_names(pp["literalNames"], null)
    names["pyParserSymbolic"] = norm_names(pp["symbolicNames"], null)
    names["pyParserRules"] = pp["ruleNames"]
    names["cppLexerLiteral"] = norm_names(cpp_vector(cl, "_literalNames"), null)
    names["cppLexerSymbolic"] = norm_names(cpp_vector(cl, "_symbolicNames"), null)
    names["cppLexerRules"] = cpp_vector(cl, "_ruleNames")
    names["cppParserLiteral"] = norm_names(cpp_vector(cp, "_literalNames"), null)
    names["cppParserSymbolic"] = norm_names(cpp_vector(cp, "_symbolicNames"), null)
    names["cppParserRules"] = cpp_vector(cp, "_ruleNames")
    for tag in inter:
        names[tag + "Literal"] = norm_names(inter[tag]["literal"], null)
        names[tag + "Symbolic"] = norm_names(inter[tag]["symbolic"], null)
        names[tag + "Rules"] = inter[tag]["rules"]
    toks = {}
    for tag, d, fn in (("pyTokens", py, "blackbird.tokens"), ("pyLexerTokens", py, "blackbirdLexer.tokens"),
                       ("cppTokens", cpp, "blackbird.tokens"), ("cppLexerTokens", cpp, "blackbirdLexer.tokens")):
        toks[tag] = tokens_file(os.path.join(d, fn))
    return data, names, toks


def parser_skeleton(repo):
    """control-flow skeleton of the generated recursive-descent parsers: the sequence of prediction
    decisions, of ATN state numbers entered and of tokens matched, in source order. ANTLR emits the same
    skeleton for every language target."""
    import re
    py = open(os.path.join(repo, "blackbird_python", "blackbird", "blackbirdParser.py"), encoding="utf-8").read()
    cpp = open(os.path.join(repo, "blackbird_cpp", "blackbirdParser.cpp"), encoding="utf-8").read()
    def py_control(src):
        """(ATN state entered last, kind of control statement) for every decision in the rule code"""
        out, last, prev = [], None, ""
        for ln in src.split("\n"):
            t = ln.strip()
            if not t:
                continue
            m = re.match(r"self\.state = (\d+)$", t)
            if m:
                last = int(m.group(1))
            k = None
            if re.match(r"if _la==|if \(\(\(", t):
                k = "IF"
            elif re.match(r"while _la==|while \(\(\(\(_la\)", t):
                k = "WHILE"
            elif t.startswith("while _alt!="):
                k = "PLUSALT" if prev == "_alt = 1" else "WHILEALT"
            elif t == "while True:":
                k = "PLUS"
            elif t.startswith("if la_ == 1"):
                k = "ALT"
            elif t.startswith("if token in"):
                k = "SWITCH"
            if k:
                out.append((last, k))
            prev = t
        return out

    def cpp_control(src):
        out, last, prev = [], None, ""
        for ln in src.split("\n"):
            t = ln.strip()
            if not t:
                continue
            m = re.match(r"setState\((\d+)\);$", t)
            if m:
                last = int(m.group(1))
            k = None
            if re.match(r"if \(_la == |if \(\(\(\(_la", t):
                k = "IF"
            elif re.match(r"while \(_la == |while \(\(\(\(_la", t):
                k = "WHILE"
            elif t.startswith("while (alt != "):
                k = "WHILEALT"
            elif t == "do {":
                k = "PLUSALT" if prev == "alt = 1;" else "PLUS"
            elif t.startswith("switch (getInterpreter<atn::ParserATNSimulator>()->adaptivePredict("):
                k = "ALT"
            elif t.startswith("switch (_input->LA(1))"):
                k = "SWITCH"
            if k:
                out.append((last, k))
            prev = t
        return out

    def la_reads(src, state_rx, la_rx):
        """ATN state entered last at every refresh of the look-ahead variable"""
        out, last = [], 0
        for ln in src.split("\n"):
            t = ln.strip()
            m = re.match(state_rx, t)
            if m:
                last = int(m.group(1))
            elif re.match(la_rx, t):
                out.append(last)
        return out

    pc, cc = py_control(py), cpp_control(cpp)
    return {
        "pyLaReads": la_reads(py, r"self\.state = (\d+)$", r"_la = self\._input\.LA\(1\)$"),
        "cppLaReads": la_reads(cpp, r"setState\((\d+)\);$", r"_la = _input->LA\(1\);$"),
        "pyControlStates": [n for n, _ in pc], "pyControlKinds": [k for _, k in pc],
        "cppControlStates": [n for n, _ in cc], "cppControlKinds": [k for _, k in cc],
        "pyPredict": [int(x) for x in re.findall(r"adaptivePredict\(self\._input,\s*(\d+),\s*self\._ctx\)", py)],
        "cppPredict": [int(x) for x in re.findall(r"adaptivePredict\(_input,\s*(\d+),\s*_ctx\)", cpp)],
        "pyStates": [int(x) for x in re.findall(r"self\.state = (\d+)", py)],
        "cppStates": [int(x) for x in re.findall(r"setState\((\d+)\)", cpp)],
        "pyMatch": re.findall(r"self\.match\(blackbirdParser\.([A-Z_]+)\)", py),
        "cppMatch": re.findall(r"match\(blackbirdParser::([A-Z_]+)\)", cpp),
    }


def emit_artefacts(data, names, toks):
    out = ["/- GENERATED by harness/translate.py from the generated lexers/parsers in /repo — do not edit -/", "",
           "namespace Gen", ""]
    for k in sorted(data):
        out.append(emit_nat_list(k, data[k]))
    for k in sorted(names):
        out.append(emit_str_list(k, names[k]))
    for k in sorted(toks):
        out.append(emit_tokens(k, toks[k]))
    sk = parser_skeleton(REPO)
    for k in ("pyPredict", "cppPredict", "pyStates", "cppStates", "pyControlStates", "cppControlStates", "pyLaReads", "cppLaReads"):
        out.append(emit_nat_list(k, sk[k]))
    for k in ("pyMatch", "cppMatch", "pyControlKinds", "cppControlKinds"):
        out.append(emit_str_list(k, sk[k]))
    for k, v in sorted(code_constants(REPO).items()):
        out.append(emit_tokens(k, v))
    out.append("end Gen")
    return "\n".join(out) + "\n"


def code_constants(repo):
    """the token-type and rule-index constants the generated code is compiled against: the class attributes of the
    Python lexer / parser and the enums of the C++ headers (name, number), in source order"""
    import re
    pyd = os.path.join(repo, "blackbird_python", "blackbird")
    cpd = os.path.join(repo, "blackbird_cpp")
    out = {}

    def py_consts(path, rule_prefix):
        src = open(path, encoding="utf-8").read()
        toks = [(m.group(1), int(m.group(2))) for m in re.finditer(r"^    ([A-Z][A-Z_0-9]*)\s*=\s*(\d+)\s*$", src, re.M)]
        rules = [(m.group(1), int(m.group(2))) for m in re.finditer(r"^    RULE_([A-Za-z_0-9]+)\s*=\s*(\d+)\s*$", src, re.M)]
        return toks, rules

    def cpp_enums(path):
        src = open(path, encoding="utf-8").read()
        enums = []
        for m in re.finditer(r"enum\s*\{(.*?)\};", src, re.S):
            enums.append([(n, int(v)) for n, v in re.findall(r"([A-Za-z_][A-Za-z_0-9]*)\s*=\s*(\d+)", m.group(1))])
        return enums
    t, r = py_consts(os.path.join(pyd, "blackbirdParser.py"), True)
    out["pyParserTokenConsts"], out["pyParserRuleConsts"] = t, r
    t, _ = py_consts(os.path.join(pyd, "blackbirdLexer.py"), False)
    out["pyLexerTokenConsts"] = t
    e = cpp_enums(os.path.join(cpd, "blackbirdParser.h"))
    out["cppParserTokenConsts"] = e[0] if e else []
    out["cppParserRuleConsts"] = [(n[4:5].lower() + n[5:], v) for n, v in (e[1] if len(e) > 1 else [])]
    e = cpp_enums(os.path.join(cpd, "blackbirdLexer.h"))
    out["cppLexerTokenConsts"] = e[0] if e else []
    return out


def write_if_changed(path, text):
    if os.path.exists(path) and open(path, encoding="utf-8").read() == text:
        return False
    os.makedirs(os.path.dirname(path), exist_ok=True)
    with open(path, "w", encoding="utf-8") as f:
        f.write(text)
    return True


def regenerate(log=print):
    """Regenerate Gen/*.lean. Returns a list of problems (reader validation failures)."""
    problems = []
    path = os.path.join(REPO, "src", "blackbird.g4")
    try:
        g = g4mod.read(path)
        if g4mod.normalised(g) != g4mod.normalise_source(g["text"]):
            problems.append("grammar reader validation failed: re-rendered grammar differs from the source")
        c1 = write_if_changed(os.path.join(GEN, "G4.lean"), emit_g4(g))
    except Exception as e:  # noqa: BLE001
        problems.append("cannot read %s: %r" % (path, e))
        c1 = False
    try:
        data, names, toks = collect(REPO)
        c2 = write_if_changed(os.path.join(GEN, "Artefacts.lean"), emit_artefacts(data, names, toks))
    except Exception as e:  # noqa: BLE001
        problems.append("cannot extract the generated artefacts: %r" % (e,))
        c2 = False
    if c1 or c2:
        log("translate: regenerated %s" % ", ".join(n for n, c in (("Gen/G4.lean", c1), ("Gen/Artefacts.lean", c2)) if c))
    problems += regenerate_certificates(log)
    return problems


def regenerate_certificates(log=print):
    """Gen/ATNCert.lean: the decoded lexer ATN, the sub-automaton of every lexer rule and a bisimulation
    certificate per rule, produced by the (untrusted) Lean program Tools/MkATNCert.lean from
    Gen/Artefacts.lean and Gen/G4.lean; GenProps/C14ATN.lean re-checks all of it in the kernel."""
    import hashlib
    import subprocess
    lean_dir = os.path.dirname(GEN)
    try:
        h = hashlib.sha256()
        for fn in ("G4.lean", "Artefacts.lean"):
            h.update(open(os.path.join(GEN, fn), "rb").read())
        for fn in (os.path.join(lean_dir, "Tools", "MkATNCert.lean"), os.path.join(lean_dir, "Blackbird", "ATNSem.lean"),
                   os.path.join(lean_dir, "Blackbird", "ATN.lean")):
            h.update(open(fn, "rb").read())
        stamp = "-- inputs sha256: " + h.hexdigest()
        target = os.path.join(GEN, "ATNCert.lean")
        if os.path.exists(target) and stamp in open(target, encoding="utf-8").read(300):
            return []
        b = subprocess.run(["lake", "build", "Gen.G4", "Gen.Artefacts", "Blackbird.ATNSem"], cwd=lean_dir,
                           stdout=subprocess.PIPE, stderr=subprocess.STDOUT, timeout=1800)
        if b.returncode != 0:
            return ["cannot build the inputs of the certificate generator: " + b.stdout.decode("utf-8", "replace")[-800:]]
        g = subprocess.run(["lake", "env", "lean", "--run", os.path.join("Tools", "MkATNCert.lean")], cwd=lean_dir,
                           stdout=subprocess.PIPE, stderr=subprocess.PIPE, timeout=1800)
        if g.returncode != 0:
            return ["the certificate generator fails (the lexer ATN does not decode, or a rule is missing): " +
                    g.stderr.decode("utf-8", "replace")[-800:]]
        text = stamp + "\n" + g.stdout.decode("utf-8")
        if write_if_changed(target, text):
            log("translate: regenerated Gen/ATNCert.lean")
        return []
    except Exception as e:  # noqa: BLE001
        return ["cannot regenerate the ATN certificates: %r" % (e,)]


if __name__ == "__main__":
    print(regenerate())
