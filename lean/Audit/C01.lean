import Blackbird.Props.C01
#print axioms Blackbird.C01_symbolic_argument_exact
#print axioms Blackbird.C01_symbolic_argument_parameters
#print axioms Blackbird.C01_reload_same
#print axioms Blackbird.C01_every_generation
#print axioms Blackbird.C01_script_fixpoint
#print axioms Blackbird.C01_text_parses
#print axioms Blackbird.C01_tdm_reload_exact
