import Blackbird.Props.C03
import Blackbird.Props.C03Parse
#print axioms Blackbird.C03_add_meaning
#print axioms Blackbird.C03_sub_meaning
#print axioms Blackbird.C03_mul_meaning
#print axioms Blackbird.C03_div_meaning
#print axioms Blackbird.C03_pow_meaning
#print axioms Blackbird.C03_int_closed
#print axioms Blackbird.C03_int_negative_power_refused
#print axioms Blackbird.C03_complex_meaning
#print axioms Blackbird.C03_int_literal
#print axioms Blackbird.C03_complex_literal_split
#print axioms Blackbird.C03_parse_print
#print axioms Blackbird.C03_parse_print_eof
#print axioms Blackbird.C03_printing_injective
#print axioms Blackbird.C03_sign_binds_tighter_than_power
#print axioms Blackbird.C03_power_right_assoc
#print axioms Blackbird.C03_minus_divide_left_assoc
#print axioms Blackbird.C03_levels
#print axioms Blackbird.C03_signed_exponent
