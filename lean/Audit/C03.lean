import Blackbird.Props.C03
#print axioms Blackbird.C03_add_meaning
#print axioms Blackbird.C03_sub_meaning
#print axioms Blackbird.C03_mul_meaning
#print axioms Blackbird.C03_div_meaning
#print axioms Blackbird.C03_pow_meaning
#print axioms Blackbird.C03_int_closed
#print axioms Blackbird.C03_int_negative_power_refused
#print axioms Blackbird.C03_complex_meaning
#print axioms Blackbird.C03_int_literal
#print axioms Blackbird.C03_complex_literal_split
