import Blackbird.Props.C05
#print axioms Blackbird.C05_array_layout
#print axioms Blackbird.C05_ragged_rejected
#print axioms Blackbird.C05_shape_mismatch_rejected
#print axioms Blackbird.C05_index_row_major
#print axioms Blackbird.C05_index_out_of_range
#print axioms Blackbird.C05_scalar_has_declared_type
#print axioms Blackbird.C05_complex_not_cast
#print axioms Blackbird.C05_insert_positions
#print axioms Blackbird.C05_legacy_positions_wrong
#print axioms Blackbird.C05_redeclaration_replaces
#print axioms Blackbird.C05_index_after_redeclaration
