import Blackbird.Props.C06
#print axioms Blackbird.C06_range_get
#print axioms Blackbird.C06_range_below
#print axioms Blackbird.C06_range_empty
#print axioms Blackbird.C06_range_default_step
#print axioms Blackbird.C06_loop_eq_unroll
#print axioms Blackbird.C06_loop_var_not_visible_after
#print axioms Blackbird.C06_wrong_type_refused
#print axioms Blackbird.C06_examples_of_wrong_type
#print axioms Blackbird.C06_range_in_str_loop_refused
#print axioms Blackbird.C06_bool_loop_value_beyond_one_refused
