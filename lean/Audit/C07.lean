import Blackbird.Props.C07
import Blackbird.Props.C07Script
#print axioms Blackbird.C07_call_eq_inline
#print axioms Blackbird.C07_template_call_eq_inline
#print axioms Blackbird.C07_calls_independent
#print axioms Blackbird.C07_modes_increasing
#print axioms Blackbird.C07_repeated_include_skipped
#print axioms Blackbird.C07_path_resolution
#print axioms Blackbird.C07_nested_includes_merged
#print axioms Blackbird.C07_legacy_call_site_wrong
#print axioms Blackbird.C07_template_call_eq_substituted_inline
