import Blackbird.Props.C08
#print axioms Blackbird.C08_rrt_pairing
#print axioms Blackbird.C08_rrt_symbols
#print axioms Blackbird.C08_rrt_regrefs
#print axioms Blackbird.C08_wrapped_iff
#print axioms Blackbird.C08_plain_values_stay
