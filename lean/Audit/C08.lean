import Blackbird.Props.C08
import Blackbird.Props.C08Script
#print axioms Blackbird.C08_rrt_pairing
#print axioms Blackbird.C08_rrt_symbols
#print axioms Blackbird.C08_rrt_regrefs
#print axioms Blackbird.C08_wrapped_iff
#print axioms Blackbird.C08_plain_values_stay
#print axioms Blackbird.C08_transform_computes_written_formula
#print axioms Blackbird.C08_register_argument_is_transform
