import Blackbird.Props.C09
#print axioms Blackbird.C09_number_exact
#print axioms Blackbird.C09_int_text_exact
#print axioms Blackbird.C09_array_declaration_exact
#print axioms Blackbird.C09_operation_exact
#print axioms Blackbird.C09_options_exact
#print axioms Blackbird.C09_serialised_program_loads_back
#print axioms Blackbird.C09_serialiser_total
