import Blackbird.Props.C10
import Blackbird.Props.C10Lex
#print axioms Blackbird.C10_listener_total
#print axioms Blackbird.C10_invariant_needed
#print axioms Blackbird.C10_column_one_based
#print axioms Blackbird.C10_printed_scripts_pass
#print axioms Blackbird.C10_lexer_never_stuck
#print axioms Blackbird.C10_lexer_match_bounds
#print axioms Blackbird.C10_lexer_consumes_input
#print axioms Blackbird.C10_eof_position_is_end_of_text
