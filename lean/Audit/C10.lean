import Blackbird.Props.C10
#print axioms Blackbird.C10_listener_total
#print axioms Blackbird.C10_invariant_needed
#print axioms Blackbird.C10_column_one_based
#print axioms Blackbird.C10_printed_scripts_pass
