import Blackbird.Props.C12
#print axioms Blackbird.C12_load_independent
#print axioms Blackbird.C12_tables_after_independent
#print axioms Blackbird.C12_loads_independent
#print axioms Blackbird.C12_history_independent
#print axioms Blackbird.C12_success_leaves_nothing
#print axioms Blackbird.C12_legacy_depends_on_history
