import Blackbird.Props.C13
#print axioms Blackbird.C13_toDiGraph_readonly
#print axioms Blackbird.C13_matchTemplate_readonly
#print axioms Blackbird.C13_readonly_step
#print axioms Blackbird.C13_readonly_sequence
#print axioms Blackbird.C13_serialisation_unchanged
#print axioms Blackbird.C13_legacy_toDiGraph_changes_serialisation
