import Blackbird.Props.C14
import GenProps.C14
import GenProps.C14ATN
#print axioms Blackbird.C14_longest_match
#print axioms Blackbird.C14_tie_break_examples
#print axioms Blackbird.C14_any_rule_last
#print axioms Blackbird.C14_sixty_one_token_kinds
#print axioms Blackbird.C14_longest_is_longest_in_language
#print axioms Blackbird.C14_earliest_rule_wins_ties
#print axioms Blackbird.C14_lexer_atn_identical
#print axioms Blackbird.C14_parser_atn_identical
#print axioms Blackbird.C14_tokens_files_identical
#print axioms Blackbird.C14_rule_names_match_grammar
#print axioms Blackbird.C14_symbolic_names_match_grammar
#print axioms Blackbird.C14_literal_names_match_grammar
#print axioms Blackbird.C14_tokens_match_grammar
#print axioms Blackbird.C14_grammar_is_model_grammar
#print axioms Blackbird.C14_model_token_kinds
#print axioms Blackbird.C14_parser_code_skeletons_identical
#print axioms Blackbird.C14_code_constants_match_grammar
#print axioms Blackbird.C14_parser_lookahead_reads_identical
#print axioms Blackbird.C14_lexer_atn_decodes
#print axioms Blackbird.C14_lexer_subautomata
#print axioms Blackbird.C14_lexer_certificates
#print axioms Blackbird.C14_lexer_rule_language
#print axioms Blackbird.C14_token_rule_language
#print axioms Blackbird.C14_parser_atn_decodes
#print axioms Blackbird.C14_parser_subautomata
#print axioms Blackbird.C14_parser_certificates
#print axioms Blackbird.C14_parser_rule_language
#print axioms Blackbird.C14_left_recursive_rules
#print axioms Blackbird.C14_candidate_is_automaton_longest
#print axioms Blackbird.C14_parser_control_matches_atn
