import Blackbird.Props.C15
#print axioms Blackbird.C15_isPType_examples
#print axioms Blackbird.C15_parray_by_name
#print axioms Blackbird.C15_others_by_value
#print axioms Blackbird.C15_declaration_registers
#print axioms Blackbird.C15_pnames_not_parameters
#print axioms Blackbird.C15_no_braces_not_template
#print axioms Blackbird.C15_reference_serialised_bare
#print axioms Blackbird.C15_variable_block_arrays
#print axioms Blackbird.C15_tdm_program_loads_back
#print axioms Blackbird.C15_reference_roundtrip
