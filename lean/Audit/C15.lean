import Blackbird
#print axioms Blackbird.dictGet
