import Blackbird.Props.C16
#print axioms Blackbird.C16_nodes_exact
#print axioms Blackbird.C16_nodes_all
#print axioms Blackbird.C16_node_attrs
#print axioms Blackbird.C16_edge_forward
#print axioms Blackbird.C16_reach_forward
#print axioms Blackbird.C16_acyclic
#print axioms Blackbird.C16_reach_iff_chain
#print axioms Blackbird.C16_topological_keeps_wire_order
