import Blackbird.Props.C17
#print axioms Blackbird.C17_solve_inverts
#print axioms Blackbird.C17_affine_meaning
#print axioms Blackbird.C17_symbol_argument_binds
#print axioms Blackbird.C17_consistency
#print axioms Blackbird.C17_equal_values_consistent
#print axioms Blackbird.C17_two_parameters_refused
#print axioms Blackbird.C17_not_a_template_rejected
#print axioms Blackbird.C17_program_is_template_rejected
#print axioms Blackbird.C17_version_mismatch_rejected
#print axioms Blackbird.C17_target_mismatch_rejected
#print axioms Blackbird.C17_node_count_mismatch_rejected
#print axioms Blackbird.C17_missing_label_rejected
#print axioms Blackbird.C17_isomorphism_unique
#print axioms Blackbird.C17_matcher_choice_irrelevant
