import Blackbird.Props.C18
#print axioms Blackbird.C18_layout_irrelevant
#print axioms Blackbird.C18_every_layout_parses
#print axioms Blackbird.C18_loaded_program_unchanged
#print axioms Blackbird.C18_final_newline_irrelevant
#print axioms Blackbird.C18_statement_line_ends
