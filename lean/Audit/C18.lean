import Blackbird.Props.C18
import Blackbird.Props.C18Lex
#print axioms Blackbird.C18_layout_irrelevant
#print axioms Blackbird.C18_every_layout_parses
#print axioms Blackbird.C18_loaded_program_unchanged
#print axioms Blackbird.C18_final_newline_irrelevant
#print axioms Blackbird.C18_statement_line_ends
#print axioms Blackbird.C18_comment_is_skipped
#print axioms Blackbird.C18_comment_text_irrelevant
#print axioms Blackbird.C18_comment_line_is_blank
#print axioms Blackbird.C18_spaces_are_skipped
#print axioms Blackbird.C18_spacing_irrelevant
#print axioms Blackbird.C18_four_spaces_are_a_tab
#print axioms Blackbird.C18_line_end_is_one_newline
#print axioms Blackbird.C18_line_end_style_irrelevant
#print axioms Blackbird.C18_tab_or_four_spaces_one_tab
#print axioms Blackbird.C18_string_literal_is_one_token
