import Blackbird.Props.C18
import Blackbird.Props.C18Lex
#print axioms Blackbird.C18_layout_irrelevant
#print axioms Blackbird.C18_every_layout_parses
#print axioms Blackbird.C18_loaded_program_unchanged
#print axioms Blackbird.C18_final_newline_irrelevant
#print axioms Blackbird.C18_statement_line_ends
#print axioms Blackbird.C18_comment_is_skipped
#print axioms Blackbird.C18_comment_text_irrelevant
#print axioms Blackbird.C18_comment_line_is_blank
