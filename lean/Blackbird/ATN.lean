/-
  Blackbird.ATN — ANTLR 4.9's serialised ATN (format version 3): decoder and language semantics.

  `decode` follows `ATNDeserializer.deserialize`: version, UUID, grammar type, maximum token type,
  states (type, rule, extra field for block starts and loop ends), non-greedy and precedence
  state lists, rule start states (with token types in a lexer), modes, the 16-bit and 32-bit
  interval sets, edges (six numbers each), decisions, lexer actions. All values after the first
  are stored with an offset of 2 modulo 65536.

  Semantics of one rule as a language: configurations are (state, stack of return states); epsilon,
  action, predicate and precedence edges consume nothing; a rule edge pushes its follow state and
  enters the called rule; the stop state of a called rule pops; the rule's own stop state with an
  empty stack accepts. This is what `LexerATNSimulator` / `ParserATNSimulator` explore (without
  predicates); it is the specification the theorems of `GenProps/C14ATN.lean` are about.
-/
import Blackbird.Lexer

namespace Blackbird.ATN

structure AState where
  stype : Nat
  rule : Nat
  deriving Repr, DecidableEq, Inhabited

structure AEdge where
  src : Nat
  trg : Nat
  ttype : Nat
  a1 : Nat
  a2 : Nat
  a3 : Nat
  /-- rule of the source state (not serialised: filled in after decoding, so that later passes need
  not look states up) -/
  srule : Nat
  deriving Repr, DecidableEq, Inhabited

structure Raw where
  grammarType : Nat
  maxTok : Nat
  states : List AState
  ruleStart : List Nat
  ruleTok : List Nat
  modes : List Nat
  sets : List (List (Nat × Nat))
  edges : List AEdge
  decisions : List Nat
  rest : List Nat
  deriving Repr, Inhabited, DecidableEq

/-- undo the serialiser's offset -/
def unshift (v : Nat) : Nat := (v + 65536 - 2) % 65536

abbrev P := StateT (List Nat) Option

def next : P Nat := fun s => match s with
  | [] => none
  | x :: xs => some (x, xs)

def times {α : Type} : Nat → P α → P (List α)
  | 0, _ => pure []
  | n + 1, p => do
    let x ← p
    let xs ← times n p
    pure (x :: xs)

def pState : P AState := do
  let ty ← next
  if ty = 0 then pure ⟨0, 65535⟩ else
  let rule ← next
  -- LOOP_END (12) carries its loop-back state, block starts (3, 4, 5) their end state
  if ty = 12 || ty = 3 || ty = 4 || ty = 5 then
    let _ ← next
    pure ⟨ty, rule⟩
  else pure ⟨ty, rule⟩

def pSet16 : P (List (Nat × Nat)) := do
  let n ← next
  let _eof ← next
  times n (do let a ← next; let b ← next; pure (a, b))

def pSet32 : P (List (Nat × Nat)) := do
  let n ← next
  let _eof ← next
  times n (do
    let a0 ← next; let a1 ← next; let b0 ← next; let b1 ← next
    pure (a0 + 65536 * a1, b0 + 65536 * b1))

def pEdge : P AEdge := do
  let s ← next; let t ← next; let ty ← next; let a1 ← next; let a2 ← next; let a3 ← next
  pure ⟨s, t, ty, a1, a2, a3, 0⟩

def pRaw : P Raw := do
  let _uuid ← times 8 next
  let gt ← next
  let mt ← next
  let ns ← next
  let states ← times ns pState
  let nng ← next
  let _ ← times nng next
  let npr ← next
  let _ ← times npr next
  let nr ← next
  let rules ← times nr (do
    let s ← next
    if gt = 0 then
      let t ← next
      pure (s, t)
    else pure (s, 0))
  let nm ← next
  let modes ← times nm next
  let n16 ← next
  let s16 ← times n16 pSet16
  let n32 ← next
  let s32 ← times n32 pSet32
  let ne ← next
  let edges ← times ne pEdge
  let nd ← next
  let decisions ← times nd next
  let rest ← get
  let edges := edges.map fun e => { e with srule := (states.getD e.src ⟨0, 0⟩).rule }
  pure ⟨gt, mt, states, rules.map (·.1), rules.map (·.2), modes, s16 ++ s32, edges, decisions, rest⟩

/-- decode a serialised ATN as it stands in the generated files (first value = version 3) -/
def decode (data : List Nat) : Option Raw :=
  match data with
  | 3 :: rest => (pRaw.run (rest.map unshift)).map (·.1)
  | _ => none

end Blackbird.ATN
