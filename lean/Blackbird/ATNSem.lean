/-
  Blackbird.ATNSem — the language of one rule of a decoded ATN, and a checkable certificate that
  it equals the language of a regular expression (a bisimulation between Brzozowski derivatives and
  configuration sets, closed under one representative code point per character class).
-/
import Blackbird.ATN

namespace Blackbird.ATN
open Blackbird

/-- what an edge consumes -/
inductive Lab
  | eps
  | set (rs : List (Nat × Nat))
  | nset (rs : List (Nat × Nat))
  | call (start : Nat)
  deriving DecidableEq, Repr

/-- EPSILON 1, RANGE 2, RULE 3, PREDICATE 4, ATOM 5, ACTION 6, SET 7, NOT_SET 8, WILDCARD 9,
PRECEDENCE 10; predicates, actions and precedence tests consume nothing -/
def edgeLab (A : Raw) (e : AEdge) : Lab :=
  if e.ttype = 2 then .set [(e.a1, e.a2)]
  else if e.ttype = 3 then .call e.a1
  else if e.ttype = 5 then .set [(e.a1, e.a1)]
  else if e.ttype = 7 then .set (A.sets.getD e.a1 [])
  else if e.ttype = 8 then .nset (A.sets.getD e.a1 [])
  else if e.ttype = 9 then .nset []
  else .eps

def Lab.atoms : Lab → List (List (Nat × Nat))
  | .set rs => [rs]
  | .nset rs => [rs]
  | _ => []

/-- state `s` is a rule stop state (type 7) -/
def isStop (A : Raw) (s : Nat) : Bool := (A.states.getD s ⟨0, 0⟩).stype = 7

/-- the stop state of rule `r` -/
def stopOf (A : Raw) (r : Nat) : Nat :=
  (A.states.findIdx? fun s => s.stype = 7 && s.rule = r).getD 0

/-- rules called (transitively, up to the nesting depth given) from the rules in `rs` -/
def calledRules (A : Raw) : Nat → List Nat → List Nat
  | 0, rs => rs
  | d + 1, rs =>
    let more := A.edges.filterMap fun e =>
      if e.ttype = 3 && rs.contains e.srule then some e.a2 else none
    calledRules A d (rs ++ more).eraseDups

structure SEdge where
  src : Nat
  lab : Lab
  trg : Nat
  deriving DecidableEq, Repr

/-- the sub-automaton of one rule: the edges leaving a state of the rule or of a rule it calls
(labels resolved), the stop states of those rules, the rule's start and stop state -/
structure Sub where
  edges : List SEdge
  stops : List Nat
  start : Nat
  stop : Nat
  deriving DecidableEq, Repr, Inhabited

def mkSub (A : Raw) (r : Nat) : Sub :=
  let rs := calledRules A 8 [r]
  { edges := A.edges.filterMap fun e =>
      if rs.contains e.srule then some ⟨e.src, edgeLab A e, e.trg⟩ else none
    stops := rs.map (stopOf A)
    start := A.ruleStart.getD r 0
    stop := stopOf A r }

/-- a parser rule's own automaton, over the alphabet "token types, EOF = 0, rule reference = 1000 + rule
index": a RULE edge consumes the symbol of the rule it calls and continues at its follow state -/
def edgeLabP (A : Raw) (e : AEdge) : Lab :=
  if e.ttype = 3 then .set [(1000 + e.a2, 1000 + e.a2)]
  else if e.ttype = 5 then (if e.a3 = 0 then .set [(e.a1, e.a1)] else .set [(0, 0)])
  else if e.ttype = 2 then .set [(e.a1, e.a2)]
  else if e.ttype = 7 then .set (A.sets.getD e.a1 [])
  else if e.ttype = 8 then .nset (A.sets.getD e.a1 [])
  else if e.ttype = 9 then .nset []
  else .eps

def mkSubP (A : Raw) (r : Nat) : Sub :=
  { edges := A.edges.filterMap fun e =>
      if e.srule = r then some ⟨e.src, edgeLabP A e, e.trg⟩ else none
    stops := [stopOf A r]
    start := A.ruleStart.getD r 0
    stop := stopOf A r }

/-- a configuration: a state and the stack of states to return to -/
abbrev Cfg := Nat × List Nat

/-- moves that consume nothing: epsilon-like edges, entering a called rule (the follow state is
pushed), returning from a called rule (the stack is popped) -/
def epsSucc (M : Sub) (c : Cfg) : List Cfg :=
  (M.edges.filterMap fun e =>
    if e.src = c.1 then
      match e.lab with
      | .eps => some (e.trg, c.2)
      | .call st => some (st, e.trg :: c.2)
      | _ => none
    else none) ++
  (if M.stops.contains c.1 then
    match c.2 with
    | f :: rest => [(f, rest)]
    | [] => []
   else [])

def closureGo (M : Sub) : Nat → List Cfg → List Cfg → List Cfg
  | 0, _, seen => seen
  | _ + 1, [], seen => seen
  | fuel + 1, c :: ws, seen =>
    if seen.contains c then closureGo M fuel ws seen
    else closureGo M fuel (epsSucc M c ++ ws) (seen ++ [c])

/-- everything reachable without consuming input -/
def closure (M : Sub) (S : List Cfg) : List Cfg := closureGo M 100000 S []

/-- moves that consume the code point `ch` -/
def charSucc (M : Sub) (ch : Nat) (c : Cfg) : List Cfg :=
  M.edges.filterMap fun e =>
    if e.src = c.1 then
      match e.lab with
      | .set rs => if Re.inRanges rs ch then some (e.trg, c.2) else none
      | .nset rs => if Re.inRanges rs ch then none else some (e.trg, c.2)
      | _ => none
    else none

def step (M : Sub) (S : List Cfg) (ch : Nat) : List Cfg := closure M (S.flatMap (charSucc M ch))

def accepting (M : Sub) (S : List Cfg) : Bool := S.any fun c => c.1 = M.stop && c.2.isEmpty

def acceptsFrom (M : Sub) (S : List Cfg) (w : List Nat) : Bool := accepting M (w.foldl (step M) S)

def startSet (M : Sub) : List Cfg := closure M [(M.start, [])]

/-- **language of rule `r`**: the words that lead from its start state to its stop state -/
def ruleAccepts (A : Raw) (r : Nat) (w : List Nat) : Bool :=
  acceptsFrom (mkSub A r) (startSet (mkSub A r)) w

/-- **language of the body of parser rule `r`** over tokens and rule references -/
def ruleBodyAccepts (A : Raw) (r : Nat) (w : List Nat) : Bool :=
  acceptsFrom (mkSubP A r) (startSet (mkSubP A r)) w

/-! ### regular expressions as languages -/

def reMatches (r : Re) (w : List Nat) : Bool := (w.foldl (fun r c => r.deriv c) r).nullable

def reAtoms : Re → List (List (Nat × Nat))
  | .set rs => [rs]
  | .nset rs => [rs]
  | .seq a b => reAtoms a ++ reAtoms b
  | .alt a b => reAtoms a ++ reAtoms b
  | .star a => reAtoms a
  | _ => []

/-! ### the certificate -/

/-- which atomic sets contain a code point -/
def sig (G : List (List (Nat × Nat))) (c : Nat) : List Bool := G.map fun rs => Re.inRanges rs c

/-- candidates: 0 and both sides of every range boundary -/
def boundaries (G : List (List (Nat × Nat))) : List Nat :=
  0 :: G.flatMap fun rs => rs.flatMap fun p => [p.1, p.2 + 1]

/-- keep the first candidate of every signature -/
def dedupSig (G : List (List (Nat × Nat))) : List Nat → List Nat → List Nat
  | [], acc => acc.reverse
  | b :: bs, acc => if acc.any (fun a => sig G a == sig G b) then dedupSig G bs acc else dedupSig G bs (b :: acc)

/-- one representative code point per character class -/
def repsOf (G : List (List (Nat × Nat))) : List Nat := dedupSig G (boundaries G) []

abbrev Pair := Re × List Cfg

def pairOK (M : Sub) (G : List (List (Nat × Nat))) (reps : List Nat) (V : List Pair) (p : Pair) : Bool :=
  (p.1.nullable == accepting M p.2) &&
  (reAtoms p.1).all (G.contains ·) &&
  reps.all fun c => V.contains (p.1.deriv c, step M p.2 c)

/-- `V` is a bisimulation: nullable agrees with accepting, every atom is known, and `V` is closed
under the moves on every representative -/
def closedOK (M : Sub) (G : List (List (Nat × Nat))) (V : List Pair) : Bool :=
  M.edges.all (fun e => e.lab.atoms.all (G.contains ·)) && V.all (pairOK M G (repsOf G) V)

/-- exploration from a start pair (fuel-bounded; its result is only a candidate, `closedOK` decides) -/
def explore (M : Sub) (reps : List Nat) : Nat → List Pair → List Pair → List Pair
  | 0, _, seen => seen
  | _ + 1, [], seen => seen
  | fuel + 1, p :: ws, seen =>
    if seen.contains p then explore M reps fuel ws seen
    else explore M reps fuel (reps.map (fun c => (p.1.deriv c, step M p.2 c)) ++ ws) (seen ++ [p])

/-- all atoms of a rule's sub-automaton and of a regular expression -/
def atomsOf (M : Sub) (re : Re) : List (List (Nat × Nat)) :=
  (reAtoms re ++ M.edges.flatMap fun e => e.lab.atoms).eraseDups

/-- a certificate for one rule -/
structure Cert where
  G : List (List (Nat × Nat))
  V : List Pair
  deriving Repr, Inhabited

def mkCert (M : Sub) (re : Re) : Cert :=
  let G := atomsOf M re
  ⟨G, explore M (repsOf G) 5000 [(re, startSet M)] []⟩

/-- the check for one rule: the certificate contains the start pair and is a bisimulation -/
def certOK (M : Sub) (re : Re) (c : Cert) : Bool :=
  c.V.contains (re, startSet M) && closedOK M c.G c.V

end Blackbird.ATN
