/-
  Blackbird.ArrayInsert — the mechanism by which `exitArrayvar` puts template parameters back
  among the values of an array: values and parameters are collected in two lists, each parameter
  with the position it was written at, and re-inserted one after the other with `np.insert`.
-/
namespace Blackbird

/-- `np.insert(arr, pos, x)` on a flat list -/
def insertAt {α : Type} (l : List α) (pos : Nat) (x : α) : List α := l.take pos ++ x :: l.drop pos

/-- the values among the written elements (`Sum.inl` = value, `Sum.inr` = bare parameter) -/
def valuesOf {V P : Type} : List (V ⊕ P) → List V
  | [] => []
  | .inl v :: t => v :: valuesOf t
  | .inr _ :: t => valuesOf t

/-- positions recorded for the parameters (repaired): the index among ALL elements written so far,
`len(value) + len(parameters)`; `i` is the number of elements already seen -/
def recorded {V P : Type} : List (V ⊕ P) → Nat → List (Nat × P)
  | [], _ => []
  | .inl _ :: t, i => recorded t (i + 1)
  | .inr p :: t, i => (i, p) :: recorded t (i + 1)

/-- re-insertion in the order the parameters were written -/
def reinsert {V P : Type} (vals : List V) (ps : List (Nat × P)) : List (V ⊕ P) :=
  ps.foldl (fun acc ip => insertAt acc ip.1 (.inr ip.2)) (vals.map .inl)

/-- positions recorded before the repair: the number of VALUES seen so far -/
def recordedLegacy {V P : Type} : List (V ⊕ P) → Nat → List (Nat × P)
  | [], _ => []
  | .inl _ :: t, nvals => recordedLegacy t (nvals + 1)
  | .inr p :: t, nvals => (nvals, p) :: recordedLegacy t nvals

end Blackbird
