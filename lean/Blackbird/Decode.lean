/-
  Blackbird.Decode — reading programs and values from the line protocol (driver I/O; trusted).
  Inverse of `Blackbird.Encode` for the value language.
-/
import Blackbird.Encode
import Blackbird.Program
import Blackbird.Match

namespace Blackbird

inductive SX
  | atom (s : String)
  | list (xs : List SX)
  deriving Repr, Inhabited

def sxTokens (s : String) : List String :=
  ((s.replace "(" " ( ").replace ")" " ) ").splitOn " " |>.filter (· ≠ "")

/-- parse a sequence of S-expressions up to a closing parenthesis or the end -/
def sxParseList : Nat → List String → List SX → Option (List SX × List String)
  | 0, _, _ => none
  | _, [], acc => some (acc.reverse, [])
  | n + 1, t :: ts, acc =>
    if t = ")" then some (acc.reverse, ts)
    else if t = "(" then
      match sxParseList n ts [] with
      | some (xs, rest) => sxParseList n rest (SX.list xs :: acc)
      | none => none
    else sxParseList n ts (SX.atom t :: acc)

def sxParse (s : String) : Option SX :=
  let toks := sxTokens s
  match sxParseList (toks.length + 1) toks [] with
  | some ([x], []) => some x
  | _ => none

def unhex64 (s : String) : Option UInt64 :=
  s.toList.foldlM (fun (acc : Nat) c => (hexVal c).map fun v => 16 * acc + v) 0 |>.map Nat.toUInt64

def decFloat (s : String) : Option Float := (unhex64 s).map Float.ofBits

def decNum : SX → Option (Num Float)
  | .list [.atom "i", .atom n] => n.toInt?.map .int
  | .list [.atom "f", .atom b] => (decFloat b).map .real
  | .list [.atom "c", .atom a, .atom b] => do some (.cplx (← decFloat a) (← decFloat b))
  | _ => none

partial def decS : SX → Option (SExpr Float)
  | .list [.atom "par", .atom p] => (unhexStr p).map .par
  | .list [.atom "reg", .atom r] => (unhexStr r).map .reg
  | .list [.atom "neg", a] => (decS a).map .neg
  | .list [.atom "add", a, b] => do some (.add (← decS a) (← decS b))
  | .list [.atom "mul", a, b] => do some (.mul (← decS a) (← decS b))
  | .list [.atom "pow", a, b] => do some (.pow (← decS a) (← decS b))
  | x => (decNum x).map .num

def decAtom : SX → Option (Atom Float)
  | .list [.atom "b", .atom t] => some (.bool (t = "T"))
  | .list [.atom "s", .atom h] => (unhexStr h).map .str
  | .list [.atom "pn", .atom h] => (unhexStr h).map .pname
  | .list [.atom "sym", e] => (decS e).map .sym
  | x => (decNum x).map .num

def decDType : String → Option DType
  | "int" => some .int | "float" => some .float | "complex" => some .complex
  | "object" => some .object | _ => none

def decVal : SX → Option (Val Float)
  | .list (.atom "arr" :: .atom dt :: .atom r :: .atom c :: elems) => do
    some (.arr (← decDType dt) (← r.toNat?) (← c.toNat?) (← elems.mapM decS))
  | .list (.atom "list" :: elems) => (elems.mapM decAtom).map .list
  | .list [.atom "rrt", e] => (decS e).map .rrt
  | x => (decAtom x).map .atom

def decKw : SX → Option (List (String × Val Float))
  | .list (.atom "kw" :: entries) =>
    entries.mapM fun e => match e with
      | .list [.atom k, v] => do some (← unhexStr k, ← decVal v)
      | _ => none
  | _ => none

def decInts (xs : List SX) : Option (List Int) :=
  xs.mapM fun x => match x with
    | .atom s => s.toInt?
    | _ => none

def decOp : SX → Option (Op Float)
  | .list [.atom "op", .atom name, args, .list (.atom "modes" :: ms)] => do
    let a ← match args with
      | .list [.atom "noargs"] => some none
      | .list [.atom "args", .list (.atom "pos" :: pos), kw] => do
        some (some (← pos.mapM decVal, ← decKw kw))
      | _ => none
    some ⟨← unhexStr name, a, ← decInts ms⟩
  | _ => none

def decMeta : SX → Option (Option String × List (String × Val Float))
  | .list [.atom n, kw] => do
    let name ← if n = "none" then some none else (unhexStr n).map some
    some (name, ← decKw kw)
  | _ => none

def decProgram : SX → Option (Program Float)
  | .list [.atom "prog", .atom name, .atom ver, tgt, typ, .list (.atom "ops" :: ops), vars,
           .list (.atom "params" :: ps), .list (.atom "modes" :: ms)] => do
    let params ← ps.mapM fun x => match x with
      | .atom h => unhexStr h
      | _ => none
    some ⟨← unhexStr name, ← unhexStr ver, ← decMeta tgt, ← decMeta typ, ← ops.mapM decOp,
          ← decKw vars, params, ← decInts ms⟩
  | _ => none

/-! ### encoding of serialiser output and graphs -/

def encFrag : Frag Float → String
  | .txt s => s!"(t {hexStr s})"
  | .int i => s!"(i {i})"
  | .flt x => s!"(f {encFloat x})"
  | .cplx a b => s!"(c {encFloat a} {encFloat b})"
  | .pycplx a b => s!"(pc {encFloat a} {encFloat b})"
  | .sym e => s!"(sym {encS e})"
  | .rrt e => s!"(rrt {encS e})"

def encLines (ls : List (Line Float)) : String :=
  "(lines " ++ " ".intercalate (ls.map fun l => "(line " ++ " ".intercalate (l.map encFrag) ++ ")") ++ ")"

def sortPairs (l : List (Nat × Nat)) : List (Nat × Nat) :=
  l.mergeSort fun a b => a.1 < b.1 || (a.1 = b.1 && a.2 ≤ b.2)

def dedupPairs : List (Nat × Nat) → List (Nat × Nat)
  | [] => []
  | x :: xs => if xs.contains x then dedupPairs xs else x :: dedupPairs xs

def encGraph (g : DiGraph Float) : String :=
  let nodes := g.nodes.map fun n => s!"(node {n.1} {encOp n.2})"
  let edges := (sortPairs (dedupPairs g.edges)).map fun e => s!"(e {e.1} {e.2})"
  s!"(graph (nodes {" ".intercalate nodes}) (edges {" ".intercalate edges}))"

end Blackbird
