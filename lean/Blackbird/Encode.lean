/-
  Blackbird.Encode — line-protocol encoding of the model's results (driver I/O; trusted).
  Strings travel as lower-case hex of their UTF-8 bytes, floats as their IEEE bit patterns.
-/
import Blackbird.Listener
import Blackbird.FloatScalar

namespace Blackbird

def hexDigit (n : Nat) : Char :=
  if n < 10 then Char.ofNat (48 + n) else Char.ofNat (87 + n)

def hexOfBytes (b : ByteArray) : String :=
  String.ofList (b.toList.flatMap fun x => [hexDigit (x.toNat / 16), hexDigit (x.toNat % 16)])

def hexStr (s : String) : String :=
  let h := hexOfBytes s.toUTF8
  if h = "" then "-" else h

def hexVal (c : Char) : Option Nat :=
  if '0' ≤ c && c ≤ '9' then some (c.toNat - 48)
  else if 'a' ≤ c && c ≤ 'f' then some (c.toNat - 87)
  else if 'A' ≤ c && c ≤ 'F' then some (c.toNat - 55)
  else none

def unhexBytes : List Char → ByteArray → Option ByteArray
  | [], acc => some acc
  | [_], _ => none
  | a :: b :: rest, acc =>
    match hexVal a, hexVal b with
    | some x, some y => unhexBytes rest (acc.push (UInt8.ofNat (16 * x + y)))
    | _, _ => none

def unhexStr (s : String) : Option String :=
  if s = "-" then some "" else
  match unhexBytes s.toList ByteArray.empty with
  | some b => String.fromUTF8? b
  | none => none

def hex64 (x : UInt64) : String :=
  let ds := Nat.toDigits 16 x.toNat
  String.ofList (List.replicate (16 - ds.length) '0' ++ ds)

def encFloat (x : Float) : String := hex64 x.toBits

def encNum : Num Float → String
  | .int i => s!"(i {i})"
  | .real x => s!"(f {encFloat x})"
  | .cplx a b => s!"(c {encFloat a} {encFloat b})"

def encS : SExpr Float → String
  | .num n => encNum n
  | .par p => s!"(par {hexStr p})"
  | .reg r => s!"(reg {hexStr r})"
  | .neg a => s!"(neg {encS a})"
  | .add a b => s!"(add {encS a} {encS b})"
  | .mul a b => s!"(mul {encS a} {encS b})"
  | .pow a b => s!"(pow {encS a} {encS b})"

def encAtom : Atom Float → String
  | .num n => encNum n
  | .bool b => if b then "(b T)" else "(b F)"
  | .str s => s!"(s {hexStr s})"
  | .sym e => s!"(sym {encS e})"
  | .pname s => s!"(pn {hexStr s})"

def encDType : DType → String
  | .int => "int" | .float => "float" | .complex => "complex" | .object => "object"

def encVal : Val Float → String
  | .atom a => encAtom a
  | .arr dt r c flat => s!"(arr {encDType dt} {r} {c} {" ".intercalate (flat.map encS)})"
  | .list vs => s!"(list {" ".intercalate (vs.map encAtom)})"
  | .rrt e => s!"(rrt {encS e})"

def encKw (kw : List (String × Val Float)) : String :=
  "(kw " ++ " ".intercalate (kw.map fun kv => s!"({hexStr kv.1} {encVal kv.2})") ++ ")"

def encOp (o : Op Float) : String :=
  let a := match o.args with
    | none => "(noargs)"
    | some (pos, kw) => s!"(args (pos {" ".intercalate (pos.map encVal)}) {encKw kw})"
  s!"(op {hexStr o.name} {a} (modes {" ".intercalate (o.modes.map toString)}))"

def encMetaOpt (m : Option String × List (String × Val Float)) : String :=
  match m.1 with
  | none => s!"(none {encKw m.2})"
  | some n => s!"({hexStr n} {encKw m.2})"

def encProgram (p : Program Float) : String :=
  s!"(prog {hexStr p.name} {hexStr p.version} {encMetaOpt p.target} {encMetaOpt p.ptype} " ++
  s!"(ops {" ".intercalate (p.ops.map encOp)}) {encKw p.vars} " ++
  s!"(params {" ".intercalate (p.params.map hexStr)}) " ++
  s!"(modes {" ".intercalate (p.modes.map toString)}))"

def encSynKind : SynKind → String
  | .grammar => "grammar" | .undefined => "undefined" | .reservedRegref => "reservedRegref"
  | .reservedKeyword => "reservedKeyword" | .arrayType => "arrayType" | .noShape => "noShape"
  | .shapeMismatch => "shapeMismatch" | .ragged => "ragged"

def encErr : Err → String
  | .syntax k ident pos => s!"(err syntax {encSynKind k} {hexStr ident} {pos.line} {pos.col})"
  | .type => "(err type)" | .value => "(err value)" | .index => "(err index)"
  | .key => "(err key)" | .attribute => "(err attribute)" | .template => "(err template)"
  | .file => "(err file)"
  | .ood why => s!"(ood {hexStr why})"

def encTok (t : Tok) : String :=
  s!"{t.kind.name}:{hexStr t.text}:{t.pos.line}:{t.pos.col}"

end Blackbird
