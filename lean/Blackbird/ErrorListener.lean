/-
  Blackbird.ErrorListener — the decision tree of `BlackbirdErrorListener.syntaxError`
  (`error.py:84-190`) over an abstract record of what the listener looks at: the class of the
  context it is handed, which children that context has, the classes of its ancestors, the text of
  the offending symbol and three facts about ANTLR's message. Calling a method on an absent child
  is an AttributeError in Python, reading an unbound local an UnboundLocalError; both are outcomes
  of the model, so that "always BlackbirdSyntaxError" is a theorem with an explicit hypothesis on
  the context (`CtxInv`), which the harness validates on every real call.
-/
namespace Blackbird

inductive CtxClass | start | metadatablock | expressionvar | arrayvar | statement | other
  deriving DecidableEq, Repr, Inhabited

/-- children the listener dereferences -/
structure CtxNode where
  cls : CtxClass
  hasName : Bool := false
  hasVartype : Bool := false
  hasAssign : Bool := false
  hasOperation : Bool := false
  hasMeasure : Bool := false
  deriving DecidableEq, Repr, Inhabited

structure ErrInput where
  ctx : CtxNode
  ancestors : List CtxNode          -- parent, grandparent, …
  symbolInvalid : Bool              -- offendingSymbol.text ∈ {";", "[", "]", "\\", "$", "@", "&", "%", "~", "`", "?"}
  symbolIsNewline : Bool            -- offendingSymbol.text == "\n"
  msgExpectingNewline : Bool        -- "expecting NEWLINE" in msg
  msgMissingModes : Bool            -- msg == "mismatched input '\\n' expecting {INT, '(', '['}"
  msgExpectingCloser : Bool         -- "expecting {NEWLINE, ')', ']'}" in msg
  msgExpectingName : Bool           -- "expecting {NEWLINE, 'name'}" in msg
  msgExpectingVersion : Bool        -- "expecting {NEWLINE, 'version'}" in msg
  line : Nat
  column : Nat
  deriving Repr, Inhabited

inductive ErrMsg
  | invalidSymbol | missingAssignment | incompleteValue | invalidInVariable | arrayNeedsNewline
  | invalidInArray | missingModes | modesNotSeparated | missingName | missingVersion | generic
  deriving DecidableEq, Repr, Inhabited

inductive ErrOutcome
  | syntaxErr (line col : Nat) (msg : ErrMsg)      -- BlackbirdSyntaxError "(line L:C)"
  | attributeError
  | unboundLocal
  deriving DecidableEq, Repr, Inhabited

/-- the first ancestor that is an array declaration decides (the `while parent_ctx` walk) -/
def walkAncestors (line col : Nat) : List CtxNode → Option ErrOutcome
  | [] => none
  | a :: rest =>
    if a.cls = .arrayvar then
      if a.hasVartype && a.hasName then some (.syntaxErr line col .invalidInArray) else some .attributeError
    else walkAncestors line col rest

def syntaxError (i : ErrInput) : ErrOutcome :=
  let col := i.column + 1
  if i.symbolInvalid then .syntaxErr i.line col .invalidSymbol
  else
    -- ExpressionvarContext
    let r1 : Option ErrOutcome :=
      if i.ctx.cls = .expressionvar then
        if !(i.ctx.hasName && i.ctx.hasVartype) then some .attributeError
        else if !i.ctx.hasAssign then some (.syntaxErr i.line col .missingAssignment)
        else if i.symbolIsNewline then some (.syntaxErr i.line col .incompleteValue)
        else some (.syntaxErr i.line col .invalidInVariable)
      else none
    match r1 with
    | some o => o
    | none =>
      -- ArrayvarContext
      let r2 : Option ErrOutcome :=
        if i.ctx.cls = .arrayvar then
          if !i.ctx.hasName then some .attributeError
          else if i.msgExpectingNewline then some (.syntaxErr i.line col .arrayNeedsNewline)
          else none
        else none
      match r2 with
      | some o => o
      | none =>
        match walkAncestors i.line col i.ancestors with
        | some o => o
        | none =>
          let r3 : Option ErrOutcome :=
            if i.ctx.cls = .statement then
              if i.msgMissingModes then
                (if i.ctx.hasOperation || i.ctx.hasMeasure then some (.syntaxErr i.line col .missingModes)
                 else some .unboundLocal)
              else if i.msgExpectingCloser then some (.syntaxErr i.line col .modesNotSeparated)
              else none
            else none
          match r3 with
          | some o => o
          | none =>
            if i.ctx.cls = .start && i.msgExpectingName then .syntaxErr i.line col .missingName
            else if i.ctx.cls = .metadatablock && i.msgExpectingVersion then .syntaxErr i.line col .missingVersion
            else .syntaxErr i.line col .generic

/-- what is true of the contexts ANTLR hands to the listener (validated on every real call):
a variable-declaration context has its type and name children (the rule is only entered once the
prediction has seen them); a statement context may still be empty (an error at the first token
of a loop-body statement), but ANTLR's "missing modes" message arises only after `|`, when the
operation or measure child exists -/
def nodeInv (c : CtxNode) : Bool :=
  match c.cls with
  | .expressionvar => c.hasName && c.hasVartype
  | .arrayvar => c.hasName && c.hasVartype
  | _ => true

def CtxInv (i : ErrInput) : Bool :=
  nodeInv i.ctx && i.ancestors.all nodeInv &&
  (!(i.ctx.cls = .statement && i.msgMissingModes) || i.ctx.hasOperation || i.ctx.hasMeasure)

end Blackbird
