/-
  Blackbird.Eval — mirror of `auxiliary.py`: `_number`, `_literal`, `_func`, `_expression`,
  `_get_arguments`, evaluated against the process-wide tables `_VAR` / `_PARAMS`.
-/
import Blackbird.Value

namespace Blackbird

/-- entries of `_PARAMS`: SymPy symbols of template parameters, and (tdm) p-array names -/
inductive PEntry
  | sym (p : String)
  | pname (s : String)
  deriving DecidableEq, Repr, Inhabited

structure Tables (K : Type) where
  vars : List (String × Val K)
  params : List PEntry
  deriving Inhabited

def Tables.empty {K} : Tables K := ⟨[], []⟩

/-- decimal digits to a natural number (`int(text)` for an INT token) -/
def digitsToNat (s : String) : Nat :=
  s.toList.foldl (fun n c => 10 * n + (c.toNat - 48)) 0

/-- split the text of a COMPLEX token into real-part text (possibly empty) and signed
imaginary-part text without the trailing j -/
def splitComplex (s : String) : String × String :=
  let cs := s.toList.dropLast         -- drop j / J
  -- position of the last sign that is not at index 0 and not an exponent sign
  let rec go (i : Nat) (prev : Char) (rest : List Char) (best : Option Nat) : Option Nat :=
    match rest with
    | [] => best
    | c :: r =>
      let best' := if (c = '+' || c = '-') && i ≠ 0 && prev ≠ 'e' && prev ≠ 'E' then some i else best
      go (i + 1) c r best'
  match go 0 ' ' cs none with
  | some i => (String.ofList (cs.take i), String.ofList (cs.drop i))
  | none => ("", String.ofList cs)

variable {K : Type} [Scalar K]

def evalNumber (k : NumKind) (text : String) : Num K :=
  match k with
  | .int => .int (digitsToNat text)
  | .float => .real (Scalar.ofDecimal text)
  | .complex =>
    let (re, im) := splitComplex text
    .cplx (if re = "" then Scalar.ofInt 0 else Scalar.ofDecimal re) (Scalar.ofDecimal im)
  | .pi => .real Scalar.pi

/-- lift a numeric operation to atoms: symbolic operands build the written tree -/
def liftBin (opN : Num K → Num K → Except Err (Num K)) (opS : SExpr K → SExpr K → SExpr K)
    (a b : Val K) : Except Err (Val K) :=
  match a, b with
  | .atom (.num x), .atom (.num y) => (fun r => .atom (.num r)) <$> opN x y
  | .atom (.sym x), .atom (.num y) => .ok (.atom (.sym (opS x (.num y))))
  | .atom (.num x), .atom (.sym y) => .ok (.atom (.sym (opS (.num x) y)))
  | .atom (.sym x), .atom (.sym y) => .ok (.atom (.sym (opS x y)))
  | _, _ => .error (.ood "arithmetic on a non-scalar or non-numeric value")

def negVal : Val K → Except Err (Val K)
  | .atom (.num x) => .ok (.atom (.num x.neg))
  | .atom (.sym x) => .ok (.atom (.sym (.neg x)))
  | _ => .error (.ood "negation of a non-numeric value")

/-- divisor preparation: `if isinstance(b, int): b = float(b)` then `np.power(b, -1)` -/
def recipVal : Val K → Except Err (Val K)
  | .atom (.num y) => .ok (.atom (.num y.recip))
  | .atom (.sym y) => .ok (.atom (.sym (.pow y (.num (.int (-1))))))
  | _ => .error (.ood "division by a non-numeric value")

/-- element `k` of a flattened array, Python indexing (negative indices wrap) -/
def arrGet (flat : List (SExpr K)) (k : Int) : Except Err (SExpr K) :=
  let n : Int := flat.length
  let j := if k < 0 then k + n else k
  if j < 0 || j ≥ n then .error .index
  else match flat[j.toNat]? with
       | some e => .ok e
       | none => .error .index

def sexprToVal : SExpr K → Val K
  | .num n => .atom (.num n)
  | e => .atom (.sym e)

/-- `_expression` -/
def evalExpr (T : Tables K) : Expr → Except Err (Val K)
  | .num k text => .ok (.atom (.num (evalNumber k text)))
  | .reg text => .ok (.atom (.sym (.reg text)))
  | .var x pos =>
    match dictGet T.vars x with
    | none => .error (.syntax .undefined x pos)
    | some v =>
      if T.params.contains (.pname x) then
        match v with
        | .arr .. => .ok (.atom (.pname x))
        | _ => .error .type
      else .ok v
  | .idx x pos i => do
    -- (repaired) an undefined array name is reported like any other undefined name
    if (dictGet T.vars x).isNone then throw (.syntax .undefined x pos)
    let iv ← evalExpr T i
    match dictGet T.vars x with
    | none => .error .key
    | some (.arr _ _ _ flat) =>
      match iv with
      | .atom (.num (.int k)) => sexprToVal <$> arrGet flat k
      | .atom (.num _) => .error .index
      | _ => .error (.ood "array index is not a number")
    | some _ => .error .attribute
  | .par p => .ok (.atom (.sym (.par p)))
  | .brk e => evalExpr T e
  | .pos e => evalExpr T e
  | .neg e => do negVal (← evalExpr T e)
  | .add a b => do
    let x ← evalExpr T a
    let y ← evalExpr T b
    liftBin (fun p q => .ok (p.add q)) .add x y
  | .sub a b => do
    let x ← evalExpr T a
    let y ← evalExpr T b
    let ny ← negVal y
    liftBin (fun p q => .ok (p.add q)) .add x ny
  | .mul a b => do
    let x ← evalExpr T a
    let y ← evalExpr T b
    liftBin (fun p q => .ok (p.mul q)) .mul x y
  | .div a b => do
    let x ← evalExpr T a
    let y ← evalExpr T b
    let ry ← recipVal y
    liftBin (fun p q => .ok (p.mul q)) .mul x ry
  | .pow a b => do
    let x ← evalExpr T a
    let y ← evalExpr T b
    liftBin Num.pow .pow x y
  | .fn f e => do
    match ← evalExpr T e with
    | .atom (.num x) => (fun r => .atom (.num r)) <$> x.applyFn f
    | .atom (.sym _) => .error .type
    | _ => .error (.ood "function of a non-numeric value")

/-- template parameters an expression appends to `_PARAMS` while it is evaluated -/
def Expr.pars : Expr → List String
  | .num _ _ => []
  | .var _ _ => []
  | .reg _ => []
  | .idx _ _ i => i.pars
  | .par p => [p]
  | .brk e => e.pars
  | .pos e => e.pars
  | .neg e => e.pars
  | .pow a b => a.pars ++ b.pars
  | .mul a b => a.pars ++ b.pars
  | .div a b => a.pars ++ b.pars
  | .add a b => a.pars ++ b.pars
  | .sub a b => a.pars ++ b.pars
  | .fn _ e => e.pars

def ArgVal.pars : ArgVal → List String
  | .expr e => e.pars
  | _ => []

/-- `_literal`: quotes are removed from strings -/
def strLiteral (raw : String) : String :=
  String.ofList (raw.toList.filter (· ≠ '"'))

def evalArgVal (T : Tables K) : ArgVal → Except Err (Val K)
  | .expr e => evalExpr T e
  | .str raw => .ok (.atom (.str (strLiteral raw)))
  | .bool b => .ok (.atom (.bool b))

def valToAtom : Val K → Except Err (Atom K)
  | .atom a => .ok a
  | _ => .error (.ood "array inside a list")

def evalKwVal (T : Tables K) : KwVal → Except Err (Option (Val K))
  | .one v => some <$> evalArgVal T v
  | .list [] => .ok none                       -- `[ ]`: no vallist child, the key is not set
  | .list vs => do
    let xs ← vs.mapM fun v => do valToAtom (← evalArgVal T v)
    .ok (some (.list xs))

def evalKwargs (T : Tables K) : List (String × KwVal) → List (String × Val K) →
    Except Err (List (String × Val K))
  | [], acc => .ok acc
  | (k, v) :: rest, acc => do
    match ← evalKwVal T v with
    | some x => evalKwargs T rest (dictSet acc k x)
    | none => evalKwargs T rest acc

/-- `_get_arguments` -/
def evalArgs (T : Tables K) (a : Args) : Except Err (List (Val K) × List (String × Val K)) := do
  let pos ← a.pos.mapM (evalArgVal T)
  let kw ← evalKwargs T a.kw []
  .ok (pos, kw)

def KwVal.pars : KwVal → List String
  | .one v => v.pars
  | .list vs => vs.flatMap ArgVal.pars

def Args.pars (a : Args) : List String :=
  a.pos.flatMap ArgVal.pars ++ a.kw.flatMap (fun kv => kv.2.pars)

end Blackbird
