/-
  Blackbird.FloatScalar — the executable scalar instance: IEEE-754 binary64.

  Literals are converted with exact natural-number arithmetic and round-half-even, so they are
  correctly rounded like CPython's `float()`. Elementary functions come from C libm. Complex
  power and reciprocal follow the textbook formulas; results are compared with the
  implementation to a relative tolerance, never bit for bit.
-/
import Blackbird.Value

namespace Blackbird

/-- correctly rounded binary64 bits of `num / den` (`den > 0`), round half to even -/
def ratToBits (num den : Nat) : UInt64 :=
  if num = 0 then 0 else
  -- choose e with 2^52 ≤ num / (den * 2^e) < 2^53, by estimate and adjustment
  let est : Int := (Int.ofNat num.log2) - (Int.ofNat den.log2) - 52
  let quot (e : Int) : Nat × Nat × Nat :=       -- (q, r, d) with num/2^e = q*d + r in scaled form
    if e ≥ 0 then
      let d := den * 2 ^ e.toNat
      (num / d, num % d, d)
    else
      let n := num * 2 ^ (-e).toNat
      (n / den, n % den, den)
  let e : Int :=
    let (q, _, _) := quot est
    if q ≥ 2 ^ 53 then est + 1 else if q < 2 ^ 52 then est - 1 else est
  -- subnormal range: fix the exponent at -1074
  let e : Int := if e < -1074 then -1074 else e
  let (q, r, d) := quot e
  let q := if 2 * r > d || (2 * r = d && q % 2 = 1) then q + 1 else q
  let (q, e) := if q ≥ 2 ^ 53 then (q / 2, e + 1) else (q, e)
  if q < 2 ^ 52 then
    -- subnormal (e = -1074)
    q.toUInt64
  else
    let biased : Int := e + 52 + 1023
    if biased ≥ 2047 then 0x7FF0000000000000
    else ((biased.toNat <<< 52) ||| (q - 2 ^ 52)).toUInt64

/-- parse `[+-]? digits ('.' digits)? ([eE] [+-]? digits)?` into sign, mantissa, decimal exponent -/
def parseDecimal (s : String) : Bool × Nat × Int :=
  let cs := s.toList
  let (negv, cs) := match cs with
    | '-' :: r => (true, r)
    | '+' :: r => (false, r)
    | r => (false, r)
  let intPart := cs.takeWhile Char.isDigit
  let rest := cs.dropWhile Char.isDigit
  let (frac, rest) := match rest with
    | '.' :: r => (r.takeWhile Char.isDigit, r.dropWhile Char.isDigit)
    | r => ([], r)
  let ex : Int := match rest with
    | c :: r =>
      if c = 'e' || c = 'E' then
        match r with
        | '-' :: d => - Int.ofNat (d.foldl (fun n c => 10 * n + (c.toNat - 48)) 0)
        | '+' :: d => Int.ofNat (d.foldl (fun n c => 10 * n + (c.toNat - 48)) 0)
        | d => Int.ofNat (d.foldl (fun n c => 10 * n + (c.toNat - 48)) 0)
      else 0
    | [] => 0
  let mant := (intPart ++ frac).foldl (fun n c => 10 * n + (c.toNat - 48)) 0
  (negv, mant, ex - Int.ofNat frac.length)

def decimalToFloat (s : String) : Float :=
  let (negv, mant, ex) := parseDecimal s
  let bits :=
    -- exponents far outside the double range are clamped so the big-number arithmetic stays small
    if ex > 400 then (if mant = 0 then 0 else 0x7FF0000000000000)
    else if ex < -800 then 0
    else if ex ≥ 0 then ratToBits (mant * 10 ^ ex.toNat) 1 else ratToBits mant (10 ^ (-ex).toNat)
  let x := Float.ofBits bits
  if negv then -x else x

def floatTrunc (x : Float) : Option Int :=
  if x.isNaN || x.isInf then none
  else if x.abs < 9.0e18 then some x.toInt64.toInt
  else none

def fcmul (x y : Float × Float) : Float × Float :=
  (x.1 * y.1 - x.2 * y.2, x.1 * y.2 + x.2 * y.1)

/-- complex reciprocal by Smith's method, as NumPy computes it: no intermediate `c² + d²`, which
underflows for |z| below 1e-154 and overflows above 1e154 -/
def fcinv (x : Float × Float) : Float × Float :=
  let c := x.1
  let d := x.2
  if c.abs ≥ d.abs then
    let r := d / c
    let den := c + d * r
    (1.0 / den, -r / den)
  else
    let r := c / d
    let den := c * r + d
    (r / den, -1.0 / den)

def fcpowNat (x : Float × Float) : Nat → Float × Float
  | 0 => (1.0, 0.0)
  | n + 1 =>
    let h := fcpowNat (fcmul x x) ((n + 1) / 2)
    if (n + 1) % 2 = 1 then fcmul x h else h
  decreasing_by omega

def fcpow (a b : Float × Float) : Float × Float :=
  if b.2 == 0.0 && b.1 == b.1.floor && b.1.abs ≤ 100.0 then
    let n := b.1.abs.toUInt64.toNat
    let r := fcpowNat a n
    if b.1 < 0.0 then fcinv r else r
  else if a.1 == 0.0 && a.2 == 0.0 then (0.0, 0.0)
  else
    let lr := Float.log (Float.sqrt (a.1 * a.1 + a.2 * a.2))
    let th := Float.atan2 a.2 a.1
    let w := fcmul b (lr, th)
    let m := Float.exp w.1
    (m * Float.cos w.2, m * Float.sin w.2)

def floatFn : Fn → Float → Float
  | .sin => Float.sin | .cos => Float.cos | .tan => Float.tan
  | .arcsin => Float.asin | .arccos => Float.acos | .arctan => Float.atan
  | .sinh => Float.sinh | .cosh => Float.cosh | .tanh => Float.tanh
  | .arcsinh => Float.asinh | .arccosh => Float.acosh | .arctanh => Float.atanh
  | .sqrt => Float.sqrt | .log => Float.log | .exp => Float.exp

instance : Scalar Float where
  ofInt := Float.ofInt
  ofDecimal := decimalToFloat
  pi := Float.ofBits 0x400921FB54442D18
  add := (· + ·)
  mul := (· * ·)
  neg := fun x => -x
  inv := fun x => Float.pow x (-1.0)
  div := (· / ·)
  pow := Float.pow
  powInt := fun x n => Float.pow x (Float.ofInt n)
  fn := floatFn
  cinv := fcinv
  cpow := fcpow
  cfn := fun _ _ => none
  trunc := floatTrunc
  isZero := fun x => x == 0.0
  beq := fun x y => x == y
  solveEq := fun x y => x == y || (x - y).abs ≤ 1e-9 * (if x.abs > y.abs then x.abs else y.abs)
  finite := fun x => x.isFinite

end Blackbird
