/-
  Blackbird.Grammar — the parser rules of `src/blackbird.g4` as data (rule name, normalised
  right-hand side), a static transcription. `GenProps/C14.lean` proves it equal to what the
  translator reads from the grammar file of the current tree. The model parser
  (`Blackbird.Parser`) is hand-written against these rules; its verdicts are compared with an
  Earley recogniser over the grammar file on every C10 / C14 run.
-/
namespace Blackbird

def grammarParserRules : List (String × String) :=
  [("start", "NEWLINE* metadatablock NEWLINE* program NEWLINE* EOF"),
   ("metadatablock", "declarename NEWLINE+ version (NEWLINE+ target)? (NEWLINE+ declaretype)? (NEWLINE|include_list+=include)*"),
   ("declarename", "PROGNAME programname"),
   ("programname", "NAME"),
   ("version", "VERSION versionnumber"),
   ("versionnumber", "FLOAT"),
   ("target", "TARGET device arguments?"),
   ("device", "(NAME|DEVICE)"),
   ("declaretype", "PROGTYPE programtype arguments?"),
   ("programtype", "NAME"),
   ("include", "INCLUDE STR"),
   ("program", "(NEWLINE|for_list+=forloop|var_list+=expressionvar|array_list+=arrayvar|statement_list+=statement)*"),
   ("expressionvar", "vartype name ASSIGN (expression|nonnumeric)"),
   ("arrayvar", "vartype TYPE_ARRAY name (LSQBRAC shape RSQBRAC)? ASSIGN NEWLINE (arrayval|parameter)"),
   ("name", "(invalid|NAME)"),
   ("invalid", "(REGREF|reserved)"),
   ("reserved", "(PROGNAME|VERSION|TARGET|PROGTYPE)"),
   ("vartype", "(TYPE_ARRAY|TYPE_FLOAT|TYPE_COMPLEX|TYPE_INT|TYPE_STR|TYPE_BOOL)"),
   ("nonnumeric", "(STR|BOOL)"),
   ("shape", "INT (COMMA INT)*"),
   ("arrayval", "(TAB row_list+=arrayrow NEWLINE)*"),
   ("arrayrow", "expression (COMMA expression)*"),
   ("statement", "(operation|measure) arguments? APPLY (LBRAC|LSQBRAC)? arrayrow (RBRAC|RSQBRAC)? NEWLINE*"),
   ("operation", "NAME"),
   ("measure", "MEASURE"),
   ("forloop", "FOR vartype NAME IN (rangeval|(LBRAC|LSQBRAC)? vallist (RBRAC|RSQBRAC)?) (NEWLINE TAB statement_list+=statement)+"),
   ("arguments", "(LBRAC (val_list+=val (COMMA val_list+=val)*)? COMMA? (kwarg_list+=kwarg (COMMA kwarg_list+=kwarg)*)? RBRAC)"),
   ("kwarg", "NAME ASSIGN (val|LSQBRAC vallist? RSQBRAC)"),
   ("val", "(nonnumeric|expression)"),
   ("vallist", "val (COMMA val)*"),
   ("rangeval", "INT COLON INT (COLON INT)?"),
   ("expression", "LBRAC expression RBRAC#BracketsLabel|(PLUS|MINUS) expression#SignLabel|<assoc=right>expression PWR expression#PowerLabel|expression (TIMES|DIVIDE) expression#MulLabel|expression (PLUS|MINUS) expression#AddLabel|function LBRAC expression RBRAC#FunctionLabel|number#NumberLabel|(REGREF|NAME)#VariableLabel|NAME LSQBRAC expression RSQBRAC#ArrayIdxLabel|parameter#ParameterLabel"),
   ("parameter", "LBRACE NAME RBRACE"),
   ("number", "(INT|FLOAT|COMPLEX|PI)"),
   ("function", "SIN|COS|TAN|ARCSIN|ARCCOS|ARCTAN|SINH|COSH|TANH|ARCSINH|ARCCOSH|ARCTANH|SQRT|LOG|EXP")]

def grammarTokenNames : List String :=
  ["PLUS", "MINUS", "TIMES", "DIVIDE", "PWR", "ASSIGN", "FOR", "IN", "INT", "FLOAT", "COMPLEX", "STR", "BOOL", "SEQUENCE", "PI", "NEWLINE", "TAB", "SPACE", "PROGNAME", "VERSION", "TARGET", "PROGTYPE", "INCLUDE", "SQRT", "SIN", "COS", "TAN", "ARCSIN", "ARCCOS", "ARCTAN", "SINH", "COSH", "TANH", "ARCSINH", "ARCCOSH", "ARCTANH", "EXP", "LOG", "PERIOD", "COMMA", "COLON", "QUOTE", "LBRAC", "RBRAC", "LSQBRAC", "RSQBRAC", "LBRACE", "RBRACE", "APPLY", "TYPE_ARRAY", "TYPE_FLOAT", "TYPE_COMPLEX", "TYPE_INT", "TYPE_STR", "TYPE_BOOL", "REGREF", "MEASURE", "NAME", "DEVICE", "COMMENT", "ANY"]

end Blackbird
