/-
  Blackbird.Graph — mirror of `utils.to_DiGraph` (as repaired: it does not touch the program).

  For every operation the set of wires it depends on is its modes plus the registers listed by
  its register-transform arguments; `grid[q]` lists, in program order, the operations that
  depend on wire `q`; the graph has the first operation of every wire as a node and an edge
  between consecutive operations of every wire.
-/
import Blackbird.Listener

namespace Blackbird

variable {K : Type}

/-- register number of a register symbol: `int(str(sym)[1:])` -/
def regNum (text : String) : Int := Int.ofNat (digitsToNat (String.ofList (text.toList.drop 1)))

def dedupI : List Int → List Int
  | [] => []
  | x :: xs => if xs.contains x then dedupI xs else x :: dedupI xs

def valRegs : Val K → List Int
  | .rrt e => e.regs.map regNum
  | _ => []

/-- the `dependencies` set of one operation -/
def opWires (op : Op K) : List Int :=
  let regs := match op.args with
    | none => []
    | some (pos, kw) => pos.flatMap valRegs ++ kw.flatMap (fun kv => valRegs kv.2)
  dedupI (op.modes ++ regs)

/-- indices (in program order) of the operations on wire `q`: `grid[q]` -/
def wireOps (ws : List (List Int)) (q : Int) : List Nat :=
  (List.range ws.length).filter fun i => (ws.getD i []).contains q

def consecutive : List Nat → List (Nat × Nat)
  | a :: b :: rest => (a, b) :: consecutive (b :: rest)
  | _ => []

def allWires (ws : List (List Int)) : List Int := dedupI (ws.flatMap id)

/-- edges of the dependency graph (with repeats when two operations share several wires) -/
def graphEdges (ws : List (List Int)) : List (Nat × Nat) :=
  (allWires ws).flatMap fun q => consecutive (wireOps ws q)

/-- nodes of the dependency graph: the operations that depend on at least one wire -/
def graphNodes (ws : List (List Int)) : List Nat :=
  (List.range ws.length).filter fun i => !(ws.getD i []).isEmpty

structure DiGraph (K : Type) where
  nodes : List (Nat × Op K)        -- index and attributes (name, args, kwargs, modes)
  edges : List (Nat × Nat)

/-- `to_DiGraph(program)`; the program is returned unchanged next to the graph, making
"read-only" a statement about this function (C13) -/
def toDiGraph (p : Program K) : DiGraph K × Program K :=
  let ws := p.ops.map opWires
  let nodes := (graphNodes ws).filterMap fun i => (p.ops[i]?).map fun o => (i, o)
  (⟨nodes, graphEdges ws⟩, p)

end Blackbird
