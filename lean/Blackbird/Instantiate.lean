/-
  Blackbird.Instantiate — the script a template denotes at given parameter values: every free
  parameter `{p}` replaced, in the syntax tree, by the bracketed literal of its value (the
  right-hand side of C04: "the script with the parameter values substituted").
-/
import Blackbird.Unparse

namespace Blackbird

variable {K : Type} [Scalar K] [Fmt K]

/-- replace every free parameter that has a value by the bracketed literal of that value -/
def substP (ρ : String → Option (Num K)) : Expr → Expr
  | .num k t => .num k t
  | .var y pos => .var y pos
  | .reg t => .reg t
  | .idx y pos i => .idx y pos (substP ρ i)
  | .par p => match ρ p with
              | some n => .brk (exprOfNum n)
              | none => .par p
  | .brk e => .brk (substP ρ e)
  | .pos e => .pos (substP ρ e)
  | .neg e => .neg (substP ρ e)
  | .pow a b => .pow (substP ρ a) (substP ρ b)
  | .mul a b => .mul (substP ρ a) (substP ρ b)
  | .div a b => .div (substP ρ a) (substP ρ b)
  | .add a b => .add (substP ρ a) (substP ρ b)
  | .sub a b => .sub (substP ρ a) (substP ρ b)
  | .fn f e => .fn f (substP ρ e)

/-- replace every measured-register reference that has a value by the bracketed literal of that
value: the written formula evaluated at measurement outcomes (right-hand side of C08) -/
def substR (ρ : String → Option (Num K)) : Expr → Expr
  | .num k t => .num k t
  | .var y pos => .var y pos
  | .reg t => match ρ t with
              | some n => .brk (exprOfNum n)
              | none => .reg t
  | .idx y pos i => .idx y pos (substR ρ i)
  | .par p => .par p
  | .brk e => .brk (substR ρ e)
  | .pos e => .pos (substR ρ e)
  | .neg e => .neg (substR ρ e)
  | .pow a b => .pow (substR ρ a) (substR ρ b)
  | .mul a b => .mul (substR ρ a) (substR ρ b)
  | .div a b => .div (substR ρ a) (substR ρ b)
  | .add a b => .add (substR ρ a) (substR ρ b)
  | .sub a b => .sub (substR ρ a) (substR ρ b)
  | .fn f e => .fn f (substR ρ e)

/-- the register references written in an expression -/
def Expr.regsL : Expr → List String
  | .reg t => [t]
  | .idx _ _ i => i.regsL
  | .brk e => e.regsL
  | .pos e => e.regsL
  | .neg e => e.regsL
  | .pow a b => a.regsL ++ b.regsL
  | .mul a b => a.regsL ++ b.regsL
  | .div a b => a.regsL ++ b.regsL
  | .add a b => a.regsL ++ b.regsL
  | .sub a b => a.regsL ++ b.regsL
  | .fn _ e => e.regsL
  | _ => []

def substPArgVal (ρ : String → Option (Num K)) : ArgVal → ArgVal
  | .expr e => .expr (substP ρ e)
  | v => v

def substPKwVal (ρ : String → Option (Num K)) : KwVal → KwVal
  | .one v => .one (substPArgVal ρ v)
  | .list vs => .list (vs.map (substPArgVal ρ))

def substPArgs (ρ : String → Option (Num K)) (a : Args) : Args :=
  ⟨a.pos.map (substPArgVal ρ), a.kw.map fun kv => (kv.1, substPKwVal ρ kv.2)⟩

/-- the statement with its arguments' parameters replaced (modes cannot mention parameters: a
mode expression with a parameter in it is refused by `evalMode`) -/
def substPStmt (ρ : String → Option (Num K)) (s : Stmt) : Stmt :=
  { s with args := s.args.map (substPArgs ρ) }

/-- no measured-register reference anywhere in the expression -/
def Expr.noReg : Expr → Bool
  | .num _ _ => true
  | .var _ _ => true
  | .reg _ => false
  | .idx _ _ i => i.noReg
  | .par _ => true
  | .brk e => e.noReg
  | .pos e => e.noReg
  | .neg e => e.noReg
  | .pow a b => a.noReg && b.noReg
  | .mul a b => a.noReg && b.noReg
  | .div a b => a.noReg && b.noReg
  | .add a b => a.noReg && b.noReg
  | .sub a b => a.noReg && b.noReg
  | .fn _ e => e.noReg

def ArgVal.noReg : ArgVal → Bool
  | .expr e => e.noReg
  | _ => true

def KwVal.noReg : KwVal → Bool
  | .one v => v.noReg
  | .list vs => vs.all ArgVal.noReg

def Args.noReg (a : Args) : Bool :=
  a.pos.all ArgVal.noReg && a.kw.all fun kv => kv.2.noReg

/-- a value that holds no symbol: what a variable of a script without parameters in its
declarations holds -/
def Val.plain : Val K → Bool
  | .atom (.sym _) => false
  | .atom _ => true
  | .arr _ _ _ flat => flat.all SExpr.isNum
  | .list vs => vs.all fun a => match a with
                                | .sym _ => false
                                | _ => true
  | .rrt _ => false

/-- the one arithmetic identity the two routes to a quotient need: SymPy writes `x / y` as
`x * y**(-1)` and Python evaluates the power, the evaluator takes NumPy's reciprocal -/
def RecipLaw (K : Type) [Scalar K] : Prop :=
  ∀ n : Num K, Num.pyPow n (.int (-1)) = .ok n.recip

/-! ### register values written into a script (used by the driver to tie `substR` to the code) -/

def substRArgVal (ρ : String → Option (Num K)) : ArgVal → ArgVal
  | .expr e => .expr (substR ρ e)
  | v => v

def substRKwVal (ρ : String → Option (Num K)) : KwVal → KwVal
  | .one v => .one (substRArgVal ρ v)
  | .list vs => .list (vs.map (substRArgVal ρ))

def substRStmt (ρ : String → Option (Num K)) (s : Stmt) : Stmt :=
  { s with args := s.args.map fun a =>
      ⟨a.pos.map (substRArgVal ρ), a.kw.map fun kv => (kv.1, substRKwVal ρ kv.2)⟩ }

def substRItem (ρ : String → Option (Num K)) : Item → Item
  | .stmt s => .stmt (substRStmt ρ s)
  | .loop ty x h body => .loop ty x h (body.map (substRStmt ρ))
  | it => it

/-- the script with measured values written in place of the register references of its arguments -/
def substRScript (ρ : String → Option (Num K)) (sc : Script) : Script :=
  { sc with items := sc.items.map (substRItem ρ) }

/-! ### whole scripts -/

def substPHeader (ρ : String → Option (Num K)) : LoopHeader → LoopHeader
  | .range a b c => .range a b c
  | .list lb vs rb => .list lb (vs.map (substPArgVal ρ)) rb

def substPBody (ρ : String → Option (Num K)) : ArrBody → ArrBody
  | .rows rs => .rows (rs.map fun r => r.map (substP ρ))
  | .bare p => .bare p

/-- every item with the values written in: statements, loop headers and bodies, initialisers of
scalar declarations, the elements of array declarations (a bare `{p}` element becomes the
bracketed literal) -/
def substPItem (ρ : String → Option (Num K)) : Item → Item
  | .stmt s => .stmt (substPStmt ρ s)
  | .loop ty x h body => .loop ty x (substPHeader ρ h) (body.map (substPStmt ρ))
  | .var ty n init => .var ty n (substPArgVal ρ init)
  | .arr ty pos n shape body => .arr ty pos n shape (substPBody ρ body)

/-- the script with the parameter values substituted -/
def substPScript (ρ : String → Option (Num K)) (sc : Script) : Script :=
  { sc with items := sc.items.map (substPItem ρ) }

/-- the fragment of templates the script-level theorem covers: statements and loops whose
arguments hold no measured-register reference, loop headers without parameters, scalar and
array declarations without parameters. (Declarations holding parameters are covered at the
level of values, `C04_subst_is_evaluation`, and by the correspondence run: there the declared
type is not re-applied at instantiation, KNOWN_FINDINGS C04-declared-type-not-enforced.) -/
def Stmt.tplOK (s : Stmt) : Bool :=
  match s.args with
  | none => true
  | some a => a.noReg

def Item.tplOK : Item → Bool
  | .stmt s => s.tplOK
  | .loop _ _ h body => h.pars.isEmpty && body.all Stmt.tplOK
  | .var _ _ init => init.noReg && init.pars.isEmpty       -- a declaration without parameters
  | .arr _ _ _ _ (.rows rows) => rows.all fun r => r.all fun e => e.noReg && (elemPars e).isEmpty
  | .arr _ _ _ _ (.bare _) => false

/-- the parameters written in a statement's arguments -/
def Stmt.parsL (s : Stmt) : List String :=
  match s.args with
  | none => []
  | some a => a.pars

def Item.parsL : Item → List String
  | .stmt s => s.parsL
  | .loop _ _ _ body => body.flatMap Stmt.parsL
  | _ => []

def Script.tplOK (sc : Script) : Bool :=
  sc.header.includes.isEmpty && (optPars sc.header.target).isEmpty && (optPars sc.header.ptype).isEmpty &&
  sc.items.all Item.tplOK

end Blackbird
