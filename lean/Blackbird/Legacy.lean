/-
  Blackbird.Legacy — the mechanisms of the code BEFORE the repairs recorded in
  KNOWN_FINDINGS.jsonl (status "fixed"), kept as frozen definitions. `Props/*` prove, from concrete
  witnesses, that the property fails for them; the same witnesses are replayed on the
  implementation on every run, so that reverting a repair is reported at once.
-/
import Blackbird.Listener
import Blackbird.Graph
import Blackbird.Program

namespace Blackbird
namespace Legacy

variable {K : Type} [Scalar K]

/-- `parse()` before the repair: the tables are whatever earlier loads left behind -/
def loadStep (o : SetOrder Int) (fs : FS) (cwd : String) (T : Tables K) (sc : Script) :
    Except Err (Program K) × Tables K :=
  match runScript o fs 16 cwd T sc with
  | .ok (p, T', _) => (.ok p, T')
  | .error (e, T') => (.error e, T')

/-- `to_DiGraph` before the repair: argument-less operations get empty `args` / `kwargs`
written into them -/
def toDiGraph (p : Program K) : DiGraph K × Program K :=
  let p' : Program K := { p with ops := p.ops.map fun o =>
    match o.args with
    | none => { o with args := some ([], []) }
    | some _ => o }
  ((Blackbird.toDiGraph p').1, p')

/-- positions recorded for array parameters before the repair: the number of *values* seen so
far, ignoring earlier parameters -/
def recordedPositions : List (Option Nat) → Nat → List Nat
  | [], _ => []
  | none :: rest, nvals => nvals :: recordedPositions rest nvals          -- a parameter
  | some _ :: rest, nvals => recordedPositions rest (nvals + 1)           -- a value

/-- sequential `str.replace(p, "{p}")` over the free symbols in some iteration order -/
def replaceAll (pat rep : List Char) : Nat → List Char → List Char
  | 0, s => s
  | _, [] => []
  | n + 1, c :: s =>
    if pat.isPrefixOf (c :: s) && !pat.isEmpty then rep ++ replaceAll pat rep n ((c :: s).drop pat.length)
    else c :: replaceAll pat rep n s

def insertBraces (order : List String) (s : String) : String :=
  String.ofList (order.foldl (fun acc p =>
    replaceAll p.toList (['{'] ++ p.toList ++ ['}']) (acc.length + 1) acc) s.toList)

end Legacy
end Blackbird

namespace Blackbird
namespace Legacy

variable {K : Type} [Scalar K]

/-- include call site before the repair: the mode map zips the mode SET in its iteration order
(`setOrder`), and the included program's operations are renamed in place: the possibly-modified
included program is returned next to the operations appended -/
def includeCall (setOrder : List Int → List Int) (bb : Program K) (modes : List Int) :
    Except Err (List (Op K) × Program K) := do
  let modeMap := (setOrder (dedupInts bb.modes)).zip modes
  let ops ← bb.ops.mapM fun o => do .ok { o with modes := ← o.modes.mapM (lookupMode modeMap) }
  .ok (ops, { bb with ops := ops })

end Legacy
end Blackbird
