/-
  Soundness of the bisimulation certificate: if `closedOK M G V` holds, every pair of `V` relates a
  regular expression and a configuration set with the same language.
-/
import Blackbird.ATNSem

namespace Blackbird.ATN
open Blackbird

theorem filterMap_congr' {α β : Type} (f g : α → Option β) (l : List α) (h : ∀ x ∈ l, f x = g x) :
    l.filterMap f = l.filterMap g := by
  induction l with
  | nil => rfl
  | cons a t ih =>
    simp only [List.filterMap_cons, h a (by simp), ih (fun x hx => h x (List.mem_cons_of_mem _ hx))]

theorem flatMap_congr' {α β : Type} (f g : α → List β) (l : List α) (h : ∀ x ∈ l, f x = g x) :
    l.flatMap f = l.flatMap g := by
  induction l with
  | nil => rfl
  | cons a t ih =>
    simp only [List.flatMap_cons, h a (by simp), ih (fun x hx => h x (List.mem_cons_of_mem _ hx))]

theorem any_congr' {α : Type} (f g : α → Bool) (l : List α) (h : ∀ x ∈ l, f x = g x) : l.any f = l.any g := by
  induction l with
  | nil => rfl
  | cons a t ih =>
    simp only [List.any_cons, h a (by simp), ih (fun x hx => h x (List.mem_cons_of_mem _ hx))]

/-! ### characters with the same signature behave alike -/

theorem deriv_congr (r : Re) (c c' : Nat) (h : ∀ rs ∈ reAtoms r, Re.inRanges rs c = Re.inRanges rs c') :
    r.deriv c = r.deriv c' := by
  induction r with
  | empty => rfl
  | eps => rfl
  | set rs => simp [Re.deriv, h rs (by simp [reAtoms])]
  | nset rs => simp [Re.deriv, h rs (by simp [reAtoms])]
  | seq a b iha ihb =>
    have ha := iha (fun rs hrs => h rs (by simp [reAtoms, hrs]))
    have hb := ihb (fun rs hrs => h rs (by simp [reAtoms, hrs]))
    simp only [Re.deriv, ha, hb]
  | alt a b iha ihb =>
    have ha := iha (fun rs hrs => h rs (by simp [reAtoms, hrs]))
    have hb := ihb (fun rs hrs => h rs (by simp [reAtoms, hrs]))
    simp only [Re.deriv, ha, hb]
  | star a iha =>
    have ha := iha (fun rs hrs => h rs (by simp [reAtoms, hrs]))
    simp only [Re.deriv, ha]

theorem charSucc_congr (M : Sub) (c c' : Nat)
    (h : ∀ e ∈ M.edges, ∀ rs ∈ e.lab.atoms, Re.inRanges rs c = Re.inRanges rs c') (cfg : Cfg) :
    charSucc M c cfg = charSucc M c' cfg := by
  unfold charSucc
  apply filterMap_congr'
  intro e he
  by_cases hs : e.src = cfg.1
  · simp only [hs, if_true]
    cases hl : e.lab with
    | eps => rfl
    | call st => rfl
    | set rs => simp only [h e he rs (by simp [hl, Lab.atoms])]
    | nset rs => simp only [h e he rs (by simp [hl, Lab.atoms])]
  · simp only [hs, if_false]

theorem step_congr (M : Sub) (c c' : Nat)
    (h : ∀ e ∈ M.edges, ∀ rs ∈ e.lab.atoms, Re.inRanges rs c = Re.inRanges rs c') (S : List Cfg) :
    step M S c = step M S c' := by
  unfold step
  congr 1
  apply flatMap_congr'
  intro cfg _
  exact charSucc_congr M c c' h cfg

theorem sig_eq_mem (G : List (List (Nat × Nat))) (a b : Nat) (h : sig G a = sig G b) :
    ∀ rs ∈ G, Re.inRanges rs a = Re.inRanges rs b := by
  induction G with
  | nil => intro rs hrs; cases hrs
  | cons g t ih =>
    simp only [sig, List.map_cons, List.cons.injEq] at h
    intro rs hrs
    rcases List.mem_cons.mp hrs with rfl | hrs'
    · exact h.1
    · exact ih h.2 rs hrs'

/-! ### every code point has a representative -/

/-- the largest boundary not above `ch` -/
def floorB (bs : List Nat) (ch : Nat) : Nat :=
  bs.foldl (fun best b => if b ≤ ch ∧ best ≤ b then b else best) 0

theorem floor_fold (bs : List Nat) (ch init : Nat) (hinit : init ≤ ch) :
    let f := bs.foldl (fun best b => if b ≤ ch ∧ best ≤ b then b else best) init
    f ≤ ch ∧ init ≤ f ∧ (f = init ∨ f ∈ bs) ∧ ∀ b ∈ bs, b ≤ ch → b ≤ f := by
  induction bs generalizing init with
  | nil => exact ⟨hinit, Nat.le_refl _, Or.inl rfl, fun b hb => by cases hb⟩
  | cons x t ih =>
    simp only [List.foldl_cons]
    by_cases hx : x ≤ ch ∧ init ≤ x
    · simp only [hx, and_self, if_true]
      obtain ⟨h1, h2, h3, h4⟩ := ih x hx.1
      refine ⟨h1, Nat.le_trans hx.2 h2, ?_, ?_⟩
      · rcases h3 with h3 | h3
        · exact Or.inr (by rw [h3]; simp)
        · exact Or.inr (List.mem_cons_of_mem _ h3)
      · intro b hb hbc
        rcases List.mem_cons.mp hb with rfl | hb'
        · exact h2
        · exact h4 b hb' hbc
    · simp only [hx, if_false]
      obtain ⟨h1, h2, h3, h4⟩ := ih init hinit
      refine ⟨h1, h2, ?_, ?_⟩
      · rcases h3 with h3 | h3
        · exact Or.inl h3
        · exact Or.inr (List.mem_cons_of_mem _ h3)
      · intro b hb hbc
        rcases List.mem_cons.mp hb with rfl | hb'
        · have : ¬ init ≤ b := fun hh => hx ⟨hbc, hh⟩
          omega
        · exact h4 b hb' hbc

theorem floorB_spec (bs : List Nat) (ch : Nat) (h0 : 0 ∈ bs) :
    floorB bs ch ≤ ch ∧ floorB bs ch ∈ bs ∧ ∀ b ∈ bs, b ≤ ch → b ≤ floorB bs ch := by
  obtain ⟨h1, _, h3, h4⟩ := floor_fold bs ch 0 (Nat.zero_le _)
  refine ⟨h1, ?_, h4⟩
  rcases h3 with h3 | h3
  · show floorB bs ch ∈ bs
    unfold floorB
    rw [h3]; exact h0
  · exact h3

theorem boundaries_mem (G : List (List (Nat × Nat))) (rs : List (Nat × Nat)) (hrs : rs ∈ G) (p : Nat × Nat)
    (hp : p ∈ rs) : p.1 ∈ boundaries G ∧ p.2 + 1 ∈ boundaries G := by
  unfold boundaries
  constructor
  · exact List.mem_cons_of_mem _ (List.mem_flatMap.mpr ⟨rs, hrs, List.mem_flatMap.mpr ⟨p, hp, by simp⟩⟩)
  · exact List.mem_cons_of_mem _ (List.mem_flatMap.mpr ⟨rs, hrs, List.mem_flatMap.mpr ⟨p, hp, by simp⟩⟩)

/-- a code point and the largest boundary below it lie in the same atomic sets -/
theorem sig_floor (G : List (List (Nat × Nat))) (ch : Nat) :
    ∀ rs ∈ G, Re.inRanges rs ch = Re.inRanges rs (floorB (boundaries G) ch) := by
  intro rs hrs
  obtain ⟨hle, _, hmax⟩ := floorB_spec (boundaries G) ch (by simp [boundaries])
  unfold Re.inRanges
  apply any_congr'
  intro p hp
  obtain ⟨hlo, hhi⟩ := boundaries_mem G rs hrs p hp
  have h1 := hmax p.1 hlo
  have h2 := hmax (p.2 + 1) hhi
  by_cases ha : p.1 ≤ ch
  · by_cases hb : ch ≤ p.2
    · have : p.1 ≤ floorB (boundaries G) ch := h1 ha
      have : floorB (boundaries G) ch ≤ p.2 := by omega
      simp [ha, hb, *]
    · have : p.2 + 1 ≤ floorB (boundaries G) ch := h2 (by omega)
      have hn : ¬ floorB (boundaries G) ch ≤ p.2 := by omega
      simp [hb, hn]
  · have hn : ¬ p.1 ≤ floorB (boundaries G) ch := by omega
    simp [ha, hn]


theorem dedupSig_cover (G : List (List (Nat × Nat))) (bs acc : List Nat) (b : Nat) (hb : b ∈ bs ∨ b ∈ acc) :
    ∃ b' ∈ dedupSig G bs acc, sig G b' = sig G b := by
  induction bs generalizing acc b with
  | nil =>
    rcases hb with hb | hb
    · cases hb
    · exact ⟨b, by simpa [dedupSig] using hb, rfl⟩
  | cons x xs ih =>
    simp only [dedupSig]
    by_cases hany : acc.any (fun a => sig G a == sig G x) = true
    · simp only [hany, if_true]
      rcases hb with hb | hb
      · rcases List.mem_cons.mp hb with rfl | hb'
        · obtain ⟨a, ha, hsa⟩ := List.any_eq_true.mp hany
          have hsa' : sig G a = sig G b := by simpa using hsa
          obtain ⟨b', hb', hs'⟩ := ih acc a (Or.inr ha)
          exact ⟨b', hb', hs'.trans hsa'⟩
        · exact ih acc b (Or.inl hb')
      · exact ih acc b (Or.inr hb)
    · simp only [hany, Bool.false_eq_true, if_false]
      rcases hb with hb | hb
      · rcases List.mem_cons.mp hb with rfl | hb'
        · exact ih (b :: acc) b (Or.inr (by simp))
        · exact ih (x :: acc) b (Or.inl hb')
      · exact ih (x :: acc) b (Or.inr (List.mem_cons_of_mem _ hb))

/-- every code point has a representative with the same signature -/
theorem rep_exists (G : List (List (Nat × Nat))) (ch : Nat) :
    ∃ c' ∈ repsOf G, ∀ rs ∈ G, Re.inRanges rs ch = Re.inRanges rs c' := by
  obtain ⟨_, hmem, _⟩ := floorB_spec (boundaries G) ch (by simp [boundaries])
  obtain ⟨c', hc', hs⟩ := dedupSig_cover G (boundaries G) [] (floorB (boundaries G) ch) (Or.inl hmem)
  refine ⟨c', hc', ?_⟩
  intro rs hrs
  rw [sig_floor G ch rs hrs]
  exact (sig_eq_mem G c' _ hs rs hrs).symm

/-! ### the certificate is sound -/

theorem reMatches_cons (r : Re) (c : Nat) (w : List Nat) : reMatches r (c :: w) = reMatches (r.deriv c) w := rfl

theorem acceptsFrom_cons (M : Sub) (S : List Cfg) (c : Nat) (w : List Nat) :
    acceptsFrom M S (c :: w) = acceptsFrom M (step M S c) w := rfl

/-- **Soundness.** If `V` passes `closedOK`, then for every pair in `V` the regular expression matches
exactly the words the configuration set accepts. -/
theorem closedOK_sound (M : Sub) (G : List (List (Nat × Nat))) (V : List Pair) (h : closedOK M G V = true) :
    ∀ (w : List Nat) (p : Pair), p ∈ V → reMatches p.1 w = acceptsFrom M p.2 w := by
  simp only [closedOK, Bool.and_eq_true, List.all_eq_true] at h
  obtain ⟨hedges, hV⟩ := h
  intro w
  induction w with
  | nil =>
    intro p hp
    have := hV p hp
    simp only [pairOK, Bool.and_eq_true, beq_iff_eq] at this
    exact this.1.1
  | cons ch w ih =>
    intro p hp
    have hpk := hV p hp
    simp only [pairOK, Bool.and_eq_true, List.all_eq_true] at hpk
    obtain ⟨⟨_, hatoms⟩, hsucc⟩ := hpk
    obtain ⟨c', hc', hsig⟩ := rep_exists G ch
    have hd : p.1.deriv ch = p.1.deriv c' := by
      apply deriv_congr
      intro rs hrs
      exact hsig rs (by simpa using hatoms rs hrs)
    have hs : step M p.2 ch = step M p.2 c' := by
      apply step_congr
      intro e he rs hrs
      exact hsig rs (by simpa using hedges e he rs hrs)
    have hmem : (p.1.deriv c', step M p.2 c') ∈ V := by
      have := hsucc c' hc'
      exact List.contains_iff_mem.mp this
    rw [reMatches_cons, acceptsFrom_cons, hd, hs]
    exact ih _ hmem

/-- a rule whose certificate checks has the language of its regular expression -/
theorem certOK_sound (M : Sub) (re : Re) (c : Cert) (h : certOK M re c = true) (w : List Nat) :
    reMatches re w = acceptsFrom M (startSet M) w := by
  simp only [certOK, Bool.and_eq_true] at h
  exact closedOK_sound M c.G c.V h.2 w (re, startSet M) (List.contains_iff_mem.mp h.1)

end Blackbird.ATN
