import Blackbird.Value

namespace Blackbird

theorem dictGet_dictSet_same {α : Type} (d : List (String × α)) (k : String) (v : α) :
    dictGet (dictSet d k v) k = some v := by
  induction d with
  | nil => simp [dictSet, dictGet]
  | cons kv rest ih =>
    obtain ⟨k', v'⟩ := kv
    unfold dictSet
    by_cases h : k' = k
    · simp [h, dictGet]
    · simp [h, dictGet, ih]

theorem dictGet_dictSet_ne {α : Type} (d : List (String × α)) (k k' : String) (v : α) (hne : k' ≠ k) :
    dictGet (dictSet d k v) k' = dictGet d k' := by
  induction d with
  | nil => simp [dictSet, dictGet, Ne.symm hne]
  | cons kv rest ih =>
    obtain ⟨k₀, v₀⟩ := kv
    unfold dictSet
    by_cases h : k₀ = k
    · subst h
      simp [dictGet, Ne.symm hne]
    · simp only [h, if_false, dictGet]
      by_cases h2 : k₀ = k'
      · simp [h2]
      · simp [h2, ih]

theorem dictErase_of_not_mem {α : Type} (d : List (String × α)) (k : String) (h : dictGet d k = none) :
    dictErase d k = d := by
  induction d with
  | nil => rfl
  | cons kv rest ih =>
    obtain ⟨k', v'⟩ := kv
    simp only [dictGet] at h
    by_cases hk : k' = k
    · simp [hk] at h
    · simp only [hk, if_false] at h
      simp only [dictErase, List.filter_cons, ne_eq, hk, not_false_eq_true, decide_true, if_true]
      have := ih h
      simp only [dictErase] at this
      rw [this]

theorem dictErase_dictSet_fresh {α : Type} (d : List (String × α)) (k : String) (v : α)
    (h : dictGet d k = none) : dictErase (dictSet d k v) k = d := by
  induction d with
  | nil => simp [dictSet, dictErase]
  | cons kv rest ih =>
    obtain ⟨k', v'⟩ := kv
    simp only [dictGet] at h
    by_cases hk : k' = k
    · simp [hk] at h
    · simp only [hk, if_false] at h
      simp only [dictSet, hk, if_false, dictErase, List.filter_cons, ne_eq, not_false_eq_true, decide_true, if_true]
      have := ih h
      simp only [dictErase] at this
      rw [this]

theorem dictSet_dictSet {α : Type} (d : List (String × α)) (k : String) (v w : α) :
    dictSet (dictSet d k v) k w = dictSet d k w := by
  induction d with
  | nil => simp [dictSet]
  | cons kv rest ih =>
    obtain ⟨k', v'⟩ := kv
    by_cases hk : k' = k
    · simp [dictSet, hk]
    · simp [dictSet, hk, ih]

theorem dictErase_dictSet_same {α : Type} (d : List (String × α)) (k : String) (v : α) :
    dictErase (dictSet d k v) k = dictErase d k := by
  induction d with
  | nil => simp [dictSet, dictErase]
  | cons kv rest ih =>
    obtain ⟨k', v'⟩ := kv
    by_cases hk : k' = k
    · simp [dictSet, dictErase, hk]
    · simp only [dictSet, hk, if_false, dictErase, List.filter_cons, ne_eq, not_false_eq_true, decide_true, if_true]
      have := ih
      simp only [dictErase] at this
      rw [this]

end Blackbird
