/-
  Exact arithmetic: a scalar type that is a field, with the scalar primitives interpreted by the
  field operations. Theorems about arithmetic MEANING (C03, C17) are proved for every such type;
  binary64 is not one (the deviation is what the properties' tolerance clauses cover and what the
  correspondence run measures).
-/
import Blackbird.Value
import Mathlib.Algebra.Field.Basic
import Mathlib.Algebra.Field.Rat
import Mathlib.Tactic.Ring
import Mathlib.Tactic.FieldSimp
import Mathlib.Tactic.NormNum

namespace Blackbird

/-- the scalar primitives are the field operations -/
class LawfulScalar (K : Type) [Field K] [Scalar K] : Prop where
  ofInt_eq : ∀ i : Int, (Scalar.ofInt i : K) = (i : K)
  add_eq : ∀ a b : K, Scalar.add a b = a + b
  mul_eq : ∀ a b : K, Scalar.mul a b = a * b
  neg_eq : ∀ a : K, Scalar.neg a = -a
  inv_eq : ∀ a : K, Scalar.inv a = a⁻¹
  div_eq : ∀ a b : K, Scalar.div a b = a / b
  powInt_eq : ∀ (a : K) (n : Int), Scalar.powInt a n = a ^ n
  solveEq_iff : ∀ a b : K, Scalar.solveEq a b = true ↔ a = b

/-- the rationals, as an example that such types exist (the non-algebraic primitives are
irrelevant to the theorems and set to constants) -/
instance : Scalar ℚ where
  ofInt i := (i : ℚ)
  ofDecimal _ := 0
  pi := 3
  add a b := a + b
  mul a b := a * b
  neg a := -a
  inv a := a⁻¹
  div a b := a / b
  pow a _ := a
  powInt a n := a ^ n
  fn _ a := a
  cinv a := a
  cpow a _ := a
  cfn _ _ := none
  trunc a := some a.floor
  isZero a := a = 0
  beq a b := a = b
  solveEq a b := a = b
  finite _ := true

instance : LawfulScalar ℚ where
  ofInt_eq _ := rfl
  add_eq _ _ := rfl
  mul_eq _ _ := rfl
  neg_eq _ := rfl
  inv_eq _ := rfl
  div_eq _ _ := rfl
  powInt_eq _ _ := rfl
  solveEq_iff a b := by simp [Scalar.solveEq]

variable {K : Type} [Field K] [Scalar K] [LawfulScalar K]

/-- the real number an int / real `Num` stands for -/
def Num.toK : Num K → Option K
  | .int i => some (i : K)
  | .real x => some x
  | .cplx _ _ => none

end Blackbird
