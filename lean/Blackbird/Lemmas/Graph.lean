/-
  Helper lemmas for the dependency graph (C16, C17).
-/
import Blackbird.Graph

namespace Blackbird

theorem mem_dedupI {x : Int} {l : List Int} : x ∈ dedupI l ↔ x ∈ l := by
  induction l with
  | nil => simp [dedupI]
  | cons a t ih =>
    unfold dedupI
    by_cases h : t.contains a = true
    · simp only [h, if_true]
      rw [ih]
      constructor
      · intro hx; exact List.mem_cons_of_mem _ hx
      · intro hx
        rcases List.mem_cons.mp hx with rfl | hx
        · simpa using h
        · exact hx
    · have h' : t.contains a = false := by simpa using h
      simp only [h', Bool.false_eq_true, if_false, List.mem_cons, ih]

theorem nodup_dedupI (l : List Int) : (dedupI l).Nodup := by
  induction l with
  | nil => simp [dedupI]
  | cons a t ih =>
    unfold dedupI
    by_cases h : t.contains a = true
    · simp only [h, if_true]; exact ih
    · have h' : t.contains a = false := by simpa using h
      simp only [h', Bool.false_eq_true, if_false]
      refine List.nodup_cons.mpr ⟨?_, ih⟩
      rw [mem_dedupI]
      simpa using h

/-- pairs of consecutive elements of a strictly increasing list are increasing pairs -/
theorem consecutive_lt {l : List Nat} (hs : l.Pairwise (· < ·)) {a b : Nat}
    (h : (a, b) ∈ consecutive l) : a < b := by
  induction l with
  | nil => simp [consecutive] at h
  | cons x t ih =>
    cases t with
    | nil => simp [consecutive] at h
    | cons y t' =>
      simp only [consecutive, List.mem_cons] at h
      rcases h with h | h
      · cases h
        exact (List.pairwise_cons.mp hs).1 _ (by simp)
      · exact ih (List.pairwise_cons.mp hs).2 h

theorem consecutive_mem {l : List Nat} {a b : Nat} (h : (a, b) ∈ consecutive l) : a ∈ l ∧ b ∈ l := by
  induction l with
  | nil => simp [consecutive] at h
  | cons x t ih =>
    cases t with
    | nil => simp [consecutive] at h
    | cons y t' =>
      simp only [consecutive, List.mem_cons] at h
      rcases h with h | h
      · cases h; simp
      · have := ih h
        exact ⟨List.mem_cons_of_mem _ this.1, List.mem_cons_of_mem _ this.2⟩

/-- reachability by one or more edges -/
inductive Reach (E : List (Nat × Nat)) : Nat → Nat → Prop
  | edge {a b : Nat} : (a, b) ∈ E → Reach E a b
  | step {a b c : Nat} : (a, b) ∈ E → Reach E b c → Reach E a c

theorem Reach.trans {E : List (Nat × Nat)} {a b c : Nat} (h1 : Reach E a b) (h2 : Reach E b c) :
    Reach E a c := by
  induction h1 with
  | edge h => exact Reach.step h h2
  | step h _ ih => exact Reach.step h (ih h2)

theorem Reach.mono {E E' : List (Nat × Nat)} (hsub : ∀ e, e ∈ E → e ∈ E') {a b : Nat}
    (h : Reach E a b) : Reach E' a b := by
  induction h with
  | edge h => exact Reach.edge (hsub _ h)
  | step h _ ih => exact Reach.step (hsub _ h) ih

/-- in a strictly increasing list, a later element is reachable from an earlier one through
consecutive pairs -/
theorem reach_consecutive {l : List Nat} (hs : l.Pairwise (· < ·)) {a b : Nat}
    (ha : a ∈ l) (hb : b ∈ l) (hab : a < b) : Reach (consecutive l) a b := by
  induction l generalizing a b with
  | nil => cases ha
  | cons x t ih =>
    cases t with
    | nil =>
      simp only [List.mem_singleton] at ha hb
      omega
    | cons y t' =>
      have hp := List.pairwise_cons.mp hs
      have hsub : ∀ e, e ∈ consecutive (y :: t') → e ∈ consecutive (x :: y :: t') := by
        intro e he; simp only [consecutive, List.mem_cons]; exact Or.inr he
      rcases List.mem_cons.mp ha with rfl | ha'
      · -- a is the head
        rcases List.mem_cons.mp hb with rfl | hb'
        · omega
        · rcases List.mem_cons.mp hb' with rfl | hb''
          · exact Reach.edge (by simp [consecutive])
          · have hyb : y < b := (List.pairwise_cons.mp hp.2).1 b hb''
            have r := ih hp.2 (by simp) hb' hyb
            exact Reach.step (by simp [consecutive]) (r.mono hsub)
      · rcases List.mem_cons.mp hb with rfl | hb'
        · have := hp.1 a ha'
          omega
        · exact (ih hp.2 ha' hb' hab).mono hsub

theorem wireOps_sorted (ws : List (List Int)) (q : Int) : (wireOps ws q).Pairwise (· < ·) := by
  unfold wireOps
  exact List.Pairwise.filter _ (List.pairwise_lt_range)

theorem mem_wireOps {ws : List (List Int)} {q : Int} {i : Nat} :
    i ∈ wireOps ws q ↔ i < ws.length ∧ q ∈ ws.getD i [] := by
  unfold wireOps
  simp [List.mem_filter, List.mem_range]

theorem mem_allWires {ws : List (List Int)} {q : Int} :
    q ∈ allWires ws ↔ ∃ i, i < ws.length ∧ q ∈ ws.getD i [] := by
  unfold allWires
  rw [mem_dedupI]
  simp only [List.mem_flatMap, id]
  constructor
  · rintro ⟨w, hw, hq⟩
    obtain ⟨i, hi, rfl⟩ := List.mem_iff_getElem.mp hw
    exact ⟨i, hi, by simpa [List.getD, hi] using hq⟩
  · rintro ⟨i, hi, hq⟩
    refine ⟨ws[i], List.getElem_mem hi, ?_⟩
    simpa [List.getD, hi] using hq

theorem mem_graphEdges {ws : List (List Int)} {e : Nat × Nat} :
    e ∈ graphEdges ws ↔ ∃ q, q ∈ allWires ws ∧ e ∈ consecutive (wireOps ws q) := by
  unfold graphEdges
  simp [List.mem_flatMap]

end Blackbird
