/-
  Lemmas for C04 at script level: evaluating the template and substituting in the values
  (`substVal`, what `BlackbirdProgram.__call__` does) gives what evaluating the substituted
  text gives.
-/
import Blackbird.Instantiate
import Blackbird.Lemmas.Unparse
import Blackbird.Props.C04

namespace Blackbird

variable {K : Type} [Scalar K]

theorem bind_eq_ok {ε α β : Type} (x : Except ε α) (f : α → Except ε β) (b : β) :
    (x >>= f) = .ok b ↔ ∃ a, x = .ok a ∧ f a = .ok b := by
  cases x <;> simp [bind, Except.bind]

theorem map_eq_ok {ε α β : Type} (x : Except ε α) (f : α → β) (b : β) :
    (f <$> x) = .ok b ↔ ∃ a, x = .ok a ∧ f a = b := by
  cases x <;> simp [Functor.map, Except.map]

/-- every stored variable is a plain value -/
def Tables.Plain (T : Tables K) : Prop := ∀ kv ∈ T.vars, kv.2.plain = true

theorem dictGet_mem {α : Type} (d : List (String × α)) (k : String) (v : α) (h : dictGet d k = some v) :
    (k, v) ∈ d := by
  induction d with
  | nil => simp [dictGet] at h
  | cons kv t ih =>
    obtain ⟨k', v'⟩ := kv
    simp only [dictGet] at h
    split at h
    · rename_i hk; cases h; subst hk; simp
    · exact List.mem_cons_of_mem _ (ih h)

theorem Tables.Plain.get {T : Tables K} (hT : T.Plain) {x : String} {v : Val K} (h : dictGet T.vars x = some v) :
    v.plain = true := hT (x, v) (dictGet_mem _ _ _ h)

theorem mem_dictSet {α : Type} (d : List (String × α)) (k : String) (v : α) (e : String × α)
    (h : e ∈ dictSet d k v) : e ∈ d ∨ e = (k, v) := by
  induction d with
  | nil => simp only [dictSet, List.mem_singleton] at h; exact .inr h
  | cons kv t ih =>
    obtain ⟨k', v'⟩ := kv
    simp only [dictSet] at h
    split at h
    · rcases List.mem_cons.1 h with h | h
      · exact .inr h
      · exact .inl (List.mem_cons_of_mem _ h)
    · rcases List.mem_cons.1 h with h | h
      · exact .inl (h ▸ List.mem_cons_self)
      · exact (ih h).imp (List.mem_cons_of_mem _) id

@[simp] theorem substVal_num (σ : List (String × Val K)) (n : Num K) :
    substVal σ (.atom (.num n)) = .ok (.atom (.num n)) := rfl

@[simp] theorem substVal_sym (σ : List (String × Val K)) (e : SExpr K) :
    substVal σ (.atom (.sym e)) = substS σ e := rfl

theorem substVal_plain (σ : List (String × Val K)) (v : Val K) (h : v.plain = true) : substVal σ v = .ok v := by
  cases v with
  | atom a => cases a <;> first | rfl | (simp [Val.plain] at h)
  | rrt e => simp [Val.plain] at h
  | arr dt r c flat =>
    simp only [Val.plain, List.all_eq_true] at h
    simp only [substVal]
    rw [mapM_ok_of_forall _ id flat]
    · simp [bind, Except.bind]
    · intro e he
      have := h e he
      cases e <;> simp [SExpr.isNum] at this ⊢
  | list vs =>
    simp only [Val.plain, List.all_eq_true] at h
    simp only [substVal]
    rw [mapM_ok_of_forall _ id vs]
    · simp [bind, Except.bind]
    · intro a ha
      have := h a ha
      cases a <;> simp at this ⊢

/-! ### the value operations commute with substitution -/

theorem liftBin_mono (opN opN' : Num K → Num K → Except Err (Num K)) (opS : SExpr K → SExpr K → SExpr K)
    (hmono : ∀ a b r, opN a b = .ok r → opN' a b = .ok r) (a b w : Val K)
    (h : liftBin opN opS a b = .ok w) : liftBin opN' opS a b = .ok w := by
  unfold liftBin at h ⊢
  split at h
  · obtain ⟨r, hr, rfl⟩ := (map_eq_ok _ _ _).1 h
    simp [hmono _ _ _ hr, Functor.map, Except.map]
  · exact h
  · exact h
  · exact h
  · cases h

theorem liftBin_subst (σ : List (String × Val K)) (opN opN' : Num K → Num K → Except Err (Num K))
    (opS : SExpr K → SExpr K → SExpr K)
    (hmono : ∀ a b r, opN a b = .ok r → opN' a b = .ok r)
    (hS : ∀ x y, substS σ (opS x y) =
      (do let x' ← substS σ x; let y' ← substS σ y; liftBin opN' opS x' y'))
    (va vb wa wb v w : Val K) (ha : substVal σ va = .ok wa) (hb : substVal σ vb = .ok wb)
    (hv : liftBin opN opS va vb = .ok v) (hw : liftBin opN opS wa wb = .ok w) : substVal σ v = .ok w := by
  have hw' := liftBin_mono opN opN' opS hmono _ _ _ hw
  unfold liftBin at hv
  split at hv
  · rename_i x y
    simp only [substVal_num, Except.ok.injEq] at ha hb
    subst ha hb
    obtain ⟨r, hr, rfl⟩ := (map_eq_ok _ _ _).1 hv
    unfold liftBin at hw
    obtain ⟨r', hr', rfl⟩ := (map_eq_ok _ _ _).1 hw
    rw [hr] at hr'; cases hr'; rfl
  · rename_i x y
    simp only [substVal_num, Except.ok.injEq] at hb
    subst hb
    cases hv
    simp only [substVal_sym] at ha ⊢
    rw [hS, ha]
    simpa [bind, Except.bind, substS] using hw'
  · rename_i x y
    simp only [substVal_num, Except.ok.injEq] at ha
    subst ha
    cases hv
    simp only [substVal_sym] at hb ⊢
    rw [hS, hb]
    simpa [bind, Except.bind, substS] using hw'
  · rename_i x y
    cases hv
    simp only [substVal_sym] at ha hb ⊢
    rw [hS, ha, hb]
    simpa [bind, Except.bind] using hw'
  · cases hv

theorem negVal_subst (σ : List (String × Val K)) (va wa v w : Val K) (ha : substVal σ va = .ok wa)
    (hv : negVal va = .ok v) (hw : negVal wa = .ok w) : substVal σ v = .ok w := by
  unfold negVal at hv
  split at hv
  · simp only [substVal_num, Except.ok.injEq] at ha
    subst ha
    cases hv
    simp only [negVal] at hw
    cases hw; rfl
  · cases hv
    simp only [substVal_sym] at ha ⊢
    simp only [substS, ha, bind, Except.bind]
    exact hw
  · cases hv

theorem recipVal_subst (hr : RecipLaw K) (σ : List (String × Val K)) (va wa v w : Val K)
    (ha : substVal σ va = .ok wa) (hv : recipVal va = .ok v) (hw : recipVal wa = .ok w) :
    substVal σ v = .ok w := by
  unfold recipVal at hv
  split at hv
  · simp only [substVal_num, Except.ok.injEq] at ha
    subst ha
    cases hv
    simp only [recipVal] at hw
    cases hw; rfl
  · cases hv
    simp only [substVal_sym] at ha ⊢
    simp only [substS, ha, bind, Except.bind]
    unfold recipVal at hw
    split at hw
    · cases hw
      simp [liftBin, hr _, Functor.map, Except.map]
    · cases hw
      simp [liftBin]
    · cases hw
  · cases hv

theorem pow_le_pyPow (a b r : Num K) (h : Num.pow a b = .ok r) : Num.pyPow a b = .ok r := by
  unfold Num.pyPow
  split
  · rename_i x n
    split
    · rename_i hn
      simp [Num.pow, hn] at h
    · exact h
  · exact h

/-! ### expressions -/

theorem arrGet_mem (flat : List (SExpr K)) (k : Int) (e : SExpr K) (h : arrGet flat k = .ok e) : e ∈ flat := by
  unfold arrGet at h
  simp only at h
  generalize (if k < 0 then k + (flat.length : Int) else k) = j at h
  split at h
  · cases h
  · split at h
    · rename_i e' he
      cases h
      exact List.mem_of_getElem? he
    · cases h

theorem evalVar_plain (T : Tables K) (hT : T.Plain) (x : String) (pos : Pos) (v : Val K)
    (h : evalExpr T (.var x pos) = .ok v) : v.plain = true := by
  simp only [evalExpr] at h
  split at h
  · cases h
  · rename_i v' hv'
    split at h
    · split at h
      · cases h; rfl
      · cases h
    · cases h; exact hT.get hv'

theorem sexprToVal_plain (e : SExpr K) (h : e.isNum = true) : (sexprToVal e).plain = true := by
  cases e <;> simp [SExpr.isNum] at h
  rfl

/-! ### the symbols of an evaluated expression are those written in it -/

/-- a symbolic value mentions no register and only parameters from `ps` -/
def symIn (v : Val K) (ps : List String) : Prop :=
  ∀ e, v = .atom (.sym e) → e.regs = [] ∧ ∀ p ∈ e.pars, p ∈ ps

omit [Scalar K] in
theorem symIn_of_plain (v : Val K) (h : v.plain = true) (ps : List String) : symIn v ps := by
  intro e he; subst he; simp [Val.plain] at h

omit [Scalar K] in
theorem symIn_mono (v : Val K) (ps qs : List String) (h : symIn v ps) (hs : ∀ p ∈ ps, p ∈ qs) : symIn v qs :=
  fun e he => ⟨(h e he).1, fun p hp => hs p ((h e he).2 p hp)⟩

theorem liftBin_symIn (opN : Num K → Num K → Except Err (Num K)) (opS : SExpr K → SExpr K → SExpr K)
    (hregs : ∀ x y, (opS x y).regs = x.regs ++ y.regs) (hpars : ∀ x y, (opS x y).pars = x.pars ++ y.pars)
    (va vb v : Val K) (pa pb : List String) (ha : symIn va pa) (hb : symIn vb pb)
    (hv : liftBin opN opS va vb = .ok v) : symIn v (pa ++ pb) := by
  intro e he
  subst he
  unfold liftBin at hv
  split at hv
  · obtain ⟨r, _, h⟩ := (map_eq_ok _ _ _).1 hv
    cases h
  · rename_i x y
    cases hv
    have := ha x rfl
    simp only [hregs, hpars, SExpr.regs, SExpr.pars, this.1, List.append_nil, List.mem_append, true_and]
    exact fun p hp => .inl (this.2 p hp)
  · rename_i x y
    cases hv
    have := hb y rfl
    simp only [hregs, hpars, SExpr.regs, SExpr.pars, this.1, List.nil_append, List.mem_append, true_and]
    exact fun p hp => .inr (this.2 p hp)
  · rename_i x y
    cases hv
    have h1 := ha x rfl
    have h2 := hb y rfl
    simp only [hregs, hpars, h1.1, h2.1, List.append_nil, List.mem_append, true_and]
    exact fun p hp => hp.elim (fun h => .inl (h1.2 p h)) (fun h => .inr (h2.2 p h))
  · cases hv

theorem negVal_symIn (va v : Val K) (ps : List String) (ha : symIn va ps) (hv : negVal va = .ok v) : symIn v ps := by
  intro e he
  subst he
  unfold negVal at hv
  split at hv
  · cases hv
  · rename_i x
    cases hv
    exact ha x rfl
  · cases hv

theorem recipVal_symIn (va v : Val K) (ps : List String) (ha : symIn va ps) (hv : recipVal va = .ok v) : symIn v ps := by
  intro e he
  subst he
  unfold recipVal at hv
  split at hv
  · cases hv
  · rename_i x
    cases hv
    have := ha x rfl
    simp only [SExpr.regs, SExpr.pars, this.1, List.append_nil, true_and]
    exact this.2
  · cases hv

theorem evalIdx_plain (T : Tables K) (hT : T.Plain) (x : String) (pos : Pos) (i : Expr) (v : Val K)
    (h : evalExpr T (.idx x pos i) = .ok v) : v.plain = true := by
  simp only [evalExpr] at h
  split at h
  · cases h
  obtain ⟨iv, _, h⟩ := (bind_eq_ok _ _ _).1 h
  split at h
  · cases h
  · rename_i dt r c flat hx
    split at h
    · obtain ⟨e, he, rfl⟩ := (map_eq_ok _ _ _).1 h
      apply sexprToVal_plain
      have := hT.get hx
      simp only [Val.plain, List.all_eq_true] at this
      exact this e (arrGet_mem _ _ _ he)
    · cases h
    · cases h
  · cases h

theorem evalExpr_symIn (T : Tables K) (hT : T.Plain) (e : Expr) (hn : e.noReg = true) :
    ∀ v, evalExpr T e = .ok v → symIn v e.pars := by
  induction e with
  | num k t => intro v hv; simp only [evalExpr] at hv; cases hv; exact symIn_of_plain _ rfl _
  | reg t => simp [Expr.noReg] at hn
  | var x pos => intro v hv; exact symIn_of_plain _ (evalVar_plain T hT x pos v hv) _
  | idx x pos i _ => intro v hv; exact symIn_of_plain _ (evalIdx_plain T hT x pos i v hv) _
  | par p =>
    intro v hv; simp only [evalExpr] at hv; cases hv
    intro e he; cases he
    simp [SExpr.regs, SExpr.pars, Expr.pars]
  | brk e ih => intro v hv; simp only [evalExpr] at hv; exact ih (by simpa [Expr.noReg] using hn) v hv
  | pos e ih => intro v hv; simp only [evalExpr] at hv; exact ih (by simpa [Expr.noReg] using hn) v hv
  | neg e ih =>
    intro v hv
    simp only [evalExpr] at hv
    obtain ⟨va, hva, hv⟩ := (bind_eq_ok _ _ _).1 hv
    exact negVal_symIn va v _ (ih (by simpa [Expr.noReg] using hn) va hva) hv
  | add a b iha ihb =>
    intro v hv
    simp only [Expr.noReg, Bool.and_eq_true] at hn
    simp only [evalExpr] at hv
    obtain ⟨va, hva, hv⟩ := (bind_eq_ok _ _ _).1 hv
    obtain ⟨vb, hvb, hv⟩ := (bind_eq_ok _ _ _).1 hv
    exact liftBin_symIn _ .add (fun _ _ => rfl) (fun _ _ => rfl) va vb v _ _ (iha hn.1 va hva) (ihb hn.2 vb hvb) hv
  | mul a b iha ihb =>
    intro v hv
    simp only [Expr.noReg, Bool.and_eq_true] at hn
    simp only [evalExpr] at hv
    obtain ⟨va, hva, hv⟩ := (bind_eq_ok _ _ _).1 hv
    obtain ⟨vb, hvb, hv⟩ := (bind_eq_ok _ _ _).1 hv
    exact liftBin_symIn _ .mul (fun _ _ => rfl) (fun _ _ => rfl) va vb v _ _ (iha hn.1 va hva) (ihb hn.2 vb hvb) hv
  | pow a b iha ihb =>
    intro v hv
    simp only [Expr.noReg, Bool.and_eq_true] at hn
    simp only [evalExpr] at hv
    obtain ⟨va, hva, hv⟩ := (bind_eq_ok _ _ _).1 hv
    obtain ⟨vb, hvb, hv⟩ := (bind_eq_ok _ _ _).1 hv
    exact liftBin_symIn _ .pow (fun _ _ => rfl) (fun _ _ => rfl) va vb v _ _ (iha hn.1 va hva) (ihb hn.2 vb hvb) hv
  | sub a b iha ihb =>
    intro v hv
    simp only [Expr.noReg, Bool.and_eq_true] at hn
    simp only [evalExpr] at hv
    obtain ⟨va, hva, hv⟩ := (bind_eq_ok _ _ _).1 hv
    obtain ⟨vb, hvb, hv⟩ := (bind_eq_ok _ _ _).1 hv
    obtain ⟨nvb, hnvb, hv⟩ := (bind_eq_ok _ _ _).1 hv
    exact liftBin_symIn _ .add (fun _ _ => rfl) (fun _ _ => rfl) va nvb v _ _ (iha hn.1 va hva)
      (negVal_symIn vb nvb _ (ihb hn.2 vb hvb) hnvb) hv
  | div a b iha ihb =>
    intro v hv
    simp only [Expr.noReg, Bool.and_eq_true] at hn
    simp only [evalExpr] at hv
    obtain ⟨va, hva, hv⟩ := (bind_eq_ok _ _ _).1 hv
    obtain ⟨vb, hvb, hv⟩ := (bind_eq_ok _ _ _).1 hv
    obtain ⟨nvb, hnvb, hv⟩ := (bind_eq_ok _ _ _).1 hv
    exact liftBin_symIn _ .mul (fun _ _ => rfl) (fun _ _ => rfl) va nvb v _ _ (iha hn.1 va hva)
      (recipVal_symIn vb nvb _ (ihb hn.2 vb hvb) hnvb) hv
  | fn f e _ =>
    intro v hv
    simp only [evalExpr] at hv
    obtain ⟨va, _, hv⟩ := (bind_eq_ok _ _ _).1 hv
    split at hv
    · obtain ⟨r, _, rfl⟩ := (map_eq_ok _ _ _).1 hv
      exact symIn_of_plain _ rfl _
    · cases hv
    · cases hv

/-! ### a symbolic value mentions at least one symbol -/

/-- plain, or a symbolic tree with a register or a parameter in it -/
def Val.good (v : Val K) : Prop :=
  v.plain = true ∨ ∃ x, v = .atom (.sym x) ∧ (x.regs ≠ [] ∨ x.pars ≠ [])

omit [Scalar K] in
theorem good_sym (x : SExpr K) (h : Val.good (.atom (.sym x))) : x.regs ≠ [] ∨ x.pars ≠ [] := by
  rcases h with h | ⟨y, hy, h⟩
  · simp [Val.plain] at h
  · cases hy; exact h

theorem liftBin_good (opN : Num K → Num K → Except Err (Num K)) (opS : SExpr K → SExpr K → SExpr K)
    (hregs : ∀ x y, (opS x y).regs = x.regs ++ y.regs) (hpars : ∀ x y, (opS x y).pars = x.pars ++ y.pars)
    (va vb v : Val K) (ha : va.good) (hb : vb.good) (hv : liftBin opN opS va vb = .ok v) : v.good := by
  unfold liftBin at hv
  split at hv
  · obtain ⟨r, _, rfl⟩ := (map_eq_ok _ _ _).1 hv
    exact .inl rfl
  · rename_i x y
    cases hv
    refine .inr ⟨_, rfl, ?_⟩
    simp only [hregs, hpars, SExpr.regs, SExpr.pars, List.append_nil]
    exact good_sym x ha
  · rename_i x y
    cases hv
    refine .inr ⟨_, rfl, ?_⟩
    simp only [hregs, hpars, SExpr.regs, SExpr.pars, List.nil_append]
    exact good_sym y hb
  · rename_i x y
    cases hv
    refine .inr ⟨_, rfl, ?_⟩
    simp only [hregs, hpars, ne_eq, List.append_eq_nil_iff, not_and]
    rcases good_sym x ha with h | h
    · exact .inl fun h' => absurd h' h
    · exact .inr fun h' => absurd h' h
  · cases hv

theorem negVal_good (va v : Val K) (ha : va.good) (hv : negVal va = .ok v) : v.good := by
  unfold negVal at hv
  split at hv
  · cases hv; exact .inl rfl
  · rename_i x
    cases hv
    exact .inr ⟨_, rfl, by simpa [SExpr.regs, SExpr.pars] using good_sym x ha⟩
  · cases hv

theorem recipVal_good (va v : Val K) (ha : va.good) (hv : recipVal va = .ok v) : v.good := by
  unfold recipVal at hv
  split at hv
  · cases hv; exact .inl rfl
  · rename_i x
    cases hv
    exact .inr ⟨_, rfl, by simpa [SExpr.regs, SExpr.pars] using good_sym x ha⟩
  · cases hv

theorem evalExpr_good (T : Tables K) (hT : T.Plain) (e : Expr) : ∀ v, evalExpr T e = .ok v → v.good := by
  induction e with
  | num k t => intro v hv; simp only [evalExpr] at hv; cases hv; exact .inl rfl
  | reg t => intro v hv; simp only [evalExpr] at hv; cases hv; exact .inr ⟨_, rfl, .inl (by simp [SExpr.regs])⟩
  | var x pos => intro v hv; exact .inl (evalVar_plain T hT x pos v hv)
  | idx x pos i _ => intro v hv; exact .inl (evalIdx_plain T hT x pos i v hv)
  | par p => intro v hv; simp only [evalExpr] at hv; cases hv; exact .inr ⟨_, rfl, .inr (by simp [SExpr.pars])⟩
  | brk e ih => intro v hv; simp only [evalExpr] at hv; exact ih v hv
  | pos e ih => intro v hv; simp only [evalExpr] at hv; exact ih v hv
  | neg e ih =>
    intro v hv
    simp only [evalExpr] at hv
    obtain ⟨va, hva, hv⟩ := (bind_eq_ok _ _ _).1 hv
    exact negVal_good va v (ih va hva) hv
  | add a b iha ihb =>
    intro v hv
    simp only [evalExpr] at hv
    obtain ⟨va, hva, hv⟩ := (bind_eq_ok _ _ _).1 hv
    obtain ⟨vb, hvb, hv⟩ := (bind_eq_ok _ _ _).1 hv
    exact liftBin_good _ .add (fun _ _ => rfl) (fun _ _ => rfl) va vb v (iha va hva) (ihb vb hvb) hv
  | mul a b iha ihb =>
    intro v hv
    simp only [evalExpr] at hv
    obtain ⟨va, hva, hv⟩ := (bind_eq_ok _ _ _).1 hv
    obtain ⟨vb, hvb, hv⟩ := (bind_eq_ok _ _ _).1 hv
    exact liftBin_good _ .mul (fun _ _ => rfl) (fun _ _ => rfl) va vb v (iha va hva) (ihb vb hvb) hv
  | pow a b iha ihb =>
    intro v hv
    simp only [evalExpr] at hv
    obtain ⟨va, hva, hv⟩ := (bind_eq_ok _ _ _).1 hv
    obtain ⟨vb, hvb, hv⟩ := (bind_eq_ok _ _ _).1 hv
    exact liftBin_good _ .pow (fun _ _ => rfl) (fun _ _ => rfl) va vb v (iha va hva) (ihb vb hvb) hv
  | sub a b iha ihb =>
    intro v hv
    simp only [evalExpr] at hv
    obtain ⟨va, hva, hv⟩ := (bind_eq_ok _ _ _).1 hv
    obtain ⟨vb, hvb, hv⟩ := (bind_eq_ok _ _ _).1 hv
    obtain ⟨nvb, hnvb, hv⟩ := (bind_eq_ok _ _ _).1 hv
    exact liftBin_good _ .add (fun _ _ => rfl) (fun _ _ => rfl) va nvb v (iha va hva) (negVal_good vb nvb (ihb vb hvb) hnvb) hv
  | div a b iha ihb =>
    intro v hv
    simp only [evalExpr] at hv
    obtain ⟨va, hva, hv⟩ := (bind_eq_ok _ _ _).1 hv
    obtain ⟨vb, hvb, hv⟩ := (bind_eq_ok _ _ _).1 hv
    obtain ⟨nvb, hnvb, hv⟩ := (bind_eq_ok _ _ _).1 hv
    exact liftBin_good _ .mul (fun _ _ => rfl) (fun _ _ => rfl) va nvb v (iha va hva) (recipVal_good vb nvb (ihb vb hvb) hnvb) hv
  | fn f e _ =>
    intro v hv
    simp only [evalExpr] at hv
    obtain ⟨va, _, hv⟩ := (bind_eq_ok _ _ _).1 hv
    split at hv
    · obtain ⟨r, _, rfl⟩ := (map_eq_ok _ _ _).1 hv
      exact .inl rfl
    · cases hv
    · cases hv

/-- an expression without registers and without parameters evaluates to a plain value -/
theorem evalExpr_plain (T : Tables K) (hT : T.Plain) (e : Expr) (hn : e.noReg = true) (hp : e.pars = [])
    (v : Val K) (hv : evalExpr T e = .ok v) : v.plain = true := by
  rcases evalExpr_good T hT e v hv with h | ⟨x, rfl, h⟩
  · exact h
  · have := evalExpr_symIn T hT e hn _ hv x rfl
    rw [hp] at this
    rcases h with h | h
    · exact absurd this.1 h
    · cases hx : x.pars with
      | nil => exact absurd hx h
      | cons p t => exact absurd (this.2 p (by simp [hx])) (by simp)

theorem castScalar_plain (ty : VarType) (v fv : Val K) (hv : v.plain = true) (h : castScalar ty v = .ok fv) :
    fv.plain = true := by
  unfold castScalar at h
  repeat' split at h
  all_goals first
    | (cases h; exact hv)
    | (cases h; rfl)
    | cases h

/-- substituting numbers for all the parameters of a register-free tree leaves a number -/
theorem substS_numeric (σ : List (String × Val K)) (ρ : String → Option (Num K)) (hσ : numericAssignment σ ρ)
    (e : SExpr K) (hreg : e.regs = []) (w : Val K) (h : substS σ e = .ok w) : ∃ n, w = .atom (.num n) := by
  rw [C04_subst_is_evaluation σ ρ hσ e hreg] at h
  split at h
  · cases h; exact ⟨_, rfl⟩
  · cases h
  · cases h

/-- the register-transform wrapping of an argument commutes with instantiation, for an argument
without registers whose parameters are all recorded -/
theorem wrapRRT_subst (σ : List (String × Val K)) (ρ : String → Option (Num K)) (hσ : numericAssignment σ ρ)
    (params params' : List PEntry) (ps : List String) (v w : Val K) (hs : symIn v ps)
    (hps : ∀ p ∈ ps, params.contains (.sym p) = true) (h : substVal σ v = .ok w) :
    substVal σ (wrapRRT params v) = .ok (wrapRRT params' w) := by
  cases v with
  | atom a =>
    cases a with
    | sym e =>
      have := hs e rfl
      have hw : wrapRRT params (.atom (.sym e)) = .atom (.sym e) := by
        simp only [wrapRRT, this.1, List.isEmpty_nil, Bool.true_and]
        rw [if_pos]
        simp only [List.all_eq_true]
        exact fun p hp => hps p (this.2 p hp)
      rw [hw, h]
      obtain ⟨n, rfl⟩ := substS_numeric σ ρ hσ e this.1 w h
      rfl
    | num n => cases h; rfl
    | bool b => cases h; rfl
    | str s => cases h; rfl
    | pname s => cases h; rfl
  | rrt e => cases h; rfl
  | arr dt r c flat =>
    simp only [wrapRRT]
    rw [h]
    simp only [substVal] at h
    obtain ⟨f', _, h⟩ := (bind_eq_ok _ _ _).1 h
    cases h; rfl
  | list vs =>
    simp only [wrapRRT]
    rw [h]
    simp only [substVal] at h
    obtain ⟨f', _, h⟩ := (bind_eq_ok _ _ _).1 h
    cases h; rfl

variable [Fmt K] [LawfulFmt K]

theorem evalExpr_substP (hr : RecipLaw K) (σ : List (String × Val K)) (ρ : String → Option (Num K))
    (hσ : numericAssignment σ ρ) (T : Tables K) (hT : T.Plain) (e : Expr)
    (hp : ∀ p ∈ e.pars, (ρ p).isSome = true) :
    ∀ v w, evalExpr T e = .ok v → evalExpr T (substP ρ e) = .ok w → substVal σ v = .ok w := by
  induction e with
  | num k t =>
    intro v w hv hw
    simp only [substP] at hw
    rw [hv] at hw; cases hw
    simp only [evalExpr] at hv
    cases hv; rfl
  | reg t =>
    intro v w hv hw
    simp only [substP] at hw
    rw [hv] at hw; cases hw
    simp only [evalExpr] at hv
    cases hv; rfl
  | var x pos =>
    intro v w hv hw
    simp only [substP] at hw
    rw [hv] at hw; cases hw
    exact substVal_plain σ v (evalVar_plain T hT x pos v hv)
  | idx x pos i ih =>
    intro v w hv hw
    simp only [Expr.pars] at hp
    simp only [substP, evalExpr] at hv hw
    split at hv
    · cases hv
    rename_i hdef
    rw [if_neg hdef] at hw
    obtain ⟨iv, hiv, hv⟩ := (bind_eq_ok _ _ _).1 hv
    obtain ⟨iw, hiw, hw⟩ := (bind_eq_ok _ _ _).1 hw
    have hi := ih hp iv iw hiv hiw
    split at hv
    · cases hv
    · rename_i dt r c flat hx
      rw [hx] at hw
      simp only at hw
      split at hv
      · rename_i k
        simp only [substVal_num, Except.ok.injEq] at hi
        subst hi
        simp only at hw
        rw [hv] at hw; cases hw
        obtain ⟨e, he, rfl⟩ := (map_eq_ok _ _ _).1 hv
        apply substVal_plain
        apply sexprToVal_plain
        have := hT.get hx
        simp only [Val.plain, List.all_eq_true] at this
        exact this e (arrGet_mem _ _ _ he)
      · cases hv
      · cases hv
    · cases hv
  | par p =>
    intro v w hv hw
    have hsome := hp p (by simp [Expr.pars])
    cases hρ : ρ p with
    | none => simp [hρ] at hsome
    | some n =>
      simp only [substP, hρ, evalExpr, eval_exprOfNum] at hw
      cases hw
      simp only [evalExpr] at hv
      cases hv
      simp only [substVal_sym, substS, (hσ p).2 n hρ]
  | brk e ih =>
    intro v w hv hw
    simp only [Expr.pars] at hp
    simp only [substP, evalExpr] at hv hw
    exact ih hp v w hv hw
  | pos e ih =>
    intro v w hv hw
    simp only [Expr.pars] at hp
    simp only [substP, evalExpr] at hv hw
    exact ih hp v w hv hw
  | neg e ih =>
    intro v w hv hw
    simp only [Expr.pars] at hp
    simp only [substP, evalExpr] at hv hw
    obtain ⟨va, hva, hv⟩ := (bind_eq_ok _ _ _).1 hv
    obtain ⟨wa, hwa, hw⟩ := (bind_eq_ok _ _ _).1 hw
    exact negVal_subst σ va wa v w (ih hp va wa hva hwa) hv hw
  | add a b iha ihb =>
    intro v w hv hw
    simp only [Expr.pars, List.mem_append] at hp
    simp only [substP, evalExpr] at hv hw
    obtain ⟨va, hva, hv⟩ := (bind_eq_ok _ _ _).1 hv
    obtain ⟨vb, hvb, hv⟩ := (bind_eq_ok _ _ _).1 hv
    obtain ⟨wa, hwa, hw⟩ := (bind_eq_ok _ _ _).1 hw
    obtain ⟨wb, hwb, hw⟩ := (bind_eq_ok _ _ _).1 hw
    exact liftBin_subst σ _ _ .add (fun _ _ _ h => h) (fun x y => by simp only [substS]) va vb wa wb v w
      (iha (fun p h => hp p (.inl h)) va wa hva hwa) (ihb (fun p h => hp p (.inr h)) vb wb hvb hwb) hv hw
  | mul a b iha ihb =>
    intro v w hv hw
    simp only [Expr.pars, List.mem_append] at hp
    simp only [substP, evalExpr] at hv hw
    obtain ⟨va, hva, hv⟩ := (bind_eq_ok _ _ _).1 hv
    obtain ⟨vb, hvb, hv⟩ := (bind_eq_ok _ _ _).1 hv
    obtain ⟨wa, hwa, hw⟩ := (bind_eq_ok _ _ _).1 hw
    obtain ⟨wb, hwb, hw⟩ := (bind_eq_ok _ _ _).1 hw
    exact liftBin_subst σ _ _ .mul (fun _ _ _ h => h) (fun x y => by simp only [substS]) va vb wa wb v w
      (iha (fun p h => hp p (.inl h)) va wa hva hwa) (ihb (fun p h => hp p (.inr h)) vb wb hvb hwb) hv hw
  | pow a b iha ihb =>
    intro v w hv hw
    simp only [Expr.pars, List.mem_append] at hp
    simp only [substP, evalExpr] at hv hw
    obtain ⟨va, hva, hv⟩ := (bind_eq_ok _ _ _).1 hv
    obtain ⟨vb, hvb, hv⟩ := (bind_eq_ok _ _ _).1 hv
    obtain ⟨wa, hwa, hw⟩ := (bind_eq_ok _ _ _).1 hw
    obtain ⟨wb, hwb, hw⟩ := (bind_eq_ok _ _ _).1 hw
    exact liftBin_subst σ Num.pow Num.pyPow .pow pow_le_pyPow (fun x y => by simp only [substS]) va vb wa wb v w
      (iha (fun p h => hp p (.inl h)) va wa hva hwa) (ihb (fun p h => hp p (.inr h)) vb wb hvb hwb) hv hw
  | sub a b iha ihb =>
    intro v w hv hw
    simp only [Expr.pars, List.mem_append] at hp
    simp only [substP, evalExpr] at hv hw
    obtain ⟨va, hva, hv⟩ := (bind_eq_ok _ _ _).1 hv
    obtain ⟨vb, hvb, hv⟩ := (bind_eq_ok _ _ _).1 hv
    obtain ⟨nvb, hnvb, hv⟩ := (bind_eq_ok _ _ _).1 hv
    obtain ⟨wa, hwa, hw⟩ := (bind_eq_ok _ _ _).1 hw
    obtain ⟨wb, hwb, hw⟩ := (bind_eq_ok _ _ _).1 hw
    obtain ⟨nwb, hnwb, hw⟩ := (bind_eq_ok _ _ _).1 hw
    have hb := negVal_subst σ vb wb nvb nwb (ihb (fun p h => hp p (.inr h)) vb wb hvb hwb) hnvb hnwb
    exact liftBin_subst σ _ _ .add (fun _ _ _ h => h) (fun x y => by simp only [substS]) va nvb wa nwb v w
      (iha (fun p h => hp p (.inl h)) va wa hva hwa) hb hv hw
  | div a b iha ihb =>
    intro v w hv hw
    simp only [Expr.pars, List.mem_append] at hp
    simp only [substP, evalExpr] at hv hw
    obtain ⟨va, hva, hv⟩ := (bind_eq_ok _ _ _).1 hv
    obtain ⟨vb, hvb, hv⟩ := (bind_eq_ok _ _ _).1 hv
    obtain ⟨nvb, hnvb, hv⟩ := (bind_eq_ok _ _ _).1 hv
    obtain ⟨wa, hwa, hw⟩ := (bind_eq_ok _ _ _).1 hw
    obtain ⟨wb, hwb, hw⟩ := (bind_eq_ok _ _ _).1 hw
    obtain ⟨nwb, hnwb, hw⟩ := (bind_eq_ok _ _ _).1 hw
    have hb := recipVal_subst hr σ vb wb nvb nwb (ihb (fun p h => hp p (.inr h)) vb wb hvb hwb) hnvb hnwb
    exact liftBin_subst σ _ _ .mul (fun _ _ _ h => h) (fun x y => by simp only [substS]) va nvb wa nwb v w
      (iha (fun p h => hp p (.inl h)) va wa hva hwa) hb hv hw
  | fn f e ih =>
    intro v w hv hw
    simp only [Expr.pars] at hp
    simp only [substP, evalExpr] at hv hw
    obtain ⟨va, hva, hv⟩ := (bind_eq_ok _ _ _).1 hv
    obtain ⟨wa, hwa, hw⟩ := (bind_eq_ok _ _ _).1 hw
    have hi := ih hp va wa hva hwa
    split at hv
    · simp only [substVal_num, Except.ok.injEq] at hi
      subst hi
      simp only at hw
      rw [hv] at hw; cases hw
      obtain ⟨r, _, rfl⟩ := (map_eq_ok _ _ _).1 hv
      rfl
    · cases hv
    · cases hv

/-! ### arguments and statements -/

/-- two lists related element by element -/
inductive Forall2 {α β : Type} (R : α → β → Prop) : List α → List β → Prop
  | nil : Forall2 R [] []
  | cons {a b l₁ l₂} : R a b → Forall2 R l₁ l₂ → Forall2 R (a :: l₁) (b :: l₂)

omit [Scalar K] [Fmt K] [LawfulFmt K] in
theorem mapM_rel {α β γ δ ε : Type} (f : α → Except ε γ) (g : β → Except ε δ) (h : α → β) (R : γ → δ → Prop)
    (l : List α) : ∀ (xs : List γ) (ys : List δ),
    (∀ a ∈ l, ∀ x y, f a = .ok x → g (h a) = .ok y → R x y) →
    l.mapM f = .ok xs → (l.map h).mapM g = .ok ys → Forall2 R xs ys := by
  induction l with
  | nil => intro xs ys _ h1 h2; cases h1; cases h2; exact .nil
  | cons a t ih =>
    intro xs ys hR h1 h2
    simp only [List.mapM_cons, List.map_cons] at h1 h2
    obtain ⟨x, hx, h1⟩ := (bind_eq_ok _ _ _).1 h1
    obtain ⟨xs', hxs, h1⟩ := (bind_eq_ok _ _ _).1 h1
    obtain ⟨y, hy, h2⟩ := (bind_eq_ok _ _ _).1 h2
    obtain ⟨ys', hys, h2⟩ := (bind_eq_ok _ _ _).1 h2
    cases h1; cases h2
    exact .cons (hR a (by simp) x y hx hy) (ih xs' ys' (fun b hb => hR b (List.mem_cons_of_mem _ hb)) hxs hys)

omit [Scalar K] [Fmt K] [LawfulFmt K] in
theorem forall2_mapM_map {γ δ γ' η ε : Type} (F : γ' → Except ε η) (u : γ → γ') (u' : δ → η)
    (xs : List γ) (ys : List δ) (h : Forall2 (fun x y => F (u x) = .ok (u' y)) xs ys) :
    (xs.map u).mapM F = .ok (ys.map u') := by
  induction h with
  | nil => rfl
  | cons hxy _ ih =>
    simp only [List.map_cons, List.mapM_cons, hxy, ih]
    rfl

theorem evalArgVal_substP (hr : RecipLaw K) (σ : List (String × Val K)) (ρ : String → Option (Num K))
    (hσ : numericAssignment σ ρ) (T : Tables K) (hT : T.Plain) (a : ArgVal) (hn : a.noReg = true)
    (hp : ∀ p ∈ a.pars, (ρ p).isSome = true) (v w : Val K)
    (hv : evalArgVal T a = .ok v) (hw : evalArgVal T (substPArgVal ρ a) = .ok w) :
    substVal σ v = .ok w ∧ symIn v a.pars := by
  cases a with
  | expr e =>
    simp only [substPArgVal, evalArgVal] at hv hw
    exact ⟨evalExpr_substP hr σ ρ hσ T hT e hp v w hv hw, evalExpr_symIn T hT e hn v hv⟩
  | str raw =>
    simp only [substPArgVal] at hw
    rw [hv] at hw; cases hw
    simp only [evalArgVal] at hv; cases hv
    exact ⟨rfl, symIn_of_plain _ rfl _⟩
  | bool b =>
    simp only [substPArgVal] at hw
    rw [hv] at hw; cases hw
    simp only [evalArgVal] at hv; cases hv
    exact ⟨rfl, symIn_of_plain _ rfl _⟩

/-- an evaluated argument and the argument of the substituted text, after both have been wrapped -/
def ArgRel (σ : List (String × Val K)) (P P' : List PEntry) (v w : Val K) : Prop :=
  substVal σ (wrapRRT P v) = .ok (wrapRRT P' w)

theorem evalArgVal_rel (hr : RecipLaw K) (σ : List (String × Val K)) (ρ : String → Option (Num K))
    (hσ : numericAssignment σ ρ) (T : Tables K) (hT : T.Plain) (P P' : List PEntry) (a : ArgVal) (hn : a.noReg = true)
    (hp : ∀ p ∈ a.pars, (ρ p).isSome = true ∧ P.contains (.sym p) = true) (v w : Val K)
    (hv : evalArgVal T a = .ok v) (hw : evalArgVal T (substPArgVal ρ a) = .ok w) : ArgRel σ P P' v w := by
  obtain ⟨h1, h2⟩ := evalArgVal_substP hr σ ρ hσ T hT a hn (fun p h => (hp p h).1) v w hv hw
  exact wrapRRT_subst σ ρ hσ P P' a.pars v w h2 (fun p h => (hp p h).2) h1

/-- element-wise substitution in a list value, as `substVal` does it -/
def substAtom (σ : List (String × Val K)) (a : Atom K) : Except Err (Atom K) :=
  match a with
  | .sym e => do valToAtom (← substS σ e)
  | a => .ok a

omit [Fmt K] [LawfulFmt K] in
theorem substVal_list (σ : List (String × Val K)) (vs : List (Atom K)) :
    substVal σ (.list vs) = (do let vs' ← vs.mapM (substAtom σ); .ok (.list vs')) := by
  simp only [substVal]
  congr 1

theorem evalKwVal_rel (hr : RecipLaw K) (σ : List (String × Val K)) (ρ : String → Option (Num K))
    (hσ : numericAssignment σ ρ) (T : Tables K) (hT : T.Plain) (P P' : List PEntry) (a : KwVal) (hn : a.noReg = true)
    (hp : ∀ p ∈ a.pars, (ρ p).isSome = true ∧ P.contains (.sym p) = true) (v w : Option (Val K))
    (hv : evalKwVal T a = .ok v) (hw : evalKwVal T (substPKwVal ρ a) = .ok w) :
    (v = none ∧ w = none) ∨ ∃ v' w', v = some v' ∧ w = some w' ∧ ArgRel σ P P' v' w' := by
  cases a with
  | one a =>
    simp only [substPKwVal, evalKwVal] at hv hw
    obtain ⟨v', hv', rfl⟩ := (map_eq_ok _ _ _).1 hv
    obtain ⟨w', hw', rfl⟩ := (map_eq_ok _ _ _).1 hw
    exact .inr ⟨v', w', rfl, rfl, evalArgVal_rel hr σ ρ hσ T hT P P' a hn hp v' w' hv' hw'⟩
  | list vs =>
    cases vs with
    | nil =>
      simp only [substPKwVal, List.map_nil, evalKwVal] at hv hw
      cases hv; cases hw
      exact .inl ⟨rfl, rfl⟩
    | cons a t =>
      simp only [substPKwVal, List.map_cons, evalKwVal] at hv hw
      rw [← List.map_cons] at hw
      obtain ⟨xs, hxs, hv⟩ := (bind_eq_ok _ _ _).1 hv
      obtain ⟨ys, hys, hw⟩ := (bind_eq_ok _ _ _).1 hw
      cases hv; cases hw
      refine .inr ⟨_, _, rfl, rfl, ?_⟩
      simp only [KwVal.noReg, List.all_eq_true] at hn
      simp only [KwVal.pars, List.mem_flatMap] at hp
      have hrel := mapM_rel _ _ (substPArgVal ρ) (fun x y => substAtom σ x = .ok y) (a :: t) xs ys
        (by
          intro b hb x y hx hy
          obtain ⟨v, hv, hx⟩ := (bind_eq_ok _ _ _).1 hx
          obtain ⟨w, hw, hy⟩ := (bind_eq_ok _ _ _).1 hy
          have h1 := (evalArgVal_substP hr σ ρ hσ T hT b (hn b hb) (fun p h => (hp p ⟨b, hb, h⟩).1) v w hv hw).1
          cases v <;> simp only [valToAtom] at hx <;> cases hx
          cases w <;> simp only [valToAtom] at hy <;> cases hy
          rename_i x y
          cases x with
          | sym e =>
            simp only [substVal_sym] at h1
            simp only [substAtom, h1, bind, Except.bind, valToAtom]
          | num n => cases h1; rfl
          | bool b => cases h1; rfl
          | str s => cases h1; rfl
          | pname s => cases h1; rfl) hxs hys
      have := forall2_mapM_map (substAtom σ) id id xs ys (by simpa using hrel)
      simp only [List.map_id] at this
      simp only [ArgRel, wrapRRT, substVal_list, this, bind, Except.bind]

/-- keyword dictionaries related entry by entry -/
def KwRel (σ : List (String × Val K)) (P P' : List PEntry) (a b : List (String × Val K)) : Prop :=
  Forall2 (fun x y => x.1 = y.1 ∧ ArgRel σ P P' x.2 y.2) a b

omit [Fmt K] [LawfulFmt K] in
theorem dictSet_rel (σ : List (String × Val K)) (P P' : List PEntry) (a b : List (String × Val K)) (k : String)
    (x y : Val K) (h : KwRel σ P P' a b) (hxy : ArgRel σ P P' x y) : KwRel σ P P' (dictSet a k x) (dictSet b k y) := by
  induction h with
  | nil => exact .cons ⟨rfl, hxy⟩ .nil
  | cons hab ht ih =>
    rename_i p q t t'
    obtain ⟨k1, v1⟩ := p
    obtain ⟨k2, v2⟩ := q
    obtain ⟨hk, hv⟩ := hab
    simp only at hk
    subst hk
    simp only [dictSet]
    split
    · exact .cons ⟨rfl, hxy⟩ ht
    · exact .cons ⟨rfl, hv⟩ ih

theorem evalKwargs_rel (hr : RecipLaw K) (σ : List (String × Val K)) (ρ : String → Option (Num K))
    (hσ : numericAssignment σ ρ) (T : Tables K) (hT : T.Plain) (P P' : List PEntry)
    (kws : List (String × KwVal)) :
    ∀ (acc acc' out out' : List (String × Val K)),
    (∀ kv ∈ kws, kv.2.noReg = true) →
    (∀ kv ∈ kws, ∀ p ∈ kv.2.pars, (ρ p).isSome = true ∧ P.contains (.sym p) = true) →
    KwRel σ P P' acc acc' →
    evalKwargs T kws acc = .ok out →
    evalKwargs T (kws.map fun kv => (kv.1, substPKwVal ρ kv.2)) acc' = .ok out' →
    KwRel σ P P' out out' := by
  induction kws with
  | nil => intro acc acc' out out' _ _ hacc h1 h2; simp only [List.map_nil, evalKwargs] at h1 h2; cases h1; cases h2; exact hacc
  | cons kv t ih =>
    intro acc acc' out out' hn hp hacc h1 h2
    obtain ⟨k, a⟩ := kv
    simp only [List.map_cons, evalKwargs] at h1 h2
    obtain ⟨v, hv, h1⟩ := (bind_eq_ok _ _ _).1 h1
    obtain ⟨w, hw, h2⟩ := (bind_eq_ok _ _ _).1 h2
    have hn' := fun kv h => hn kv (List.mem_cons_of_mem _ h)
    have hp' := fun kv h => hp kv (List.mem_cons_of_mem _ h)
    rcases evalKwVal_rel hr σ ρ hσ T hT P P' a (hn (k, a) (by simp)) (hp (k, a) (by simp)) v w hv hw with
      ⟨rfl, rfl⟩ | ⟨v', w', rfl, rfl, hvw⟩
    · exact ih acc acc' out out' hn' hp' hacc h1 h2
    · exact ih _ _ out out' hn' hp' (dictSet_rel σ P P' acc acc' k v' w' hacc hvw) h1 h2

/-! ### the evaluator reads the tables only through the variables and the p-array names -/

/-- same variables, same registered p-array names (the `{p}` entries may differ) -/
def TEq (T T' : Tables K) : Prop :=
  T'.vars = T.vars ∧ ∀ x, T'.params.contains (.pname x) = T.params.contains (.pname x)

omit [Fmt K] [LawfulFmt K] in
theorem evalExpr_TEq (T T' : Tables K) (h : TEq T T') (e : Expr) : evalExpr T' e = evalExpr T e := by
  induction e with
  | var x pos => simp only [evalExpr, h.1, h.2]
  | idx x pos i ih => simp only [evalExpr, h.1, ih]
  | num _ _ => rfl
  | reg _ => rfl
  | par _ => rfl
  | brk e ih => simp only [evalExpr, ih]
  | pos e ih => simp only [evalExpr, ih]
  | neg e ih => simp only [evalExpr, ih]
  | fn f e ih => simp only [evalExpr, ih]
  | add a b iha ihb => simp only [evalExpr, iha, ihb]
  | sub a b iha ihb => simp only [evalExpr, iha, ihb]
  | mul a b iha ihb => simp only [evalExpr, iha, ihb]
  | div a b iha ihb => simp only [evalExpr, iha, ihb]
  | pow a b iha ihb => simp only [evalExpr, iha, ihb]

omit [Fmt K] [LawfulFmt K] in
theorem evalArgVal_TEq (T T' : Tables K) (h : TEq T T') : evalArgVal T' = evalArgVal T := by
  funext a
  cases a <;> simp only [evalArgVal, evalExpr_TEq T T' h]

omit [Fmt K] [LawfulFmt K] in
theorem evalKwVal_TEq (T T' : Tables K) (h : TEq T T') : evalKwVal T' = evalKwVal T := by
  funext a
  cases a with
  | one v => simp only [evalKwVal, evalArgVal_TEq T T' h]
  | list vs => cases vs <;> simp only [evalKwVal, evalArgVal_TEq T T' h]

omit [Fmt K] [LawfulFmt K] in
theorem evalKwargs_TEq (T T' : Tables K) (h : TEq T T') (kws : List (String × KwVal)) :
    ∀ acc, evalKwargs T' kws acc = evalKwargs T kws acc := by
  induction kws with
  | nil => intro acc; rfl
  | cons kv t ih =>
    intro acc
    obtain ⟨k, v⟩ := kv
    simp only [evalKwargs, evalKwVal_TEq T T' h, ih]

omit [Fmt K] [LawfulFmt K] in
theorem evalArgs_TEq (T T' : Tables K) (h : TEq T T') (a : Args) : evalArgs T' a = evalArgs T a := by
  simp only [evalArgs, evalArgVal_TEq T T' h, evalKwargs_TEq T T' h]

omit [Fmt K] [LawfulFmt K] in
theorem evalMode_TEq (T T' : Tables K) (h : TEq T T') (e : Expr) : evalMode T' e = evalMode T e := by
  simp only [evalMode, evalExpr_TEq T T' h]

omit [Fmt K] [LawfulFmt K] in
theorem kwRel_mapM (σ : List (String × Val K)) (P P' : List PEntry) (kw kw' : List (String × Val K))
    (h : KwRel σ P P' kw kw') :
    (kw.map fun kv => (kv.1, wrapRRT P kv.2)).mapM
      (fun (kv : String × Val K) => do let v ← substVal σ kv.2; (Except.ok (kv.1, v) : Except Err (String × Val K))) =
    .ok (kw'.map fun kv => (kv.1, wrapRRT P' kv.2)) := by
  apply forall2_mapM_map
  unfold KwRel at h
  induction h with
  | nil => exact .nil
  | cons hxy _ ih =>
    refine .cons ?_ ih
    obtain ⟨h1, h2⟩ := hxy
    unfold ArgRel at h2
    simp only [h2, h1, bind, Except.bind]

/-- **One statement.** The operation the substituted statement gives is the instantiation of
the operation the template statement gives; the modes are the same. -/
theorem stmtEffect_substP (hr : RecipLaw K) (σ : List (String × Val K)) (ρ : String → Option (Num K))
    (hσ : numericAssignment σ ρ) (o : SetOrder Int) (T T' : Tables K) (hT : T.Plain) (hTT : TEq T T') (s : Stmt)
    (hn : ∀ a, s.args = some a → a.noReg = true)
    (hp : ∀ a, s.args = some a → ∀ p ∈ a.pars, (ρ p).isSome = true)
    (r r' : List Int × List (Op K))
    (h1 : stmtEffect o [] T s = .ok r) (h2 : stmtEffect o [] T' (substPStmt ρ s) = .ok r') :
    r'.1 = r.1 ∧ r.2.mapM (substOp σ) = .ok r'.2 := by
  unfold stmtEffect at h1 h2
  simp only [dictGet] at h1 h2
  generalize (T'.params ++ stmtPars (substPStmt ρ s)) = P' at h2
  have hm : (substPStmt ρ s).modes.mapM (evalMode T') = s.modes.mapM (evalMode T) := by
    simp only [substPStmt]
    congr 1
    funext e
    exact evalMode_TEq T T' hTT e
  rw [hm] at h2
  obtain ⟨modes, hmodes, h1⟩ := (bind_eq_ok _ _ _).1 h1
  obtain ⟨modes', hmodes', h2⟩ := (bind_eq_ok _ _ _).1 h2
  rw [hmodes] at hmodes'; cases hmodes'
  cases hs : s.args with
  | none =>
    simp only [hs, substPStmt, Option.map_none, pure, Except.pure, bind, Except.bind] at h1 h2
    cases h1; cases h2
    exact ⟨rfl, rfl⟩
  | some a =>
    simp only [hs, substPStmt, Option.map_some, evalArgs_TEq T T' hTT] at h1 h2
    obtain ⟨pk, hpk, h1⟩ := (bind_eq_ok _ _ _).1 h1
    obtain ⟨pk', hpk', h2⟩ := (bind_eq_ok _ _ _).1 h2
    obtain ⟨pos, kw⟩ := pk
    obtain ⟨pos', kw'⟩ := pk'
    simp only [pure, Except.pure, bind, Except.bind] at h1 h2
    cases h1; cases h2
    refine ⟨rfl, ?_⟩
    simp only [evalArgs, substPArgs] at hpk hpk'
    obtain ⟨pos0, hpos, hpk⟩ := (bind_eq_ok _ _ _).1 hpk
    obtain ⟨kw0, hkw, hpk⟩ := (bind_eq_ok _ _ _).1 hpk
    obtain ⟨pos0', hpos', hpk'⟩ := (bind_eq_ok _ _ _).1 hpk'
    obtain ⟨kw0', hkw', hpk'⟩ := (bind_eq_ok _ _ _).1 hpk'
    cases hpk; cases hpk'
    have hna := hn a hs
    simp only [Args.noReg, Bool.and_eq_true, List.all_eq_true] at hna
    have hpa := hp a hs
    have hP : ∀ p ∈ a.pars, (T.params ++ stmtPars s).contains (.sym p) = true := by
      intro p hp
      simp only [stmtPars, hs, List.contains_eq_mem, List.mem_append, List.mem_map, decide_eq_true_eq]
      exact .inr ⟨p, hp, rfl⟩
    have hposrel := mapM_rel (evalArgVal T) (evalArgVal T) (substPArgVal ρ)
      (ArgRel σ (T.params ++ stmtPars s) P') a.pos pos pos'
      (fun b hb v w hv hw => evalArgVal_rel hr σ ρ hσ T hT _ _ b (hna.1 b hb)
        (fun p hpp => ⟨hpa p (by simp only [Args.pars, List.mem_append, List.mem_flatMap]; exact .inl ⟨b, hb, hpp⟩),
                       hP p (by simp only [Args.pars, List.mem_append, List.mem_flatMap]; exact .inl ⟨b, hb, hpp⟩)⟩)
        v w hv hw) hpos hpos'
    have hkwrel := evalKwargs_rel hr σ ρ hσ T hT (T.params ++ stmtPars s) P'
      a.kw [] [] kw kw' (fun kv hkv => hna.2 kv hkv)
      (fun kv hkv p hpp =>
        ⟨hpa p (by simp only [Args.pars, List.mem_append, List.mem_flatMap]; exact .inr ⟨kv, hkv, hpp⟩),
         hP p (by simp only [Args.pars, List.mem_append, List.mem_flatMap]; exact .inr ⟨kv, hkv, hpp⟩)⟩)
      .nil hkw hkw'
    simp only [List.mapM_cons, List.mapM_nil, substOp]
    rw [forall2_mapM_map (substVal σ) _ _ pos pos' hposrel]
    have hkwm := kwRel_mapM σ _ _ kw kw' hkwrel
    rw [hkwm]
    rfl

/-! ### the substituted text registers no parameter -/

omit [LawfulFmt K] in
theorem substP_pars (ρ : String → Option (Num K)) (e : Expr) (hp : ∀ p ∈ e.pars, (ρ p).isSome = true) :
    (substP ρ e).pars = [] := by
  induction e with
  | par p =>
    have := hp p (by simp [Expr.pars])
    cases hρ : ρ p with
    | none => simp [hρ] at this
    | some n => simp only [substP, hρ, Expr.pars, exprOfNum_pars]
  | num _ _ => rfl
  | var _ _ => rfl
  | reg _ => rfl
  | idx x pos i ih => simp only [Expr.pars] at hp; simp only [substP, Expr.pars, ih hp]
  | brk e ih => simp only [Expr.pars] at hp; simp only [substP, Expr.pars, ih hp]
  | pos e ih => simp only [Expr.pars] at hp; simp only [substP, Expr.pars, ih hp]
  | neg e ih => simp only [Expr.pars] at hp; simp only [substP, Expr.pars, ih hp]
  | fn f e ih => simp only [Expr.pars] at hp; simp only [substP, Expr.pars, ih hp]
  | add a b iha ihb =>
    simp only [Expr.pars, List.mem_append] at hp
    simp only [substP, Expr.pars, iha (fun p h => hp p (.inl h)), ihb (fun p h => hp p (.inr h)), List.append_nil]
  | sub a b iha ihb =>
    simp only [Expr.pars, List.mem_append] at hp
    simp only [substP, Expr.pars, iha (fun p h => hp p (.inl h)), ihb (fun p h => hp p (.inr h)), List.append_nil]
  | mul a b iha ihb =>
    simp only [Expr.pars, List.mem_append] at hp
    simp only [substP, Expr.pars, iha (fun p h => hp p (.inl h)), ihb (fun p h => hp p (.inr h)), List.append_nil]
  | div a b iha ihb =>
    simp only [Expr.pars, List.mem_append] at hp
    simp only [substP, Expr.pars, iha (fun p h => hp p (.inl h)), ihb (fun p h => hp p (.inr h)), List.append_nil]
  | pow a b iha ihb =>
    simp only [Expr.pars, List.mem_append] at hp
    simp only [substP, Expr.pars, iha (fun p h => hp p (.inl h)), ihb (fun p h => hp p (.inr h)), List.append_nil]

omit [LawfulFmt K] in
theorem substPArgVal_pars (ρ : String → Option (Num K)) (a : ArgVal) (hp : ∀ p ∈ a.pars, (ρ p).isSome = true) :
    (substPArgVal ρ a).pars = [] := by
  cases a with
  | expr e => exact substP_pars ρ e hp
  | str _ => rfl
  | bool _ => rfl

omit [Scalar K] [Fmt K] [LawfulFmt K] in
theorem flatMap_nil_of_forall {α β : Type} (l : List α) (f : α → List β) (h : ∀ a ∈ l, f a = []) : l.flatMap f = [] := by
  induction l with
  | nil => rfl
  | cons a t ih => simp only [List.flatMap_cons, h a (by simp), ih (fun b hb => h b (List.mem_cons_of_mem _ hb)), List.append_nil]

omit [LawfulFmt K] in
theorem substPArgs_pars (ρ : String → Option (Num K)) (a : Args) (hp : ∀ p ∈ a.pars, (ρ p).isSome = true) :
    (substPArgs ρ a).pars = [] := by
  simp only [Args.pars, List.mem_append, List.mem_flatMap] at hp
  simp only [Args.pars, substPArgs, List.flatMap_map]
  rw [flatMap_nil_of_forall, flatMap_nil_of_forall]
  · rfl
  · intro kv hkv
    cases hk : kv.2 with
    | one v =>
      simp only [substPKwVal, KwVal.pars]
      exact substPArgVal_pars ρ v (fun p h => hp p (.inr ⟨kv, hkv, by simp [hk, KwVal.pars, h]⟩))
    | list vs =>
      simp only [substPKwVal, KwVal.pars, List.flatMap_map]
      apply flatMap_nil_of_forall
      intro b hb
      exact substPArgVal_pars ρ b (fun p h => hp p (.inr ⟨kv, hkv, by
        simp only [hk, KwVal.pars, List.mem_flatMap]; exact ⟨b, hb, h⟩⟩))
  · intro b hb
    exact substPArgVal_pars ρ b (fun p h => hp p (.inl ⟨b, hb, h⟩))

omit [LawfulFmt K] in
theorem stmtPars_substP (ρ : String → Option (Num K)) (s : Stmt) (hp : ∀ p ∈ s.parsL, (ρ p).isSome = true) :
    stmtPars (substPStmt ρ s) = [] := by
  unfold stmtPars substPStmt
  cases hs : s.args with
  | none => rfl
  | some a =>
    simp only [Option.map_some, List.map_eq_nil_iff]
    exact substPArgs_pars ρ a (by simpa [Stmt.parsL, hs] using hp)

/-! ### where nothing is written there is nothing to substitute -/

omit [Scalar K] [LawfulFmt K] in
theorem substP_id (ρ : String → Option (Num K)) (e : Expr) (hp : e.pars = []) : substP ρ e = e := by
  induction e with
  | par p => simp [Expr.pars] at hp
  | num _ _ => rfl
  | var _ _ => rfl
  | reg _ => rfl
  | idx x pos i ih => simp only [Expr.pars] at hp; simp only [substP, ih hp]
  | brk e ih => simp only [Expr.pars] at hp; simp only [substP, ih hp]
  | pos e ih => simp only [Expr.pars] at hp; simp only [substP, ih hp]
  | neg e ih => simp only [Expr.pars] at hp; simp only [substP, ih hp]
  | fn f e ih => simp only [Expr.pars] at hp; simp only [substP, ih hp]
  | add a b iha ihb => simp only [Expr.pars, List.append_eq_nil_iff] at hp; simp only [substP, iha hp.1, ihb hp.2]
  | sub a b iha ihb => simp only [Expr.pars, List.append_eq_nil_iff] at hp; simp only [substP, iha hp.1, ihb hp.2]
  | mul a b iha ihb => simp only [Expr.pars, List.append_eq_nil_iff] at hp; simp only [substP, iha hp.1, ihb hp.2]
  | div a b iha ihb => simp only [Expr.pars, List.append_eq_nil_iff] at hp; simp only [substP, iha hp.1, ihb hp.2]
  | pow a b iha ihb => simp only [Expr.pars, List.append_eq_nil_iff] at hp; simp only [substP, iha hp.1, ihb hp.2]

omit [Scalar K] [LawfulFmt K] in
theorem substPArgVal_id (ρ : String → Option (Num K)) (a : ArgVal) (hp : a.pars = []) : substPArgVal ρ a = a := by
  cases a with
  | expr e => simp only [substPArgVal, substP_id ρ e hp]
  | str _ => rfl
  | bool _ => rfl

omit [Scalar K] [LawfulFmt K] in
theorem substPHeader_id (ρ : String → Option (Num K)) (h : LoopHeader) (hp : h.pars = []) : substPHeader ρ h = h := by
  cases h with
  | range a b c => rfl
  | list lb vs rb =>
    simp only [LoopHeader.pars, List.flatMap_eq_nil_iff] at hp
    simp only [substPHeader]
    congr 1
    conv => rhs; rw [← List.map_id vs]
    apply List.map_congr_left
    intro a ha
    exact substPArgVal_id ρ a (hp a ha)

/-! ### statement sequences, loops, scripts -/

omit [Scalar K] [Fmt K] [LawfulFmt K] in
theorem contains_pname_append_sym (l : List PEntry) (ps : List String) (x : String) :
    (l ++ ps.map PEntry.sym).contains (.pname x) = l.contains (.pname x) := by
  rw [Bool.eq_iff_iff]
  simp [List.mem_append]

/-- the state of the template's walk and the state of the substituted text's walk -/
structure Inv (σ : List (String × Val K)) (st st' : LState K) : Prop where
  teq : TEq st.tables st'.tables
  plain : st.tables.Plain
  modes : st'.modes = st.modes
  ops : st.ops.mapM (substOp σ) = .ok st'.ops
  nosym : ∀ e ∈ st'.tables.params, ∀ p, e ≠ .sym p

theorem execStmt_inv (hr : RecipLaw K) (σ : List (String × Val K)) (ρ : String → Option (Num K))
    (hσ : numericAssignment σ ρ) (o : SetOrder Int) (s : Stmt) (hok : s.tplOK = true)
    (hp : ∀ p ∈ s.parsL, (ρ p).isSome = true) (st st' st1 st1' : LState K) (hi : Inv σ st st')
    (h1 : execStmt o [] st s = .ok st1) (h2 : execStmt o [] st' (substPStmt ρ s) = .ok st1') : Inv σ st1 st1' := by
  unfold execStmt at h1 h2
  simp only at h1 h2
  split at h1
  · rename_i modes ops hse
    split at h2
    · rename_i modes' ops' hse'
      cases h1; cases h2
      have := stmtEffect_substP hr σ ρ hσ o st.tables st'.tables hi.plain hi.teq s
        (fun a ha => by simpa [Stmt.tplOK, ha] using hok)
        (fun a ha => by simpa [Stmt.parsL, ha] using hp) _ _ hse hse'
      simp only at this
      refine ⟨⟨hi.teq.1, ?_⟩, hi.plain, ?_, ?_, ?_⟩
      · intro x
        simp only [stmtPars_substP ρ s hp, List.append_nil]
        rw [hi.teq.2 x]
        unfold stmtPars
        cases s.args with
        | none => simp
        | some a => exact (contains_pname_append_sym _ _ _).symm
      · simp only [hi.modes, this.1]
      · simp only [List.mapM_append, hi.ops, this.2, bind, Except.bind, pure, Except.pure]
      · simp only [stmtPars_substP ρ s hp, List.append_nil]
        exact hi.nosym
    · cases h2
  · cases h1

theorem execBody_inv (hr : RecipLaw K) (σ : List (String × Val K)) (ρ : String → Option (Num K))
    (hσ : numericAssignment σ ρ) (o : SetOrder Int) (body : List Stmt) :
    ∀ (st st' st1 st1' : LState K), (∀ s ∈ body, s.tplOK = true) →
    (∀ s ∈ body, ∀ p ∈ s.parsL, (ρ p).isSome = true) → Inv σ st st' →
    body.foldlM (execStmt o []) st = .ok st1 →
    (body.map (substPStmt ρ)).foldlM (execStmt o []) st' = .ok st1' → Inv σ st1 st1' := by
  induction body with
  | nil => intro st st' st1 st1' _ _ hi h1 h2; cases h1; cases h2; exact hi
  | cons s t ih =>
    intro st st' st1 st1' hok hp hi h1 h2
    simp only [List.map_cons, List.foldlM_cons] at h1 h2
    obtain ⟨sa, hsa, h1⟩ := (bind_eq_ok _ _ _).1 h1
    obtain ⟨sa', hsa', h2⟩ := (bind_eq_ok _ _ _).1 h2
    exact ih sa sa' st1 st1' (fun s h => hok s (List.mem_cons_of_mem _ h)) (fun s h => hp s (List.mem_cons_of_mem _ h))
      (execStmt_inv hr σ ρ hσ o s (hok s (by simp)) (hp s (by simp)) st st' sa sa' hi hsa hsa') h1 h2

omit [Fmt K] [LawfulFmt K] in
theorem castLoopVal_plain (ty : VarType) (v cv : Val K) (h : castLoopVal ty v = .ok cv) : cv.plain = true := by
  unfold castLoopVal at h
  repeat' split at h
  all_goals first
    | (cases h; rfl)
    | cases h

omit [Fmt K] [LawfulFmt K] in
theorem plain_dictSet (T : Tables K) (hT : T.Plain) (x : String) (v : Val K) (hv : v.plain = true) :
    ({ T with vars := dictSet T.vars x v } : Tables K).Plain := by
  intro e he
  rcases mem_dictSet _ _ _ _ he with h | h
  · exact hT e h
  · subst h; exact hv

omit [Fmt K] [LawfulFmt K] in
theorem plain_dictErase (T : Tables K) (hT : T.Plain) (x : String) :
    ({ T with vars := dictErase T.vars x } : Tables K).Plain :=
  fun e he => hT e (List.mem_filter.1 he).1

/-! ### array declarations without parameters -/

omit [Fmt K] [LawfulFmt K] in
theorem evalElem_plain (T : Tables K) (hT : T.Plain) (e : Expr) (hn : e.noReg = true) (hp : elemPars e = [])
    (x : Option (Val K) × Option String) (h : evalElem T e = .ok x) : ∃ v, x = (some v, none) ∧ v.plain = true := by
  cases e with
  | par p => simp [elemPars] at hp
  | _ =>
    simp only [evalElem] at h
    obtain ⟨v, hv, h⟩ := (bind_eq_ok _ _ _).1 h
    cases h
    exact ⟨v, rfl, evalExpr_plain T hT _ hn (by simpa [elemPars] using hp) v hv⟩

omit [Fmt K] [LawfulFmt K] in
theorem evalElem_TEq (T T' : Tables K) (h : TEq T T') : evalElem T' = evalElem T := by
  funext e
  cases e <;> simp only [evalElem, evalExpr_TEq T T' h]

omit [Scalar K] [Fmt K] [LawfulFmt K] in
/-- element-wise facts carried through a `mapM` -/
theorem mapM_forall {α β ε : Type} (f : α → Except ε β) (P : β → Prop) (l : List α) :
    ∀ ys, (∀ a ∈ l, ∀ y, f a = .ok y → P y) → l.mapM f = .ok ys → ∀ y ∈ ys, P y := by
  induction l with
  | nil => intro ys _ h; cases h; simp
  | cons a t ih =>
    intro ys hP h
    simp only [List.mapM_cons] at h
    obtain ⟨y, hy, h⟩ := (bind_eq_ok _ _ _).1 h
    obtain ⟨ys', hys, h⟩ := (bind_eq_ok _ _ _).1 h
    cases h
    intro z hz
    rcases List.mem_cons.1 hz with rfl | hz
    · exact hP a (by simp) _ hy
    · exact ih ys' (fun b hb => hP b (List.mem_cons_of_mem _ hb)) hys z hz

omit [Fmt K] [LawfulFmt K] in
theorem castRowElem_isNum (ty : VarType) (name : String) (pos : Pos) (v : Val K) (e : SExpr K)
    (h : castRowElem ty name pos (some v, none) = .ok e) : e.isNum = true := by
  simp only [castRowElem] at h
  split at h
  · cases h; rfl
  · cases h
  · cases h

omit [Scalar K] [Fmt K] [LawfulFmt K] in
theorem assemble_plain (dt : DType) (shp : Option (List Nat)) (crows : List (List (SExpr K))) (v : Val K)
    (hc : ∀ r ∈ crows, ∀ e ∈ r, e.isNum = true) (h : assemble dt shp crows = .ok v) : v.plain = true := by
  have hflat : ((crows.flatMap id).all SExpr.isNum) = true := by
    simp only [List.all_eq_true, List.mem_flatMap, id]
    rintro e ⟨r, hr, he⟩
    exact hc r hr e he
  unfold assemble at h
  split at h
  · cases h
  · split at h
    · cases h
    · simp only at h
      split at h
      · split at h
        · cases h
        · cases h; exact hflat
      · cases h; exact hflat


omit [Scalar K] [LawfulFmt K] in
theorem substPBody_id (ρ : String → Option (Num K)) (rows : List (List Expr))
    (h : ∀ r ∈ rows, ∀ e ∈ r, elemPars e = []) : substPBody ρ (.rows rows) = .rows rows := by
  simp only [substPBody]
  congr 1
  conv => rhs; rw [← List.map_id rows]
  apply List.map_congr_left
  intro r hr
  conv => rhs; rw [id, ← List.map_id r]
  apply List.map_congr_left
  intro e he
  have := h r hr e he
  cases e with
  | par p => simp [elemPars] at this
  | _ => exact substP_id ρ _ (by simpa [elemPars] using this)

omit [Scalar K] [Fmt K] [LawfulFmt K] in
theorem contains_pname_snoc (l l' : List PEntry) (a : PEntry) (h : ∀ x, l'.contains (.pname x) = l.contains (.pname x))
    (x : String) : (l' ++ [a]).contains (.pname x) = (l ++ [a]).contains (.pname x) := by
  have := h x
  simp only [List.contains_eq_mem, List.mem_append, List.mem_singleton] at this ⊢
  rw [Bool.eq_iff_iff] at this ⊢
  simp only [decide_eq_true_eq] at this ⊢
  rw [this]

omit [Fmt K] [LawfulFmt K] in
/-- an array declaration without parameters: both walks store the same plain array -/
theorem arrEffect_inv (tdm : Bool) (T T' : Tables K) (hT : T.Plain) (hTT : TEq T T') (ty : VarType) (pos : Pos)
    (n : VName) (shape : Option (List String)) (rows : List (List Expr))
    (hrows : ∀ r ∈ rows, ∀ e ∈ r, e.noReg = true ∧ elemPars e = [])
    (hs : ∀ e ∈ T'.params, ∀ p, e ≠ .sym p) (R R' : Tables K)
    (h1 : arrEffect tdm T ty pos n shape (.rows rows) = .ok R)
    (h2 : arrEffect tdm T' ty pos n shape (.rows rows) = .ok R') :
    TEq R R' ∧ R.Plain ∧ ∀ e ∈ R'.params, ∀ p, e ≠ .sym p := by
  have hpars : (rows.flatMap fun r => r.flatMap elemPars) = [] :=
    flatMap_nil_of_forall _ _ fun r hr => flatMap_nil_of_forall _ _ fun e he => (hrows r hr e he).2
  unfold arrEffect at h1 h2
  simp only [hpars, List.map_nil, List.append_nil, evalElem_TEq T T' hTT] at h1 h2
  obtain ⟨_, _, h1⟩ := (bind_eq_ok _ _ _).1 h1
  obtain ⟨_, _, h2⟩ := (bind_eq_ok _ _ _).1 h2
  obtain ⟨erows, herows, h1⟩ := (bind_eq_ok _ _ _).1 h1
  obtain ⟨erows', herows', h2⟩ := (bind_eq_ok _ _ _).1 h2
  cases hm : rows.mapM (fun r => r.mapM (evalElem T)) with
  | error e => simp [hm, liftE] at herows
  | ok er =>
    simp only [hm, liftE, Except.ok.injEq] at herows herows'
    subst herows herows'
    -- every evaluated element is a plain value, none is a parameter
    have her : ∀ r ∈ er, ∀ x ∈ r, ∃ v, x = (some v, none) ∧ v.plain = true :=
      mapM_forall _ (fun r => ∀ x ∈ r, ∃ v, x = (some v, none) ∧ v.plain = true) rows er
        (fun r hr ys hys => mapM_forall _ _ r ys
          (fun e he x hx => evalElem_plain T hT e (hrows r hr e he).1 (hrows r hr e he).2 x hx) hys) hm
    have hph : (er.flatMap id).filterMap (·.2) = [] := by
      apply List.filterMap_eq_nil_iff.2
      intro x hx
      obtain ⟨r, hr, hxr⟩ := List.mem_flatMap.1 hx
      obtain ⟨v, rfl, _⟩ := her r hr x hxr
      rfl
    cases hd : dtypeOf ty with
    | none => simp [hd] at h1
    | some dt =>
      simp only [hd] at h1 h2
      obtain ⟨crows, hcrows, h1⟩ := (bind_eq_ok _ _ _).1 h1
      obtain ⟨crows', hcrows', h2⟩ := (bind_eq_ok _ _ _).1 h2
      cases hcm : er.mapM (fun r => r.mapM (castRowElem ty n.text pos)) with
      | error e => simp [hcm, liftE] at hcrows
      | ok cr =>
        simp only [hcm, liftE, Except.ok.injEq] at hcrows hcrows'
        subst hcrows hcrows'
        have hcr : ∀ r ∈ cr, ∀ e ∈ r, e.isNum = true :=
          mapM_forall _ (fun r => ∀ e ∈ r, SExpr.isNum e = true) er cr
            (fun r hr ys hys => mapM_forall _ _ r ys
              (fun x hx e he => by
                obtain ⟨v, rfl, _⟩ := her r hr x hx
                exact castRowElem_isNum ty n.text pos v e he) hys) hcm
        simp only [hph, List.length_nil, Nat.zero_ne_one, decide_false, Bool.and_false, Bool.false_eq_true,
          if_false, List.isEmpty_nil, if_true] at h1 h2
        cases ha : assemble dt (shape.map (·.map digitsToNat)) cr with
        | error e => cases e <;> simp [ha] at h1
        | ok v =>
          simp only [ha, Except.ok.injEq] at h1 h2
          subst h1 h2
          have hv := assemble_plain dt _ cr v hcr ha
          unfold finishArr
          simp only
          split
          · refine ⟨⟨by simp only [hTT.1], fun x => contains_pname_snoc _ _ _ hTT.2 x⟩, ?_, ?_⟩
            · exact plain_dictSet _ hT _ _ hv
            · intro e he p
              rcases List.mem_append.1 he with he | he
              · exact hs e he p
              · simp only [List.mem_singleton] at he; subst he; simp
          · exact ⟨⟨by simp only [hTT.1], hTT.2⟩, plain_dictSet _ hT _ _ hv, hs⟩

theorem execLoopVals_inv (hr : RecipLaw K) (σ : List (String × Val K)) (ρ : String → Option (Num K))
    (hσ : numericAssignment σ ρ) (o : SetOrder Int) (ty : VarType) (x : String) (body : List Stmt)
    (hok : ∀ s ∈ body, s.tplOK = true) (hp : ∀ s ∈ body, ∀ p ∈ s.parsL, (ρ p).isSome = true) (vals : List (Val K)) :
    ∀ (st st' st1 st1' : LState K), Inv σ st st' →
    execLoopVals o [] ty x body vals st = .ok st1 →
    execLoopVals o [] ty x (body.map (substPStmt ρ)) vals st' = .ok st1' → Inv σ st1 st1' := by
  induction vals with
  | nil => intro st st' st1 st1' hi h1 h2; simp only [execLoopVals] at h1 h2; cases h1; cases h2; exact hi
  | cons v vs ih =>
    intro st st' st1 st1' hi h1 h2
    simp only [execLoopVals] at h1 h2
    obtain ⟨cv, hcv, h1⟩ := (bind_eq_ok _ _ _).1 h1
    obtain ⟨cv', hcv', h2⟩ := (bind_eq_ok _ _ _).1 h2
    cases hc : castLoopVal ty v with
    | error e => simp [hc, liftE] at hcv
    | ok c =>
      simp only [hc, liftE, Except.ok.injEq] at hcv hcv'
      subst hcv hcv'
      obtain ⟨sa, hsa, h1⟩ := (bind_eq_ok _ _ _).1 h1
      obtain ⟨sa', hsa', h2⟩ := (bind_eq_ok _ _ _).1 h2
      have hi' : Inv σ { st with tables := { st.tables with vars := dictSet st.tables.vars x c } }
          { st' with tables := { st'.tables with vars := dictSet st'.tables.vars x c } } :=
        ⟨⟨by simp only [hi.teq.1], hi.teq.2⟩, plain_dictSet _ hi.plain x c (castLoopVal_plain ty v c hc),
         hi.modes, hi.ops, hi.nosym⟩
      exact ih sa sa' st1 st1' (execBody_inv hr σ ρ hσ o body _ _ sa sa' hok hp hi' hsa hsa') h1 h2

omit [Fmt K] [LawfulFmt K] in
theorem loopVals_TEq (T T' : Tables K) (h : TEq T T') (hd : LoopHeader) : loopVals T' hd = loopVals T hd := by
  cases hd with
  | range a b c => rfl
  | list lb vs rb => simp only [loopVals, evalArgVal_TEq T T' h]

theorem execItem_inv (hr : RecipLaw K) (σ : List (String × Val K)) (ρ : String → Option (Num K))
    (hσ : numericAssignment σ ρ) (o : SetOrder Int) (tdm : Bool) (it : Item) (hok : it.tplOK = true)
    (hp : ∀ p ∈ it.parsL, (ρ p).isSome = true) (st st' st1 st1' : LState K) (hi : Inv σ st st')
    (h1 : execItem o tdm [] st it = .ok st1) (h2 : execItem o tdm [] st' (substPItem ρ it) = .ok st1') :
    Inv σ st1 st1' := by
  cases it with
  | var ty n init =>
    simp only [Item.tplOK, Bool.and_eq_true, List.isEmpty_iff] at hok
    simp only [substPItem, substPArgVal_id ρ init hok.2, execItem, execVar] at h1 h2
    split at h1
    · rename_i T1 hT1
      split at h2
      · rename_i T1' hT1'
        cases h1; cases h2
        simp only [varEffect, hok.2, List.map_nil, List.append_nil] at hT1 hT1'
        obtain ⟨_, _, hT1⟩ := (bind_eq_ok _ _ _).1 hT1
        obtain ⟨_, _, hT1'⟩ := (bind_eq_ok _ _ _).1 hT1'
        obtain ⟨v, hv, hT1⟩ := (bind_eq_ok _ _ _).1 hT1
        obtain ⟨v', hv', hT1'⟩ := (bind_eq_ok _ _ _).1 hT1'
        obtain ⟨fv, hfv, hT1⟩ := (bind_eq_ok _ _ _).1 hT1
        obtain ⟨fv', hfv', hT1'⟩ := (bind_eq_ok _ _ _).1 hT1'
        cases hT1; cases hT1'
        rw [evalArgVal_TEq st.tables st'.tables hi.teq] at hv'
        cases he : evalArgVal st.tables init with
        | error e => simp [he, liftE] at hv
        | ok v0 =>
          simp only [he, liftE, Except.ok.injEq] at hv hv'
          subst hv hv'
          cases hc : castScalar ty v0 with
          | error e => simp [hc, liftE] at hfv
          | ok f0 =>
            simp only [hc, liftE, Except.ok.injEq] at hfv hfv'
            subst hfv hfv'
            have hv0 : v0.plain = true := by
              cases init with
              | expr e =>
                simp only [ArgVal.noReg, ArgVal.pars] at hok
                exact evalExpr_plain st.tables hi.plain e hok.1 hok.2 v0 he
              | str raw => simp only [evalArgVal] at he; cases he; rfl
              | bool b => simp only [evalArgVal] at he; cases he; rfl
            exact ⟨⟨by simp only [hi.teq.1], hi.teq.2⟩,
              plain_dictSet _ hi.plain _ _ (castScalar_plain ty v0 f0 hv0 hc), hi.modes, hi.ops, hi.nosym⟩
      · cases h2
    · cases h1
  | arr ty pos n shape body =>
    cases body with
    | bare p => simp [Item.tplOK] at hok
    | rows rows =>
      simp only [Item.tplOK, List.all_eq_true, Bool.and_eq_true, List.isEmpty_iff] at hok
      simp only [substPItem, substPBody_id ρ rows (fun r hr e he => (hok r hr e he).2), execItem, execArr] at h1 h2
      split at h1
      · rename_i R hR
        split at h2
        · rename_i R' hR'
          cases h1; cases h2
          obtain ⟨a, b, c⟩ := arrEffect_inv tdm st.tables st'.tables hi.plain hi.teq ty pos n shape rows hok hi.nosym R R' hR hR'
          exact ⟨a, b, hi.modes, hi.ops, c⟩
        · cases h2
      · cases h1
  | stmt s =>
    simp only [substPItem, execItem] at h1 h2
    exact execStmt_inv hr σ ρ hσ o s (by simpa [Item.tplOK] using hok) (by simpa [Item.parsL] using hp) st st' st1 st1' hi h1 h2
  | loop ty x h body =>
    simp only [Item.tplOK, Bool.and_eq_true, List.isEmpty_iff, List.all_eq_true] at hok
    simp only [Item.parsL, List.mem_flatMap] at hp
    simp only [substPItem, substPHeader_id ρ h hok.1, execItem, execLoop, hok.1, List.map_nil, List.append_nil] at h1 h2
    obtain ⟨raw, hraw, h1⟩ := (bind_eq_ok _ _ _).1 h1
    obtain ⟨raw', hraw', h2⟩ := (bind_eq_ok _ _ _).1 h2
    obtain ⟨sa, hsa, h1⟩ := (bind_eq_ok _ _ _).1 h1
    obtain ⟨sa', hsa', h2⟩ := (bind_eq_ok _ _ _).1 h2
    cases h1; cases h2
    rw [loopVals_TEq st.tables st'.tables hi.teq] at hraw'
    cases hl : loopVals st.tables h with
    | error e => simp [hl, liftE] at hraw
    | ok vals =>
      simp only [hl, liftE, Except.ok.injEq] at hraw hraw'
      subst hraw hraw'
      have hi' := execLoopVals_inv hr σ ρ hσ o ty x body hok.2 (fun s hs p hpp => hp p ⟨s, hs, hpp⟩) vals
        _ _ sa sa' ⟨hi.teq, hi.plain, hi.modes, hi.ops, hi.nosym⟩ hsa hsa'
      exact ⟨⟨by simp only [hi'.teq.1], hi'.teq.2⟩, plain_dictErase _ hi'.plain x, hi'.modes, hi'.ops, hi'.nosym⟩

theorem execItems_inv (hr : RecipLaw K) (σ : List (String × Val K)) (ρ : String → Option (Num K))
    (hσ : numericAssignment σ ρ) (o : SetOrder Int) (tdm : Bool) (items : List Item) :
    ∀ (st st' st1 st1' : LState K), (∀ it ∈ items, it.tplOK = true) →
    (∀ it ∈ items, ∀ p ∈ it.parsL, (ρ p).isSome = true) → Inv σ st st' →
    items.foldlM (execItem o tdm []) st = .ok st1 →
    (items.map (substPItem ρ)).foldlM (execItem o tdm []) st' = .ok st1' → Inv σ st1 st1' := by
  induction items with
  | nil => intro st st' st1 st1' _ _ hi h1 h2; cases h1; cases h2; exact hi
  | cons it t ih =>
    intro st st' st1 st1' hok hp hi h1 h2
    simp only [List.map_cons, List.foldlM_cons] at h1 h2
    obtain ⟨sa, hsa, h1⟩ := (bind_eq_ok _ _ _).1 h1
    obtain ⟨sa', hsa', h2⟩ := (bind_eq_ok _ _ _).1 h2
    exact ih sa sa' st1 st1' (fun s h => hok s (List.mem_cons_of_mem _ h)) (fun s h => hp s (List.mem_cons_of_mem _ h))
      (execItem_inv hr σ ρ hσ o tdm it (hok it (by simp)) (hp it (by simp)) st st' sa sa' hi hsa hsa') h1 h2

end Blackbird
