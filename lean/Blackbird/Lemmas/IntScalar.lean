/-
  A lawful, non-degenerate instance of the number-formatting hypotheses of C01 / C09: the integers
  printed in decimal. It shows that `LawfulFmt` is consistent with the model's own literal reader
  (`digitsToNat`, `splitComplex`) — the complex literal `-12+34j` really is split and read back as
  (-12, 34) — so the round-trip theorems are not vacuous.
-/
import Blackbird.Lemmas.Unparse

namespace Blackbird

structure IS where
  v : Int
  deriving DecidableEq, Repr, Inhabited

def digitsVal (cs : List Char) : Nat := cs.foldl (fun n c => 10 * n + (c.toNat - 48)) 0

def isOfDecimal (s : String) : IS :=
  match s.toList with
  | '-' :: r => ⟨-(digitsVal r : Int)⟩
  | '+' :: r => ⟨(digitsVal r : Int)⟩
  | r => ⟨(digitsVal r : Int)⟩

instance : Scalar IS where
  ofInt i := ⟨i⟩
  ofDecimal := isOfDecimal
  pi := ⟨3⟩
  add a b := ⟨a.v + b.v⟩
  mul a b := ⟨a.v * b.v⟩
  neg a := ⟨-a.v⟩
  inv a := a
  div a b := ⟨a.v / b.v⟩
  pow a _ := a
  powInt a _ := a
  fn _ a := a
  cinv a := a
  cpow a _ := a
  cfn _ _ := none
  trunc a := some a.v
  isZero a := a.v = 0
  beq a b := a.v = b.v
  solveEq a b := a.v = b.v
  finite _ := true

instance : Fmt IS where
  signbit x := x.v < 0
  lt0 x := x.v < 0
  abs x := ⟨x.v.natAbs⟩
  fmtAbs x := toString x.v.natAbs

theorem digits_of_nat (n : Nat) : ∃ c cs, (toString n).toList = c :: cs ∧ ∀ d ∈ c :: cs, d.isDigit = true := by
  rw [Nat.toString_eq_repr, Nat.toList_repr]
  have hne := @Nat.toDigits_ne_nil n 10
  cases h : Nat.toDigits 10 n with
  | nil => exact absurd h hne
  | cons c cs =>
    refine ⟨c, cs, rfl, ?_⟩
    intro d hd
    exact Nat.isDigit_of_mem_toDigits (b := 10) (by decide) (by decide) (by rw [h]; exact hd)

theorem digitsVal_toString (n : Nat) : digitsVal (toString n).toList = n := by
  have := digitsToNat_toString n
  simpa [digitsToNat, digitsVal] using this

theorem digitsVal_toDigits (n : Nat) : digitsVal (Nat.toDigits 10 n) = n := by
  have := digitsVal_toString n
  rwa [Nat.toString_eq_repr, Nat.toList_repr] at this

theorem digit_not_sign (c : Char) (h : c.isDigit = true) : c ≠ '+' ∧ c ≠ '-' ∧ c ≠ 'e' ∧ c ≠ 'E' := by
  refine ⟨?_, ?_, ?_, ?_⟩ <;> (intro hc; subst hc; revert h; decide)

theorem isOfDecimal_nat (n : Nat) : isOfDecimal (toString n) = ⟨(n : Int)⟩ := by
  obtain ⟨c, cs, hcs, hd⟩ := digits_of_nat n
  have hv := digitsVal_toString n
  unfold isOfDecimal
  rw [hcs] at hv ⊢
  have := digit_not_sign c (hd c (by simp))
  split
  · rename_i r heq; cases heq; exact absurd rfl this.2.1
  · rename_i r heq; cases heq; exact absurd rfl this.1
  · simp [hv]

theorem isOfDecimal_signed (sign : Char) (n : Nat) :
    isOfDecimal (String.ofList (sign :: (toString n).toList)) =
      if sign = '-' then ⟨-(n : Int)⟩ else if sign = '+' then ⟨(n : Int)⟩ else isOfDecimal (String.ofList (sign :: (toString n).toList)) := by
  by_cases h1 : sign = '-'
  · subst h1
    simp [isOfDecimal, String.toList_ofList, digitsVal_toDigits]
  · by_cases h2 : sign = '+'
    · subst h2
      simp [isOfDecimal, String.toList_ofList, digitsVal_toDigits]
    · simp [h1, h2]

/-- the scan of `splitComplex` passes over digits without recording anything -/
theorem go_digits (l : List Char) (hl : ∀ c ∈ l, c.isDigit = true) (i : Nat) (prev : Char) (rest : List Char)
    (best : Option Nat) :
    splitComplex.go i prev (l ++ rest) best = splitComplex.go (i + l.length) (l.getLastD prev) rest best := by
  induction l generalizing i prev with
  | nil => simp
  | cons c t ih =>
    have hc := digit_not_sign c (hl c (by simp))
    simp only [List.cons_append, splitComplex.go]
    have : ((c = '+' || c = '-') && decide (i ≠ 0) && decide (prev ≠ 'e') && decide (prev ≠ 'E')) = false := by
      simp [hc.1, hc.2.1]
    simp only [this, Bool.false_eq_true, if_false]
    rw [ih (fun x hx => hl x (List.mem_cons_of_mem _ hx))]
    congr 1
    · simp only [List.length_cons]; omega
    · cases t with
      | nil => simp
      | cons d t' => simp [List.getLastD]


theorem getLastD_mem {α : Type} (l : List α) (d : α) (h : l ≠ []) : l.getLastD d ∈ l := by
  cases l with
  | nil => exact absurd rfl h
  | cons a t =>
    rw [List.getLastD_cons]
    induction t generalizing a with
    | nil => simp
    | cons b t ih =>
      rw [List.getLastD_cons]
      exact List.mem_cons_of_mem _ (ih b (by simp))

/-- where the scan ends up on `[-]digits(+|-)digits`: at the separating sign -/
theorem go_split (pre da db : List Char) (hpre : pre = [] ∨ pre = ['-']) (hda : da ≠ [])
    (hdad : ∀ c ∈ da, c.isDigit = true) (hdbd : ∀ c ∈ db, c.isDigit = true) (sb : Char) (hsb : sb = '+' ∨ sb = '-') :
    splitComplex.go 0 ' ' (pre ++ (da ++ sb :: db)) none = some (pre.length + da.length) := by
  have hstep : ∀ (i : Nat) (prev : Char), i + da.length ≠ 0 →
      splitComplex.go i prev (da ++ sb :: db) none = some (i + da.length) := by
    intro i prev hi
    rw [go_digits da hdad i prev (sb :: db) none]
    have hlast := digit_not_sign _ (hdad _ (getLastD_mem da prev hda))
    have hsign : (sb = '+' || sb = '-') = true := by rcases hsb with h | h <;> simp [h]
    simp only [splitComplex.go, hsign, Bool.true_and]
    have : (decide (i + da.length ≠ 0) && decide (da.getLastD prev ≠ 'e') && decide (da.getLastD prev ≠ 'E')) = true := by
      rw [decide_eq_true hi, decide_eq_true hlast.2.2.1, decide_eq_true hlast.2.2.2]; rfl
    simp only [this, if_true]
    have := go_digits db hdbd (i + da.length + 1) sb [] (some (i + da.length))
    simp only [List.append_nil] at this
    rw [this]
    rfl
  have hlen : 0 < da.length := List.length_pos_iff.mpr hda
  rcases hpre with h | h
  · subst h
    simpa using hstep 0 ' ' (by omega)
  · subst h
    simp only [List.cons_append, List.nil_append, splitComplex.go]
    have := hstep (0 + 1) '-' (by omega)
    simpa [Nat.add_comm] using this


theorem cplxText_toList (a b : IS) :
    (cplxText a b).toList =
      ((if a.v < 0 then ['-'] else []) ++ ((toString a.v.natAbs).toList ++
        (if b.v < 0 then '-' else '+') :: (toString b.v.natAbs).toList)) ++ ['j'] := by
  simp only [cplxText, Fmt.signbit, Fmt.lt0, Fmt.abs, Fmt.fmtAbs, Int.natAbs_natCast, String.toList_append]
  by_cases ha : a.v < 0 <;> by_cases hb : b.v < 0 <;> simp [ha, hb] <;> rfl

theorem splitComplex_cplxText (a b : IS) :
    splitComplex (cplxText a b) =
      (String.ofList ((if a.v < 0 then ['-'] else []) ++ (toString a.v.natAbs).toList),
       String.ofList ((if b.v < 0 then '-' else '+') :: (toString b.v.natAbs).toList)) := by
  obtain ⟨ca, csa, hda, hdad⟩ := digits_of_nat a.v.natAbs
  obtain ⟨cb, csb, hdb, hdbd⟩ := digits_of_nat b.v.natAbs
  have hgo := go_split (if a.v < 0 then ['-'] else []) (toString a.v.natAbs).toList (toString b.v.natAbs).toList
    (by by_cases h : a.v < 0 <;> simp [h]) (by rw [hda]; simp) (by rw [hda]; exact hdad) (by rw [hdb]; exact hdbd)
    (if b.v < 0 then '-' else '+') (by by_cases h : b.v < 0 <;> simp [h])
  unfold splitComplex
  simp only [cplxText_toList, List.dropLast_concat, hgo]
  rw [← List.append_assoc, List.take_left' (by simp), List.drop_left' (by simp)]

instance : LawfulFmt IS where
  real_pos x h := by
    have hx : ¬ x.v < 0 := by simpa [Fmt.signbit] using h
    show isOfDecimal (toString ((Fmt.abs x).v.natAbs)) = x
    simp only [Fmt.abs, Int.natAbs_natCast, isOfDecimal_nat]
    cases x with
    | mk v => simp only [IS.mk.injEq]; simp only at hx; omega
  real_neg x h := by
    have hx : x.v < 0 := by simpa [Fmt.signbit] using h
    show (⟨-(isOfDecimal (toString ((Fmt.abs x).v.natAbs))).v⟩ : IS) = x
    simp only [Fmt.abs, Int.natAbs_natCast, isOfDecimal_nat]
    cases x with
    | mk v => simp only [IS.mk.injEq]; simp only at hx; omega
  cplx_lit a b := by
    obtain ⟨ca, csa, hda, _⟩ := digits_of_nat a.v.natAbs
    simp only [evalNumber, splitComplex_cplxText]
    have hre : (String.ofList ((if a.v < 0 then ['-'] else []) ++ (toString a.v.natAbs).toList) = "") = False := by
      simp only [eq_iff_iff, iff_false]
      intro h
      have := congrArg String.toList h
      rw [String.toList_ofList, hda] at this
      by_cases ha : a.v < 0 <;> simp [ha] at this
    simp only [hre, if_false]
    congr 1
    · show isOfDecimal _ = a
      by_cases ha : a.v < 0
      · simp only [ha, if_true, List.cons_append, List.nil_append]
        rw [isOfDecimal_signed]
        simp only [if_true]
        cases a with
        | mk v => simp only [IS.mk.injEq]; simp only at ha; omega
      · simp only [ha, if_false, List.nil_append, String.ofList_toList, isOfDecimal_nat]
        cases a with
        | mk v => simp only [IS.mk.injEq]; simp only at ha; omega
    · show isOfDecimal _ = b
      rw [isOfDecimal_signed]
      by_cases hb : b.v < 0
      · simp only [hb, if_true]
        cases b with
        | mk v => simp only [IS.mk.injEq]; simp only at hb; omega
      · simp only [hb, if_false]
        have : ('+' = '-') = False := by decide
        simp only [this, if_false, if_true]
        cases b with
        | mk v => simp only [IS.mk.injEq]; simp only at hb; omega

/-- a concrete reading: the literal written for (-12, 34) is `-12+34j` and is read back exactly -/
example : cplxText (⟨-12⟩ : IS) ⟨34⟩ = "-12+34j" ∧
    evalNumber (K := IS) .complex "-12+34j" = .cplx ⟨-12⟩ ⟨34⟩ := by decide

end Blackbird
