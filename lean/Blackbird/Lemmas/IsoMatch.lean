/-
  Bridge between the abstract uniqueness theorem (Lemmas/IsoUnique.lean) and the model of
  `match_template`: any label- and edge-preserving isomorphism equals `labelIso`.
-/
import Blackbird.Lemmas.IsoUnique
import Blackbird.Match
namespace Blackbird
variable {K : Type} [Scalar K]

/-- label of the `i`-th operation (`none` outside the program) -/
def labOf (p : Program K) (i : Nat) : Option (String × List Int) := (p.ops[i]?).map opLabel

/-- every operation acts on at least one mode -/
def AllModes (p : Program K) : Prop := ∀ o ∈ p.ops, o.modes ≠ []

theorem modes_sub_wires (o : Op K) (q : Int) (h : q ∈ o.modes) : q ∈ opWires o := by
  unfold opWires
  exact mem_dedupI.mpr (List.mem_append_left _ h)

theorem nodes_all (p : Program K) (h : AllModes p) :
    (toDiGraph p).1.nodes = (List.range p.ops.length).filterMap fun i => (p.ops[i]?).map fun o => (i, o) := by
  unfold toDiGraph
  simp only
  have hw : ∀ w ∈ p.ops.map opWires, w ≠ [] := by
    intro w hw
    obtain ⟨o, ho, rfl⟩ := List.mem_map.mp hw
    have hm := h o ho
    cases hmo : o.modes with
    | nil => exact absurd hmo hm
    | cons q t =>
      intro hnil
      have := modes_sub_wires o q (by rw [hmo]; simp)
      rw [hnil] at this
      cases this
  rw [C16_nodes_all _ hw, List.length_map]

theorem nodes_filter_label (p : Program K) (h : AllModes p) (lab : String × List Int) :
    ((toDiGraph p).1.nodes.filter fun n => opLabel n.2 = lab).map (·.1) =
      labelClass (labOf p) p.ops.length (some lab) := by
  rw [nodes_all p h]
  unfold labelClass labOf
  induction (List.range p.ops.length) with
  | nil => rfl
  | cons i t ih =>
    simp only [List.filterMap_cons, List.filter_cons]
    cases hop : p.ops[i]? with
    | none => simp [ih]
    | some o =>
      simp only [Option.map_some, List.filter_cons, Option.some.injEq]
      by_cases hl : opLabel o = lab
      · simp [hl, ih]
      · simp [hl, ih]


theorem takeWhile_ne_getElem (c : List Nat) (hnd : c.Nodup) (k : Nat) (hk : k < c.length) :
    (c.takeWhile fun x => x ≠ c[k]).length = k := by
  induction c generalizing k with
  | nil => simp at hk
  | cons a t ih =>
    have hp := List.nodup_cons.mp hnd
    cases k with
    | zero => simp [List.takeWhile]
    | succ j =>
      have hj : j < t.length := by simpa using hk
      have hne : a ≠ t[j] := by
        intro h
        exact hp.1 (h ▸ List.getElem_mem hj)
      simp only [List.getElem_cons_succ, List.takeWhile_cons, ne_eq, hne, not_false_eq_true, decide_true, if_true,
        List.length_cons]
      rw [ih hp.2 j hj]

theorem optMapM_mem {α β : Type} (f : α → Option β) (l : List α) (r : List β) (h : l.mapM f = some r) (y : β)
    (hy : y ∈ r) : ∃ x ∈ l, f x = some y := by
  induction l generalizing r with
  | nil =>
    simp only [List.mapM_nil, pure, Option.some.injEq] at h
    subst h
    cases hy
  | cons a t ih =>
    simp only [List.mapM_cons, bind, Option.bind] at h
    cases h1 : f a with
    | none => simp [h1] at h
    | some b =>
      simp only [h1] at h
      cases h2 : t.mapM f with
      | none => simp [h2] at h
      | some r' =>
        simp only [h2, pure, Option.some.injEq] at h
        subst h
        rcases List.mem_cons.mp hy with rfl | hy'
        · exact ⟨a, by simp, h1⟩
        · obtain ⟨x, hx, hfx⟩ := ih r' h2 hy'
          exact ⟨x, List.mem_cons_of_mem _ hx, hfx⟩

/-- **The matcher's choice is irrelevant.** Whatever label- and edge-preserving isomorphism between
the dependency graphs of a template and a program is found, it is the canonical one the model's
`matchTemplate` uses (`labelIso`): the k-th operation with a label goes to the k-th operation with
that label. -/
theorem iso_eq_labelIso (t p : Program K) (ht : AllModes t) (hp : AllModes p) (hlen : p.ops.length = t.ops.length)
    (f g : Nat → Nat) (hf : ∀ i, i < t.ops.length → f i < t.ops.length) (hg : ∀ j, j < t.ops.length → g j < t.ops.length)
    (hgf : ∀ i, i < t.ops.length → g (f i) = i) (hfg : ∀ j, j < t.ops.length → f (g j) = j)
    (hlab : ∀ i, i < t.ops.length → labOf p (f i) = labOf t i)
    (hedge : ∀ i j, (i, j) ∈ (toDiGraph t).1.edges → (f i, f j) ∈ (toDiGraph p).1.edges)
    (can : List (Nat × Nat)) (hcan : labelIso (toDiGraph t).1 (toDiGraph p).1 = some can) :
    ∀ pr ∈ can, f pr.1 = pr.2 := by
  intro pr hpr
  unfold labelIso at hcan
  split at hcan
  · cases hcan
  · obtain ⟨n, hn, hfn⟩ := optMapM_mem _ _ _ hcan pr hpr
    obtain ⟨i, o⟩ := n
    -- the node is operation i of the template
    have hio : t.ops[i]? = some o := C16_node_attrs t i o hn
    have hi : i < t.ops.length := by
      cases h : t.ops[i]? with
      | none => rw [h] at hio; cases hio
      | some _ => exact (List.getElem?_eq_some_iff.mp h).1
    cases hnth : nthWithLabel (toDiGraph p).1.nodes (opLabel o) (occurrence (toDiGraph t).1.nodes i (opLabel o)) with
    | none => simp [hnth] at hfn
    | some j =>
      simp only [hnth, Option.some.injEq] at hfn
      subst hfn
      simp only
      -- rank of i in its label class
      have hmem : i ∈ labelClass (labOf t) t.ops.length (some (opLabel o)) :=
        (mem_labelClass _ _ _ _).mpr ⟨hi, by simp [labOf, hio]⟩
      obtain ⟨k, hk, hki⟩ := List.getElem_of_mem hmem
      have hnd : (labelClass (labOf t) t.ops.length (some (opLabel o))).Nodup :=
        (labelClass_sorted _ _ _).imp (fun h => Nat.ne_of_lt h)
      have hocc : occurrence (toDiGraph t).1.nodes i (opLabel o) = k := by
        unfold occurrence
        have := nodes_filter_label t ht (opLabel o)
        have h2 : ((List.filter (fun n => opLabel n.2 = opLabel o) (toDiGraph t).1.nodes).takeWhile fun n => n.1 ≠ i).length =
            (((List.filter (fun n => opLabel n.2 = opLabel o) (toDiGraph t).1.nodes).map (·.1)).takeWhile fun x => x ≠ i).length := by
          rw [List.takeWhile_map, List.length_map]
          rfl
        rw [h2, this, ← hki]
        exact takeWhile_ne_getElem _ hnd k hk
      rw [hocc] at hnth
      unfold nthWithLabel at hnth
      have h3 : ((List.filter (fun n => opLabel n.2 = opLabel o) (toDiGraph p).1.nodes)[k]?).map (·.1) =
          ((List.filter (fun n => opLabel n.2 = opLabel o) (toDiGraph p).1.nodes).map (·.1))[k]? := by
        rw [List.getElem?_map]
      rw [h3, nodes_filter_label p hp (opLabel o), hlen] at hnth
      -- the isomorphism sends the k-th of the class to the k-th of the class
      have hs1 : ∀ a b, a < b → b < t.ops.length → labOf t a = labOf t b →
          ∃ q, q ∈ (t.ops.map opWires).getD a [] ∧ q ∈ (t.ops.map opWires).getD b [] := by
        intro a b hab hb hl
        have ha : a < t.ops.length := by omega
        simp only [labOf, List.getElem?_eq_getElem ha, List.getElem?_eq_getElem hb, Option.map_some, Option.some.injEq,
          opLabel, Prod.mk.injEq] at hl
        have hm := ht t.ops[a] (List.getElem_mem ha)
        cases hmo : t.ops[a].modes with
        | nil => exact absurd hmo hm
        | cons q rest =>
          refine ⟨q, ?_, ?_⟩
          · simp only [List.getD, List.getElem?_map, List.getElem?_eq_getElem ha, Option.map_some, Option.getD_some]
            exact modes_sub_wires _ q (by rw [hmo]; simp)
          · simp only [List.getD, List.getElem?_map, List.getElem?_eq_getElem hb, Option.map_some, Option.getD_some]
            exact modes_sub_wires _ q (by rw [← hl.2, hmo]; simp)
      obtain ⟨hk2, hfk⟩ := label_iso_pointwise (t.ops.map opWires) (p.ops.map opWires) t.ops.length (by simp)
        (labOf t) (labOf p) hs1 f g hf hg hgf hfg hlab
        (by intro a b hab; exact hedge a b (by simpa [toDiGraph] using hab) |> (by simpa [toDiGraph] using ·))
        (some (opLabel o)) k hk
      rw [List.getElem?_eq_getElem hk2, Option.some.injEq] at hnth
      rw [← hki, hfk, hnth]

end Blackbird
