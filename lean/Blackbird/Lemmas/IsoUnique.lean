/-
  Uniqueness of the label-preserving isomorphism between two dependency graphs (C17).

  networkx's `DiGraphMatcher` returns SOME isomorphism whose node map preserves the (gate, modes)
  labels. If two operations carry the same label they act on the same (non-empty) modes, hence one
  is reachable from the other in the dependency graph; an isomorphism preserves reachability and
  reachability goes forward, so on every label class the isomorphism is strictly increasing. A
  strictly increasing bijection between two finite sets of numbers is unique: the k-th operation
  with a label is mapped to the k-th operation with that label, whatever the matcher's search order.
-/
import Blackbird.Props.C16

namespace Blackbird

/-- two strictly increasing lists with the same members are equal -/
theorem eq_of_sorted_of_mem_iff (l1 l2 : List Nat) (h1 : l1.Pairwise (· < ·)) (h2 : l2.Pairwise (· < ·))
    (h : ∀ x, x ∈ l1 ↔ x ∈ l2) : l1 = l2 := by
  induction l1 generalizing l2 with
  | nil =>
    cases l2 with
    | nil => rfl
    | cons b t => exact absurd ((h b).mpr (by simp)) (by simp)
  | cons a t ih =>
    cases l2 with
    | nil => exact absurd ((h a).mp (by simp)) (by simp)
    | cons b t2 =>
      have hp1 := List.pairwise_cons.mp h1
      have hp2 := List.pairwise_cons.mp h2
      have hab : a = b := by
        have ha : a ∈ b :: t2 := (h a).mp (by simp)
        have hb : b ∈ a :: t := (h b).mpr (by simp)
        rcases List.mem_cons.mp ha with rfl | ha'
        · rfl
        · rcases List.mem_cons.mp hb with rfl | hb'
          · rfl
          · have := hp2.1 a ha'
            have := hp1.1 b hb'
            omega
      subst hab
      congr 1
      apply ih t2 hp1.2 hp2.2
      intro x
      constructor
      · intro hx
        have : x ∈ a :: t2 := (h x).mp (List.mem_cons_of_mem _ hx)
        rcases List.mem_cons.mp this with rfl | hx'
        · exact absurd (hp1.1 x hx) (Nat.lt_irrefl _)
        · exact hx'
      · intro hx
        have : x ∈ a :: t := (h x).mpr (List.mem_cons_of_mem _ hx)
        rcases List.mem_cons.mp this with rfl | hx'
        · exact absurd (hp2.1 x hx) (Nat.lt_irrefl _)
        · exact hx'

theorem pairwise_map_of_strictMono (l : List Nat) (f : Nat → Nat) (hl : l.Pairwise (· < ·))
    (hf : ∀ a ∈ l, ∀ b ∈ l, a < b → f a < f b) : (l.map f).Pairwise (· < ·) := by
  induction l with
  | nil => simp
  | cons a t ih =>
    have hp := List.pairwise_cons.mp hl
    simp only [List.map_cons, List.pairwise_cons, List.mem_map, forall_exists_index, and_imp]
    refine ⟨?_, ih hp.2 (fun x hx y hy hxy => hf x (List.mem_cons_of_mem _ hx) y (List.mem_cons_of_mem _ hy) hxy)⟩
    intro y x hx hxy
    subst hxy
    exact hf a (by simp) x (List.mem_cons_of_mem _ hx) (hp.1 x hx)

theorem reach_map {E1 E2 : List (Nat × Nat)} (f : Nat → Nat) (h : ∀ i j, (i, j) ∈ E1 → (f i, f j) ∈ E2) {a b : Nat}
    (r : Reach E1 a b) : Reach E2 (f a) (f b) := by
  induction r with
  | edge he => exact Reach.edge (h _ _ he)
  | step he _ ih => exact Reach.step (h _ _ he) ih

/-- the operations (indices below `n`) carrying label `ℓ`, in program order -/
def labelClass {L : Type} [DecidableEq L] (lab : Nat → L) (n : Nat) (ℓ : L) : List Nat :=
  (List.range n).filter fun i => lab i = ℓ

theorem labelClass_sorted {L : Type} [DecidableEq L] (lab : Nat → L) (n : Nat) (ℓ : L) :
    (labelClass lab n ℓ).Pairwise (· < ·) :=
  List.Pairwise.sublist List.filter_sublist (List.pairwise_lt_range)

theorem mem_labelClass {L : Type} [DecidableEq L] (lab : Nat → L) (n : Nat) (ℓ : L) (i : Nat) :
    i ∈ labelClass lab n ℓ ↔ i < n ∧ lab i = ℓ := by
  simp [labelClass, List.mem_filter, List.mem_range]

/-- **Uniqueness.** Let `ws1`, `ws2` be the wire sets of two programs with `n` operations each,
labelled by `lab1`, `lab2`, where operations of the first program with equal labels share a wire
(they act on the same non-empty mode list). Every isomorphism `f` (with inverse `g`) that preserves
labels and maps dependency edges to dependency edges sends, for every label, the k-th operation
with that label to the k-th operation with that label. -/
theorem label_iso_unique {L : Type} [DecidableEq L] (ws1 ws2 : List (List Int)) (n : Nat)
    (hn1 : ws1.length = n) (lab1 lab2 : Nat → L)
    (hs1 : ∀ i j, i < j → j < n → lab1 i = lab1 j → ∃ q, q ∈ ws1.getD i [] ∧ q ∈ ws1.getD j [])
    (f g : Nat → Nat) (hf : ∀ i, i < n → f i < n) (hg : ∀ j, j < n → g j < n)
    (hgf : ∀ i, i < n → g (f i) = i) (hfg : ∀ j, j < n → f (g j) = j)
    (hlab : ∀ i, i < n → lab2 (f i) = lab1 i)
    (hedge : ∀ i j, (i, j) ∈ graphEdges ws1 → (f i, f j) ∈ graphEdges ws2) (ℓ : L) :
    (labelClass lab1 n ℓ).map f = labelClass lab2 n ℓ := by
  apply eq_of_sorted_of_mem_iff
  · apply pairwise_map_of_strictMono _ _ (labelClass_sorted lab1 n ℓ)
    intro a ha b hb hab
    obtain ⟨han, hla⟩ := (mem_labelClass lab1 n ℓ a).mp ha
    obtain ⟨hbn, hlb⟩ := (mem_labelClass lab1 n ℓ b).mp hb
    obtain ⟨q, hqa, hqb⟩ := hs1 a b hab hbn (hla.trans hlb.symm)
    have r : Reach (graphEdges ws1) a b := reach_of_share ws1 ⟨hab, by omega, q, hqa, hqb⟩
    exact C16_reach_forward ws2 (reach_map f hedge r)
  · exact labelClass_sorted lab2 n ℓ
  · intro x
    simp only [List.mem_map, mem_labelClass]
    constructor
    · rintro ⟨i, ⟨hi, hl⟩, rfl⟩
      exact ⟨hf i hi, by rw [hlab i hi, hl]⟩
    · rintro ⟨hx, hl⟩
      refine ⟨g x, ⟨hg x hx, ?_⟩, hfg x hx⟩
      rw [← hlab (g x) (hg x hx), hfg x hx, hl]

/-- pointwise form: `f` agrees with the canonical label isomorphism -/
theorem label_iso_pointwise {L : Type} [DecidableEq L] (ws1 ws2 : List (List Int)) (n : Nat)
    (hn1 : ws1.length = n) (lab1 lab2 : Nat → L)
    (hs1 : ∀ i j, i < j → j < n → lab1 i = lab1 j → ∃ q, q ∈ ws1.getD i [] ∧ q ∈ ws1.getD j [])
    (f g : Nat → Nat) (hf : ∀ i, i < n → f i < n) (hg : ∀ j, j < n → g j < n)
    (hgf : ∀ i, i < n → g (f i) = i) (hfg : ∀ j, j < n → f (g j) = j)
    (hlab : ∀ i, i < n → lab2 (f i) = lab1 i)
    (hedge : ∀ i j, (i, j) ∈ graphEdges ws1 → (f i, f j) ∈ graphEdges ws2)
    (ℓ : L) (k : Nat) (hk : k < (labelClass lab1 n ℓ).length) :
    ∃ hk2 : k < (labelClass lab2 n ℓ).length, f ((labelClass lab1 n ℓ)[k]) = (labelClass lab2 n ℓ)[k] := by
  have h := label_iso_unique ws1 ws2 n hn1 lab1 lab2 hs1 f g hf hg hgf hfg hlab hedge ℓ
  have hlen : (labelClass lab2 n ℓ).length = (labelClass lab1 n ℓ).length := by rw [← h, List.length_map]
  refine ⟨by omega, ?_⟩
  have : ((labelClass lab1 n ℓ).map f)[k]'(by simpa using hk) = (labelClass lab2 n ℓ)[k]'(by omega) := by
    simp only [h]
  simpa using this

end Blackbird
