/-
  Character level: a `#` comment produces no token, whatever it contains.
  `bestRule lexRules` on a text that starts with `#`, continues with characters other than CR / LF and
  then ends or reaches a CR / LF chooses COMMENT (a skipped rule) with the whole comment as its match.
-/
import Blackbird.Lexer

namespace Blackbird
open Re

/-- the comment body: any code point but CR and LF -/
def commentBody : Re := star (nset [(13, 13), (10, 10)])

def notEol (x : Char) : Prop := x ≠ '\n' ∧ x ≠ '\r'

theorem inRanges_eol_false (x : Char) (h : notEol x) : inRanges [(13, 13), (10, 10)] x.toNat = false := by
  obtain ⟨h1, h2⟩ := h
  have a : x.toNat ≠ 10 := fun e => h1 (by apply Char.ext; apply UInt32.toNat_inj.mp; simpa using e)
  have b : x.toNat ≠ 13 := fun e => h2 (by apply Char.ext; apply UInt32.toNat_inj.mp; simpa using e)
  simp [inRanges]
  omega

theorem deriv_commentBody (x : Char) (h : notEol x) : commentBody.deriv x.toNat = commentBody := by
  simp [commentBody, deriv, inRanges_eol_false x h, mkSeq]

theorem deriv_commentBody_eol (x : Char) (h : x = '\n' ∨ x = '\r') : commentBody.deriv x.toNat = empty := by
  rcases h with rfl | rfl <;> decide

/-- the comment body swallows everything up to the end of the line or of the input -/
theorem longestGo_commentBody (c rest : List Char) (hc : ∀ x ∈ c, notEol x)
    (hr : rest = [] ∨ ∃ x t, rest = x :: t ∧ (x = '\n' ∨ x = '\r')) (i : Nat) :
    longestGo commentBody (c ++ rest) i (some i) = some (i + c.length) := by
  induction c generalizing i with
  | nil =>
    rcases hr with rfl | ⟨x, t, rfl, hx⟩
    · simp [longestGo]
    · simp [longestGo, deriv_commentBody_eol x hx]
  | cons x c ih =>
    have hx := hc x (by simp)
    have : (commentBody = empty) = False := by simp [commentBody]
    simp only [List.cons_append, longestGo, deriv_commentBody x hx, this, if_false]
    have hn : commentBody.nullable = true := rfl
    simp only [hn, if_true]
    rw [ih (fun y hy => hc y (by simp [hy])) (i + 1)]
    simp; omega

/-- no rule before COMMENT can start with `#` (59 rules, evaluated by the kernel) -/
theorem hash_dead_before_comment :
    (lexRules.take 59).all (fun x => x.2.1.deriv 35 == empty && !x.2.1.nullable) = true := by
  decide +kernel

theorem lexRules_split :
    lexRules = lexRules.take 59 ++ [(.COMMENT, reCOMMENT, true), (.ANY, reANY, false)] := by
  decide +kernel

theorem deriv_hash_comment : reCOMMENT.deriv 35 = commentBody := by decide +kernel
theorem deriv_hash_any : reANY.deriv 35 = eps := by decide +kernel

theorem longest_dead (r : Re) (t : List Char) (h : (r.deriv 35 == empty && !r.nullable) = true) :
    r.longest ('#' :: t) = none := by
  simp only [Bool.and_eq_true, beq_iff_eq, Bool.not_eq_true'] at h
  have e : ('#' : Char).toNat = 35 := rfl
  simp [longest, longestGo, e, h.1, h.2]

theorem foldl_dead (t : List Char) (rs : List (TokKind × Re × Bool))
    (h : rs.all (fun x => x.2.1.deriv 35 == empty && !x.2.1.nullable) = true) :
    rs.foldl (bestStep ('#' :: t)) none = none := by
  induction rs with
  | nil => rfl
  | cons x rs ih =>
    rw [List.all_cons, Bool.and_eq_true] at h
    simp only [List.foldl_cons, bestStep, longest_dead x.2.1 t h.1]
    exact ih h.2

/-- **A comment is one skipped match.** -/
theorem bestRule_comment (c rest : List Char) (hc : ∀ x ∈ c, notEol x)
    (hr : rest = [] ∨ ∃ x t, rest = x :: t ∧ (x = '\n' ∨ x = '\r')) :
    bestRule lexRules ('#' :: (c ++ rest)) = some (.COMMENT, true, c.length + 1) := by
  have e : ('#' : Char).toNat = 35 := rfl
  have hcm : reCOMMENT.longest ('#' :: (c ++ rest)) = some (c.length + 1) := by
    have h0 : reCOMMENT.nullable = false := by decide +kernel
    have hn : commentBody.nullable = true := rfl
    have hne : (commentBody = empty) = False := by simp [commentBody]
    simp only [longest, longestGo, e, deriv_hash_comment, h0, hne, if_false, hn, if_true, Nat.zero_add]
    rw [longestGo_commentBody c rest hc hr 1]; simp; omega
  have han : reANY.longest ('#' :: (c ++ rest)) = some 1 := by
    have h0 : reANY.nullable = false := rfl
    have h1 : (eps = empty) = False := by simp
    have h2 : eps.nullable = true := rfl
    simp only [longest, longestGo, e, deriv_hash_any, h0, h1, if_false, h2, if_true]
    cases (c ++ rest) with
    | nil => simp [longestGo]
    | cons y ys => simp [longestGo, deriv]
  unfold bestRule
  rw [lexRules_split, List.foldl_append, foldl_dead _ _ hash_dead_before_comment]
  simp [List.foldl, bestStep, hcm, han]

theorem advance_comment (p : Pos) (c : List Char) (hc : ∀ x ∈ c, notEol x) :
    advance p c = ⟨p.line, p.col + c.length⟩ := by
  induction c generalizing p with
  | nil => rfl
  | cons x c ih =>
    have hx := (hc x (by simp)).1
    simp only [advance, hx, if_false]
    rw [ih _ (fun y hy => hc y (by simp [hy]))]
    simp; omega

/-- the scanner drops the comment and continues at the end of the line: the tokens after it do not
depend on the comment's text (only the column of the line end does) -/
theorem lexGo_comment (fuel : Nat) (c rest : List Char) (hc : ∀ x ∈ c, notEol x)
    (hr : rest = [] ∨ ∃ x t, rest = x :: t ∧ (x = '\n' ∨ x = '\r')) (p : Pos) (acc : List Tok) :
    lexGo lexRules (fuel + 1) ('#' :: (c ++ rest)) p acc =
      lexGo lexRules fuel rest ⟨p.line, p.col + 1 + c.length⟩ acc := by
  have ha : advance p ('#' :: c) = ⟨p.line, p.col + 1 + c.length⟩ := by
    have : ('#' : Char) ≠ '\n' := by decide
    simp only [advance, this, if_false]
    rw [advance_comment _ c hc]
  simp only [lexGo, bestRule_comment c rest hc hr]
  have ht : ('#' :: (c ++ rest)).take (c.length + 1) = '#' :: c := by simp
  have hd : ('#' :: (c ++ rest)).drop (c.length + 1) = rest := by simp
  simp [ht, hd, ha]

/-- kind and text of a token: everything but its position -/
def Tok.kt (t : Tok) : TokKind × String := (t.kind, t.text)

/-- positions never influence which tokens are produced -/
theorem lexGo_pos_irrelevant (rules : List (TokKind × Re × Bool)) (fuel : Nat) (s : List Char)
    (p p' : Pos) (acc acc' : List Tok) (h : acc.map Tok.kt = acc'.map Tok.kt) :
    (lexGo rules fuel s p acc).map Tok.kt = (lexGo rules fuel s p' acc').map Tok.kt := by
  induction fuel generalizing s p p' acc acc' with
  | zero => simp [lexGo, h, Tok.kt]
  | succ fuel ih =>
    cases s with
    | nil => simp [lexGo, h, Tok.kt]
    | cons x s =>
      simp only [lexGo]
      cases hb : bestRule rules (x :: s) with
      | none => simp [h, Tok.kt]
      | some r =>
        obtain ⟨k, skip, n⟩ := r
        simp only
        apply ih
        cases skip with
        | true => simpa using h
        | false => simp [h, Tok.kt]

end Blackbird
