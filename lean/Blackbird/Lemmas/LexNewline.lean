/-
  Character level: LF, CR LF and a lone CR each give exactly one NEWLINE token.
-/
import Blackbird.Lemmas.LexSpace

namespace Blackbird
open Re

/-- every rule but NEWLINE (index 15) and ANY (last) is dead on LF and on CR -/
theorem eol_dead_before :
    (lexRules.take 15).all (fun x => x.2.1.deriv 10 == empty && x.2.1.deriv 13 == empty && !x.2.1.nullable) = true := by
  decide +kernel
theorem eol_dead_after :
    ((lexRules.drop 16).take 44).all (fun x => x.2.1.deriv 10 == empty && x.2.1.deriv 13 == empty && !x.2.1.nullable) = true := by
  decide +kernel

theorem lexRules_split_eol :
    lexRules = lexRules.take 15 ++ ((.NEWLINE, reNEWLINE, false) ::
      ((lexRules.drop 16).take 44 ++ [(.ANY, reANY, false)])) := by
  decide +kernel

theorem longest_dead_eol (r : Re) (x : Char) (t : List Char) (hx : x = '\n' ∨ x = '\r')
    (h : (r.deriv 10 == empty && r.deriv 13 == empty && !r.nullable) = true) :
    r.longest (x :: t) = none := by
  simp only [Bool.and_eq_true, beq_iff_eq, Bool.not_eq_true'] at h
  have e1 : ('\n' : Char).toNat = 10 := rfl
  have e2 : ('\r' : Char).toNat = 13 := rfl
  rcases hx with rfl | rfl
  · simp [longest, longestGo, e1, h.1.1, h.2]
  · simp [longest, longestGo, e2, h.1.2, h.2]

theorem foldl_dead_eol (x : Char) (t : List Char) (hx : x = '\n' ∨ x = '\r') (rs : List (TokKind × Re × Bool))
    (acc : Option (TokKind × Bool × Nat))
    (h : rs.all (fun x => x.2.1.deriv 10 == empty && x.2.1.deriv 13 == empty && !x.2.1.nullable) = true) :
    rs.foldl (bestStep (x :: t)) acc = acc := by
  induction rs with
  | nil => rfl
  | cons y rs ih =>
    rw [List.all_cons, Bool.and_eq_true] at h
    simp only [List.foldl_cons, bestStep, longest_dead_eol y.2.1 x t hx h.1]
    exact ih h.2

theorem longest_any_one (x : Char) (t : List Char) : reANY.longest (x :: t) = some 1 := by
  have hd : reANY.deriv x.toNat = eps := by simp [reANY, deriv, inRanges]
  have h0 : reANY.nullable = false := rfl
  have h1 : (eps = empty) = False := by simp
  have h2 : eps.nullable = true := rfl
  simp only [longest, longestGo, hd, h0, h1, if_false, h2, if_true]
  cases t with
  | nil => simp [longestGo]
  | cons y ys => simp [longestGo, deriv]

/-- which line end stands at the head of the text, and how long it is -/
inductive EolAt : List Char → Nat → Prop
  | lf (t) : EolAt ('\n' :: t) 1
  | crlf (t) : EolAt ('\r' :: '\n' :: t) 2
  | cr (t) (h : t = [] ∨ ∃ y u, t = y :: u ∧ y ≠ '\n') : EolAt ('\r' :: t) 1

theorem longest_newline (s : List Char) (n : Nat) (h : EolAt s n) : reNEWLINE.longest s = some n := by
  have e1 : ('\n' : Char).toNat = 10 := rfl
  have e2 : ('\r' : Char).toNat = 13 := rfl
  cases h with
  | lf t =>
    simp [longest, longestGo, e1, reNEWLINE, lit, alts, deriv, nullable, mkAlt, mkSeq, chr, inRanges]
    cases t with
    | nil => simp [longestGo]
    | cons y ys => simp [longestGo, deriv]
  | crlf t =>
    simp [longest, longestGo, e1, e2, reNEWLINE, lit, alts, deriv, nullable, mkAlt, mkSeq, chr, inRanges]
    cases t with
    | nil => simp [longestGo]
    | cons y ys => simp [longestGo, deriv]
  | cr t h =>
    rcases h with rfl | ⟨y, u, rfl, hy⟩
    · decide +kernel
    · have hy' : y.toNat ≠ 10 := toNat_ne_of_ne y '\n' hy
      have h10 : ¬(10 ≤ y.toNat ∧ y.toNat ≤ 10) := by omega
      simp [longest, longestGo, e2, reNEWLINE, lit, alts, deriv, nullable, mkAlt, mkSeq, chr, inRanges, h10]

/-- **Every line-end style is one NEWLINE token.** -/
theorem bestRule_eol (s : List Char) (n : Nat) (h : EolAt s n) :
    bestRule lexRules s = some (.NEWLINE, false, n) := by
  have hn := longest_newline s n h
  have hpos : n = 1 ∨ n = 2 := by cases h <;> simp
  obtain ⟨x, t, rfl, hx⟩ : ∃ x t, s = x :: t ∧ (x = '\n' ∨ x = '\r') := by
    cases h with
    | lf t => exact ⟨_, _, rfl, Or.inl rfl⟩
    | crlf t => exact ⟨_, _, rfl, Or.inr rfl⟩
    | cr t _ => exact ⟨_, _, rfl, Or.inr rfl⟩
  unfold bestRule
  rw [lexRules_split_eol, List.foldl_append, foldl_dead_eol x t hx _ _ eol_dead_before]
  simp only [List.foldl_cons, List.foldl_append, List.foldl_nil]
  have s1 : bestStep (x :: t) none (.NEWLINE, reNEWLINE, false) = some (.NEWLINE, false, n) := by
    rcases hpos with rfl | rfl <;> simp [bestStep, hn]
  rw [s1, foldl_dead_eol x t hx _ _ eol_dead_after]
  rcases hpos with rfl | rfl <;> simp [bestStep, longest_any_one]

/-- token kinds do not depend on positions or on the texts of earlier tokens -/
theorem lexGo_kinds_irrelevant (rules : List (TokKind × Re × Bool)) (fuel : Nat) (s : List Char)
    (p p' : Pos) (acc acc' : List Tok) (h : acc.map (·.kind) = acc'.map (·.kind)) :
    (lexGo rules fuel s p acc).map (·.kind) = (lexGo rules fuel s p' acc').map (·.kind) := by
  induction fuel generalizing s p p' acc acc' with
  | zero => simp [lexGo, h]
  | succ fuel ih =>
    cases s with
    | nil => simp [lexGo, h]
    | cons x s =>
      simp only [lexGo]
      cases hb : bestRule rules (x :: s) with
      | none => simp [h]
      | some r =>
        obtain ⟨k, skip, n⟩ := r
        simp only
        apply ih
        cases skip with
        | true => simpa using h
        | false => simp [h]

/-- the scanner emits one NEWLINE token for the line end and continues behind it -/
theorem lexGo_eol (fuel : Nat) (s : List Char) (n : Nat) (h : EolAt s n) (p : Pos) (acc : List Tok) :
    lexGo lexRules (fuel + 1) s p acc =
      lexGo lexRules fuel (s.drop n) (advance p (s.take n)) (⟨.NEWLINE, String.ofList (s.take n), p⟩ :: acc) := by
  obtain ⟨x, t, rfl⟩ : ∃ x t, s = x :: t := by cases h <;> exact ⟨_, _, rfl⟩
  simp only [lexGo, bestRule_eol _ n h]
  simp

end Blackbird
