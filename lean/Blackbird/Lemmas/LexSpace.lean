/-
  Character level: a run of spaces between tokens produces no token, unless it is exactly four
  spaces (the TAB token, which the grammar uses as indentation).
-/
import Blackbird.Lemmas.LexComment

namespace Blackbird
open Re

def spaceBody : Re := star (set [(32, 32), (9, 9)])

/-- the character after the run: neither a space nor a tab -/
def notBlank (x : Char) : Prop := x ≠ ' ' ∧ x ≠ '\t'

theorem toNat_ne_of_ne (x y : Char) (h : x ≠ y) : x.toNat ≠ y.toNat :=
  fun e => h (by apply Char.ext; apply UInt32.toNat_inj.mp; simpa using e)

theorem deriv_spaceBody_space : spaceBody.deriv 32 = spaceBody := by decide +kernel

theorem deriv_spaceBody_other (x : Char) (h : notBlank x) : spaceBody.deriv x.toNat = empty := by
  have a := toNat_ne_of_ne x ' ' h.1
  have b := toNat_ne_of_ne x '\t' h.2
  have a' : x.toNat ≠ 32 := a
  have b' : x.toNat ≠ 9 := b
  have : inRanges [(32, 32), (9, 9)] x.toNat = false := by simp [inRanges]; omega
  simp [spaceBody, deriv, this, mkSeq]

def restOK (rest : List Char) : Prop := rest = [] ∨ ∃ x t, rest = x :: t ∧ notBlank x

theorem longestGo_spaceBody (n : Nat) (rest : List Char) (hr : restOK rest) (i : Nat) :
    longestGo spaceBody (List.replicate n ' ' ++ rest) i (some i) = some (i + n) := by
  induction n generalizing i with
  | zero =>
    rcases hr with rfl | ⟨x, t, rfl, hx⟩
    · simp [longestGo]
    · simp [longestGo, deriv_spaceBody_other x hx]
  | succ n ih =>
    have e : (' ' : Char).toNat = 32 := rfl
    have hne : (spaceBody = empty) = False := by simp [spaceBody]
    have hn : spaceBody.nullable = true := rfl
    simp only [List.replicate_succ, List.cons_append, longestGo, e, deriv_spaceBody_space, hne, if_false, hn, if_true]
    rw [ih (i + 1)]
    simp; omega

theorem longest_space (n : Nat) (rest : List Char) (hr : restOK rest) :
    reSPACE.longest (' ' :: (List.replicate n ' ' ++ rest)) = some (n + 1) := by
  have e : (' ' : Char).toNat = 32 := rfl
  have h0 : reSPACE.nullable = false := by decide +kernel
  have hd : reSPACE.deriv 32 = spaceBody := by decide +kernel
  have hne : (spaceBody = empty) = False := by simp [spaceBody]
  have hn : spaceBody.nullable = true := rfl
  simp only [longest, longestGo, e, hd, h0, hne, if_false, hn, if_true, Nat.zero_add]
  rw [longestGo_spaceBody n rest hr 1]; simp; omega

/-- the 16 rules before TAB, and the 42 rules between SPACE and ANY, cannot start with a space -/
theorem space_dead_before_tab :
    (lexRules.take 16).all (fun x => x.2.1.deriv 32 == empty && !x.2.1.nullable) = true := by
  decide +kernel
theorem space_dead_after_space :
    ((lexRules.drop 18).take 42).all (fun x => x.2.1.deriv 32 == empty && !x.2.1.nullable) = true := by
  decide +kernel

theorem lexRules_split_space :
    lexRules = lexRules.take 16 ++ ((.TAB, reTAB, false) :: (.SPACE, reSPACE, true) ::
      ((lexRules.drop 18).take 42 ++ [(.ANY, reANY, false)])) := by
  decide +kernel

theorem longest_dead_space (r : Re) (t : List Char) (h : (r.deriv 32 == empty && !r.nullable) = true) :
    r.longest (' ' :: t) = none := by
  simp only [Bool.and_eq_true, beq_iff_eq, Bool.not_eq_true'] at h
  have e : (' ' : Char).toNat = 32 := rfl
  simp [longest, longestGo, e, h.1, h.2]

theorem foldl_dead_space (t : List Char) (rs : List (TokKind × Re × Bool)) (acc : Option (TokKind × Bool × Nat))
    (h : rs.all (fun x => x.2.1.deriv 32 == empty && !x.2.1.nullable) = true) :
    rs.foldl (bestStep (' ' :: t)) acc = acc := by
  induction rs with
  | nil => rfl
  | cons x rs ih =>
    rw [List.all_cons, Bool.and_eq_true] at h
    simp only [List.foldl_cons, bestStep, longest_dead_space x.2.1 t h.1]
    exact ih h.2

/-- what the TAB rule sees in a run of `n + 1` spaces that is not four long: nothing, or four of at least five -/
theorem longest_tab (n : Nat) (rest : List Char) (hr : restOK rest) (hn : n + 1 ≠ 4) :
    reTAB.longest (' ' :: (List.replicate n ' ' ++ rest)) = (if n + 1 < 4 then none else some 4) := by
  have e : (' ' : Char).toNat = 32 := rfl
  have key : ∀ (x : Char), notBlank x → x.toNat ≠ 32 := fun x hx => toNat_ne_of_ne x ' ' hx.1
  match n, hn with
  | 0, _ | 1, _ | 2, _ =>
    rcases hr with rfl | ⟨x, t, rfl, hx⟩
    · decide +kernel
    · have := key x hx
      have h32 : ¬(32 ≤ x.toNat ∧ x.toNat ≤ 32) := by omega
      simp [longest, longestGo, e, reTAB, lit, alts, deriv, nullable, mkAlt, mkSeq, chr, inRanges, List.replicate, h32]
  | n + 4, _ =>
    have : List.replicate (n + 4) ' ' = ' ' :: ' ' :: ' ' :: ' ' :: List.replicate n ' ' := by
      simp [List.replicate_succ]
    rw [this]
    simp [longest, longestGo, e, reTAB, lit, alts, deriv, nullable, mkAlt, mkSeq, chr, inRanges]

theorem longest_any_space (t : List Char) : reANY.longest (' ' :: t) = some 1 := by
  have e : (' ' : Char).toNat = 32 := rfl
  have hd : reANY.deriv 32 = eps := by decide +kernel
  have h0 : reANY.nullable = false := rfl
  have h1 : (eps = empty) = False := by simp
  have h2 : eps.nullable = true := rfl
  simp only [longest, longestGo, e, hd, h0, h1, if_false, h2, if_true]
  cases t with
  | nil => simp [longestGo]
  | cons y ys => simp [longestGo, deriv]

/-- **A run of spaces that is not exactly four long is one skipped match.** -/
theorem bestRule_spaces (n : Nat) (rest : List Char) (hr : restOK rest) (hn : n + 1 ≠ 4) :
    bestRule lexRules (' ' :: (List.replicate n ' ' ++ rest)) = some (.SPACE, true, n + 1) := by
  unfold bestRule
  rw [lexRules_split_space, List.foldl_append, foldl_dead_space _ _ _ space_dead_before_tab]
  simp only [List.foldl_cons, List.foldl_append, List.foldl_nil]
  have hs := longest_space n rest hr
  have ht := longest_tab n rest hr hn
  have ha := longest_any_space (List.replicate n ' ' ++ rest)
  by_cases h4 : n + 1 < 4
  · rw [if_pos h4] at ht
    have s1 : bestStep (' ' :: (List.replicate n ' ' ++ rest)) none (.TAB, reTAB, false) = none := by
      simp [bestStep, ht]
    have s2 : bestStep (' ' :: (List.replicate n ' ' ++ rest)) none (.SPACE, reSPACE, true) = some (.SPACE, true, n + 1) := by
      simp [bestStep, hs]
    rw [s1, s2, foldl_dead_space _ _ _ space_dead_after_space]
    simp [bestStep, ha]
  · rw [if_neg h4] at ht
    have s1 : bestStep (' ' :: (List.replicate n ' ' ++ rest)) none (.TAB, reTAB, false) = some (.TAB, false, 4) := by
      simp [bestStep, ht]
    have s2 : bestStep (' ' :: (List.replicate n ' ' ++ rest)) (some (.TAB, false, 4)) (.SPACE, reSPACE, true) = some (.SPACE, true, n + 1) := by
      simp [bestStep, hs]; omega
    rw [s1, s2, foldl_dead_space _ _ _ space_dead_after_space]
    simp [bestStep, ha]

theorem advance_spaces (p : Pos) (n : Nat) : advance p (List.replicate n ' ') = ⟨p.line, p.col + n⟩ := by
  induction n generalizing p with
  | zero => rfl
  | succ n ih =>
    have : (' ' : Char) ≠ '\n' := by decide
    simp only [List.replicate_succ, advance, this, if_false]
    rw [ih]; simp; omega

theorem lexGo_spaces (fuel n : Nat) (rest : List Char) (hr : restOK rest) (hn : n + 1 ≠ 4) (p : Pos) (acc : List Tok) :
    lexGo lexRules (fuel + 1) (' ' :: (List.replicate n ' ' ++ rest)) p acc =
      lexGo lexRules fuel rest ⟨p.line, p.col + (n + 1)⟩ acc := by
  have ha : advance p (' ' :: List.replicate n ' ') = ⟨p.line, p.col + (n + 1)⟩ :=
    advance_spaces p (n + 1)
  simp only [lexGo, bestRule_spaces n rest hr hn]
  have ht : (' ' :: (List.replicate n ' ' ++ rest)).take (n + 1) = ' ' :: List.replicate n ' ' := by simp
  have hd : (' ' :: (List.replicate n ' ' ++ rest)).drop (n + 1) = rest := by simp
  simp [ht, hd, ha]

end Blackbird
