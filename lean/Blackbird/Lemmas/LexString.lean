/-
  Character level: a string literal is one STR token, whatever it contains (spaces, `#`, keywords,
  non-ASCII text) except a double quote or a line end; what follows the closing quote is irrelevant.
-/
import Blackbird.Lemmas.LexNewline

namespace Blackbird
open Re

/-- the regex after the opening quote -/
def strBody : Re := seq (star (nset [(34, 34), (10, 10), (13, 13)])) (seq (set [(34, 34)]) eps)

def strChar (x : Char) : Prop := x ≠ '"' ∧ x ≠ '\n' ∧ x ≠ '\r'

theorem deriv_strBody (x : Char) (h : strChar x) : strBody.deriv x.toNat = strBody := by
  have a : x.toNat ≠ 34 := toNat_ne_of_ne x '"' h.1
  have b : x.toNat ≠ 10 := toNat_ne_of_ne x '\n' h.2.1
  have c : x.toNat ≠ 13 := toNat_ne_of_ne x '\r' h.2.2
  have h1 : inRanges [(34, 34), (10, 10), (13, 13)] x.toNat = false := by simp [inRanges]; omega
  have h2 : inRanges [(34, 34)] x.toNat = false := by simp [inRanges]; omega
  simp [strBody, deriv, nullable, h1, h2, mkSeq, mkAlt]

theorem deriv_strBody_quote : strBody.deriv 34 = eps := by decide +kernel

theorem longestGo_strBody (body rest : List Char) (hb : ∀ x ∈ body, strChar x) (i : Nat) (best : Option Nat) :
    longestGo strBody (body ++ '"' :: rest) i best = some (i + body.length + 1) := by
  induction body generalizing i best with
  | nil =>
    have e : ('"' : Char).toNat = 34 := rfl
    have h1 : (eps = empty) = False := by simp
    have h2 : eps.nullable = true := rfl
    simp only [List.nil_append, longestGo, e, deriv_strBody_quote, h1, if_false, h2, if_true]
    cases rest with
    | nil => simp [longestGo]
    | cons y ys => simp [longestGo, deriv]
  | cons x body ih =>
    have hx := hb x (by simp)
    have hne : (strBody = empty) = False := by simp [strBody]
    have hn : strBody.nullable = false := rfl
    simp only [List.cons_append, longestGo, deriv_strBody x hx, hne, if_false, hn]
    rw [ih (fun y hy => hb y (by simp [hy]))]
    simp; omega

theorem quote_dead_before_str :
    (lexRules.take 11).all (fun x => x.2.1.deriv 34 == empty && !x.2.1.nullable) = true := by decide +kernel
theorem quote_dead_between :
    ((lexRules.drop 12).take 29).all (fun x => x.2.1.deriv 34 == empty && !x.2.1.nullable) = true := by decide +kernel
theorem quote_dead_after :
    ((lexRules.drop 42).take 18).all (fun x => x.2.1.deriv 34 == empty && !x.2.1.nullable) = true := by decide +kernel

theorem lexRules_split_str :
    lexRules = lexRules.take 11 ++ ((.STR, reSTR, false) :: ((lexRules.drop 12).take 29 ++
      ((.QUOTE, reQUOTE, false) :: ((lexRules.drop 42).take 18 ++ [(.ANY, reANY, false)])))) := by
  decide +kernel

theorem foldl_dead_quote (t : List Char) (rs : List (TokKind × Re × Bool)) (acc : Option (TokKind × Bool × Nat))
    (h : rs.all (fun x => x.2.1.deriv 34 == empty && !x.2.1.nullable) = true) :
    rs.foldl (bestStep ('"' :: t)) acc = acc := by
  induction rs with
  | nil => rfl
  | cons x rs ih =>
    rw [List.all_cons, Bool.and_eq_true] at h
    have h1 := h.1
    simp only [Bool.and_eq_true, beq_iff_eq, Bool.not_eq_true'] at h1
    have e : ('"' : Char).toNat = 34 := rfl
    have : x.2.1.longest ('"' :: t) = none := by simp [longest, longestGo, e, h1.1, h1.2]
    simp only [List.foldl_cons, bestStep, this]
    exact ih h.2

/-- **A string literal is one STR token.** -/
theorem bestRule_string (body rest : List Char) (hb : ∀ x ∈ body, strChar x) :
    bestRule lexRules ('"' :: (body ++ '"' :: rest)) = some (.STR, false, body.length + 2) := by
  have e : ('"' : Char).toNat = 34 := rfl
  have hs : reSTR.longest ('"' :: (body ++ '"' :: rest)) = some (body.length + 2) := by
    have h0 : reSTR.nullable = false := by decide +kernel
    have hd : reSTR.deriv 34 = strBody := by decide +kernel
    have hne : (strBody = empty) = False := by simp [strBody]
    have hn : strBody.nullable = false := rfl
    simp only [longest, longestGo, e, hd, h0, hne, if_false, hn]
    rw [longestGo_strBody body rest hb]
    simp; omega
  have hq : reQUOTE.longest ('"' :: (body ++ '"' :: rest)) = some 1 := by
    have h0 : reQUOTE.nullable = false := by decide +kernel
    have hd : reQUOTE.deriv 34 = eps := by decide +kernel
    have h1 : (eps = empty) = False := by simp
    have h2 : eps.nullable = true := rfl
    simp only [longest, longestGo, e, hd, h0, h1, if_false, h2, if_true]
    cases (body ++ '"' :: rest) with
    | nil => simp [longestGo]
    | cons y ys => simp [longestGo, deriv]
  unfold bestRule
  rw [lexRules_split_str, List.foldl_append, foldl_dead_quote _ _ _ quote_dead_before_str]
  simp only [List.foldl_cons, List.foldl_append, List.foldl_nil]
  have s1 : bestStep ('"' :: (body ++ '"' :: rest)) none (.STR, reSTR, false) = some (.STR, false, body.length + 2) := by
    simp [bestStep, hs]
  rw [s1, foldl_dead_quote _ _ _ quote_dead_between]
  have s2 : bestStep ('"' :: (body ++ '"' :: rest)) (some (.STR, false, body.length + 2)) (.QUOTE, reQUOTE, false)
      = some (.STR, false, body.length + 2) := by
    simp [bestStep, hq]
  rw [s2, foldl_dead_quote _ _ _ quote_dead_after]
  simp [bestStep, longest_any_one]

theorem take_len_succ {α} (a : List α) (x : α) (r : List α) : (a ++ x :: r).take (a.length + 1) = a ++ [x] := by
  induction a with
  | nil => simp
  | cons y a ih => simp [ih]

theorem drop_len_succ {α} (a : List α) (x : α) (r : List α) : (a ++ x :: r).drop (a.length + 1) = r := by
  induction a with
  | nil => simp
  | cons y a ih => simp [ih]

/-- the scanner emits the literal, quotes included, and continues behind the closing quote -/
theorem lexGo_string (fuel : Nat) (body rest : List Char) (hb : ∀ x ∈ body, strChar x) (p : Pos) (acc : List Tok) :
    lexGo lexRules (fuel + 1) ('"' :: (body ++ '"' :: rest)) p acc =
      lexGo lexRules fuel rest (advance p ('"' :: (body ++ ['"'])))
        (⟨.STR, String.ofList ('"' :: (body ++ ['"'])), p⟩ :: acc) := by
  simp only [lexGo, bestRule_string body rest hb]
  have ht : ('"' :: (body ++ '"' :: rest)).take (body.length + 2) = '"' :: (body ++ ['"']) := by
    simp only [List.take_succ_cons, take_len_succ]
  have hd : ('"' :: (body ++ '"' :: rest)).drop (body.length + 2) = rest := by
    simp only [List.drop_succ_cons, drop_len_succ]
  simp [ht, hd]

end Blackbird
