/-
  Character level: a tab and exactly four spaces are both one TAB token.
-/
import Blackbird.Lemmas.LexNewline

namespace Blackbird
open Re

theorem tab_dead_before_tab :
    (lexRules.take 16).all (fun x => x.2.1.deriv 9 == empty && !x.2.1.nullable) = true := by decide +kernel
theorem tab_dead_after_space :
    ((lexRules.drop 18).take 42).all (fun x => x.2.1.deriv 9 == empty && !x.2.1.nullable) = true := by decide +kernel

theorem foldl_dead_tab (t : List Char) (rs : List (TokKind × Re × Bool)) (acc : Option (TokKind × Bool × Nat))
    (h : rs.all (fun x => x.2.1.deriv 9 == empty && !x.2.1.nullable) = true) :
    rs.foldl (bestStep ('\t' :: t)) acc = acc := by
  induction rs with
  | nil => rfl
  | cons x rs ih =>
    rw [List.all_cons, Bool.and_eq_true] at h
    have h1 := h.1
    simp only [Bool.and_eq_true, beq_iff_eq, Bool.not_eq_true'] at h1
    have e : ('\t' : Char).toNat = 9 := rfl
    have : x.2.1.longest ('\t' :: t) = none := by simp [longest, longestGo, e, h1.1, h1.2]
    simp only [List.foldl_cons, bestStep, this]
    exact ih h.2

/-- a tab followed by the end of the input or by anything but a blank: one TAB token -/
theorem bestRule_tab (rest : List Char) (hr : restOK rest) :
    bestRule lexRules ('\t' :: rest) = some (.TAB, false, 1) := by
  have e : ('\t' : Char).toNat = 9 := rfl
  have ht : reTAB.longest ('\t' :: rest) = some 1 := by
    rcases hr with rfl | ⟨x, u, rfl, hx⟩
    · decide +kernel
    · simp [longest, longestGo, e, reTAB, lit, alts, deriv, nullable, mkAlt, mkSeq, chr, inRanges]
  have hs : reSPACE.longest ('\t' :: rest) = some 1 := by
    have h0 : reSPACE.nullable = false := by decide +kernel
    have hd : reSPACE.deriv 9 = spaceBody := by decide +kernel
    have hne : (spaceBody = empty) = False := by simp [spaceBody]
    have hn : spaceBody.nullable = true := rfl
    simp only [longest, longestGo, e, hd, h0, hne, if_false, hn, if_true, Nat.zero_add]
    have := longestGo_spaceBody 0 rest hr 1
    simpa using this
  unfold bestRule
  rw [lexRules_split_space, List.foldl_append, foldl_dead_tab _ _ _ tab_dead_before_tab]
  simp only [List.foldl_cons, List.foldl_append, List.foldl_nil]
  have s1 : bestStep ('\t' :: rest) none (.TAB, reTAB, false) = some (.TAB, false, 1) := by simp [bestStep, ht]
  have s2 : bestStep ('\t' :: rest) (some (.TAB, false, 1)) (.SPACE, reSPACE, true) = some (.TAB, false, 1) := by
    simp [bestStep, hs]
  rw [s1, s2, foldl_dead_tab _ _ _ tab_dead_after_space]
  simp [bestStep, longest_any_one]

/-- exactly four spaces followed by the end of the input or by anything but a blank: one TAB token -/
theorem bestRule_four_spaces (rest : List Char) (hr : restOK rest) :
    bestRule lexRules (' ' :: ' ' :: ' ' :: ' ' :: rest) = some (.TAB, false, 4) := by
  have e : (' ' : Char).toNat = 32 := rfl
  have ht : reTAB.longest (' ' :: ' ' :: ' ' :: ' ' :: rest) = some 4 := by
    simp [longest, longestGo, e, reTAB, lit, alts, deriv, nullable, mkAlt, mkSeq, chr, inRanges]
    cases rest with
    | nil => simp [longestGo]
    | cons y ys => simp [longestGo, deriv]
  have hs : reSPACE.longest (' ' :: ' ' :: ' ' :: ' ' :: rest) = some 4 := by
    have := longest_space 3 rest hr
    simpa [List.replicate] using this
  unfold bestRule
  rw [lexRules_split_space, List.foldl_append, foldl_dead_space _ _ _ space_dead_before_tab]
  simp only [List.foldl_cons, List.foldl_append, List.foldl_nil]
  have s1 : bestStep (' ' :: ' ' :: ' ' :: ' ' :: rest) none (.TAB, reTAB, false) = some (.TAB, false, 4) := by
    simp [bestStep, ht]
  have s2 : bestStep (' ' :: ' ' :: ' ' :: ' ' :: rest) (some (.TAB, false, 4)) (.SPACE, reSPACE, true) = some (.TAB, false, 4) := by
    simp [bestStep, hs]
  rw [s1, s2, foldl_dead_space _ _ _ space_dead_after_space]
  simp [bestStep, longest_any_one]

end Blackbird
