/-
  The scanner is total and consumes its whole input: at a non-empty text some rule matches at least
  one and at most all of the remaining characters (ANY, the last rule, matches any single
  character), so the fuel `length + 1` given by `lex` is never exhausted before the end.
-/
import Blackbird.Lemmas.Longest
import Blackbird.Lemmas.LexNewline

namespace Blackbird
open Re

theorem longest_le (r : Re) (s : List Char) (n : Nat) (h : r.longest s = some n) : n ≤ s.length := by
  obtain ⟨h1, _⟩ := ATN.longestGo_spec r s 0 (if r.nullable then some 0 else none)
  unfold longest at h
  rcases h1 with h1 | ⟨k, _, hk2, hk3, _⟩
  · rw [h1] at h
    by_cases hn : r.nullable = true
    · simp [hn] at h; omega
    · simp [hn] at h
  · rw [hk3] at h
    simp at h; omega

/-- what the scan over the rules maintains: a match of at least one and at most all characters -/
def accOK (s : List Char) : Option (TokKind × Bool × Nat) → Prop
  | none => True
  | some (_, _, n) => 1 ≤ n ∧ n ≤ s.length

theorem bestStep_ok (s : List Char) (acc : Option (TokKind × Bool × Nat)) (x : TokKind × Re × Bool)
    (h : accOK s acc) : accOK s (bestStep s acc x) := by
  unfold bestStep
  cases hl : x.2.1.longest s with
  | none => simpa using h
  | some n =>
    have hle := longest_le _ _ _ hl
    by_cases h0 : n = 0
    · simpa [h0] using h
    · simp only [h0, if_false]
      cases acc with
      | none => exact ⟨by omega, hle⟩
      | some a =>
        obtain ⟨k, sk, m⟩ := a
        by_cases hg : n > m
        · simp only [hg, if_true]; exact ⟨by omega, hle⟩
        · simpa [hg] using h

theorem foldl_ok (s : List Char) (rs : List (TokKind × Re × Bool)) (acc : Option (TokKind × Bool × Nat))
    (h : accOK s acc) : accOK s (rs.foldl (bestStep s) acc) := by
  induction rs generalizing acc with
  | nil => exact h
  | cons x rs ih => exact ih _ (bestStep_ok s acc x h)

/-- every match is between one character and the whole rest -/
theorem bestRule_bounds (rules : List (TokKind × Re × Bool)) (s : List Char) (k : TokKind) (skip : Bool) (n : Nat)
    (h : bestRule rules s = some (k, skip, n)) : 1 ≤ n ∧ n ≤ s.length := by
  have := foldl_ok s rules none trivial
  unfold bestRule at h
  rw [h] at this
  exact this

theorem lexRules_split_any : lexRules = lexRules.take 60 ++ [(.ANY, reANY, false)] := by decide +kernel

/-- at a non-empty text some rule always matches: the scanner cannot get stuck -/
theorem bestRule_total (x : Char) (t : List Char) : (bestRule lexRules (x :: t)).isSome = true := by
  unfold bestRule
  rw [lexRules_split_any, List.foldl_append]
  simp only [List.foldl_cons, List.foldl_nil, bestStep, longest_any_one]
  cases List.foldl (bestStep (x :: t)) none (lexRules.take 60) with
  | none => simp
  | some a =>
    obtain ⟨k, sk, m⟩ := a
    by_cases hg : 1 > m <;> simp [hg]

/-- more fuel than characters changes nothing: `lex` consumes its whole input -/
theorem lexGo_fuel_enough (fuel : Nat) (s : List Char) (hf : s.length < fuel) (extra : Nat) (p : Pos) (acc : List Tok) :
    lexGo lexRules (fuel + extra) s p acc = lexGo lexRules fuel s p acc := by
  induction fuel generalizing s p acc with
  | zero => omega
  | succ fuel ih =>
    cases s with
    | nil => simp [lexGo, Nat.succ_add]
    | cons x t =>
      have e : fuel + 1 + extra = (fuel + extra) + 1 := by omega
      rw [e]
      simp only [lexGo]
      cases hb : bestRule lexRules (x :: t) with
      | none => rfl
      | some r =>
        obtain ⟨k, skip, n⟩ := r
        obtain ⟨h1, h2⟩ := bestRule_bounds _ _ _ _ _ hb
        simp only
        apply ih
        simp only [List.length_drop, List.length_cons] at *
        omega

theorem advance_append (p : Pos) (a b : List Char) : advance (advance p a) b = advance p (a ++ b) := by
  induction a generalizing p with
  | nil => rfl
  | cons c a ih => simp only [List.cons_append, advance]; exact ih _

/-- the stream ends with the EOF token, positioned behind the whole text -/
theorem lexGo_eof_pos (fuel : Nat) (s : List Char) (hf : s.length < fuel) (p : Pos) (acc : List Tok) :
    (lexGo lexRules fuel s p acc).getLast? = some ⟨.EOF, "<EOF>", advance p s⟩ := by
  induction fuel generalizing s p acc with
  | zero => omega
  | succ fuel ih =>
    cases s with
    | nil => simp [lexGo, advance]
    | cons x t =>
      simp only [lexGo]
      cases hb : bestRule lexRules (x :: t) with
      | none =>
        have := bestRule_total x t
        rw [hb] at this; cases this
      | some r =>
        obtain ⟨k, skip, n⟩ := r
        obtain ⟨h1, h2⟩ := bestRule_bounds _ _ _ _ _ hb
        simp only
        rw [ih, advance_append, List.take_append_drop]
        simp only [List.length_drop, List.length_cons] at *
        omega

end Blackbird
