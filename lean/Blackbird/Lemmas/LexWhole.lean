/-
  The character-level lemmas at the level of `lex` itself (whole texts, the fuel `lex` passes).
-/
import Blackbird.Lemmas.LexTotal
import Blackbird.Lemmas.LexTab
import Blackbird.Lemmas.LexString

namespace Blackbird

/-- `lex` on a list of characters -/
def lexL (cs : List Char) : List Tok := lexGo lexRules (cs.length + 1) cs ⟨1, 0⟩ []

theorem lex_eq_lexL (s : String) : lex s = lexL s.toList := rfl

/-- a text that starts with a comment lexes like the text behind the comment -/
theorem lexL_leading_comment (c rest : List Char) (hc : ∀ x ∈ c, notEol x)
    (hr : rest = [] ∨ ∃ x t, rest = x :: t ∧ (x = '\n' ∨ x = '\r')) :
    (lexL ('#' :: (c ++ rest))).map Tok.kt = (lexL rest).map Tok.kt := by
  unfold lexL
  have e : ('#' :: (c ++ rest)).length + 1 = (rest.length + 1 + c.length) + 1 := by simp; omega
  rw [e, lexGo_comment _ c rest hc hr, lexGo_fuel_enough (rest.length + 1) rest (by omega) c.length]
  exact lexGo_pos_irrelevant _ _ _ _ _ _ _ rfl

/-- a text that starts with spaces (not exactly four) lexes like the text behind them -/
theorem lexL_leading_spaces (n : Nat) (rest : List Char) (hr : restOK rest) (hn : n + 1 ≠ 4) :
    (lexL (' ' :: (List.replicate n ' ' ++ rest))).map Tok.kt = (lexL rest).map Tok.kt := by
  unfold lexL
  have e : (' ' :: (List.replicate n ' ' ++ rest)).length + 1 = (rest.length + 1 + n) + 1 := by simp; omega
  rw [e, lexGo_spaces _ n rest hr hn, lexGo_fuel_enough (rest.length + 1) rest (by omega) n]
  exact lexGo_pos_irrelevant _ _ _ _ _ _ _ rfl

end Blackbird
