/-
  The character-level lemmas at the level of `lex` itself (whole texts, the fuel `lex` passes).
-/
import Blackbird.Lemmas.LexTotal
import Blackbird.Lemmas.LexTab
import Blackbird.Lemmas.LexString

namespace Blackbird

/-- `lex` on a list of characters -/
def lexL (cs : List Char) : List Tok := lexGo lexRules (cs.length + 1) cs ⟨1, 0⟩ []

theorem lex_eq_lexL (s : String) : lex s = lexL s.toList := rfl

/-- a text that starts with a comment lexes like the text behind the comment -/
theorem lexL_leading_comment (c rest : List Char) (hc : ∀ x ∈ c, notEol x)
    (hr : rest = [] ∨ ∃ x t, rest = x :: t ∧ (x = '\n' ∨ x = '\r')) :
    (lexL ('#' :: (c ++ rest))).map Tok.kt = (lexL rest).map Tok.kt := by
  unfold lexL
  have e : ('#' :: (c ++ rest)).length + 1 = (rest.length + 1 + c.length) + 1 := by simp; omega
  rw [e, lexGo_comment _ c rest hc hr, lexGo_fuel_enough (rest.length + 1) rest (by omega) c.length]
  exact lexGo_pos_irrelevant _ _ _ _ _ _ _ rfl

/-- a text that starts with spaces (not exactly four) lexes like the text behind them -/
theorem lexL_leading_spaces (n : Nat) (rest : List Char) (hr : restOK rest) (hn : n + 1 ≠ 4) :
    (lexL (' ' :: (List.replicate n ' ' ++ rest))).map Tok.kt = (lexL rest).map Tok.kt := by
  unfold lexL
  have e : (' ' :: (List.replicate n ' ' ++ rest)).length + 1 = (rest.length + 1 + n) + 1 := by simp; omega
  rw [e, lexGo_spaces _ n rest hr hn, lexGo_fuel_enough (rest.length + 1) rest (by omega) n]
  exact lexGo_pos_irrelevant _ _ _ _ _ _ _ rfl

/-- the tokens already emitted are a prefix of the result: scanning is compositional -/
theorem lexGo_acc (rules : List (TokKind × Re × Bool)) (fuel : Nat) (s : List Char) (p : Pos) (acc : List Tok) :
    lexGo rules fuel s p acc = acc.reverse ++ lexGo rules fuel s p [] := by
  induction fuel generalizing s p acc with
  | zero => simp [lexGo]
  | succ fuel ih =>
    cases s with
    | nil => simp [lexGo]
    | cons x s =>
      simp only [lexGo]
      cases hb : bestRule rules (x :: s) with
      | none => simp
      | some r =>
        obtain ⟨k, skip, n⟩ := r
        simp only
        cases skip with
        | true => simpa using ih _ _ acc
        | false =>
          simp only [Bool.false_eq_true, if_false]
          rw [ih _ _ (_ :: acc), ih _ _ [_]]
          simp

/-- a text that starts with a line end: one NEWLINE, then the tokens of the rest; the three styles
give the same kinds -/
theorem lexL_leading_eol_kinds (rest : List Char) (hr : rest = [] ∨ ∃ y u, rest = y :: u ∧ y ≠ '\n') :
    (lexL ('\n' :: rest)).map (·.kind) = .NEWLINE :: (lexL rest).map (·.kind) ∧
    (lexL ('\r' :: '\n' :: rest)).map (·.kind) = .NEWLINE :: (lexL rest).map (·.kind) ∧
    (lexL ('\r' :: rest)).map (·.kind) = .NEWLINE :: (lexL rest).map (·.kind) := by
  unfold lexL
  refine ⟨?_, ?_, ?_⟩
  · have e : ('\n' :: rest).length + 1 = (rest.length + 1) + 1 := by simp
    rw [e, lexGo_eol _ _ 1 (.lf rest), lexGo_acc]
    simp only [List.drop_succ_cons, List.drop_zero, List.reverse_cons, List.reverse_nil, List.nil_append,
      List.singleton_append, List.map_cons]
    congr 1
    exact lexGo_kinds_irrelevant _ _ _ _ _ _ _ rfl
  · have e : ('\r' :: '\n' :: rest).length + 1 = (rest.length + 1 + 1) + 1 := by simp
    rw [e, lexGo_eol _ _ 2 (.crlf rest), lexGo_acc]
    simp only [List.drop_succ_cons, List.drop_zero, List.reverse_cons, List.reverse_nil, List.nil_append,
      List.singleton_append, List.map_cons]
    congr 1
    rw [lexGo_fuel_enough (rest.length + 1) rest (by omega) 1]
    exact lexGo_kinds_irrelevant _ _ _ _ _ _ _ rfl
  · have e : ('\r' :: rest).length + 1 = (rest.length + 1) + 1 := by simp
    rw [e, lexGo_eol _ _ 1 (.cr rest hr), lexGo_acc]
    simp only [List.drop_succ_cons, List.drop_zero, List.reverse_cons, List.reverse_nil, List.nil_append,
      List.singleton_append, List.map_cons]
    congr 1
    exact lexGo_kinds_irrelevant _ _ _ _ _ _ _ rfl

end Blackbird
