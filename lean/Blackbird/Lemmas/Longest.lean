/-
  `Re.longest` returns the length of the longest prefix in the language of the regular expression
  (language = `reMatches`, the notion the ATN theorems of C14 use).
-/
import Blackbird.ATNSem

namespace Blackbird.ATN
open Blackbird

theorem reMatches_empty (w : List Nat) : reMatches .empty w = false := by
  induction w with
  | nil => rfl
  | cons c w ih => simpa [reMatches, Re.deriv] using ih

theorem reMatches_cons' (r : Re) (c : Nat) (w : List Nat) : reMatches r (c :: w) = reMatches (r.deriv c) w := rfl

def codes (s : List Char) : List Nat := s.map Char.toNat

/-- what `longestGo` returns: either the incumbent, or `i + k` for a prefix of length `k ≥ 1` in the
language; and nothing longer is in the language -/
theorem longestGo_spec (r : Re) (s : List Char) (i : Nat) (best : Option Nat) :
    (Re.longestGo r s i best = best ∨
      ∃ k, 1 ≤ k ∧ k ≤ s.length ∧ Re.longestGo r s i best = some (i + k) ∧ reMatches r (codes (s.take k)) = true) ∧
    (∀ k, 1 ≤ k → k ≤ s.length → reMatches r (codes (s.take k)) = true →
      ∃ n, Re.longestGo r s i best = some n ∧ i + k ≤ n) := by
  induction s generalizing r i best with
  | nil =>
    refine ⟨Or.inl rfl, ?_⟩
    intro k hk1 hk2
    simp at hk2
    omega
  | cons c s ih =>
    simp only [Re.longestGo]
    by_cases hdead : r.deriv c.toNat = Re.empty
    · simp only [hdead, if_true]
      refine ⟨Or.inl trivial, ?_⟩
      intro k hk1 hk2 hm
      obtain ⟨j, rfl⟩ : ∃ j, k = j + 1 := ⟨k - 1, by omega⟩
      simp only [List.take_succ_cons, codes, List.map_cons] at hm
      rw [reMatches_cons', hdead, reMatches_empty] at hm
      cases hm
    · simp only [hdead, if_false]
      obtain ⟨h1, h2⟩ := ih (r.deriv c.toNat) (i + 1) (if (r.deriv c.toNat).nullable then some (i + 1) else best)
      constructor
      · rcases h1 with h1 | ⟨k, hk1, hk2, hk3, hk4⟩
        · by_cases hn : (r.deriv c.toNat).nullable = true
          · right
            refine ⟨1, Nat.le_refl _, by simp, ?_, ?_⟩
            · rw [h1]; simp [hn]
            · simpa [codes, reMatches] using hn
          · left
            rw [h1]; simp [hn]
        · right
          refine ⟨k + 1, by omega, by simpa using hk2, ?_, ?_⟩
          · rw [hk3]; congr 1; omega
          · simpa [codes, List.take_succ_cons, reMatches_cons'] using hk4
      · intro k hk1 hk2 hm
        obtain ⟨j, rfl⟩ : ∃ j, k = j + 1 := ⟨k - 1, by omega⟩
        simp only [List.take_succ_cons, codes, List.map_cons, reMatches_cons'] at hm
        by_cases hj : j = 0
        · subst hj
          simp only [List.take_zero, List.map_nil, reMatches, List.foldl_nil] at hm
          -- the incumbent becomes i + 1; the result can only grow
          rcases h1 with h1 | ⟨k, _, _, hk3, _⟩
          · exact ⟨i + 1, by rw [h1]; simp [hm], by omega⟩
          · exact ⟨i + 1 + k, hk3, by omega⟩
        · obtain ⟨n, hn1, hn2⟩ := h2 j (by omega) (by simpa using hk2) (by simpa [codes] using hm)
          exact ⟨n, hn1, by omega⟩

/-- **Longest match.** If `longest r s = some n` then the prefix of length `n` is in the language of
`r` and no longer prefix is; if it is `none`, no prefix (not even the empty one) is. -/
theorem longest_spec (r : Re) (s : List Char) :
    (∀ n, Re.longest r s = some n →
      reMatches r (codes (s.take n)) = true ∧ ∀ k, n < k → k ≤ s.length → reMatches r (codes (s.take k)) = false) ∧
    (Re.longest r s = none → ∀ k, k ≤ s.length → reMatches r (codes (s.take k)) = false) := by
  obtain ⟨h1, h2⟩ := longestGo_spec r s 0 (if r.nullable then some 0 else none)
  unfold Re.longest
  constructor
  · intro n hn
    constructor
    · rcases h1 with h1 | ⟨k, hk1, hk2, hk3, hk4⟩
      · rw [h1] at hn
        by_cases hnul : r.nullable = true
        · simp only [hnul, if_true, Option.some.injEq] at hn
          subst hn
          simpa [codes, reMatches] using hnul
        · simp [hnul] at hn
      · rw [hk3] at hn
        simp only [Nat.zero_add, Option.some.injEq] at hn
        subst hn
        exact hk4
    · intro k hk hks
      cases hm : reMatches r (codes (s.take k)) with
      | false => rfl
      | true =>
        obtain ⟨n', hn1, hn2⟩ := h2 k (by omega) hks hm
        rw [hn] at hn1
        simp only [Option.some.injEq] at hn1
        omega
  · intro hnone k hks
    cases hm : reMatches r (codes (s.take k)) with
    | false => rfl
    | true =>
      by_cases hk0 : k = 0
      · subst hk0
        simp only [List.take_zero, codes, List.map_nil, reMatches, List.foldl_nil] at hm
        rcases h1 with h1 | ⟨k', _, _, hk3, _⟩
        · rw [h1] at hnone; simp [hm] at hnone
        · rw [hk3] at hnone; cases hnone
      · obtain ⟨n', hn1, _⟩ := h2 k (by omega) hks hm
        rw [hnone] at hn1
        cases hn1

end Blackbird.ATN
