/-
  The expression parser inverts the expression printer: for every well-bracketed tree `e` and
  every continuation `rest` that cannot continue an expression, parsing `e.toks ++ rest` returns
  `e` and leaves `rest`.
-/
import Blackbird.Parser
import Blackbird.Print

namespace Blackbird

/-! ### one-step unfoldings -/

theorem pAdd_of_mul (n : Nat) (ts rs : List Tok) (a : Expr) (h : pMul n ts = some (a, rs)) :
    pAdd (n + 1) ts = pAddLoop n a rs := by
  rw [pAdd, h]

theorem pMul_of_pow (n : Nat) (ts rs : List Tok) (a : Expr) (h : pPow n ts = some (a, rs)) :
    pMul (n + 1) ts = pMulLoop n a rs := by
  rw [pMul, h]

theorem pAddLoop_plus (n : Nat) (a b : Expr) (t : Tok) (ts rs : List Tok) (h : t.kind = .PLUS)
    (hb : pMul n ts = some (b, rs)) : pAddLoop (n + 1) a (t :: ts) = pAddLoop n (.add a b) rs := by
  rw [pAddLoop]; simp [hdKind, h, hb]

theorem pAddLoop_minus (n : Nat) (a b : Expr) (t : Tok) (ts rs : List Tok) (h : t.kind = .MINUS)
    (hb : pMul n ts = some (b, rs)) : pAddLoop (n + 1) a (t :: ts) = pAddLoop n (.sub a b) rs := by
  rw [pAddLoop]; simp [hdKind, h, hb]

theorem pAddLoop_exit (n : Nat) (a : Expr) (ts : List Tok) (h1 : hdKind ts ≠ .PLUS) (h2 : hdKind ts ≠ .MINUS) :
    pAddLoop (n + 1) a ts = some (a, ts) := by
  rw [pAddLoop]
  split <;> simp_all

theorem pMulLoop_times (n : Nat) (a b : Expr) (t : Tok) (ts rs : List Tok) (h : t.kind = .TIMES)
    (hb : pPow n ts = some (b, rs)) : pMulLoop (n + 1) a (t :: ts) = pMulLoop n (.mul a b) rs := by
  rw [pMulLoop]; simp [hdKind, h, hb]

theorem pMulLoop_divide (n : Nat) (a b : Expr) (t : Tok) (ts rs : List Tok) (h : t.kind = .DIVIDE)
    (hb : pPow n ts = some (b, rs)) : pMulLoop (n + 1) a (t :: ts) = pMulLoop n (.div a b) rs := by
  rw [pMulLoop]; simp [hdKind, h, hb]

theorem pMulLoop_exit (n : Nat) (a : Expr) (ts : List Tok) (h1 : hdKind ts ≠ .TIMES) (h2 : hdKind ts ≠ .DIVIDE) :
    pMulLoop (n + 1) a ts = some (a, ts) := by
  rw [pMulLoop]
  split <;> simp_all

theorem pPow_pwr (n : Nat) (a b : Expr) (t : Tok) (ts rs rs' : List Tok)
    (ha : pUnary n ts = some (a, t :: rs)) (h : t.kind = .PWR) (hb : pPow n rs = some (b, rs')) :
    pPow (n + 1) ts = some (.pow a b, rs') := by
  rw [pPow, ha]; simp [hdKind, h, hb]

theorem pPow_exit (n : Nat) (a : Expr) (ts rs : List Tok) (ha : pUnary n ts = some (a, rs))
    (h : hdKind rs ≠ .PWR) : pPow (n + 1) ts = some (a, rs) := by
  rw [pPow, ha]; simp [h]

theorem pUnary_plus (n : Nat) (e : Expr) (t : Tok) (ts rs : List Tok) (h : t.kind = .PLUS)
    (he : pUnary n ts = some (e, rs)) : pUnary (n + 1) (t :: ts) = some (.pos e, rs) := by
  rw [pUnary]; simp [h, he]

theorem pUnary_minus (n : Nat) (e : Expr) (t : Tok) (ts rs : List Tok) (h : t.kind = .MINUS)
    (he : pUnary n ts = some (e, rs)) : pUnary (n + 1) (t :: ts) = some (.neg e, rs) := by
  rw [pUnary]; simp [h, he]

theorem pUnary_atom (n : Nat) (t : Tok) (ts : List Tok) (h1 : t.kind ≠ .PLUS) (h2 : t.kind ≠ .MINUS) :
    pUnary (n + 1) (t :: ts) = pAtom n (t :: ts) := by
  rw [pUnary]
  split <;> simp_all

theorem pAtom_num (n : Nat) (k : NumKind) (t : Tok) (ts : List Tok) (h : t.kind = k.tok) :
    pAtom (n + 1) (t :: ts) = some (.num k t.text, ts) := by
  cases k <;> simp [pAtom, h, NumKind.tok]

theorem pAtom_var (n : Nat) (t : Tok) (ts : List Tok) (h : t.kind = .NAME) (hl : hdKind ts ≠ .LSQBRAC) :
    pAtom (n + 1) (t :: ts) = some (.var t.text t.pos, ts) := by
  simp [pAtom, h, hl]

theorem pAtom_reg (n : Nat) (t : Tok) (ts : List Tok) (h : t.kind = .REGREF) :
    pAtom (n + 1) (t :: ts) = some (.reg t.text, ts) := by
  simp [pAtom, h]

theorem pAtom_idx (n : Nat) (t l r : Tok) (ts rs : List Tok) (e : Expr) (h : t.kind = .NAME)
    (hl : l.kind = .LSQBRAC) (he : pAdd n ts = some (e, r :: rs)) (hr : r.kind = .RSQBRAC) :
    pAtom (n + 1) (t :: l :: ts) = some (.idx t.text t.pos e, rs) := by
  simp [pAtom, h, hdKind, hl, he, hr]

theorem pAtom_brk (n : Nat) (t r : Tok) (ts rs : List Tok) (e : Expr) (h : t.kind = .LBRAC)
    (he : pAdd n ts = some (e, r :: rs)) (hr : r.kind = .RBRAC) :
    pAtom (n + 1) (t :: ts) = some (.brk e, rs) := by
  simp [pAtom, h, he, hr]

theorem pAtom_par (n : Nat) (t a b : Tok) (rs : List Tok) (h : t.kind = .LBRACE) (ha : a.kind = .NAME)
    (hb : b.kind = .RBRACE) : pAtom (n + 1) (t :: a :: b :: rs) = some (.par a.text, rs) := by
  simp [pAtom, h, ha, hb]

theorem pAtom_fn (n : Nat) (f : Fn) (t l r : Tok) (ts rs : List Tok) (e : Expr) (h : t.kind = f.tok)
    (hl : l.kind = .LBRAC) (he : pAdd n ts = some (e, r :: rs)) (hr : r.kind = .RBRAC) :
    pAtom (n + 1) (t :: l :: ts) = some (.fn f e, rs) := by
  cases f <;> simp [pAtom, h, Fn.tok, Fn.ofTok, hdKind, hl, he, hr]

/-! ### measures -/

/-- number of `+ -` nodes on the left spine -/
def spineAdd : Expr → Nat
  | .add a _ => spineAdd a + 1
  | .sub a _ => spineAdd a + 1
  | _ => 0

/-- number of `* /` nodes on the left spine -/
def spineMul : Expr → Nat
  | .mul a _ => spineMul a + 1
  | .div a _ => spineMul a + 1
  | _ => 0

theorem spineAdd_le_size (e : Expr) : spineAdd e < e.size := by
  induction e <;> simp [spineAdd, Expr.size] <;> omega

theorem spineMul_le_size (e : Expr) : spineMul e < e.size := by
  induction e <;> simp [spineMul, Expr.size] <;> omega

theorem size_pos (e : Expr) : 0 < e.size := by
  cases e <;> simp [Expr.size]

/-- fuel that is enough to parse `e` at any level -/
def need (e : Expr) : Nat := 6 * e.size + 6

/-- the continuation cannot continue an expression at level `l` -/
def follows (l : Nat) (rest : List Tok) : Prop :=
  hdKind rest ≠ .LSQBRAC ∧ hdKind rest ≠ .PWR ∧
  (l ≤ 1 → hdKind rest ≠ .TIMES ∧ hdKind rest ≠ .DIVIDE) ∧
  (l = 0 → hdKind rest ≠ .PLUS ∧ hdKind rest ≠ .MINUS)

theorem Fn_ofTok_tok (f : Fn) : Fn.ofTok f.tok = some f := by cases f <;> rfl

theorem numTok_not_sign (k : NumKind) : k.tok ≠ .PLUS ∧ k.tok ≠ .MINUS := by cases k <;> simp [NumKind.tok]
theorem fnTok_not_sign (f : Fn) : f.tok ≠ .PLUS ∧ f.tok ≠ .MINUS := by cases f <;> simp [Fn.tok]

/-- the first token of an atom is not a sign -/
theorem atom_head_not_sign (e : Expr) (h : e.level = 4) (rest : List Tok) :
    ∃ t ts, e.toks ++ rest = t :: ts ∧ t.kind ≠ .PLUS ∧ t.kind ≠ .MINUS := by
  cases e with
  | num k t => exact ⟨mkTok k.tok t, rest, rfl, (numTok_not_sign k).1, (numTok_not_sign k).2⟩
  | var x p => exact ⟨_, _, rfl, by simp, by simp⟩
  | reg t => exact ⟨_, _, rfl, by simp [mkTok], by simp [mkTok]⟩
  | idx x p i => exact ⟨_, _, rfl, by simp, by simp⟩
  | par p => exact ⟨_, _, rfl, by simp [mkTok], by simp [mkTok]⟩
  | brk e => exact ⟨_, _, rfl, by simp [mkTok], by simp [mkTok]⟩
  | fn f x => exact ⟨mkTok f.tok f.name, _, rfl, (fnTok_not_sign f).1, (fnTok_not_sign f).2⟩
  | pos e => simp [Expr.level] at h
  | neg e => simp [Expr.level] at h
  | pow a b => simp [Expr.level] at h
  | mul a b => simp [Expr.level] at h
  | div a b => simp [Expr.level] at h
  | add a b => simp [Expr.level] at h
  | sub a b => simp [Expr.level] at h

/-! ### the five levels -/

def AtomOK (e : Expr) : Prop := ∀ n rest, 6 * e.size + 1 ≤ n → hdKind rest ≠ .LSQBRAC →
  pAtom n (e.toks ++ rest) = some (e, rest)
def UnaryOK (e : Expr) : Prop := ∀ n rest, 6 * e.size + 2 ≤ n → hdKind rest ≠ .LSQBRAC →
  pUnary n (e.toks ++ rest) = some (e, rest)
def PowOK (e : Expr) : Prop := ∀ n rest, 6 * e.size + 3 ≤ n → hdKind rest ≠ .LSQBRAC → hdKind rest ≠ .PWR →
  pPow n (e.toks ++ rest) = some (e, rest)
def MulOK (e : Expr) : Prop := ∀ n rest, 6 * e.size + 4 ≤ n → hdKind rest ≠ .LSQBRAC → hdKind rest ≠ .PWR →
  pMul n (e.toks ++ rest) = pMulLoop (n - 1 - spineMul e) e rest
def AddOK (e : Expr) : Prop := ∀ n rest, 6 * e.size + 6 ≤ n → hdKind rest ≠ .LSQBRAC → hdKind rest ≠ .PWR →
  hdKind rest ≠ .TIMES → hdKind rest ≠ .DIVIDE →
  pAdd n (e.toks ++ rest) = pAddLoop (n - 1 - spineAdd e) e rest

theorem unary_of_atom (e : Expr) (h4 : e.level = 4) (h : AtomOK e) : UnaryOK e := by
  intro n rest hn hl
  obtain ⟨t, ts, hts, h1, h2⟩ := atom_head_not_sign e h4 rest
  obtain ⟨k, rfl⟩ : ∃ k, n = k + 1 := ⟨n - 1, by omega⟩
  rw [hts, pUnary_atom k t ts h1 h2, ← hts]
  exact h k rest (by omega) hl

theorem pow_of_unary (e : Expr) (h : UnaryOK e) : PowOK e := by
  intro n rest hn hl hp
  obtain ⟨k, rfl⟩ : ∃ k, n = k + 1 := ⟨n - 1, by omega⟩
  exact pPow_exit k e _ rest (h k rest (by omega) hl) hp

theorem mul_of_pow (e : Expr) (hs : spineMul e = 0) (h : PowOK e) : MulOK e := by
  intro n rest hn hl hp
  obtain ⟨k, rfl⟩ : ∃ k, n = k + 1 := ⟨n - 1, by omega⟩
  rw [pMul_of_pow k _ rest e (h k rest (by omega) hl hp), hs]
  simp

theorem add_of_mul (e : Expr) (hs : spineAdd e = 0) (h : MulOK e) : AddOK e := by
  intro n rest hn hl hp ht hd
  obtain ⟨k, rfl⟩ : ∃ k, n = k + 1 := ⟨n - 1, by omega⟩
  have hm := h k rest (by omega) hl hp
  have hsz := spineMul_le_size e
  obtain ⟨j, hj⟩ : ∃ j, k - 1 - spineMul e = j + 1 := ⟨k - 1 - spineMul e - 1, by omega⟩
  rw [hj, pMulLoop_exit j e rest ht hd] at hm
  rw [pAdd_of_mul k _ rest e hm, hs]
  simp

theorem level_spineMul (e : Expr) (h : e.level ≥ 2) : spineMul e = 0 := by
  cases e <;> simp [Expr.level] at h <;> rfl

theorem level_spineAdd (e : Expr) (h : e.level ≥ 1) : spineAdd e = 0 := by
  cases e <;> simp [Expr.level] at h <;> rfl

/-- inner expression of a bracketed construct: parsed by `pAdd` up to the closing token -/
theorem inner_ok (x : Expr) (hx : AddOK x) (k : Nat) (close : Tok) (rest : List Tok) (hk : 6 * x.size + 6 ≤ k)
    (hc : close.kind = .RBRAC ∨ close.kind = .RSQBRAC) :
    pAdd k (x.toks ++ close :: rest) = some (x, close :: rest) := by
  have hne : ∀ kd, kd ≠ .RBRAC → kd ≠ .RSQBRAC → hdKind (close :: rest) ≠ kd := by
    intro kd h1 h2 heq
    simp only [hdKind] at heq
    rcases hc with hc | hc
    · rw [hc] at heq; exact h1 heq.symm
    · rw [hc] at heq; exact h2 heq.symm
  have h := hx k (close :: rest) hk (hne _ (by simp) (by simp)) (hne _ (by simp) (by simp))
    (hne _ (by simp) (by simp)) (hne _ (by simp) (by simp))
  have hsz := spineAdd_le_size x
  obtain ⟨j, hj⟩ : ∃ j, k - 1 - spineAdd x = j + 1 := ⟨k - 1 - spineAdd x - 1, by omega⟩
  rw [h, hj, pAddLoop_exit j x _ (hne _ (by simp) (by simp)) (hne _ (by simp) (by simp))]

/-- everything one needs to know about parsing `e.toks`, at every level `e` can be parsed at -/
structure AllOK (e : Expr) : Prop where
  atom : e.level = 4 → AtomOK e
  unary : e.level ≥ 3 → UnaryOK e
  pow : e.level ≥ 2 → PowOK e
  mul : e.level ≥ 1 → MulOK e
  add : AddOK e

/-- complete the chain of levels from the highest level at which `e` has been shown parseable -/
theorem allOK_of_atom (e : Expr) (h4 : e.level = 4) (h : AtomOK e) : AllOK e :=
  have hu := unary_of_atom e h4 h
  have hp := pow_of_unary e hu
  have hm := mul_of_pow e (level_spineMul e (by omega)) hp
  ⟨fun _ => h, fun _ => hu, fun _ => hp, fun _ => hm, add_of_mul e (level_spineAdd e (by omega)) hm⟩

theorem allOK_of_unary (e : Expr) (h3 : e.level = 3) (hu : UnaryOK e) : AllOK e :=
  have hp := pow_of_unary e hu
  have hm := mul_of_pow e (level_spineMul e (by omega)) hp
  ⟨fun h => by omega, fun _ => hu, fun _ => hp, fun _ => hm, add_of_mul e (level_spineAdd e (by omega)) hm⟩

theorem allOK_of_pow (e : Expr) (h2 : e.level = 2) (hp : PowOK e) : AllOK e :=
  have hm := mul_of_pow e (level_spineMul e (by omega)) hp
  ⟨fun h => by omega, fun h => by omega, fun _ => hp, fun _ => hm, add_of_mul e (level_spineAdd e (by omega)) hm⟩

theorem allOK_of_mul (e : Expr) (h1 : e.level = 1) (hm : MulOK e) : AllOK e :=
  ⟨fun h => by omega, fun h => by omega, fun h => by omega, fun _ => hm, add_of_mul e (level_spineAdd e (by omega)) hm⟩

theorem allOK_of_add (e : Expr) (h0 : e.level = 0) (ha : AddOK e) : AllOK e :=
  ⟨fun h => by omega, fun h => by omega, fun h => by omega, fun h => by omega, ha⟩

theorem append_assoc3 (a : List Tok) (t : Tok) (b rest : List Tok) :
    (a ++ [t] ++ b) ++ rest = a ++ t :: (b ++ rest) := by simp

theorem mulNode_ok (a b : Expr) (t : Tok) (mk : Expr → Expr → Expr) (ha : MulOK a) (hb : PowOK b)
    (hsz : (mk a b).size = a.size + b.size + 1) (hsp : spineMul (mk a b) = spineMul a + 1)
    (htoks : (mk a b).toks = a.toks ++ [t] ++ b.toks)
    (hstep : ∀ n x ts rs, pPow n ts = some (x, rs) → pMulLoop (n + 1) a (t :: ts) = pMulLoop n (mk a x) rs)
    (htk : t.kind ≠ .LSQBRAC ∧ t.kind ≠ .PWR) : MulOK (mk a b) := by
  intro n rest hn hl hp
  rw [htoks, append_assoc3]
  rw [hsz] at hn
  have h1 := ha n (t :: (b.toks ++ rest)) (by omega) (by simpa [hdKind] using htk.1) (by simpa [hdKind] using htk.2)
  have hsa := spineMul_le_size a
  obtain ⟨m, hm⟩ : ∃ m, n - 1 - spineMul a = m + 1 := ⟨n - 1 - spineMul a - 1, by omega⟩
  rw [h1, hm, hstep m b _ rest (hb m rest (by omega) hl hp), hsp]
  congr 1
  omega

theorem addNode_ok (a b : Expr) (t : Tok) (mk : Expr → Expr → Expr) (ha : AddOK a) (hb : MulOK b)
    (hsz : (mk a b).size = a.size + b.size + 1) (hsp : spineAdd (mk a b) = spineAdd a + 1)
    (htoks : (mk a b).toks = a.toks ++ [t] ++ b.toks)
    (hstep : ∀ n x ts rs, pMul n ts = some (x, rs) → pAddLoop (n + 1) a (t :: ts) = pAddLoop n (mk a x) rs)
    (htk : t.kind ≠ .LSQBRAC ∧ t.kind ≠ .PWR ∧ t.kind ≠ .TIMES ∧ t.kind ≠ .DIVIDE) : AddOK (mk a b) := by
  intro n rest hn hl hp ht hd
  rw [htoks, append_assoc3]
  rw [hsz] at hn
  have h1 := ha n (t :: (b.toks ++ rest)) (by omega) (by simpa [hdKind] using htk.1)
    (by simpa [hdKind] using htk.2.1) (by simpa [hdKind] using htk.2.2.1) (by simpa [hdKind] using htk.2.2.2)
  have hsa := spineAdd_le_size a
  have hsb := spineMul_le_size b
  obtain ⟨m, hm⟩ : ∃ m, n - 1 - spineAdd a = m + 1 := ⟨n - 1 - spineAdd a - 1, by omega⟩
  have h2 := hb m rest (by omega) hl hp
  obtain ⟨j, hj⟩ : ∃ j, m - 1 - spineMul b = j + 1 := ⟨m - 1 - spineMul b - 1, by omega⟩
  rw [hj, pMulLoop_exit j b rest ht hd] at h2
  rw [h1, hm, hstep m b _ rest h2, hsp]
  congr 1
  omega

theorem parse_all (e : Expr) (hwf : e.WF = true) : AllOK e := by
  induction e with
  | num k t =>
    apply allOK_of_atom _ rfl
    intro n rest hn _
    obtain ⟨m, rfl⟩ : ∃ m, n = m + 1 := ⟨n - 1, by simp [Expr.size] at hn; omega⟩
    simp only [Expr.toks, List.singleton_append]
    exact pAtom_num m k _ rest rfl
  | var x p =>
    apply allOK_of_atom _ rfl
    intro n rest hn hl
    obtain ⟨m, rfl⟩ : ∃ m, n = m + 1 := ⟨n - 1, by simp [Expr.size] at hn; omega⟩
    simp only [Expr.toks, List.singleton_append]
    exact pAtom_var m _ rest rfl hl
  | reg t =>
    apply allOK_of_atom _ rfl
    intro n rest hn _
    obtain ⟨m, rfl⟩ : ∃ m, n = m + 1 := ⟨n - 1, by simp [Expr.size] at hn; omega⟩
    simp only [Expr.toks, List.singleton_append]
    exact pAtom_reg m _ rest rfl
  | par p =>
    apply allOK_of_atom _ rfl
    intro n rest hn _
    obtain ⟨m, rfl⟩ : ∃ m, n = m + 1 := ⟨n - 1, by simp [Expr.size] at hn; omega⟩
    simp only [Expr.toks, List.cons_append, List.nil_append]
    exact pAtom_par m _ _ _ rest rfl rfl rfl
  | idx x p i ih =>
    simp only [Expr.WF] at hwf
    have hi := (ih hwf).add
    apply allOK_of_atom _ rfl
    intro n rest hn _
    simp only [Expr.size] at hn
    obtain ⟨m, rfl⟩ : ∃ m, n = m + 1 := ⟨n - 1, by omega⟩
    have hin := inner_ok i hi m (mkTok .RSQBRAC "]") rest (by omega) (Or.inr rfl)
    simp only [Expr.toks, List.cons_append, List.nil_append, List.append_assoc]
    exact pAtom_idx m _ _ _ _ rest i rfl rfl hin rfl
  | brk x ih =>
    simp only [Expr.WF] at hwf
    have hx := (ih hwf).add
    apply allOK_of_atom _ rfl
    intro n rest hn _
    simp only [Expr.size] at hn
    obtain ⟨m, rfl⟩ : ∃ m, n = m + 1 := ⟨n - 1, by omega⟩
    have hin := inner_ok x hx m (mkTok .RBRAC ")") rest (by omega) (Or.inl rfl)
    simp only [Expr.toks, List.cons_append, List.nil_append, List.append_assoc]
    exact pAtom_brk m _ _ _ rest x rfl hin rfl
  | fn f x ih =>
    simp only [Expr.WF] at hwf
    have hx := (ih hwf).add
    apply allOK_of_atom _ rfl
    intro n rest hn _
    simp only [Expr.size] at hn
    obtain ⟨m, rfl⟩ : ∃ m, n = m + 1 := ⟨n - 1, by omega⟩
    have hin := inner_ok x hx m (mkTok .RBRAC ")") rest (by omega) (Or.inl rfl)
    simp only [Expr.toks, List.cons_append, List.nil_append, List.append_assoc]
    exact pAtom_fn m f _ _ _ _ rest x rfl rfl hin rfl
  | pos x ih =>
    simp only [Expr.WF, Bool.and_eq_true, decide_eq_true_eq] at hwf
    have hx := (ih hwf.1).unary hwf.2
    apply allOK_of_unary _ rfl
    intro n rest hn hl
    simp only [Expr.size] at hn
    obtain ⟨m, rfl⟩ : ∃ m, n = m + 1 := ⟨n - 1, by omega⟩
    simp only [Expr.toks, List.cons_append]
    exact pUnary_plus m x _ _ rest rfl (hx m rest (by omega) hl)
  | neg x ih =>
    simp only [Expr.WF, Bool.and_eq_true, decide_eq_true_eq] at hwf
    have hx := (ih hwf.1).unary hwf.2
    apply allOK_of_unary _ rfl
    intro n rest hn hl
    simp only [Expr.size] at hn
    obtain ⟨m, rfl⟩ : ∃ m, n = m + 1 := ⟨n - 1, by omega⟩
    simp only [Expr.toks, List.cons_append]
    exact pUnary_minus m x _ _ rest rfl (hx m rest (by omega) hl)
  | pow a b iha ihb =>
    simp only [Expr.WF, Bool.and_eq_true, decide_eq_true_eq] at hwf
    have ha := (iha hwf.1.1.1).unary hwf.1.2
    have hb := (ihb hwf.1.1.2).pow hwf.2
    apply allOK_of_pow _ rfl
    intro n rest hn hl hp
    simp only [Expr.size] at hn
    obtain ⟨m, rfl⟩ : ∃ m, n = m + 1 := ⟨n - 1, by omega⟩
    simp only [Expr.toks]
    rw [append_assoc3]
    exact pPow_pwr m a b (mkTok .PWR "**") _ _ rest
      (ha m _ (by omega) (by simp [hdKind, mkTok])) rfl (hb m rest (by omega) hl hp)
  | mul a b iha ihb =>
    simp only [Expr.WF, Bool.and_eq_true, decide_eq_true_eq] at hwf
    apply allOK_of_mul _ rfl
    exact mulNode_ok a b (mkTok .TIMES "*") Expr.mul ((iha hwf.1.1.1).mul hwf.1.2) ((ihb hwf.1.1.2).pow hwf.2)
      rfl rfl rfl (fun n x ts rs h => pMulLoop_times n a x _ ts rs rfl h) (by simp [mkTok])
  | div a b iha ihb =>
    simp only [Expr.WF, Bool.and_eq_true, decide_eq_true_eq] at hwf
    apply allOK_of_mul _ rfl
    exact mulNode_ok a b (mkTok .DIVIDE "/") Expr.div ((iha hwf.1.1.1).mul hwf.1.2) ((ihb hwf.1.1.2).pow hwf.2)
      rfl rfl rfl (fun n x ts rs h => pMulLoop_divide n a x _ ts rs rfl h) (by simp [mkTok])
  | add a b iha ihb =>
    simp only [Expr.WF, Bool.and_eq_true, decide_eq_true_eq] at hwf
    apply allOK_of_add _ rfl
    exact addNode_ok a b (mkTok .PLUS "+") Expr.add (iha hwf.1.1).add ((ihb hwf.1.2).mul hwf.2)
      rfl rfl rfl (fun n x ts rs h => pAddLoop_plus n a x _ ts rs rfl h) (by simp [mkTok])
  | sub a b iha ihb =>
    simp only [Expr.WF, Bool.and_eq_true, decide_eq_true_eq] at hwf
    apply allOK_of_add _ rfl
    exact addNode_ok a b (mkTok .MINUS "-") Expr.sub (iha hwf.1.1).add ((ihb hwf.1.2).mul hwf.2)
      rfl rfl rfl (fun n x ts rs h => pAddLoop_minus n a x _ ts rs rfl h) (by simp [mkTok])

end Blackbird
