/-
  The script parser inverts the script printer (statements, arguments, declarations, loops,
  metadata), for every layout of line ends the grammar allows.
-/
import Blackbird.Props.C03Parse

namespace Blackbird

/-! ### comma-separated lists -/

def commaToks {α : Type} (f : α → List Tok) (xs : List α) : List Tok :=
  xs.flatMap fun x => mkTok .COMMA "," :: f x

theorem sepToks_cons {α : Type} (f : α → List Tok) (x : α) (xs : List α) :
    sepToks f (x :: xs) = f x ++ commaToks f xs := by
  induction xs generalizing x with
  | nil => simp [sepToks, commaToks]
  | cons y ys ih =>
    simp only [sepToks, ih y, commaToks, List.flatMap_cons, List.cons_append]

theorem length_commaToks {α : Type} (f : α → List Tok) (xs : List α) : xs.length ≤ (commaToks f xs).length := by
  induction xs with
  | nil => simp [commaToks]
  | cons x xs ih =>
    simp only [commaToks, List.flatMap_cons, List.length_append, List.length_cons] at ih ⊢
    omega

/-- `follow r`: the element parser may stop in front of `r` -/
theorem pSepGo_ok {α : Type} (p : List Tok → Option (α × List Tok)) (f : α → List Tok)
    (follow : List Tok → Prop) (hcomma : ∀ r, hdKind r = .COMMA → follow r)
    (xs : List α) (hp : ∀ x, x ∈ xs → ∀ r, follow r → p (f x ++ r) = some (x, r))
    (rest : List Tok) (hrest : follow rest) (hnc : hdKind rest ≠ .COMMA)
    (n : Nat) (hn : xs.length + 1 ≤ n) (acc : List α) :
    pSepGo p n acc (commaToks f xs ++ rest) = some (acc.reverse ++ xs, rest) := by
  induction xs generalizing n acc with
  | nil =>
    obtain ⟨m, rfl⟩ : ∃ m, n = m + 1 := ⟨n - 1, by omega⟩
    simp [commaToks, pSepGo, hnc]
  | cons x xs ih =>
    obtain ⟨m, rfl⟩ : ∃ m, n = m + 1 := ⟨n - 1, by simp at hn; omega⟩
    have hfx : follow (commaToks f xs ++ rest) := by
      cases xs with
      | nil => simpa [commaToks] using hrest
      | cons y ys => exact hcomma _ (by simp [commaToks, hdKind, mkTok])
    have hx := hp x (by simp) (commaToks f xs ++ rest) hfx
    simp only [commaToks, List.flatMap_cons, List.cons_append, List.append_assoc] at hx ⊢
    simp only [pSepGo, hdKind, mkTok, if_true, List.tail_cons]
    simp only [commaToks, mkTok] at hx
    rw [hx]
    have := ih (fun y hy => hp y (List.mem_cons_of_mem _ hy)) m (by simp at hn; omega) (x :: acc)
    simp only [commaToks, mkTok] at this
    simp only [this]
    simp

theorem pSep_ok {α : Type} (p : List Tok → Option (α × List Tok)) (f : α → List Tok)
    (follow : List Tok → Prop) (hcomma : ∀ r, hdKind r = .COMMA → follow r)
    (x : α) (xs : List α) (hp : ∀ y, y ∈ x :: xs → ∀ r, follow r → p (f y ++ r) = some (y, r))
    (rest : List Tok) (hrest : follow rest) (hnc : hdKind rest ≠ .COMMA) :
    pSep p (sepToks f (x :: xs) ++ rest) = some (x :: xs, rest) := by
  rw [sepToks_cons, List.append_assoc]
  have hfx : follow (commaToks f xs ++ rest) := by
    cases xs with
    | nil => simpa [commaToks] using hrest
    | cons y ys => exact hcomma _ (by simp [commaToks, hdKind, mkTok])
  unfold pSep
  rw [hp x (by simp) _ hfx]
  simp only
  have hlen := length_commaToks f xs
  rw [pSepGo_ok p f follow hcomma xs (fun y hy => hp y (List.mem_cons_of_mem _ hy)) rest hrest hnc _
    (by simp only [List.length_append]; omega) [x]]
  simp

/-! ### expressions, values -/

/-- an expression may stop in front of `r` -/
def exprFollow (r : List Tok) : Prop :=
  hdKind r ≠ .LSQBRAC ∧ hdKind r ≠ .PWR ∧ hdKind r ≠ .TIMES ∧ hdKind r ≠ .DIVIDE ∧
  hdKind r ≠ .PLUS ∧ hdKind r ≠ .MINUS

theorem exprFollow_of_kind (r : List Tok) (k : TokKind) (hk : hdKind r = k)
    (h : k ≠ .LSQBRAC ∧ k ≠ .PWR ∧ k ≠ .TIMES ∧ k ≠ .DIVIDE ∧ k ≠ .PLUS ∧ k ≠ .MINUS) : exprFollow r := by
  unfold exprFollow; rw [hk]; exact h

theorem pExpr_ok (e : Expr) (hwf : e.WF = true) (r : List Tok) (hr : exprFollow r) :
    pExpr (e.toks ++ r) = some (e, r) :=
  C03_parse_print e hwf r hr.1 hr.2.1 hr.2.2.1 hr.2.2.2.1 hr.2.2.2.2.1 hr.2.2.2.2.2

def ArgVal.WF : ArgVal → Bool
  | .expr e => e.WF
  | _ => true

/-- the first token of an expression is never STR or BOOL -/
theorem expr_head (e : Expr) (r : List Tok) : ∃ t ts, e.toks ++ r = t :: ts ∧ t.kind ≠ .STR ∧ t.kind ≠ .BOOL := by
  induction e generalizing r with
  | num k t => exact ⟨_, _, rfl, by cases k <;> simp [mkTok, NumKind.tok], by cases k <;> simp [mkTok, NumKind.tok]⟩
  | var x p => exact ⟨_, _, rfl, by simp, by simp⟩
  | reg t => exact ⟨_, _, rfl, by simp [mkTok], by simp [mkTok]⟩
  | idx x p i _ => exact ⟨_, _, rfl, by simp, by simp⟩
  | par p => exact ⟨_, _, rfl, by simp [mkTok], by simp [mkTok]⟩
  | brk e _ => exact ⟨_, _, rfl, by simp [mkTok], by simp [mkTok]⟩
  | pos e _ => exact ⟨_, _, rfl, by simp [mkTok], by simp [mkTok]⟩
  | neg e _ => exact ⟨_, _, rfl, by simp [mkTok], by simp [mkTok]⟩
  | fn f x _ => exact ⟨_, _, rfl, by cases f <;> simp [mkTok, Fn.tok], by cases f <;> simp [mkTok, Fn.tok]⟩
  | pow a b iha _ =>
    obtain ⟨t, ts, h, h1, h2⟩ := iha ([mkTok .PWR "**"] ++ b.toks ++ r)
    exact ⟨t, ts, by simpa [Expr.toks, List.append_assoc] using h, h1, h2⟩
  | mul a b iha _ =>
    obtain ⟨t, ts, h, h1, h2⟩ := iha ([mkTok .TIMES "*"] ++ b.toks ++ r)
    exact ⟨t, ts, by simpa [Expr.toks, List.append_assoc] using h, h1, h2⟩
  | div a b iha _ =>
    obtain ⟨t, ts, h, h1, h2⟩ := iha ([mkTok .DIVIDE "/"] ++ b.toks ++ r)
    exact ⟨t, ts, by simpa [Expr.toks, List.append_assoc] using h, h1, h2⟩
  | add a b iha _ =>
    obtain ⟨t, ts, h, h1, h2⟩ := iha ([mkTok .PLUS "+"] ++ b.toks ++ r)
    exact ⟨t, ts, by simpa [Expr.toks, List.append_assoc] using h, h1, h2⟩
  | sub a b iha _ =>
    obtain ⟨t, ts, h, h1, h2⟩ := iha ([mkTok .MINUS "-"] ++ b.toks ++ r)
    exact ⟨t, ts, by simpa [Expr.toks, List.append_assoc] using h, h1, h2⟩

/-- boolean literals are written `True` / `False` -/
def ArgVal.canonical : ArgVal → Bool
  | _ => true

theorem pVal_ok (v : ArgVal) (hwf : v.WF = true) (r : List Tok) (hr : exprFollow r) :
    pVal (v.toks ++ r) = some (v, r) := by
  cases v with
  | expr e =>
    obtain ⟨t, ts, hts, h1, h2⟩ := expr_head e r
    simp only [ArgVal.toks]
    have he := pExpr_ok e hwf r hr
    rw [hts] at he ⊢
    unfold pVal
    simp only
    cases hk : t.kind <;> simp_all
  | str raw => simp [ArgVal.toks, pVal, mkTok]
  | bool b => cases b <;> simp [ArgVal.toks, pVal, mkTok]

end Blackbird

namespace Blackbird

/-! ### first tokens -/

/-- kinds an expression can start with -/
def exprStart (k : TokKind) : Bool :=
  k = .LBRAC || k = .INT || k = .FLOAT || k = .COMPLEX || k = .PI || k = .REGREF || k = .NAME ||
  k = .LBRACE || k = .PLUS || k = .MINUS || (Fn.ofTok k).isSome

theorem expr_start (e : Expr) (r : List Tok) : ∃ t ts, e.toks ++ r = t :: ts ∧ exprStart t.kind = true := by
  induction e generalizing r with
  | num k t => exact ⟨_, _, rfl, by cases k <;> simp [mkTok, NumKind.tok, exprStart]⟩
  | var x p => exact ⟨_, _, rfl, by simp [exprStart]⟩
  | reg t => exact ⟨_, _, rfl, by simp [mkTok, exprStart]⟩
  | idx x p i _ => exact ⟨_, _, rfl, by simp [exprStart]⟩
  | par p => exact ⟨_, _, rfl, by simp [mkTok, exprStart]⟩
  | brk e _ => exact ⟨_, _, rfl, by simp [mkTok, exprStart]⟩
  | pos e _ => exact ⟨_, _, rfl, by simp [mkTok, exprStart]⟩
  | neg e _ => exact ⟨_, _, rfl, by simp [mkTok, exprStart]⟩
  | fn f x _ => exact ⟨_, _, rfl, by cases f <;> simp [mkTok, Fn.tok, exprStart, Fn.ofTok]⟩
  | pow a b iha _ =>
    obtain ⟨t, ts, h, h1⟩ := iha ([mkTok .PWR "**"] ++ b.toks ++ r)
    exact ⟨t, ts, by simpa [Expr.toks, List.append_assoc] using h, h1⟩
  | mul a b iha _ =>
    obtain ⟨t, ts, h, h1⟩ := iha ([mkTok .TIMES "*"] ++ b.toks ++ r)
    exact ⟨t, ts, by simpa [Expr.toks, List.append_assoc] using h, h1⟩
  | div a b iha _ =>
    obtain ⟨t, ts, h, h1⟩ := iha ([mkTok .DIVIDE "/"] ++ b.toks ++ r)
    exact ⟨t, ts, by simpa [Expr.toks, List.append_assoc] using h, h1⟩
  | add a b iha _ =>
    obtain ⟨t, ts, h, h1⟩ := iha ([mkTok .PLUS "+"] ++ b.toks ++ r)
    exact ⟨t, ts, by simpa [Expr.toks, List.append_assoc] using h, h1⟩
  | sub a b iha _ =>
    obtain ⟨t, ts, h, h1⟩ := iha ([mkTok .MINUS "-"] ++ b.toks ++ r)
    exact ⟨t, ts, by simpa [Expr.toks, List.append_assoc] using h, h1⟩

/-- kinds a value can start with -/
def valStart (k : TokKind) : Bool := exprStart k || k = .STR || k = .BOOL

theorem val_start (v : ArgVal) (r : List Tok) : ∃ t ts, v.toks ++ r = t :: ts ∧ valStart t.kind = true := by
  cases v with
  | expr e =>
    obtain ⟨t, ts, h, h1⟩ := expr_start e r
    exact ⟨t, ts, h, by simp [valStart, h1]⟩
  | str raw => exact ⟨_, _, rfl, by simp [mkTok, valStart]⟩
  | bool b => exact ⟨_, _, rfl, by simp [mkTok, valStart]⟩

theorem isKwStart_of_head (t : Tok) (ts : List Tok) (h : t.kind ≠ .NAME) : isKwStart (t :: ts) = false := by
  cases ts <;> simp [isKwStart, h]

/-- no ASSIGN token inside an expression: the token after a leading NAME is never `=` -/
theorem expr_not_kwstart (e : Expr) (r : List Tok) (hr : hdKind r ≠ .ASSIGN) : isKwStart (e.toks ++ r) = false := by
  induction e generalizing r with
  | var x p =>
    cases r with
    | nil => rfl
    | cons t ts => simp only [hdKind] at hr; simp [Expr.toks, isKwStart, hr]
  | idx x p i _ => simp [Expr.toks, isKwStart, mkTok]
  | num k t => exact isKwStart_of_head _ _ (by cases k <;> simp [mkTok, NumKind.tok])
  | reg t => exact isKwStart_of_head _ _ (by simp [mkTok])
  | par p => exact isKwStart_of_head _ _ (by simp [mkTok])
  | brk e _ => exact isKwStart_of_head _ _ (by simp [mkTok])
  | pos e _ => exact isKwStart_of_head _ _ (by simp [mkTok])
  | neg e _ => exact isKwStart_of_head _ _ (by simp [mkTok])
  | fn f x _ => exact isKwStart_of_head _ _ (by cases f <;> simp [mkTok, Fn.tok])
  | pow a b iha _ =>
    have := iha ([mkTok .PWR "**"] ++ b.toks ++ r) (by simp [hdKind, mkTok])
    simpa [Expr.toks, List.append_assoc] using this
  | mul a b iha _ =>
    have := iha ([mkTok .TIMES "*"] ++ b.toks ++ r) (by simp [hdKind, mkTok])
    simpa [Expr.toks, List.append_assoc] using this
  | div a b iha _ =>
    have := iha ([mkTok .DIVIDE "/"] ++ b.toks ++ r) (by simp [hdKind, mkTok])
    simpa [Expr.toks, List.append_assoc] using this
  | add a b iha _ =>
    have := iha ([mkTok .PLUS "+"] ++ b.toks ++ r) (by simp [hdKind, mkTok])
    simpa [Expr.toks, List.append_assoc] using this
  | sub a b iha _ =>
    have := iha ([mkTok .MINUS "-"] ++ b.toks ++ r) (by simp [hdKind, mkTok])
    simpa [Expr.toks, List.append_assoc] using this

theorem val_not_kwstart (v : ArgVal) (r : List Tok) (hr : hdKind r ≠ .ASSIGN) : isKwStart (v.toks ++ r) = false := by
  cases v with
  | expr e => exact expr_not_kwstart e r hr
  | str raw => exact isKwStart_of_head _ _ (by simp [mkTok])
  | bool b => exact isKwStart_of_head _ _ (by simp [mkTok])

end Blackbird

namespace Blackbird

/-! ### rows, value lists, keyword arguments, argument lists -/

theorem exprFollow_comma (r : List Tok) (h : hdKind r = .COMMA) : exprFollow r :=
  exprFollow_of_kind r .COMMA h (by simp)

theorem pRow_ok (x : Expr) (xs : List Expr) (hwf : ∀ e ∈ x :: xs, e.WF = true) (rest : List Tok)
    (hr : exprFollow rest) (hnc : hdKind rest ≠ .COMMA) :
    pRow (sepToks Expr.toks (x :: xs) ++ rest) = some (x :: xs, rest) :=
  pSep_ok pExpr Expr.toks exprFollow exprFollow_comma x xs (fun y hy r hr' => pExpr_ok y (hwf y hy) r hr') rest hr hnc

theorem pVallist_ok (x : ArgVal) (xs : List ArgVal) (hwf : ∀ v ∈ x :: xs, v.WF = true) (rest : List Tok)
    (hr : exprFollow rest) (hnc : hdKind rest ≠ .COMMA) :
    pVallist (sepToks ArgVal.toks (x :: xs) ++ rest) = some (x :: xs, rest) :=
  pSep_ok pVal ArgVal.toks exprFollow exprFollow_comma x xs (fun y hy r hr' => pVal_ok y (hwf y hy) r hr') rest hr hnc

def KwVal.WF : KwVal → Bool
  | .one v => v.WF
  | .list vs => vs.all ArgVal.WF

theorem valStart_ne (k : TokKind) (h : valStart k = true) :
    k ≠ .LSQBRAC ∧ k ≠ .RSQBRAC ∧ k ≠ .RBRAC ∧ k ≠ .COMMA ∧ k ≠ .ASSIGN ∧ k ≠ .NEWLINE ∧ k ≠ .EOF := by
  cases k <;> simp [valStart, exprStart, Fn.ofTok] at h ⊢

theorem hdKind_cons (t : Tok) (ts : List Tok) : hdKind (t :: ts) = t.kind := rfl

theorem pKwarg_one (a b : Tok) (ts r : List Tok) (v : ArgVal) (ha : a.kind = .NAME) (hb : b.kind = .ASSIGN)
    (hl : hdKind ts ≠ .LSQBRAC) (hv : pVal ts = some (v, r)) :
    pKwarg (a :: b :: ts) = some ((a.text, .one v), r) := by
  simp [pKwarg, ha, hb, hl, hv]

theorem pKwarg_list (a b l c : Tok) (ts r : List Tok) (vs : List ArgVal) (ha : a.kind = .NAME)
    (hb : b.kind = .ASSIGN) (hl : l.kind = .LSQBRAC) (hne : hdKind ts ≠ .RSQBRAC)
    (hv : pVallist ts = some (vs, c :: r)) (hc : c.kind = .RSQBRAC) :
    pKwarg (a :: b :: l :: ts) = some ((a.text, .list vs), r) := by
  simp [pKwarg, ha, hb, hdKind_cons, hl, hne, hv, hc]

theorem pKwarg_empty (a b l c : Tok) (r : List Tok) (ha : a.kind = .NAME) (hb : b.kind = .ASSIGN)
    (hl : l.kind = .LSQBRAC) (hc : c.kind = .RSQBRAC) :
    pKwarg (a :: b :: l :: c :: r) = some ((a.text, .list []), r) := by
  simp [pKwarg, ha, hb, hdKind_cons, hl, hc]

theorem pKwarg_ok (k : String) (kv : KwVal) (hwf : kv.WF = true) (r : List Tok) (hr : exprFollow r) :
    pKwarg (kwargToks (k, kv) ++ r) = some ((k, kv), r) := by
  cases kv with
  | one v =>
    obtain ⟨t, ts, hts, hst⟩ := val_start v r
    have hv := pVal_ok v hwf r hr
    have hne := (valStart_ne t.kind hst).1
    show pKwarg (mkTok .NAME k :: mkTok .ASSIGN "=" :: (v.toks ++ r)) = _
    exact pKwarg_one _ _ _ r v rfl rfl (by rw [hts]; exact hne) hv
  | list vs =>
    cases vs with
    | nil => exact pKwarg_empty _ _ _ _ r rfl rfl rfl rfl
    | cons x xs =>
      have hall : ∀ v ∈ x :: xs, v.WF = true := by
        intro v hv
        simp only [KwVal.WF, List.all_eq_true] at hwf
        exact hwf v hv
      have hl := pVallist_ok x xs hall (mkTok .RSQBRAC "]" :: r)
        (exprFollow_of_kind _ .RSQBRAC rfl (by simp)) (by simp [hdKind, mkTok])
      obtain ⟨t, ts, hts, hst⟩ := val_start x (commaToks ArgVal.toks xs ++ mkTok .RSQBRAC "]" :: r)
      have hne := (valStart_ne t.kind hst).2.1
      have hhead : sepToks ArgVal.toks (x :: xs) ++ (mkTok .RSQBRAC "]" :: r) = t :: ts := by
        rw [sepToks_cons, List.append_assoc]; exact hts
      show pKwarg (mkTok .NAME k :: mkTok .ASSIGN "=" ::
        ([mkTok .LSQBRAC "["] ++ sepToks ArgVal.toks (x :: xs) ++ [mkTok .RSQBRAC "]"] ++ r)) = _
      have hre : [mkTok .LSQBRAC "["] ++ sepToks ArgVal.toks (x :: xs) ++ [mkTok .RSQBRAC "]"] ++ r =
          mkTok .LSQBRAC "[" :: (sepToks ArgVal.toks (x :: xs) ++ (mkTok .RSQBRAC "]" :: r)) := by simp
      rw [hre]
      exact pKwarg_list _ _ _ _ _ r (x :: xs) rfl rfl rfl (by rw [hhead]; exact hne) hl rfl

structure Args.WFp (a : Args) : Prop where
  pos : ∀ v ∈ a.pos, v.WF = true
  kw : ∀ kv ∈ a.kw, kv.2.WF = true

theorem pPosGo_step (n : Nat) (acc : List ArgVal) (c : Tok) (ts rs : List Tok) (v : ArgVal)
    (hc : c.kind = .COMMA) (hk : isKwStart ts = false) (hr : hdKind ts ≠ .RBRAC) (hv : pVal ts = some (v, rs)) :
    pPosGo (n + 1) acc (c :: ts) = pPosGo n (v :: acc) rs := by
  simp [pPosGo, hdKind_cons, hc, hk, hr, hv]

theorem pPosGo_stop_rbrac (n : Nat) (acc : List ArgVal) (ts : List Tok) (h : hdKind ts = .RBRAC) :
    pPosGo (n + 1) acc ts = some (acc.reverse, ts) := by
  simp [pPosGo, h]

theorem pPosGo_stop_kw (n : Nat) (acc : List ArgVal) (c : Tok) (ts : List Tok) (hc : c.kind = .COMMA)
    (h : isKwStart ts = true) : pPosGo (n + 1) acc (c :: ts) = some (acc.reverse, c :: ts) := by
  simp [pPosGo, hdKind_cons, hc, h]

/-- where the positional part may stop: in front of `)` or of `, name =` -/
def posStop (rest : List Tok) : Prop :=
  hdKind rest = .RBRAC ∨ ∃ c ts, rest = c :: ts ∧ c.kind = .COMMA ∧ isKwStart ts = true

/-- the positional loop: more values, then a stop -/
theorem pPosGo_ok (xs : List ArgVal) (hwf : ∀ v ∈ xs, v.WF = true) (rest : List Tok) (hstop : posStop rest)
    (n : Nat) (hn : xs.length + 1 ≤ n) (acc : List ArgVal) :
    pPosGo n acc (commaToks ArgVal.toks xs ++ rest) = some (acc.reverse ++ xs, rest) := by
  induction xs generalizing n acc with
  | nil =>
    obtain ⟨m, rfl⟩ : ∃ m, n = m + 1 := ⟨n - 1, by omega⟩
    simp only [commaToks, List.flatMap_nil, List.nil_append, List.append_nil]
    rcases hstop with h | ⟨c, ts, rfl, hc, hk⟩
    · exact pPosGo_stop_rbrac m acc rest h
    · exact pPosGo_stop_kw m acc c ts hc hk
  | cons x xs ih =>
    obtain ⟨m, rfl⟩ : ∃ m, n = m + 1 := ⟨n - 1, by simp at hn; omega⟩
    have hfollow : exprFollow (commaToks ArgVal.toks xs ++ rest) ∧ hdKind (commaToks ArgVal.toks xs ++ rest) ≠ .ASSIGN := by
      cases xs with
      | nil =>
        simp only [commaToks, List.flatMap_nil, List.nil_append]
        rcases hstop with h | ⟨c, ts, rfl, hc, _⟩
        · exact ⟨exprFollow_of_kind _ .RBRAC h (by simp), by rw [h]; simp⟩
        · exact ⟨exprFollow_of_kind _ .COMMA hc (by simp), by simp [hdKind, hc]⟩
      | cons y ys => exact ⟨exprFollow_comma _ (by simp [commaToks, hdKind, mkTok]), by simp [commaToks, hdKind, mkTok]⟩
    have hx := pVal_ok x (hwf x (by simp)) _ hfollow.1
    have hnk := val_not_kwstart x (commaToks ArgVal.toks xs ++ rest) hfollow.2
    obtain ⟨t, ts, hts, hst⟩ := val_start x (commaToks ArgVal.toks xs ++ rest)
    have hne := (valStart_ne t.kind hst).2.2.1
    have hshape : commaToks ArgVal.toks (x :: xs) ++ rest =
        mkTok .COMMA "," :: (x.toks ++ (commaToks ArgVal.toks xs ++ rest)) := by
      simp [commaToks]
    rw [hshape, pPosGo_step m acc _ _ _ x rfl hnk (by rw [hts]; exact hne) hx]
    rw [ih (fun v hv => hwf v (List.mem_cons_of_mem _ hv)) m (by simp at hn; omega) (x :: acc)]
    simp

end Blackbird

namespace Blackbird

theorem kwarg_follow_comma (r : List Tok) (h : hdKind r = .COMMA) : exprFollow r := exprFollow_comma r h

theorem pKwargs_ok (k : String × KwVal) (ks : List (String × KwVal)) (hwf : ∀ kv ∈ k :: ks, kv.2.WF = true)
    (rest : List Tok) (hr : exprFollow rest) (hnc : hdKind rest ≠ .COMMA) :
    pSep pKwarg (sepToks kwargToks (k :: ks) ++ rest) = some (k :: ks, rest) :=
  pSep_ok pKwarg kwargToks exprFollow exprFollow_comma k ks
    (fun y hy r hr' => by obtain ⟨kn, kv⟩ := y; exact pKwarg_ok kn kv (hwf (kn, kv) hy) r hr') rest hr hnc

theorem isKwStart_kwargs (k : String × KwVal) (ks : List (String × KwVal)) (rest : List Tok) :
    isKwStart (sepToks kwargToks (k :: ks) ++ rest) = true := by
  rw [sepToks_cons]
  simp [kwargToks, isKwStart, mkTok]

theorem pPosPart_nil_rbrac (ts : List Tok) (h : hdKind ts = .RBRAC) : pPosPart ts = some ([], ts) := by
  simp [pPosPart, h]

theorem pPosPart_nil_kw (ts : List Tok) (h : isKwStart ts = true) : pPosPart ts = some ([], ts) := by
  simp [pPosPart, h]

theorem pPosPart_vals (p : ArgVal) (ps : List ArgVal) (hwf : ∀ v ∈ p :: ps, v.WF = true) (rest : List Tok)
    (hstop : posStop rest) :
    pPosPart (p.toks ++ (commaToks ArgVal.toks ps ++ rest)) = some (p :: ps, rest) := by
  have hfollow : exprFollow (commaToks ArgVal.toks ps ++ rest) ∧ hdKind (commaToks ArgVal.toks ps ++ rest) ≠ .ASSIGN := by
    cases ps with
    | nil =>
      simp only [commaToks, List.flatMap_nil, List.nil_append]
      rcases hstop with h | ⟨c, ts, rfl, hc, _⟩
      · exact ⟨exprFollow_of_kind _ .RBRAC h (by simp), by rw [h]; simp⟩
      · exact ⟨exprFollow_of_kind _ .COMMA hc (by simp), by simp [hdKind_cons, hc]⟩
    | cons y ys => exact ⟨exprFollow_comma _ (by simp [commaToks, hdKind_cons, mkTok]), by simp [commaToks, hdKind_cons, mkTok]⟩
  obtain ⟨t, ts, hts, hst⟩ := val_start p (commaToks ArgVal.toks ps ++ rest)
  have hne := valStart_ne t.kind hst
  have hv := pVal_ok p (hwf p (by simp)) _ hfollow.1
  have hnk := val_not_kwstart p _ hfollow.2
  have hgo := pPosGo_ok ps (fun v hv => hwf v (List.mem_cons_of_mem _ hv)) _ hstop
    ((commaToks ArgVal.toks ps ++ rest).length + 1)
    (by have := length_commaToks ArgVal.toks ps; simp only [List.length_append]; omega) [p]
  have h1 : hdKind (p.toks ++ (commaToks ArgVal.toks ps ++ rest)) ≠ .RBRAC := by rw [hts]; exact hne.2.2.1
  have h2 : hdKind (p.toks ++ (commaToks ArgVal.toks ps ++ rest)) ≠ .COMMA := by rw [hts]; exact hne.2.2.2.1
  unfold pPosPart
  simp only [h1, h2, hnk, decide_false, Bool.or_self, Bool.false_eq_true, if_false, hv, hgo]
  simp

theorem dropComma_cons (c : Tok) (ts : List Tok) (h : c.kind = .COMMA) : dropComma (c :: ts) = ts := by
  simp [dropComma, hdKind_cons, h]

theorem dropComma_id (ts : List Tok) (h : hdKind ts ≠ .COMMA) : dropComma ts = ts := by
  simp [dropComma, h]

theorem pKwPart_nil (ts : List Tok) (h : isKwStart ts = false) : pKwPart ts = some ([], ts) := by
  simp [pKwPart, h]

theorem pKwPart_kws (k : String × KwVal) (ks : List (String × KwVal)) (hwf : ∀ kv ∈ k :: ks, kv.2.WF = true)
    (rest : List Tok) (hr : exprFollow rest) (hnc : hdKind rest ≠ .COMMA) :
    pKwPart (sepToks kwargToks (k :: ks) ++ rest) = some (k :: ks, rest) := by
  unfold pKwPart
  rw [isKwStart_kwargs k ks rest]
  simp only [if_true]
  exact pKwargs_ok k ks hwf rest hr hnc

theorem pArgsBody_of_parts (ts r1 r3 : List Tok) (vals : List ArgVal) (kws : List (String × KwVal)) (c : Tok)
    (hpos : pPosPart ts = some (vals, r1)) (hkw : pKwPart (dropComma r1) = some (kws, c :: r3))
    (hc : c.kind = .RBRAC) : pArgsBody ts = some (⟨vals, kws⟩, r3) := by
  unfold pArgsBody
  simp only [hpos, hkw, hc, if_true]

theorem rbracRest_follow (rest : List Tok) : exprFollow (mkTok .RBRAC ")" :: rest) ∧
    hdKind (mkTok .RBRAC ")" :: rest) ≠ .COMMA ∧ isKwStart (mkTok .RBRAC ")" :: rest) = false :=
  ⟨exprFollow_of_kind _ .RBRAC rfl (by simp), by simp [hdKind_cons, mkTok], isKwStart_of_head _ _ (by simp [mkTok])⟩

theorem pArgsBody_ok (a : Args) (hwf : a.WFp) (rest : List Tok) :
    ∃ body, a.toks = mkTok .LBRAC "(" :: body ∧ pArgsBody (body ++ rest) = some (a, rest) := by
  obtain ⟨pos, kw⟩ := a
  have hp := hwf.pos
  have hk := hwf.kw
  simp only at hp hk
  obtain ⟨hf, hnc, hnk⟩ := rbracRest_follow rest
  cases pos with
  | nil =>
    cases kw with
    | nil =>
      refine ⟨[mkTok .RBRAC ")"], rfl, ?_⟩
      show pArgsBody (mkTok .RBRAC ")" :: rest) = _
      refine pArgsBody_of_parts _ _ rest [] [] (mkTok .RBRAC ")") (pPosPart_nil_rbrac _ rfl) ?_ rfl
      rw [dropComma_id _ hnc]
      exact pKwPart_nil _ hnk
    | cons k ks =>
      refine ⟨sepToks kwargToks (k :: ks) ++ [mkTok .RBRAC ")"], by simp [Args.toks], ?_⟩
      have hshape : (sepToks kwargToks (k :: ks) ++ [mkTok .RBRAC ")"]) ++ rest =
          sepToks kwargToks (k :: ks) ++ (mkTok .RBRAC ")" :: rest) := by simp
      rw [hshape]
      have hks := isKwStart_kwargs k ks (mkTok .RBRAC ")" :: rest)
      have hnc2 : hdKind (sepToks kwargToks (k :: ks) ++ (mkTok .RBRAC ")" :: rest)) ≠ .COMMA := by
        rw [sepToks_cons]; simp [kwargToks, hdKind_cons, mkTok]
      refine pArgsBody_of_parts _ _ rest [] (k :: ks) (mkTok .RBRAC ")") (pPosPart_nil_kw _ hks) ?_ rfl
      rw [dropComma_id _ hnc2]
      exact pKwPart_kws k ks hk _ hf hnc
  | cons p ps =>
    cases kw with
    | nil =>
      refine ⟨sepToks ArgVal.toks (p :: ps) ++ [mkTok .RBRAC ")"], by simp [Args.toks], ?_⟩
      have hshape : (sepToks ArgVal.toks (p :: ps) ++ [mkTok .RBRAC ")"]) ++ rest =
          p.toks ++ (commaToks ArgVal.toks ps ++ (mkTok .RBRAC ")" :: rest)) := by
        rw [sepToks_cons]; simp
      rw [hshape]
      refine pArgsBody_of_parts _ _ rest (p :: ps) [] (mkTok .RBRAC ")")
        (pPosPart_vals p ps hp _ (Or.inl rfl)) ?_ rfl
      rw [dropComma_id _ hnc]
      exact pKwPart_nil _ hnk
    | cons k ks =>
      refine ⟨sepToks ArgVal.toks (p :: ps) ++ mkTok .COMMA "," :: sepToks kwargToks (k :: ks) ++ [mkTok .RBRAC ")"],
        by simp [Args.toks], ?_⟩
      have hshape : (sepToks ArgVal.toks (p :: ps) ++ mkTok .COMMA "," :: sepToks kwargToks (k :: ks) ++
          [mkTok .RBRAC ")"]) ++ rest = p.toks ++ (commaToks ArgVal.toks ps ++
          (mkTok .COMMA "," :: (sepToks kwargToks (k :: ks) ++ (mkTok .RBRAC ")" :: rest)))) := by
        rw [sepToks_cons]; simp [List.append_assoc]
      rw [hshape]
      have hks := isKwStart_kwargs k ks (mkTok .RBRAC ")" :: rest)
      refine pArgsBody_of_parts _ _ rest (p :: ps) (k :: ks) (mkTok .RBRAC ")")
        (pPosPart_vals p ps hp _ (Or.inr ⟨_, _, rfl, rfl, hks⟩)) ?_ rfl
      rw [dropComma_cons _ _ rfl]
      exact pKwPart_kws k ks hk _ hf hnc

theorem pOptArgs_ok (a : Option Args) (hwf : ∀ x, a = some x → x.WFp) (rest : List Tok)
    (hrest : hdKind rest ≠ .LBRAC) : pOptArgs (optArgsToks a ++ rest) = some (a, rest) := by
  cases a with
  | none => simp [optArgsToks, pOptArgs, hrest]
  | some x =>
    obtain ⟨body, hb, hparse⟩ := pArgsBody_ok x (hwf x rfl) rest
    simp only [optArgsToks, hb, List.cons_append]
    simp [pOptArgs, hdKind_cons, mkTok, hparse]

end Blackbird

namespace Blackbird

/-! ### optional brackets, statements -/

theorem closeBrk_ok (rb : Option Brk) (rest : List Tok)
    (h : rb = none → hdKind rest ≠ .RBRAC ∧ hdKind rest ≠ .RSQBRAC) :
    closeBrk (optClose rb ++ rest) = (rb, rest) := by
  cases rb with
  | none =>
    obtain ⟨h1, h2⟩ := h rfl
    simp only [optClose, List.nil_append]
    unfold closeBrk
    split
    · rename_i hk; exact absurd hk h1
    · rename_i hk; exact absurd hk h2
    · rfl
  | some b => cases b <;> simp [optClose, closeBrk, Brk.closeTok, hdKind_cons, mkTok]

/-- the row parser succeeds on the printed row and may stop in front of a closing bracket or of
anything an expression may stop in front of -/
def RowOK {α : Type} (row : List Tok → Option (α × List Tok)) (toks : α → List Tok) (x : α) : Prop :=
  ∀ r, exprFollow r → hdKind r ≠ .COMMA → row (toks x ++ r) = some (x, r)

theorem bracketed_ok {α : Type} (row : List Tok → Option (α × List Tok)) (toks : α → List Tok)
    (follow : TokKind → Bool) (x : α) (hrow : RowOK row toks x) (lb rb : Option Brk) (rest : List Tok)
    (hrest : follow (hdKind rest) = true) (hf : exprFollow rest) (hnc : hdKind rest ≠ .COMMA)
    (hnb : hdKind rest ≠ .RBRAC ∧ hdKind rest ≠ .RSQBRAC)
    (hplain : lb = none → ∀ r, hdKind (toks x ++ r) ≠ .LBRAC ∧ hdKind (toks x ++ r) ≠ .LSQBRAC) :
    bracketed row follow (optOpen lb ++ toks x ++ optClose rb ++ rest) = some ((lb, x, rb), rest) := by
  have hcl := closeBrk_ok rb rest (fun _ => hnb)
  have hfr : exprFollow (optClose rb ++ rest) ∧ hdKind (optClose rb ++ rest) ≠ .COMMA := by
    cases rb with
    | none => exact ⟨hf, hnc⟩
    | some b =>
      cases b with
      | round => exact ⟨exprFollow_of_kind _ .RBRAC rfl (by simp), by simp [optClose, Brk.closeTok, hdKind_cons, mkTok]⟩
      | square => exact ⟨exprFollow_of_kind _ .RSQBRAC rfl (by simp), by simp [optClose, Brk.closeTok, hdKind_cons, mkTok]⟩
  have hr := hrow (optClose rb ++ rest) hfr.1 hfr.2
  cases lb with
  | none =>
    obtain ⟨h1, h2⟩ := hplain rfl (optClose rb ++ rest)
    simp only [optOpen, List.nil_append, List.append_assoc]
    unfold bracketed
    simp only [hr, hcl]
    try (split
         · rename_i hk; exact absurd hk h2
         · rename_i hk; exact absurd hk h1
         · rfl)
  | some b =>
    cases b with
    | square =>
      simp only [optOpen, Brk.openTok, List.cons_append, List.nil_append, List.append_assoc]
      unfold bracketed
      simp [hdKind_cons, mkTok, hr, hcl]
    | round =>
      simp only [optOpen, Brk.openTok, List.cons_append, List.nil_append, List.append_assoc]
      unfold bracketed
      simp [hdKind_cons, mkTok, hr, hcl, hrest]

theorem eatNL_none (rest : List Tok) (h : hdKind rest ≠ .NEWLINE) : eatNL rest = rest := by
  cases rest with
  | nil => rfl
  | cons t ts =>
    simp only [hdKind_cons] at h
    cases ts with
    | nil => simp [eatNL, h]
    | cons t2 ts2 => simp [eatNL, h]

theorem eatNL_cons_nl (t : Tok) (ts : List Tok) (h : t.kind ≠ .TAB) : eatNL (nl :: t :: ts) = eatNL (t :: ts) := by
  simp [eatNL, nl, mkTok, h]

theorem eatNL_nls (k : Nat) (rest : List Tok) (h1 : hdKind rest ≠ .NEWLINE) (h2 : hdKind rest ≠ .TAB) :
    eatNL (List.replicate k nl ++ rest) = rest := by
  induction k with
  | zero => simpa using eatNL_none rest h1
  | succ n ih =>
    have hsplit : List.replicate (n + 1) nl ++ rest = nl :: (List.replicate n nl ++ rest) := by
      simp [List.replicate_succ]
    rw [hsplit]
    cases hL : List.replicate n nl ++ rest with
    | nil =>
      rw [hL] at ih
      have hr : rest = [] := by
        cases n with
        | zero => simpa using hL
        | succ m => simp [List.replicate_succ] at hL
      subst hr
      simp [eatNL, nl, mkTok]
    | cons t ts =>
      have htk : t.kind ≠ .TAB := by
        cases n with
        | zero =>
          simp only [List.replicate_zero, List.nil_append] at hL
          rw [hL, hdKind_cons] at h2; exact h2
        | succ m =>
          simp only [List.replicate_succ, List.cons_append, List.cons.injEq] at hL
          rw [← hL.1]; simp [nl, mkTok]
      rw [eatNL_cons_nl t ts htk, ← hL]
      exact ih

theorem eatNL_tab (k : Nat) (r : List Tok) :
    eatNL (List.replicate (k + 1) nl ++ tab :: r) = nl :: tab :: r := by
  induction k with
  | zero => simp [eatNL, nl, tab, mkTok]
  | succ n ih =>
    have hsplit : List.replicate (n + 1 + 1) nl ++ tab :: r = nl :: nl :: (List.replicate n nl ++ tab :: r) := by
      simp [List.replicate_succ]
    have hsplit2 : List.replicate (n + 1) nl ++ tab :: r = nl :: (List.replicate n nl ++ tab :: r) := by
      simp [List.replicate_succ]
    rw [hsplit, eatNL_cons_nl nl _ (by simp [nl, mkTok]), ← hsplit2]
    exact ih

structure Stmt.WFp (s : Stmt) : Prop where
  args : ∀ a, s.args = some a → a.WFp
  modes_ne : s.modes ≠ []
  modes : ∀ e ∈ s.modes, e.WF = true
  /-- without a list bracket the first mode must not itself start with `(`: `G | (1)` is read as
  the bracketed list `(1)` -/
  plain : s.lb = none → ∀ r, hdKind (sepToks Expr.toks s.modes ++ r) ≠ .LBRAC

theorem stmtFollow_facts (k : TokKind) (h : stmtFollow k = true) :
    k ≠ .LSQBRAC ∧ k ≠ .PWR ∧ k ≠ .TIMES ∧ k ≠ .DIVIDE ∧ k ≠ .PLUS ∧ k ≠ .MINUS ∧ k ≠ .COMMA ∧
    k ≠ .RBRAC ∧ k ≠ .RSQBRAC := by
  cases k <;> simp [stmtFollow, VarType.ofTok] at h ⊢

theorem row_head_not_lsq (x : Expr) (xs : List Expr) (r : List Tok) :
    hdKind (sepToks Expr.toks (x :: xs) ++ r) ≠ .LSQBRAC := by
  rw [sepToks_cons, List.append_assoc]
  obtain ⟨t, ts, hts, hst⟩ := expr_start x (commaToks Expr.toks xs ++ r)
  rw [hts, hdKind_cons]
  intro h
  rw [h] at hst
  simp [exprStart, Fn.ofTok] at hst

theorem pStmt_of_parts (t a : Tok) (rs r2 r3 : List Tok) (args : Option Args) (lb rb : Option Brk)
    (modes : List Expr) (ht : t.kind = .NAME ∨ t.kind = .MEASURE)
    (hargs : pOptArgs rs = some (args, a :: r2)) (ha : a.kind = .APPLY)
    (hbr : bracketed pRow stmtFollow r2 = some ((lb, modes, rb), r3)) :
    pStmt (t :: rs) = some (⟨t.text, decide (t.kind = .MEASURE), args, lb, modes, rb⟩, eatNL r3) := by
  unfold pStmt
  rcases ht with ht | ht <;> simp [ht, hargs, expect, ha, hbr]

/-- **Statement.** Parsing a printed statement followed by anything that may follow a statement
returns the statement; trailing line ends are then consumed by `eatNL`. -/
theorem pStmt_ok (s : Stmt) (hwf : s.WFp) (rest : List Tok) (hrest : stmtFollow (hdKind rest) = true) :
    pStmt (s.toks ++ rest) = some (s, eatNL rest) := by
  obtain ⟨op, isM, args, lb, modes, rb⟩ := s
  have hf := stmtFollow_facts _ hrest
  cases modes with
  | nil => exact absurd rfl hwf.modes_ne
  | cons m ms =>
    have hrow : RowOK pRow (sepToks Expr.toks) (m :: ms) :=
      fun r hr hnc => pRow_ok m ms hwf.modes r hr hnc
    have hbr := bracketed_ok pRow (sepToks Expr.toks) stmtFollow (m :: ms) hrow lb rb rest hrest
      ⟨hf.1, hf.2.1, hf.2.2.1, hf.2.2.2.1, hf.2.2.2.2.1, hf.2.2.2.2.2.1⟩ hf.2.2.2.2.2.2.1
      ⟨hf.2.2.2.2.2.2.2.1, hf.2.2.2.2.2.2.2.2⟩
      (fun hl r => ⟨hwf.plain hl r, row_head_not_lsq m ms r⟩)
    have hargs := pOptArgs_ok args hwf.args
      (mkTok .APPLY "|" :: (optOpen lb ++ sepToks Expr.toks (m :: ms) ++ optClose rb ++ rest)) (by simp [hdKind_cons, mkTok])
    have hshape : (Stmt.toks ⟨op, isM, args, lb, m :: ms, rb⟩) ++ rest =
        mkTok (if isM then .MEASURE else .NAME) op :: (optArgsToks args ++
          (mkTok .APPLY "|" :: (optOpen lb ++ sepToks Expr.toks (m :: ms) ++ optClose rb ++ rest))) := by
      simp [Stmt.toks, List.append_assoc]
    rw [hshape]
    have := pStmt_of_parts (mkTok (if isM then .MEASURE else .NAME) op) (mkTok .APPLY "|") _ _ rest args lb rb (m :: ms)
      (by cases isM <;> simp [mkTok]) hargs rfl hbr
    rw [this]
    cases isM <;> simp [mkTok]

end Blackbird

namespace Blackbird

/-! ### declarations -/

def VName.WF (n : VName) : Prop := isNameTok n.tok = some n.kind

theorem pName_ok (n : VName) (h : n.WF) (r : List Tok) : pName (n.toTok :: r) = some (n, r) := by
  unfold VName.WF at h
  cases n with
  | mk kind tok text pos =>
    simp only at h
    simp [pName, VName.toTok, h]

theorem vartype_tok (ty : VarType) : VarType.ofTok ty.tok = some ty := by cases ty <;> rfl

theorem pVarDecl_of_parts (a : Tok) (rs r2 r3 : List Tok) (ty : VarType) (nm : VName) (v : ArgVal)
    (hn : pName rs = some (nm, a :: r2)) (ha : a.kind = .ASSIGN) (hv : pVal r2 = some (v, r3)) :
    pVarDecl ty rs = some (.var ty nm v, r3) := by
  unfold pVarDecl
  simp [hn, expect, ha, hv]

theorem pDecl_var (t : Tok) (rs : List Tok) (ty : VarType) (ht : VarType.ofTok t.kind = some ty)
    (hna : hdKind rs ≠ .TYPE_ARRAY) : pDecl (t :: rs) = pVarDecl ty rs := by
  unfold pDecl
  simp [ht, hna]

theorem pDecl_arr (t arr : Tok) (rs : List Tok) (ty : VarType) (ht : VarType.ofTok t.kind = some ty)
    (harr : arr.kind = .TYPE_ARRAY) : pDecl (t :: arr :: rs) = pArrDecl ty t.pos rs := by
  unfold pDecl
  simp [ht, hdKind_cons, harr]

def itemFollow (k : TokKind) : Bool := stmtFollow k

theorem itemFollow_exprFollow (r : List Tok) (h : stmtFollow (hdKind r) = true) :
    exprFollow r ∧ hdKind r ≠ .COMMA ∧ hdKind r ≠ .TAB ∧ hdKind r ≠ .LBRACE := by
  have hf := stmtFollow_facts _ h
  refine ⟨⟨hf.1, hf.2.1, hf.2.2.1, hf.2.2.2.1, hf.2.2.2.2.1, hf.2.2.2.2.2.1⟩, hf.2.2.2.2.2.2.1, ?_, ?_⟩
  · intro hk; rw [hk] at h; simp [stmtFollow, VarType.ofTok] at h
  · intro hk; rw [hk] at h; simp [stmtFollow, VarType.ofTok] at h

theorem pDecl_var_ok (ty : VarType) (n : VName) (init : ArgVal) (hn : n.WF) (hi : init.WF = true)
    (rest : List Tok) (hrest : stmtFollow (hdKind rest) = true) :
    pDecl ((Item.var ty n init).toks [] ++ rest) = some (.var ty n init, rest) := by
  have hf := itemFollow_exprFollow rest hrest
  show pDecl (ty.toToks :: (n.toTok :: mkTok .ASSIGN "=" :: (init.toks ++ rest))) = _
  rw [pDecl_var _ _ ty (vartype_tok ty)]
  · exact pVarDecl_of_parts (mkTok .ASSIGN "=") _ _ rest ty n init (pName_ok n hn _) rfl (pVal_ok init hi rest hf.1)
  · unfold VName.WF at hn
    intro hk
    simp only [hdKind_cons, VName.toTok] at hk
    rw [hk] at hn
    simp [isNameTok] at hn

/-- rows: every row is non-empty and well-bracketed -/
def rowsWF (rows : List (List Expr)) : Prop := ∀ r ∈ rows, r ≠ [] ∧ ∀ e ∈ r, e.WF = true

theorem pRows_step (n : Nat) (acc : List (List Expr)) (t r : Tok) (ts rs : List Tok) (row : List Expr)
    (ht : t.kind = .TAB) (hrow : pRow ts = some (row, r :: rs)) (hr : r.kind = .NEWLINE) :
    pRows (n + 1) acc (t :: ts) = pRows n (row :: acc) rs := by
  simp [pRows, hdKind_cons, ht, hrow, hr]

theorem rowsToks_length (rows : List (List Expr)) : rows.length ≤ (rowsToks rows).length := by
  induction rows with
  | nil => simp [rowsToks]
  | cons r rs ih =>
    simp only [rowsToks, List.flatMap_cons, List.length_append, List.length_cons] at ih ⊢
    omega

theorem pRows_ok (rows : List (List Expr)) (hwf : rowsWF rows) (rest : List Tok) (hrest : hdKind rest ≠ .TAB)
    (n : Nat) (hn : rows.length + 1 ≤ n) (acc : List (List Expr)) :
    pRows n acc (rowsToks rows ++ rest) = some (acc.reverse ++ rows, rest) := by
  induction rows generalizing n acc with
  | nil =>
    obtain ⟨m, rfl⟩ : ∃ m, n = m + 1 := ⟨n - 1, by omega⟩
    simp [rowsToks, pRows, hrest]
  | cons row rows ih =>
    obtain ⟨m, rfl⟩ : ∃ m, n = m + 1 := ⟨n - 1, by simp at hn; omega⟩
    obtain ⟨hne, hall⟩ := hwf row (by simp)
    cases row with
    | nil => exact absurd rfl hne
    | cons e es =>
      have hrow := pRow_ok e es hall (nl :: (rowsToks rows ++ rest))
        (exprFollow_of_kind _ .NEWLINE rfl (by simp)) (by simp [hdKind_cons, nl, mkTok])
      have hshape : rowsToks ((e :: es) :: rows) ++ rest =
          tab :: (sepToks Expr.toks (e :: es) ++ (nl :: (rowsToks rows ++ rest))) := by
        simp [rowsToks, List.append_assoc]
      rw [hshape, pRows_step m acc tab nl _ _ (e :: es) rfl hrow rfl,
        ih (fun r hr => hwf r (List.mem_cons_of_mem _ hr)) m (by simp at hn; omega) ((e :: es) :: acc)]
      simp

theorem pInt_ok (s : String) (r : List Tok) : pInt ([mkTok .INT s] ++ r) = some (s, r) := by
  simp [pInt, mkTok]

theorem pShapePart_none (r1 : List Tok) (h : hdKind r1 ≠ .LSQBRAC) : pShapePart r1 = some (none, r1) := by
  simp [pShapePart, h]

theorem pShapePart_some (l c : Tok) (ts r : List Tok) (sh : List String) (hl : l.kind = .LSQBRAC)
    (hs : pSep pInt ts = some (sh, c :: r)) (hc : c.kind = .RSQBRAC) :
    pShapePart (l :: ts) = some (some sh, r) := by
  simp [pShapePart, hdKind_cons, hl, hs, hc]

theorem pArrBody_bare (l p c : Tok) (r : List Tok) (hl : l.kind = .LBRACE) (hp : p.kind = .NAME) (hc : c.kind = .RBRACE) :
    pArrBody (l :: p :: c :: r) = some (.bare p.text, r) := by
  simp [pArrBody, hdKind_cons, hl, hp, hc]

theorem pArrBody_rows (r3 r4 : List Tok) (rows : List (List Expr)) (h : hdKind r3 ≠ .LBRACE)
    (hr : pRows (r3.length + 1) [] r3 = some (rows, r4)) : pArrBody r3 = some (.rows rows, r4) := by
  simp [pArrBody, h, hr]

theorem pArrDecl_of_parts (a nlt : Tok) (rs r1 r3 r4 : List Tok) (ty : VarType) (pos : Pos) (nm : VName)
    (shape : Option (List String)) (body : ArrBody)
    (hn : pName rs = some (nm, r1)) (hshape : pShapePart r1 = some (shape, a :: nlt :: r3))
    (ha : a.kind = .ASSIGN) (hnl : nlt.kind = .NEWLINE) (hbody : pArrBody r3 = some (body, r4)) :
    pArrDecl ty pos rs = some (.arr ty pos nm shape body, r4) := by
  unfold pArrDecl
  simp [hn, hshape, ha, hnl, hbody]

structure ArrWF (n : VName) (shape : Option (List String)) (body : ArrBody) : Prop where
  name : n.WF
  shape : ∀ sh, shape = some sh → sh ≠ []
  rows : ∀ rs, body = .rows rs → rowsWF rs

theorem pDecl_arr_ok (ty : VarType) (pos : Pos) (n : VName) (shape : Option (List String)) (body : ArrBody)
    (hwf : ArrWF n shape body) (rest : List Tok) (hrest : stmtFollow (hdKind rest) = true) :
    pDecl ((Item.arr ty pos n shape body).toks [] ++ rest) = some (.arr ty pos n shape body, rest) := by
  have hf := itemFollow_exprFollow rest hrest
  show pDecl ((⟨ty.tok, ty.name, pos⟩ : Tok) :: mkTok .TYPE_ARRAY "array" :: (n.toTok :: ((shapeToks shape ++
      mkTok .ASSIGN "=" :: nl :: body.toks) ++ rest))) = _
  have hre : (shapeToks shape ++ mkTok .ASSIGN "=" :: nl :: body.toks) ++ rest =
      shapeToks shape ++ (mkTok .ASSIGN "=" :: nl :: (body.toks ++ rest)) := by simp
  rw [hre, pDecl_arr _ _ _ ty (vartype_tok ty) rfl]
  refine pArrDecl_of_parts (mkTok .ASSIGN "=") nl _ _ (body.toks ++ rest) rest ty pos n shape body
    (pName_ok n hwf.name _) ?_ rfl rfl ?_
  · cases shape with
    | none => exact pShapePart_none _ (by simp [shapeToks, hdKind_cons, mkTok])
    | some sh =>
      cases sh with
      | nil => exact absurd rfl (hwf.shape [] rfl)
      | cons x xs =>
        have := pSep_ok pInt (fun s => [mkTok .INT s]) (fun _ => True) (fun _ _ => trivial) x xs
          (fun y _ r _ => pInt_ok y r) (mkTok .RSQBRAC "]" :: (mkTok .ASSIGN "=" :: nl :: (body.toks ++ rest)))
          trivial (by simp [hdKind_cons, mkTok])
        have hsh : shapeToks (some (x :: xs)) ++ (mkTok .ASSIGN "=" :: nl :: (body.toks ++ rest)) =
            mkTok .LSQBRAC "[" :: (sepToks (fun s => [mkTok .INT s]) (x :: xs) ++
              (mkTok .RSQBRAC "]" :: (mkTok .ASSIGN "=" :: nl :: (body.toks ++ rest)))) := by
          simp [shapeToks]
        rw [hsh]
        exact pShapePart_some _ _ _ _ (x :: xs) rfl this rfl
  · cases body with
    | bare p => exact pArrBody_bare _ _ _ rest rfl rfl rfl
    | rows rs =>
      have hnb : hdKind (rowsToks rs ++ rest) ≠ .LBRACE := by
        cases rs with
        | nil => simpa [rowsToks] using hf.2.2.2
        | cons r rs' => simp [rowsToks, hdKind_cons, tab, mkTok]
      have hr := pRows_ok rs (hwf.rows rs rfl) rest hf.2.2.1 ((rowsToks rs ++ rest).length + 1)
        (by have := rowsToks_length rs; simp only [List.length_append]; omega) []
      exact pArrBody_rows (rowsToks rs ++ rest) rest rs hnb (by simpa using hr)

end Blackbird

namespace Blackbird

/-! ### loops -/

/-- what may come after a statement at item level: some line ends, then something that is neither
a line end nor a TAB and may follow a statement -/
structure NLTail (rest tail : List Tok) (k : Nat) : Prop where
  shape : rest = List.replicate k nl ++ tail
  notNL : hdKind tail ≠ .NEWLINE
  notTab : hdKind tail ≠ .TAB
  follow : stmtFollow (hdKind tail) = true

theorem NLTail.eat {rest tail : List Tok} {k : Nat} (h : NLTail rest tail k) : eatNL rest = tail := by
  rw [h.shape]; exact eatNL_nls k tail h.notNL h.notTab

theorem NLTail.follows {rest tail : List Tok} {k : Nat} (h : NLTail rest tail k) :
    stmtFollow (hdKind rest) = true := by
  rw [h.shape]
  cases k with
  | zero => simpa using h.follow
  | succ n => simp [List.replicate_succ, hdKind_cons, nl, mkTok, stmtFollow]

theorem pBodyGo_stop (n : Nat) (acc : List Stmt) (ts : List Tok) (h : hdKind ts ≠ .NEWLINE) :
    pBodyGo (n + 1) acc ts = some (acc.reverse, ts) := by
  unfold pBodyGo
  cases ts with
  | nil => rfl
  | cons a t =>
    cases t with
    | nil => rfl
    | cons b rs =>
      simp only [hdKind_cons] at h
      simp [h]

theorem pBodyGo_step (n : Nat) (acc : List Stmt) (a b : Tok) (rs r : List Tok) (s : Stmt)
    (ha : a.kind = .NEWLINE) (hb : b.kind = .TAB) (hs : pStmt rs = some (s, r)) :
    pBodyGo (n + 1) acc (a :: b :: rs) = pBodyGo n (s :: acc) r := by
  simp [pBodyGo, ha, hb, hs]

theorem bodyToks_follow (stmts : List Stmt) (lay : List Nat) (rest : List Tok)
    (hrest : stmtFollow (hdKind rest) = true) : stmtFollow (hdKind (bodyToks stmts lay ++ rest)) = true := by
  cases stmts with
  | nil => simpa [bodyToks] using hrest
  | cons s ss => simp [bodyToks, List.replicate_succ, hdKind_cons, nl, mkTok, stmtFollow]

theorem bodyToks_length (stmts : List Stmt) (lay : List Nat) : stmts.length ≤ (bodyToks stmts lay).length := by
  induction stmts generalizing lay with
  | nil => simp [bodyToks]
  | cons s ss ih =>
    have := ih lay.tail
    simp only [bodyToks, List.length_append, List.length_cons, List.length_replicate]
    omega

/-- the remaining body statements, seen after the previous statement's trailing line ends were
consumed -/
theorem pBodyGo_ok (stmts : List Stmt) (hwf : ∀ s ∈ stmts, s.WFp) (lay : List Nat) (rest tail : List Tok)
    (k : Nat) (ht : NLTail rest tail k) (n : Nat) (hn : stmts.length + 1 ≤ n) (acc : List Stmt) :
    pBodyGo n acc (eatNL (bodyToks stmts lay ++ rest)) = some (acc.reverse ++ stmts, tail) := by
  induction stmts generalizing n acc lay with
  | nil =>
    obtain ⟨m, rfl⟩ : ∃ m, n = m + 1 := ⟨n - 1, by omega⟩
    simp only [bodyToks, List.nil_append, ht.eat, List.append_nil]
    exact pBodyGo_stop m acc tail ht.notNL
  | cons s ss ih =>
    obtain ⟨m, rfl⟩ : ∃ m, n = m + 1 := ⟨n - 1, by simp at hn; omega⟩
    have hshape : bodyToks (s :: ss) lay ++ rest =
        List.replicate (lay.headD 0 + 1) nl ++ tab :: (s.toks ++ (bodyToks ss lay.tail ++ rest)) := by
      simp [bodyToks, List.append_assoc]
    rw [hshape, eatNL_tab]
    have hs := pStmt_ok s (hwf s (by simp)) (bodyToks ss lay.tail ++ rest) (bodyToks_follow ss lay.tail rest ht.follows)
    rw [pBodyGo_step m acc nl tab _ _ s rfl rfl hs,
      ih (fun x hx => hwf x (List.mem_cons_of_mem _ hx)) lay.tail m (by simp at hn; omega) (s :: acc)]
    simp

theorem pLoopBody_ok (s : Stmt) (ss : List Stmt) (hwf : ∀ x ∈ s :: ss, x.WFp) (lay : List Nat)
    (rest tail : List Tok) (k : Nat) (ht : NLTail rest tail k) :
    pLoopBody (nl :: tab :: (s.toks ++ bodyToks ss lay) ++ rest) = some (s :: ss, tail) := by
  have hshape : nl :: tab :: (s.toks ++ bodyToks ss lay) ++ rest =
      nl :: tab :: (s.toks ++ (bodyToks ss lay ++ rest)) := by simp
  rw [hshape]
  have hs := pStmt_ok s (hwf s (by simp)) (bodyToks ss lay ++ rest) (bodyToks_follow ss lay rest ht.follows)
  have hgo := pBodyGo_ok ss (fun x hx => hwf x (List.mem_cons_of_mem _ hx)) lay rest tail k ht
    ((eatNL (bodyToks ss lay ++ rest)).length + 1)
    (by
      -- the statements that remain are at most as many as the tokens that remain
      have h1 := bodyToks_length ss lay
      cases ss with
      | nil => simp
      | cons s' ss' =>
        have hsh : bodyToks (s' :: ss') lay ++ rest =
            List.replicate (lay.headD 0 + 1) nl ++ tab :: (s'.toks ++ (bodyToks ss' lay.tail ++ rest)) := by
          simp [bodyToks, List.append_assoc]
        rw [hsh, eatNL_tab]
        have h2 := bodyToks_length ss' lay.tail
        simp only [List.length_cons, List.length_append]
        have h3 : 1 ≤ s'.toks.length := by simp [Stmt.toks]
        omega) [s]
  unfold pLoopBody
  simp only [nl, tab, mkTok, Bool.and_self, if_true, hs]
  simpa using hgo

end Blackbird

namespace Blackbird

theorem expr_no_colon (e : Expr) : ∀ t ∈ e.toks, t.kind ≠ .COLON := by
  induction e with
  | num k s => intro t ht; simp only [Expr.toks, List.mem_singleton] at ht; subst ht; cases k <;> simp [mkTok, NumKind.tok]
  | var x p => intro t ht; simp only [Expr.toks, List.mem_singleton] at ht; subst ht; simp
  | reg s => intro t ht; simp only [Expr.toks, List.mem_singleton] at ht; subst ht; simp [mkTok]
  | par p => intro t ht; simp only [Expr.toks, List.mem_cons, List.mem_nil_iff, or_false] at ht; rcases ht with rfl | rfl | rfl <;> simp [mkTok]
  | idx x p i ih =>
    intro t ht
    simp only [Expr.toks, List.cons_append, List.nil_append, List.mem_cons, List.mem_append, List.mem_nil_iff, or_false] at ht
    rcases ht with rfl | rfl | h | rfl
    · simp
    · simp [mkTok]
    · exact ih t h
    · simp [mkTok]
  | brk e ih =>
    intro t ht
    simp only [Expr.toks, List.cons_append, List.nil_append, List.mem_cons, List.mem_append, List.mem_nil_iff, or_false] at ht
    rcases ht with rfl | h | rfl
    · simp [mkTok]
    · exact ih t h
    · simp [mkTok]
  | fn f e ih =>
    intro t ht
    simp only [Expr.toks, List.cons_append, List.nil_append, List.mem_cons, List.mem_append, List.mem_nil_iff, or_false] at ht
    rcases ht with rfl | rfl | h | rfl
    · cases f <;> simp [mkTok, Fn.tok]
    · simp [mkTok]
    · exact ih t h
    · simp [mkTok]
  | pos e ih =>
    intro t ht
    simp only [Expr.toks, List.mem_cons] at ht
    rcases ht with rfl | h
    · simp [mkTok]
    · exact ih t h
  | neg e ih =>
    intro t ht
    simp only [Expr.toks, List.mem_cons] at ht
    rcases ht with rfl | h
    · simp [mkTok]
    · exact ih t h
  | pow a b iha ihb =>
    intro t ht
    simp only [Expr.toks, List.mem_append, List.mem_singleton] at ht
    rcases ht with (h | rfl) | h
    · exact iha t h
    · simp [mkTok]
    · exact ihb t h
  | mul a b iha ihb =>
    intro t ht
    simp only [Expr.toks, List.mem_append, List.mem_singleton] at ht
    rcases ht with (h | rfl) | h
    · exact iha t h
    · simp [mkTok]
    · exact ihb t h
  | div a b iha ihb =>
    intro t ht
    simp only [Expr.toks, List.mem_append, List.mem_singleton] at ht
    rcases ht with (h | rfl) | h
    · exact iha t h
    · simp [mkTok]
    · exact ihb t h
  | add a b iha ihb =>
    intro t ht
    simp only [Expr.toks, List.mem_append, List.mem_singleton] at ht
    rcases ht with (h | rfl) | h
    · exact iha t h
    · simp [mkTok]
    · exact ihb t h
  | sub a b iha ihb =>
    intro t ht
    simp only [Expr.toks, List.mem_append, List.mem_singleton] at ht
    rcases ht with (h | rfl) | h
    · exact iha t h
    · simp [mkTok]
    · exact ihb t h

theorem val_no_colon (v : ArgVal) : ∀ t ∈ v.toks, t.kind ≠ .COLON := by
  cases v with
  | expr e => exact expr_no_colon e
  | str s => intro t ht; simp only [ArgVal.toks, List.mem_singleton] at ht; subst ht; simp [mkTok]
  | bool b => intro t ht; simp only [ArgVal.toks, List.mem_singleton] at ht; subst ht; simp [mkTok]

theorem sepToks_no_colon (vs : List ArgVal) : ∀ t ∈ sepToks ArgVal.toks vs, t.kind ≠ .COLON := by
  induction vs with
  | nil => simp [sepToks]
  | cons v vs ih =>
    rw [sepToks_cons]
    intro t ht
    simp only [List.mem_append] at ht
    rcases ht with h | h
    · exact val_no_colon v t h
    · clear ih
      induction vs with
      | nil => simp [commaToks] at h
      | cons w ws ih2 =>
        simp only [commaToks, List.flatMap_cons, List.mem_cons, List.mem_append] at h
        rcases h with (rfl | h) | h
        · simp [mkTok]
        · exact val_no_colon w t h
        · exact ih2 h

theorem second_not_colon (L rest : List Tok) (hL : ∀ t ∈ L, t.kind ≠ .COLON) (hr : hdKind rest ≠ .COLON)
    (hne : L ≠ []) (a c : Tok) (r0 : List Tok) (h : L ++ rest = a :: c :: r0) : c.kind ≠ .COLON := by
  cases L with
  | nil => exact absurd rfl hne
  | cons x xs =>
    cases xs with
    | nil =>
      simp only [List.cons_append, List.nil_append, List.cons.injEq] at h
      rw [h.2] at hr
      simpa [hdKind_cons] using hr
    | cons y ys =>
      simp only [List.cons_append, List.cons.injEq] at h
      rw [← h.2.1]
      exact hL y (by simp)

/-- a loop header: a range of INT tokens, or a value list with optional brackets -/
structure HeaderWF (h : LoopHeader) : Prop where
  vals : ∀ lb vs rb, h = .list lb vs rb → vs ≠ [] ∧ (∀ v ∈ vs, v.WF = true) ∧
    (lb = none → ∀ r, hdKind (sepToks ArgVal.toks vs ++ r) ≠ .LBRAC)

theorem pLoopHeader_list (ts r : List Tok) (lb rb : Option Brk) (vs : List ArgVal)
    (hnot : ∀ a c r0, ts = a :: c :: r0 → ¬ (a.kind = .INT ∧ c.kind = .COLON))
    (hbr : bracketed pVallist (fun k => k = .NEWLINE) ts = some ((lb, vs, rb), r)) :
    pLoopHeader ts = some (.list lb vs rb, r) := by
  unfold pLoopHeader
  cases ts with
  | nil => simp [hbr]
  | cons a t =>
    cases t with
    | nil => simp [hbr]
    | cons c r0 =>
      have := hnot a c r0 rfl
      by_cases h1 : a.kind = .INT
      · by_cases h2 : c.kind = .COLON
        · exact absurd ⟨h1, h2⟩ this
        · simp [h1, h2, hbr]
      · simp [h1, hbr]

theorem pLoopHeader_ok (h : LoopHeader) (hwf : HeaderWF h) (rest : List Tok) (hrest : hdKind rest = .NEWLINE) :
    pLoopHeader (h.toks ++ rest) = some (h, rest) := by
  cases h with
  | range a b c =>
    cases c with
    | none =>
      cases rest with
      | nil => simp [hdKind] at hrest
      | cons t ts =>
        simp only [hdKind_cons] at hrest
        cases ts with
        | nil => simp [LoopHeader.toks, pLoopHeader, mkTok]
        | cons t2 ts2 => simp [LoopHeader.toks, pLoopHeader, mkTok, hrest]
    | some c => simp [LoopHeader.toks, pLoopHeader, mkTok]
  | list lb vs rb =>
    obtain ⟨hne, hall, hpl⟩ := hwf.vals lb vs rb rfl
    cases vs with
    | nil => exact absurd rfl hne
    | cons v vs' =>
      have hrow : RowOK pVallist (sepToks ArgVal.toks) (v :: vs') := fun r hr hnc => pVallist_ok v vs' hall r hr hnc
      have hbr := bracketed_ok pVallist (sepToks ArgVal.toks) (fun k => k = .NEWLINE) (v :: vs') hrow lb rb rest
        (by simp [hrest]) (exprFollow_of_kind _ .NEWLINE hrest (by simp)) (by rw [hrest]; simp)
        (by rw [hrest]; simp)
        (fun hl r => ⟨hpl hl r, by
          rw [sepToks_cons, List.append_assoc]
          obtain ⟨t, ts, hts, hst⟩ := val_start v (commaToks ArgVal.toks vs' ++ r)
          rw [hts, hdKind_cons]
          exact (valStart_ne t.kind hst).1⟩)
      have hshape : (LoopHeader.list lb (v :: vs') rb).toks ++ rest =
          optOpen lb ++ sepToks ArgVal.toks (v :: vs') ++ optClose rb ++ rest := by
        simp [LoopHeader.toks]
      rw [hshape]
      refine pLoopHeader_list _ rest lb rb (v :: vs') ?_ hbr
      intro a c r0 heq hac
      cases lb with
      | some b =>
        cases b <;> simp only [optOpen, Brk.openTok, List.cons_append, List.nil_append, List.append_assoc,
          List.cons.injEq] at heq <;> (rw [← heq.1] at hac; simp [mkTok] at hac)
      | none =>
        simp only [optOpen, List.nil_append] at heq
        have hL : ∀ t ∈ sepToks ArgVal.toks (v :: vs') ++ optClose rb, t.kind ≠ .COLON := by
          intro t ht
          simp only [List.mem_append] at ht
          rcases ht with h | h
          · exact sepToks_no_colon _ t h
          · cases rb with
            | none => simp [optClose] at h
            | some b => cases b <;> simp only [optClose, Brk.closeTok, List.mem_singleton] at h <;> subst h <;> simp [mkTok]
        have hne2 : sepToks ArgVal.toks (v :: vs') ++ optClose rb ≠ [] := by
          rw [sepToks_cons]
          obtain ⟨t, ts, hts, _⟩ := val_start v (commaToks ArgVal.toks vs' ++ optClose rb)
          intro hnil
          rw [List.append_assoc, hts] at hnil
          cases hnil
        exact second_not_colon _ rest hL (by rw [hrest]; simp) hne2 a c r0 heq hac.2

end Blackbird

namespace Blackbird

/-! ### loops as items, item lists -/

structure LoopWF (h : LoopHeader) (body : List Stmt) : Prop where
  header : HeaderWF h
  body_ne : body ≠ []
  body : ∀ s ∈ body, s.WFp

theorem pLoop_of_parts (f ty x i : Tok) (rs r1 r4 : List Tok) (vt : VarType) (h : LoopHeader) (body : List Stmt)
    (hf : f.kind = .FOR) (hx : x.kind = .NAME) (hi : i.kind = .IN) (hty : VarType.ofTok ty.kind = some vt)
    (hh : pLoopHeader rs = some (h, r1)) (hb : pLoopBody r1 = some (body, r4)) :
    pLoop (f :: ty :: x :: i :: rs) = some (.loop vt x.text h body, r4) := by
  unfold pLoop
  simp [hf, hx, hi, hty, hh, hb]

theorem pLoop_ok (ty : VarType) (x : String) (h : LoopHeader) (body : List Stmt) (hwf : LoopWF h body)
    (lay : List Nat) (rest tail : List Tok) (k : Nat) (ht : NLTail rest tail k) :
    pLoop ((Item.loop ty x h body).toks lay ++ rest) = some (.loop ty x h body, tail) := by
  cases body with
  | nil => exact absurd rfl hwf.body_ne
  | cons s ss =>
    have hshape : (Item.loop ty x h (s :: ss)).toks lay ++ rest =
        mkTok .FOR "for" :: ty.toToks :: mkTok .NAME x :: mkTok .IN "in" ::
          (h.toks ++ (nl :: tab :: (s.toks ++ bodyToks ss lay) ++ rest)) := by
      simp [Item.toks, List.append_assoc]
    rw [hshape]
    exact pLoop_of_parts _ _ _ _ _ _ tail ty h (s :: ss) rfl rfl rfl (vartype_tok ty)
      (pLoopHeader_ok h hwf.header _ rfl) (pLoopBody_ok s ss hwf.body lay rest tail k ht)

/-- well-formedness of one item for printing -/
def Item.WFp : Item → Prop
  | .var _ n init => n.WF ∧ init.WF = true
  | .arr _ _ n shape body => ArrWF n shape body
  | .stmt s => s.WFp
  | .loop _ _ h body => LoopWF h body

def eof : Tok := mkTok .EOF "<EOF>"

theorem pItems_skip (k n : Nat) (acc : List Item) (ts : List Tok) :
    pItems (n + k) acc (List.replicate k nl ++ ts) = pItems n acc ts := by
  induction k with
  | zero => simp
  | succ j ih =>
    have : n + (j + 1) = (n + j) + 1 := by omega
    rw [this, List.replicate_succ, List.cons_append]
    simp only [pItems, nl, mkTok]
    simpa [nl, mkTok] using ih

theorem pItems_eof (n : Nat) (acc : List Item) : pItems (n + 1) acc [eof] = some (acc.reverse, [eof]) := by
  simp [pItems, eof, mkTok]

/-- first token of an item -/
theorem item_head (it : Item) (hwf : it.WFp) (lay : List Nat) (r : List Tok) :
    ∃ t ts, it.toks lay ++ r = t :: ts ∧ t.kind ≠ .NEWLINE ∧ t.kind ≠ .TAB ∧ t.kind ≠ .EOF ∧
      stmtFollow t.kind = true ∧
      ((∃ s, it = .stmt s) → (t.kind = .NAME ∨ t.kind = .MEASURE)) ∧
      ((∃ ty x h b, it = .loop ty x h b) → t.kind = .FOR) ∧
      ((∃ ty n i, it = .var ty n i) ∨ (∃ ty p n s b, it = .arr ty p n s b) → (VarType.ofTok t.kind).isSome) := by
  cases it with
  | var ty n init =>
    refine ⟨ty.toToks, _, rfl, ?_, ?_, ?_, ?_, ?_, ?_, ?_⟩ <;>
      first
      | (cases ty <;> simp [VarType.toToks, mkTok, VarType.tok, stmtFollow, VarType.ofTok])
      | (intro h; obtain ⟨_, h⟩ := h; cases h)
      | (intro h; obtain ⟨_, _, _, _, h⟩ := h; cases h)
  | arr ty pos n shape body =>
    refine ⟨⟨ty.tok, ty.name, pos⟩, _, rfl, ?_, ?_, ?_, ?_, ?_, ?_, ?_⟩ <;>
      first
      | (cases ty <;> simp [VarType.tok, stmtFollow, VarType.ofTok])
      | (intro h; obtain ⟨_, h⟩ := h; cases h)
      | (intro h; obtain ⟨_, _, _, _, h⟩ := h; cases h)
  | stmt s =>
    refine ⟨mkTok (if s.isMeasure then .MEASURE else .NAME) s.op, _, rfl, ?_, ?_, ?_, ?_, ?_, ?_, ?_⟩ <;>
      first
      | (cases s.isMeasure <;> simp [mkTok, stmtFollow, VarType.ofTok])
      | (intro h; obtain ⟨_, _, _, _, h⟩ := h; cases h)
      | (intro h; rcases h with ⟨_, _, _, h⟩ | ⟨_, _, _, _, _, h⟩ <;> cases h)
  | loop ty x h body =>
    have hne := hwf.body_ne
    cases body with
    | nil => exact absurd rfl hne
    | cons s ss =>
      refine ⟨mkTok .FOR "for", _, rfl, ?_, ?_, ?_, ?_, ?_, ?_, ?_⟩ <;>
        first
        | simp [mkTok, stmtFollow, VarType.ofTok]
        | (intro h; obtain ⟨_, h⟩ := h; cases h)
        | (intro h; rcases h with ⟨_, _, _, h⟩ | ⟨_, _, _, _, _, h⟩ <;> cases h)

end Blackbird

namespace Blackbird

/-- the tokens after an item: some line ends, then the remaining items laid out without leading
line ends (or the end of input) -/
theorem items_tail (rest : List Item) (hwf : ∀ it ∈ rest, it.WFp) (lay : List (Nat × List Nat)) (final : Nat) :
    ∃ k lay' final', NLTail (itemsToks lay final rest ++ [eof]) (itemsToks lay' final' rest ++ [eof]) k ∧
      (itemsToks lay' final' rest).length ≤ (itemsToks lay final rest).length := by
  cases rest with
  | nil =>
    refine ⟨final, [], 0, ⟨by simp [itemsToks], by simp [itemsToks, hdKind_cons, eof, mkTok],
      by simp [itemsToks, hdKind_cons, eof, mkTok], by simp [itemsToks, hdKind_cons, eof, mkTok, stmtFollow]⟩, by simp [itemsToks]⟩
  | cons it r =>
    obtain ⟨t, ts, hts, h1, h2, _, h4, _⟩ := item_head it (hwf it (by simp)) (lay.headD (0, [])).2
      (itemsToks lay.tail final r ++ [eof])
    refine ⟨(lay.headD (0, [])).1, (0, (lay.headD (0, [])).2) :: lay.tail, final, ⟨?_, ?_, ?_, ?_⟩, ?_⟩
    · simp [itemsToks, List.append_assoc]
    · simp only [itemsToks, List.headD_cons, List.replicate_zero, List.nil_append, List.tail_cons, List.append_assoc]
      rw [hts, hdKind_cons]; exact h1
    · simp only [itemsToks, List.headD_cons, List.replicate_zero, List.nil_append, List.tail_cons, List.append_assoc]
      rw [hts, hdKind_cons]; exact h2
    · simp only [itemsToks, List.headD_cons, List.replicate_zero, List.nil_append, List.tail_cons, List.append_assoc]
      rw [hts, hdKind_cons]; exact h4
    · simp [itemsToks]

theorem item_toks_pos (it : Item) (hwf : it.WFp) (lay : List Nat) : 1 ≤ (it.toks lay).length := by
  obtain ⟨t, ts, hts, _⟩ := item_head it hwf lay []
  have : (it.toks lay ++ []).length = (t :: ts).length := by rw [hts]
  simp at this
  omega

theorem pItems_stmt (n : Nat) (acc : List Item) (t : Tok) (ts r : List Tok) (s : Stmt)
    (ht : t.kind = .NAME ∨ t.kind = .MEASURE) (hs : pStmt (t :: ts) = some (s, r)) :
    pItems (n + 1) acc (t :: ts) = pItems n (.stmt s :: acc) r := by
  rcases ht with h | h <;> simp [pItems, h, hs]

theorem pItems_loop (n : Nat) (acc : List Item) (t : Tok) (ts r : List Tok) (it : Item)
    (ht : t.kind = .FOR) (hs : pLoop (t :: ts) = some (it, r)) :
    pItems (n + 1) acc (t :: ts) = pItems n (it :: acc) r := by
  simp [pItems, ht, hs]

theorem pItems_decl (n : Nat) (acc : List Item) (t : Tok) (ts r : List Tok) (it : Item)
    (ht : (VarType.ofTok t.kind).isSome = true) (hs : pDecl (t :: ts) = some (it, r)) :
    pItems (n + 1) acc (t :: ts) = pItems n (it :: acc) r := by
  cases hk : t.kind <;> simp_all [pItems, VarType.ofTok]

/-- **Items.** For every list of well-formed items and every layout of line ends, `pItems` reads
back exactly the items. -/
theorem pItems_ok (items : List Item) (hwf : ∀ it ∈ items, it.WFp) (lay : List (Nat × List Nat)) (final : Nat)
    (n : Nat) (hn : (itemsToks lay final items).length + 2 ≤ n) (acc : List Item) :
    pItems n acc (itemsToks lay final items ++ [eof]) = some (acc.reverse ++ items, [eof]) := by
  induction items generalizing lay final n acc with
  | nil =>
    simp only [itemsToks, List.length_replicate] at hn
    obtain ⟨m, rfl⟩ : ∃ m, n = (m + 1) + final := ⟨n - final - 1, by omega⟩
    simp only [itemsToks]
    rw [pItems_skip, pItems_eof]
    simp
  | cons it rest ih =>
    have hwfi := hwf it (by simp)
    have hwfr : ∀ x ∈ rest, x.WFp := fun x hx => hwf x (List.mem_cons_of_mem _ hx)
    have hpos := item_toks_pos it hwfi (lay.headD (0, [])).2
    simp only [itemsToks, List.length_append, List.length_replicate] at hn
    obtain ⟨m, rfl⟩ : ∃ m, n = (m + 1) + (lay.headD (0, [])).1 := ⟨n - (lay.headD (0, [])).1 - 1, by omega⟩
    have hshape : itemsToks lay final (it :: rest) ++ [eof] = List.replicate (lay.headD (0, [])).1 nl ++
        (it.toks (lay.headD (0, [])).2 ++ (itemsToks lay.tail final rest ++ [eof])) := by
      simp [itemsToks, List.append_assoc]
    rw [hshape, pItems_skip]
    obtain ⟨k, lay', final', htail, hlen⟩ := items_tail rest hwfr lay.tail final
    obtain ⟨t, ts, hts, _, _, _, _, hst, hlp, hdc⟩ := item_head it hwfi (lay.headD (0, [])).2
      (itemsToks lay.tail final rest ++ [eof])
    cases it with
    | stmt s =>
      have hs := pStmt_ok s hwfi (itemsToks lay.tail final rest ++ [eof]) htail.follows
      rw [htail.eat] at hs
      simp only [Item.toks] at hts hs ⊢
      rw [hts] at hs ⊢
      rw [pItems_stmt m acc t ts _ s (hst ⟨s, rfl⟩) hs, ih hwfr lay' final' m (by omega) (.stmt s :: acc)]
      simp
    | loop ty x h body =>
      have hs := pLoop_ok ty x h body hwfi (lay.headD (0, [])).2 _ _ k htail
      rw [hts] at hs ⊢
      rw [pItems_loop m acc t ts _ _ (hlp ⟨ty, x, h, body, rfl⟩) hs, ih hwfr lay' final' m (by omega) (_ :: acc)]
      simp
    | var ty nm init =>
      have hs := pDecl_var_ok ty nm init hwfi.1 hwfi.2 (itemsToks lay.tail final rest ++ [eof]) htail.follows
      have htoks : (Item.var ty nm init).toks (lay.headD (0, [])).2 = (Item.var ty nm init).toks [] := rfl
      rw [htoks] at hts ⊢
      rw [hts] at hs ⊢
      rw [pItems_decl m acc t ts _ _ (hdc (Or.inl ⟨ty, nm, init, rfl⟩)) hs, ih hwfr lay.tail final m (by omega) (_ :: acc)]
      simp
    | arr ty pos nm shape body =>
      have hs := pDecl_arr_ok ty pos nm shape body hwfi (itemsToks lay.tail final rest ++ [eof]) htail.follows
      have htoks : (Item.arr ty pos nm shape body).toks (lay.headD (0, [])).2 = (Item.arr ty pos nm shape body).toks [] := rfl
      rw [htoks] at hts ⊢
      rw [hts] at hs ⊢
      rw [pItems_decl m acc t ts _ _ (hdc (Or.inr ⟨ty, pos, nm, shape, body, rfl⟩)) hs, ih hwfr lay.tail final m (by omega) (_ :: acc)]
      simp

end Blackbird

namespace Blackbird

/-! ### metadata, whole scripts -/

theorem skipNL_nls (k : Nat) (ts : List Tok) (h : hdKind ts ≠ .NEWLINE) :
    skipNL (List.replicate k nl ++ ts) = ts := by
  induction k with
  | zero =>
    cases ts with
    | nil => rfl
    | cons t r => simp only [hdKind_cons] at h; simp [skipNL, h]
  | succ n ih => simp [List.replicate_succ, skipNL, nl, mkTok]; simpa [nl, mkTok] using ih

theorem pMetaOpt_none (kw : TokKind) (dev : Bool) (ts : List Tok)
    (h : hdKind ts ≠ .NEWLINE ∨ hdKind (skipNL ts) ≠ kw) : pMetaOpt kw dev ts = some (none, ts) := by
  unfold pMetaOpt
  rcases h with h | h <;> simp [h]

theorem pMetaOpt_some (kw : TokKind) (dev : Bool) (k : Nat) (kwt d : Tok) (r1 r2 : List Tok) (a : Option Args)
    (hk : kwt.kind = kw) (hkn : kw ≠ .NEWLINE) (hd : d.kind = .NAME ∨ (dev = true ∧ d.kind = .DEVICE))
    (ha : pOptArgs r1 = some (a, r2)) :
    pMetaOpt kw dev (List.replicate (k + 1) nl ++ kwt :: d :: r1) = some (some (d.text, a), r2) := by
  unfold pMetaOpt
  have hs : skipNL (List.replicate (k + 1) nl ++ kwt :: d :: r1) = kwt :: d :: r1 :=
    skipNL_nls (k + 1) _ (by rw [hdKind_cons, hk]; exact hkn)
  have hh : hdKind (List.replicate (k + 1) nl ++ kwt :: d :: r1) = .NEWLINE := by
    simp [List.replicate_succ, hdKind_cons, nl, mkTok]
  rw [hs, hh]
  rcases hd with hd | ⟨hdev, hd⟩ <;> simp [hdKind_cons, hk, hd, ha, *]

theorem pIncludes_step (n : Nat) (acc : List String) (a st : Tok) (rs : List Tok) (ha : a.kind = .INCLUDE)
    (hs : st.kind = .STR) : pIncludes (n + 1) acc (a :: st :: rs) = pIncludes n (st.text :: acc) rs := by
  simp [pIncludes, ha, hs]

theorem pIncludes_ok (incs : List String) (gaps : List Nat) (k : Nat) (tail : List Tok)
    (hn1 : hdKind tail ≠ .NEWLINE) (hn2 : hdKind tail ≠ .INCLUDE)
    (n : Nat) (hn : (includesToks incs gaps).length + k + 1 ≤ n) (acc : List String) :
    pIncludes n acc (includesToks incs gaps ++ (List.replicate k nl ++ tail)) = (acc.reverse ++ incs, tail) := by
  induction incs generalizing gaps n acc with
  | nil =>
    simp only [includesToks, List.nil_append, List.length_nil, Nat.zero_add] at hn ⊢
    induction k generalizing n with
    | zero =>
      obtain ⟨m, rfl⟩ : ∃ m, n = m + 1 := ⟨n - 1, by omega⟩
      simp only [List.replicate_zero, List.nil_append, List.append_nil]
      unfold pIncludes
      cases tail with
      | nil => rfl
      | cons t ts => simp only [hdKind_cons] at hn1 hn2; simp [hn1, hn2]
    | succ j ih =>
      obtain ⟨m, rfl⟩ : ∃ m, n = m + 1 := ⟨n - 1, by omega⟩
      rw [List.replicate_succ, List.cons_append]
      simp only [pIncludes, nl, mkTok, if_true]
      simpa [nl, mkTok] using ih m (by omega)
  | cons s rest ih =>
    simp only [includesToks, List.length_append, List.length_replicate, List.length_cons] at hn
    have hskip : ∀ (g m : Nat) (acc' : List String) (ts : List Tok), g + 1 ≤ m →
        pIncludes m acc' (List.replicate g nl ++ ts) = pIncludes (m - g) acc' ts := by
      intro g
      induction g with
      | zero => intro m acc' ts _; simp
      | succ j ihj =>
        intro m acc' ts hm
        obtain ⟨m', rfl⟩ : ∃ m', m = m' + 1 := ⟨m - 1, by omega⟩
        rw [List.replicate_succ, List.cons_append]
        simp only [pIncludes, nl, mkTok, if_true]
        have := ihj m' acc' ts (by omega)
        simp only [nl, mkTok] at this
        rw [this]
        congr 1
        omega
    have hshape : includesToks (s :: rest) gaps ++ (List.replicate k nl ++ tail) =
        List.replicate (gaps.headD 0) nl ++ (mkTok .INCLUDE "include" :: mkTok .STR s ::
          (includesToks rest gaps.tail ++ (List.replicate k nl ++ tail))) := by
      simp [includesToks, List.append_assoc]
    rw [hshape, hskip _ n acc _ (by omega)]
    obtain ⟨m, hm⟩ : ∃ m, n - gaps.headD 0 = m + 1 := ⟨n - gaps.headD 0 - 1, by omega⟩
    rw [hm, pIncludes_step m acc _ _ _ rfl rfl, ih gaps.tail m (by omega) ((mkTok .STR s).text :: acc)]
    simp [mkTok]

end Blackbird

namespace Blackbird

theorem pMeta_of_parts (p n nlt v f : Tok) (r0 r1 r2 r3 r4 : List Tok)
    (tgt ty : Option (String × Option Args)) (incs : List String)
    (hp : p.kind = .PROGNAME) (hn : n.kind = .NAME) (hnl : nlt.kind = .NEWLINE)
    (hskip : skipNL r0 = v :: f :: r1) (hv : v.kind = .VERSION) (hf : f.kind = .FLOAT)
    (ht : pMetaOpt .TARGET true r1 = some (tgt, r2)) (hty : pMetaOpt .PROGTYPE false r2 = some (ty, r3))
    (hi : pIncludes (r3.length + 1) [] r3 = (incs, r4)) :
    pMeta (p :: n :: nlt :: r0) = some (⟨n.text, f.text, tgt, ty, incs⟩, r4) := by
  unfold pMeta
  simp [hp, hn, hnl, hskip, hv, hf, ht, hty, hi]

/-- what comes after `version …` (or after the target / type line): line ends, then something
that is not a line end, a target or type keyword, or an opening bracket -/
structure AfterMeta (X tail : List Tok) (k : Nat) : Prop where
  shape : X = List.replicate k nl ++ tail
  notNL : hdKind tail ≠ .NEWLINE
  notTarget : hdKind tail ≠ .TARGET
  notType : hdKind tail ≠ .PROGTYPE
  notLbrac : hdKind tail ≠ .LBRAC

theorem stmtFollow_not_meta (k : TokKind) (h : stmtFollow k = true) :
    k ≠ .TARGET ∧ k ≠ .PROGTYPE ∧ k ≠ .LBRAC ∧ k ≠ .INCLUDE := by
  cases k <;> simp [stmtFollow, VarType.ofTok] at h ⊢

theorem includes_items_shape (incs : List String) (gaps : List Nat) (items : List Item)
    (hwf : ∀ it ∈ items, it.WFp) (lay : List (Nat × List Nat)) (final : Nat) :
    ∃ k tail, AfterMeta (includesToks incs gaps ++ (itemsToks lay final items ++ [eof])) tail k := by
  cases incs with
  | cons s rest =>
    exact ⟨gaps.headD 0, mkTok .INCLUDE "include" :: mkTok .STR s ::
        (includesToks rest gaps.tail ++ (itemsToks lay final items ++ [eof])),
      ⟨by simp [includesToks, List.append_assoc], by simp [hdKind_cons, mkTok],
       by simp [hdKind_cons, mkTok], by simp [hdKind_cons, mkTok], by simp [hdKind_cons, mkTok]⟩⟩
  | nil =>
    obtain ⟨k, lay', final', ht, _⟩ := items_tail items hwf lay final
    have hm := stmtFollow_not_meta _ ht.follow
    exact ⟨k, _, ⟨by simpa [includesToks] using ht.shape, ht.notNL, hm.1, hm.2.1, hm.2.2.1⟩⟩

theorem AfterMeta.head {X tail : List Tok} {k : Nat} (h : AfterMeta X tail k) :
    hdKind X ≠ .LBRAC ∧ hdKind (skipNL X) ≠ .TARGET ∧ hdKind (skipNL X) ≠ .PROGTYPE := by
  rw [h.shape, skipNL_nls k tail h.notNL]
  refine ⟨?_, h.notTarget, h.notType⟩
  cases k with
  | zero => simpa using h.notLbrac
  | succ j => simp [List.replicate_succ, hdKind_cons, nl, mkTok]

structure Header.WFp (h : Header) : Prop where
  target : ∀ n a, h.target = some (n, some a) → a.WFp
  ptype : ∀ n a, h.ptype = some (n, some a) → a.WFp

theorem metaOpt_ok (kw : TokKind) (dev : Bool) (kwt : Tok) (nameKind : TokKind) (extra : Nat)
    (m : Option (String × Option Args)) (X : List Tok)
    (hk : kwt.kind = kw) (hkn : kw ≠ .NEWLINE)
    (hnk : nameKind = .NAME ∨ (dev = true ∧ nameKind = .DEVICE))
    (hwf : ∀ n a, m = some (n, some a) → a.WFp)
    (hX : hdKind X ≠ .LBRAC ∧ hdKind (skipNL X) ≠ kw) :
    pMetaOpt kw dev (metaOptToks kwt nameKind extra m ++ X) = some (m, X) := by
  cases m with
  | none =>
    simp only [metaOptToks, List.nil_append]
    exact pMetaOpt_none kw dev X (Or.inr hX.2)
  | some na =>
    obtain ⟨n, a⟩ := na
    have hargs := pOptArgs_ok a (fun x hx => hwf n x (by rw [hx])) X hX.1
    have hshape : metaOptToks kwt nameKind extra (some (n, a)) ++ X =
        List.replicate (extra + 1) nl ++ kwt :: mkTok nameKind n :: (optArgsToks a ++ X) := by
      simp [metaOptToks, List.append_assoc]
    rw [hshape]
    exact pMetaOpt_some kw dev extra kwt (mkTok nameKind n) _ X a hk hkn
      (by rcases hnk with h | ⟨h1, h2⟩
          · exact Or.inl (by simp [mkTok, h])
          · exact Or.inr ⟨h1, by simp [mkTok, h2]⟩) hargs

/-- what follows a target / type line: the next metadata part, laid out -/
theorem typePart_shape (kwt : Tok) (hk : kwt.kind = .PROGTYPE) (extra : Nat) (m : Option (String × Option Args))
    (X tail : List Tok) (k : Nat) (hX : AfterMeta X tail k) :
    hdKind (metaOptToks kwt .NAME extra m ++ X) ≠ .LBRAC ∧
    hdKind (skipNL (metaOptToks kwt .NAME extra m ++ X)) ≠ .TARGET := by
  cases m with
  | none => simpa [metaOptToks] using ⟨hX.head.1, hX.head.2.1⟩
  | some na =>
    obtain ⟨n, a⟩ := na
    have hshape : metaOptToks kwt .NAME extra (some (n, a)) ++ X =
        List.replicate (extra + 1) nl ++ kwt :: (mkTok .NAME n :: (optArgsToks a ++ X)) := by
      simp [metaOptToks, List.append_assoc]
    rw [hshape, skipNL_nls _ _ (by rw [hdKind_cons, hk]; simp)]
    exact ⟨by simp [List.replicate_succ, hdKind_cons, nl, mkTok], by rw [hdKind_cons, hk]; simp⟩

/-- **Scripts.** For every script whose parts are well-formed and every layout of line ends
(before the metadata, between metadata lines, before includes, between items, between the
statements of loop bodies, at the end), the parser reads back exactly the script. -/
theorem parseScript_ok (s : Script) (hh : s.header.WFp) (hitems : ∀ it ∈ s.items, it.WFp)
    (ml : MetaLay) (lay : List (Nat × List Nat)) (final : Nat) :
    parseScript (s.toks ml lay final) = some s := by
  obtain ⟨hdr, items⟩ := s
  simp only at hh hitems
  -- shapes of what follows each metadata part
  obtain ⟨k, tail, hAM⟩ := includes_items_shape hdr.includes ml.beforeInclude items hitems lay final
  obtain ⟨k2, lay', final', htail, hlen⟩ := items_tail items hitems lay final
  have hm := stmtFollow_not_meta _ htail.follow
  obtain ⟨X, hXdef⟩ : ∃ X, X = includesToks hdr.includes ml.beforeInclude ++ (itemsToks lay final items ++ [eof]) :=
    ⟨_, rfl⟩
  obtain ⟨Y, hYdef⟩ : ∃ Y, Y = metaOptToks (mkTok .PROGTYPE "type") .NAME ml.beforeType hdr.ptype ++ X := ⟨_, rfl⟩
  rw [← hXdef] at hAM
  have hY := typePart_shape (mkTok .PROGTYPE "type") rfl ml.beforeType hdr.ptype X tail k hAM
  rw [← hYdef] at hY
  have ht := metaOpt_ok .TARGET true (mkTok .TARGET "target") (if ml.deviceTok then .DEVICE else .NAME)
    ml.beforeTarget hdr.target Y rfl (by simp)
    (by cases ml.deviceTok <;> simp) hh.target ⟨hY.1, hY.2⟩
  have hty := metaOpt_ok .PROGTYPE false (mkTok .PROGTYPE "type") .NAME ml.beforeType hdr.ptype X rfl (by simp)
    (Or.inl rfl) hh.ptype ⟨hAM.head.1, hAM.head.2.2⟩
  rw [← hYdef] at hty
  have hk2 : k2 + ((itemsToks lay' final' items).length + 1) = (itemsToks lay final items).length + 1 := by
    have := congrArg List.length htail.shape
    simp only [List.length_append, List.length_replicate, List.length_cons, List.length_nil] at this
    omega
  have hinc := pIncludes_ok hdr.includes ml.beforeInclude k2 (itemsToks lay' final' items ++ [eof])
    htail.notNL hm.2.2.2 (X.length + 1)
    (by rw [hXdef]; simp only [List.length_append, List.length_cons, List.length_nil]; omega) []
  have hXeq : X = includesToks hdr.includes ml.beforeInclude ++
      (List.replicate k2 nl ++ (itemsToks lay' final' items ++ [eof])) := by
    rw [hXdef, htail.shape]
  rw [← hXeq] at hinc
  have hshape : Script.toks ml lay final ⟨hdr, items⟩ =
      List.replicate ml.lead nl ++ (mkTok .PROGNAME "name" :: mkTok .NAME hdr.name :: nl ::
        (List.replicate ml.afterName nl ++ (mkTok .VERSION "version" :: mkTok .FLOAT hdr.version ::
          (metaOptToks (mkTok .TARGET "target") (if ml.deviceTok then .DEVICE else .NAME) ml.beforeTarget hdr.target ++ Y)))) := by
    simp [Script.toks, Header.toks, hYdef, hXdef, eof, List.replicate_succ, List.append_assoc]
  unfold parseScript
  rw [hshape, skipNL_nls _ _ (by simp [hdKind_cons, mkTok])]
  rw [pMeta_of_parts (mkTok .PROGNAME "name") (mkTok .NAME hdr.name) nl (mkTok .VERSION "version")
    (mkTok .FLOAT hdr.version) _ _ Y X (itemsToks lay' final' items ++ [eof]) hdr.target hdr.ptype hdr.includes
    rfl rfl rfl (skipNL_nls _ _ (by simp [hdKind_cons, mkTok])) rfl rfl ht hty (by simpa using hinc)]
  simp only [mkTok]
  have hit := pItems_ok items hitems lay' final' ((itemsToks lay' final' items ++ [eof]).length + 1)
    (by simp only [List.length_append, List.length_cons, List.length_nil]; omega) []
  rw [hit]
  simp [eof, mkTok]

end Blackbird
