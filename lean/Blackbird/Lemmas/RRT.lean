import Blackbird.RRT

namespace Blackbird

theorem mem_dedupStr {x : String} {l : List String} : x ∈ dedupStr l ↔ x ∈ l := by
  induction l with
  | nil => simp [dedupStr]
  | cons a t ih =>
    simp only [dedupStr, List.mem_cons, List.mem_filter, ih]
    constructor
    · rintro (h | ⟨h, _⟩)
      · exact Or.inl h
      · exact Or.inr h
    · rintro (h | h)
      · exact Or.inl h
      · by_cases hx : x = a
        · exact Or.inl hx
        · exact Or.inr ⟨h, by simpa using hx⟩

theorem nodup_dedupStr (l : List String) : (dedupStr l).Nodup := by
  induction l with
  | nil => simp [dedupStr]
  | cons a t ih =>
    simp only [dedupStr]
    refine List.nodup_cons.mpr ⟨?_, ih.sublist List.filter_sublist⟩
    simp [List.mem_filter]

/-- looking a listed key up in the zip of the keys with their images -/
theorem dictGet_zip_map {α : Type} (ρ : String → α) (l : List String) (s : String) (h : s ∈ l) :
    dictGet (l.zip (l.map ρ)) s = some (ρ s) := by
  induction l with
  | nil => cases h
  | cons a t ih =>
    simp only [List.map_cons, List.zip_cons_cons, dictGet]
    by_cases ha : a = s
    · simp [ha]
    · simp only [ha, if_false]
      rcases List.mem_cons.mp h with rfl | h'
      · exact absurd rfl ha
      · exact ih h'

theorem nodup_map_of_inj_on {α β : Type} (f : α → β) (l : List α) (hn : l.Nodup)
    (hinj : ∀ a, a ∈ l → ∀ b, b ∈ l → f a = f b → a = b) : (l.map f).Nodup := by
  induction l with
  | nil => simp
  | cons x t ih =>
    have hx := List.nodup_cons.mp hn
    simp only [List.map_cons]
    refine List.nodup_cons.mpr ⟨?_, ih hx.2 (fun a ha b hb => hinj a (List.mem_cons_of_mem _ ha) b (List.mem_cons_of_mem _ hb))⟩
    intro hmem
    obtain ⟨y, hy, hfy⟩ := List.mem_map.mp hmem
    have : y = x := hinj y (List.mem_cons_of_mem _ hy) x (by simp) hfy
    exact hx.1 (this ▸ hy)

variable {K : Type} [Scalar K]

/-- the value of a tree depends only on the values given to the symbols that occur in it -/
theorem evalSym_congr (env₁ env₂ : String → Option (Num K)) (e : SExpr K)
    (h : ∀ s, s ∈ e.regs ++ e.pars → env₁ s = env₂ s) : evalSym env₁ e = evalSym env₂ e := by
  induction e with
  | num n => rfl
  | par p => simp only [evalSym]; rw [h p (by simp [SExpr.regs, SExpr.pars])]
  | reg r => simp only [evalSym]; rw [h r (by simp [SExpr.regs, SExpr.pars])]
  | neg a ih =>
    simp only [evalSym]
    rw [ih (by intro s hs; exact h s (by simpa [SExpr.regs, SExpr.pars] using hs))]
  | add a b iha ihb =>
    simp only [evalSym]
    rw [iha (by intro s hs; apply h s; simp only [SExpr.regs, SExpr.pars, List.mem_append] at hs ⊢; rcases hs with h1 | h1 <;> simp [h1]),
        ihb (by intro s hs; apply h s; simp only [SExpr.regs, SExpr.pars, List.mem_append] at hs ⊢; rcases hs with h1 | h1 <;> simp [h1])]
  | mul a b iha ihb =>
    simp only [evalSym]
    rw [iha (by intro s hs; apply h s; simp only [SExpr.regs, SExpr.pars, List.mem_append] at hs ⊢; rcases hs with h1 | h1 <;> simp [h1]),
        ihb (by intro s hs; apply h s; simp only [SExpr.regs, SExpr.pars, List.mem_append] at hs ⊢; rcases hs with h1 | h1 <;> simp [h1])]
  | pow a b iha ihb =>
    simp only [evalSym]
    rw [iha (by intro s hs; apply h s; simp only [SExpr.regs, SExpr.pars, List.mem_append] at hs ⊢; rcases hs with h1 | h1 <;> simp [h1]),
        ihb (by intro s hs; apply h s; simp only [SExpr.regs, SExpr.pars, List.mem_append] at hs ⊢; rcases hs with h1 | h1 <;> simp [h1])]

end Blackbird
