/-
  Lemmas for C08 at expression level: the symbolic tree the evaluator builds for an argument
  over measured registers, evaluated at register values (`evalSym`, what the lambdified
  function of the transform computes), gives what evaluating the written expression with the
  values put in place of the registers gives.
-/
import Blackbird.Lemmas.Instantiate

namespace Blackbird

variable {K : Type} [Scalar K]

/-- the value a (possibly symbolic) value takes at register values `ρ` -/
def valAt (ρ : String → Option (Num K)) : Val K → Except Err (Val K)
  | .atom (.sym e) => (fun n => .atom (.num n)) <$> evalSym ρ e
  | v => .ok v

@[simp] theorem valAt_num (ρ : String → Option (Num K)) (n : Num K) :
    valAt ρ (.atom (.num n)) = .ok (.atom (.num n)) := rfl

theorem valAt_sym (ρ : String → Option (Num K)) (e : SExpr K) (w : Val K) (h : valAt ρ (.atom (.sym e)) = .ok w) :
    ∃ n, evalSym ρ e = .ok n ∧ w = .atom (.num n) := by
  simp only [valAt] at h
  obtain ⟨n, hn, rfl⟩ := (map_eq_ok _ _ _).1 h
  exact ⟨n, hn, rfl⟩

theorem valAt_plain (ρ : String → Option (Num K)) (v : Val K) (h : v.plain = true) : valAt ρ v = .ok v := by
  cases v with
  | atom a => cases a <;> first | rfl | (simp [Val.plain] at h)
  | _ => rfl

theorem liftBin_valAt (ρ : String → Option (Num K)) (opN opN' : Num K → Num K → Except Err (Num K))
    (opS : SExpr K → SExpr K → SExpr K)
    (hmono : ∀ a b r, opN a b = .ok r → opN' a b = .ok r)
    (hS : ∀ x y, evalSym ρ (opS x y) = (do let x' ← evalSym ρ x; let y' ← evalSym ρ y; opN' x' y'))
    (va vb wa wb v w : Val K) (ha : valAt ρ va = .ok wa) (hb : valAt ρ vb = .ok wb)
    (hv : liftBin opN opS va vb = .ok v) (hw : liftBin opN opS wa wb = .ok w) : valAt ρ v = .ok w := by
  unfold liftBin at hv
  split at hv
  · rename_i x y
    simp only [valAt_num, Except.ok.injEq] at ha hb
    subst ha hb
    obtain ⟨r, hr, rfl⟩ := (map_eq_ok _ _ _).1 hv
    unfold liftBin at hw
    obtain ⟨r', hr', rfl⟩ := (map_eq_ok _ _ _).1 hw
    rw [hr] at hr'; cases hr'; rfl
  · rename_i x y
    simp only [valAt_num, Except.ok.injEq] at hb
    subst hb
    cases hv
    obtain ⟨x', hx', rfl⟩ := valAt_sym ρ x wa ha
    unfold liftBin at hw
    obtain ⟨r, hr, rfl⟩ := (map_eq_ok _ _ _).1 hw
    simp only [valAt, hS, hx', evalSym, bind, Except.bind, hmono _ _ _ hr, Functor.map, Except.map]
  · rename_i x y
    simp only [valAt_num, Except.ok.injEq] at ha
    subst ha
    cases hv
    obtain ⟨y', hy', rfl⟩ := valAt_sym ρ y wb hb
    unfold liftBin at hw
    obtain ⟨r, hr, rfl⟩ := (map_eq_ok _ _ _).1 hw
    simp only [valAt, hS, hy', evalSym, bind, Except.bind, hmono _ _ _ hr, Functor.map, Except.map]
  · rename_i x y
    cases hv
    obtain ⟨x', hx', rfl⟩ := valAt_sym ρ x wa ha
    obtain ⟨y', hy', rfl⟩ := valAt_sym ρ y wb hb
    unfold liftBin at hw
    obtain ⟨r, hr, rfl⟩ := (map_eq_ok _ _ _).1 hw
    simp only [valAt, hS, hx', hy', bind, Except.bind, hmono _ _ _ hr, Functor.map, Except.map]
  · cases hv

theorem negVal_valAt (ρ : String → Option (Num K)) (va wa v w : Val K) (ha : valAt ρ va = .ok wa)
    (hv : negVal va = .ok v) (hw : negVal wa = .ok w) : valAt ρ v = .ok w := by
  unfold negVal at hv
  split at hv
  · simp only [valAt_num, Except.ok.injEq] at ha
    subst ha
    cases hv
    simp only [negVal] at hw
    cases hw; rfl
  · rename_i x
    cases hv
    obtain ⟨x', hx', rfl⟩ := valAt_sym ρ x wa ha
    simp only [negVal] at hw
    cases hw
    simp only [valAt, evalSym, hx', bind, Except.bind, Functor.map, Except.map]
  · cases hv

theorem recipVal_valAt (hr : RecipLaw K) (ρ : String → Option (Num K)) (va wa v w : Val K)
    (ha : valAt ρ va = .ok wa) (hv : recipVal va = .ok v) (hw : recipVal wa = .ok w) : valAt ρ v = .ok w := by
  unfold recipVal at hv
  split at hv
  · simp only [valAt_num, Except.ok.injEq] at ha
    subst ha
    cases hv
    simp only [recipVal] at hw
    cases hw; rfl
  · rename_i x
    cases hv
    obtain ⟨x', hx', rfl⟩ := valAt_sym ρ x wa ha
    simp only [recipVal] at hw
    cases hw
    simp only [valAt, evalSym, hx', bind, Except.bind, hr x', Functor.map, Except.map]
  · cases hv

/-! ### the parameters of an evaluated expression are among those written -/

/-- a symbolic value mentions only parameters from `ps` -/
def parsIn (v : Val K) (ps : List String) : Prop :=
  ∀ e, v = .atom (.sym e) → ∀ p ∈ e.pars, p ∈ ps

omit [Scalar K] in
theorem parsIn_of_plain (v : Val K) (h : v.plain = true) (ps : List String) : parsIn v ps := by
  intro e he; subst he; simp [Val.plain] at h

theorem liftBin_parsIn (opN : Num K → Num K → Except Err (Num K)) (opS : SExpr K → SExpr K → SExpr K)
    (hpars : ∀ x y, (opS x y).pars = x.pars ++ y.pars)
    (va vb v : Val K) (pa pb : List String) (ha : parsIn va pa) (hb : parsIn vb pb)
    (hv : liftBin opN opS va vb = .ok v) : parsIn v (pa ++ pb) := by
  intro e he
  subst he
  unfold liftBin at hv
  split at hv
  · obtain ⟨r, _, h⟩ := (map_eq_ok _ _ _).1 hv
    cases h
  · rename_i x y
    cases hv
    simp only [hpars, SExpr.pars, List.append_nil, List.mem_append]
    exact fun p hp => .inl (ha x rfl p hp)
  · rename_i x y
    cases hv
    simp only [hpars, SExpr.pars, List.nil_append, List.mem_append]
    exact fun p hp => .inr (hb y rfl p hp)
  · rename_i x y
    cases hv
    simp only [hpars, List.mem_append]
    exact fun p hp => hp.elim (fun h => .inl (ha x rfl p h)) (fun h => .inr (hb y rfl p h))
  · cases hv

theorem negVal_parsIn (va v : Val K) (ps : List String) (ha : parsIn va ps) (hv : negVal va = .ok v) : parsIn v ps := by
  intro e he
  subst he
  unfold negVal at hv
  split at hv
  · cases hv
  · rename_i x
    cases hv
    exact ha x rfl
  · cases hv

theorem recipVal_parsIn (va v : Val K) (ps : List String) (ha : parsIn va ps) (hv : recipVal va = .ok v) : parsIn v ps := by
  intro e he
  subst he
  unfold recipVal at hv
  split at hv
  · cases hv
  · rename_i x
    cases hv
    simp only [SExpr.pars, List.append_nil]
    exact ha x rfl
  · cases hv

theorem evalExpr_parsIn (T : Tables K) (hT : T.Plain) (e : Expr) : ∀ v, evalExpr T e = .ok v → parsIn v e.pars := by
  induction e with
  | num k t => intro v hv; simp only [evalExpr] at hv; cases hv; exact parsIn_of_plain _ rfl _
  | reg t => intro v hv; simp only [evalExpr] at hv; cases hv; intro e he; cases he; simp [SExpr.pars]
  | var x pos => intro v hv; exact parsIn_of_plain _ (evalVar_plain T hT x pos v hv) _
  | idx x pos i _ => intro v hv; exact parsIn_of_plain _ (evalIdx_plain T hT x pos i v hv) _
  | par p =>
    intro v hv; simp only [evalExpr] at hv; cases hv
    intro e he; cases he
    simp [SExpr.pars, Expr.pars]
  | brk e ih => intro v hv; simp only [evalExpr] at hv; exact ih v hv
  | pos e ih => intro v hv; simp only [evalExpr] at hv; exact ih v hv
  | neg e ih =>
    intro v hv
    simp only [evalExpr] at hv
    obtain ⟨va, hva, hv⟩ := (bind_eq_ok _ _ _).1 hv
    exact negVal_parsIn va v _ (ih va hva) hv
  | add a b iha ihb =>
    intro v hv
    simp only [evalExpr] at hv
    obtain ⟨va, hva, hv⟩ := (bind_eq_ok _ _ _).1 hv
    obtain ⟨vb, hvb, hv⟩ := (bind_eq_ok _ _ _).1 hv
    exact liftBin_parsIn _ .add (fun _ _ => rfl) va vb v _ _ (iha va hva) (ihb vb hvb) hv
  | mul a b iha ihb =>
    intro v hv
    simp only [evalExpr] at hv
    obtain ⟨va, hva, hv⟩ := (bind_eq_ok _ _ _).1 hv
    obtain ⟨vb, hvb, hv⟩ := (bind_eq_ok _ _ _).1 hv
    exact liftBin_parsIn _ .mul (fun _ _ => rfl) va vb v _ _ (iha va hva) (ihb vb hvb) hv
  | pow a b iha ihb =>
    intro v hv
    simp only [evalExpr] at hv
    obtain ⟨va, hva, hv⟩ := (bind_eq_ok _ _ _).1 hv
    obtain ⟨vb, hvb, hv⟩ := (bind_eq_ok _ _ _).1 hv
    exact liftBin_parsIn _ .pow (fun _ _ => rfl) va vb v _ _ (iha va hva) (ihb vb hvb) hv
  | sub a b iha ihb =>
    intro v hv
    simp only [evalExpr] at hv
    obtain ⟨va, hva, hv⟩ := (bind_eq_ok _ _ _).1 hv
    obtain ⟨vb, hvb, hv⟩ := (bind_eq_ok _ _ _).1 hv
    obtain ⟨nvb, hnvb, hv⟩ := (bind_eq_ok _ _ _).1 hv
    exact liftBin_parsIn _ .add (fun _ _ => rfl) va nvb v _ _ (iha va hva) (negVal_parsIn vb nvb _ (ihb vb hvb) hnvb) hv
  | div a b iha ihb =>
    intro v hv
    simp only [evalExpr] at hv
    obtain ⟨va, hva, hv⟩ := (bind_eq_ok _ _ _).1 hv
    obtain ⟨vb, hvb, hv⟩ := (bind_eq_ok _ _ _).1 hv
    obtain ⟨nvb, hnvb, hv⟩ := (bind_eq_ok _ _ _).1 hv
    exact liftBin_parsIn _ .mul (fun _ _ => rfl) va nvb v _ _ (iha va hva) (recipVal_parsIn vb nvb _ (ihb vb hvb) hnvb) hv
  | fn f e _ =>
    intro v hv
    simp only [evalExpr] at hv
    obtain ⟨va, _, hv⟩ := (bind_eq_ok _ _ _).1 hv
    split at hv
    · obtain ⟨r, _, rfl⟩ := (map_eq_ok _ _ _).1 hv
      exact parsIn_of_plain _ rfl _
    · cases hv
    · cases hv

variable [Fmt K] [LawfulFmt K]

/-- **Expressions over registers.** If the written expression evaluates to `v` and the expression
with the register values put in evaluates to `w`, then `v` taken at those values is `w`. -/
theorem evalExpr_substR (hr : RecipLaw K) (ρ : String → Option (Num K)) (T : Tables K) (hT : T.Plain) (e : Expr)
    (hp : e.pars = []) (hq : ∀ r ∈ e.regsL, (ρ r).isSome = true) :
    ∀ v w, evalExpr T e = .ok v → evalExpr T (substR ρ e) = .ok w → valAt ρ v = .ok w := by
  induction e with
  | num k t =>
    intro v w hv hw
    simp only [substR] at hw
    rw [hv] at hw; cases hw
    simp only [evalExpr] at hv
    cases hv; rfl
  | par p => simp [Expr.pars] at hp
  | var x pos =>
    intro v w hv hw
    simp only [substR] at hw
    rw [hv] at hw; cases hw
    exact valAt_plain ρ v (evalVar_plain T hT x pos v hv)
  | idx x pos i ih =>
    intro v w hv hw
    simp only [Expr.pars] at hp
    simp only [Expr.regsL] at hq
    have hvp := evalIdx_plain T hT x pos i v hv
    simp only [substR, evalExpr] at hv hw
    split at hv
    · cases hv
    rename_i hdef
    rw [if_neg hdef] at hw
    obtain ⟨iv, hiv, hv⟩ := (bind_eq_ok _ _ _).1 hv
    obtain ⟨iw, hiw, hw⟩ := (bind_eq_ok _ _ _).1 hw
    have hi := ih hp hq iv iw hiv hiw
    split at hv
    · cases hv
    · rename_i dt r c flat hx
      rw [hx] at hw
      simp only at hw
      split at hv
      · rename_i k
        simp only [valAt_num, Except.ok.injEq] at hi
        subst hi
        simp only at hw
        rw [hv] at hw; cases hw
        exact valAt_plain ρ v hvp
      · cases hv
      · cases hv
    · cases hv
  | reg t =>
    intro v w hv hw
    have hsome := hq t (by simp [Expr.regsL])
    cases hρ : ρ t with
    | none => simp [hρ] at hsome
    | some n =>
      simp only [substR, hρ, evalExpr, eval_exprOfNum] at hw
      cases hw
      simp only [evalExpr] at hv
      cases hv
      simp only [valAt, evalSym, hρ, Functor.map, Except.map]
  | brk e ih =>
    intro v w hv hw
    simp only [Expr.pars] at hp
    simp only [Expr.regsL] at hq
    simp only [substR, evalExpr] at hv hw
    exact ih hp hq v w hv hw
  | pos e ih =>
    intro v w hv hw
    simp only [Expr.pars] at hp
    simp only [Expr.regsL] at hq
    simp only [substR, evalExpr] at hv hw
    exact ih hp hq v w hv hw
  | neg e ih =>
    intro v w hv hw
    simp only [Expr.pars] at hp
    simp only [Expr.regsL] at hq
    simp only [substR, evalExpr] at hv hw
    obtain ⟨va, hva, hv⟩ := (bind_eq_ok _ _ _).1 hv
    obtain ⟨wa, hwa, hw⟩ := (bind_eq_ok _ _ _).1 hw
    exact negVal_valAt ρ va wa v w (ih hp hq va wa hva hwa) hv hw
  | add a b iha ihb =>
    intro v w hv hw
    simp only [Expr.pars, List.append_eq_nil_iff] at hp
    simp only [Expr.regsL, List.mem_append] at hq
    simp only [substR, evalExpr] at hv hw
    obtain ⟨va, hva, hv⟩ := (bind_eq_ok _ _ _).1 hv
    obtain ⟨vb, hvb, hv⟩ := (bind_eq_ok _ _ _).1 hv
    obtain ⟨wa, hwa, hw⟩ := (bind_eq_ok _ _ _).1 hw
    obtain ⟨wb, hwb, hw⟩ := (bind_eq_ok _ _ _).1 hw
    exact liftBin_valAt ρ _ (fun p q => .ok (p.add q)) .add (fun _ _ _ h => h)
      (fun x y => by simp only [evalSym, bind, Except.bind]) va vb wa wb v w
      (iha hp.1 (fun r h => hq r (.inl h)) va wa hva hwa) (ihb hp.2 (fun r h => hq r (.inr h)) vb wb hvb hwb) hv hw
  | mul a b iha ihb =>
    intro v w hv hw
    simp only [Expr.pars, List.append_eq_nil_iff] at hp
    simp only [Expr.regsL, List.mem_append] at hq
    simp only [substR, evalExpr] at hv hw
    obtain ⟨va, hva, hv⟩ := (bind_eq_ok _ _ _).1 hv
    obtain ⟨vb, hvb, hv⟩ := (bind_eq_ok _ _ _).1 hv
    obtain ⟨wa, hwa, hw⟩ := (bind_eq_ok _ _ _).1 hw
    obtain ⟨wb, hwb, hw⟩ := (bind_eq_ok _ _ _).1 hw
    exact liftBin_valAt ρ _ (fun p q => .ok (p.mul q)) .mul (fun _ _ _ h => h)
      (fun x y => by simp only [evalSym, bind, Except.bind]) va vb wa wb v w
      (iha hp.1 (fun r h => hq r (.inl h)) va wa hva hwa) (ihb hp.2 (fun r h => hq r (.inr h)) vb wb hvb hwb) hv hw
  | pow a b iha ihb =>
    intro v w hv hw
    simp only [Expr.pars, List.append_eq_nil_iff] at hp
    simp only [Expr.regsL, List.mem_append] at hq
    simp only [substR, evalExpr] at hv hw
    obtain ⟨va, hva, hv⟩ := (bind_eq_ok _ _ _).1 hv
    obtain ⟨vb, hvb, hv⟩ := (bind_eq_ok _ _ _).1 hv
    obtain ⟨wa, hwa, hw⟩ := (bind_eq_ok _ _ _).1 hw
    obtain ⟨wb, hwb, hw⟩ := (bind_eq_ok _ _ _).1 hw
    exact liftBin_valAt ρ Num.pow Num.pyPow .pow pow_le_pyPow
      (fun x y => by simp only [evalSym, bind, Except.bind]) va vb wa wb v w
      (iha hp.1 (fun r h => hq r (.inl h)) va wa hva hwa) (ihb hp.2 (fun r h => hq r (.inr h)) vb wb hvb hwb) hv hw
  | sub a b iha ihb =>
    intro v w hv hw
    simp only [Expr.pars, List.append_eq_nil_iff] at hp
    simp only [Expr.regsL, List.mem_append] at hq
    simp only [substR, evalExpr] at hv hw
    obtain ⟨va, hva, hv⟩ := (bind_eq_ok _ _ _).1 hv
    obtain ⟨vb, hvb, hv⟩ := (bind_eq_ok _ _ _).1 hv
    obtain ⟨nvb, hnvb, hv⟩ := (bind_eq_ok _ _ _).1 hv
    obtain ⟨wa, hwa, hw⟩ := (bind_eq_ok _ _ _).1 hw
    obtain ⟨wb, hwb, hw⟩ := (bind_eq_ok _ _ _).1 hw
    obtain ⟨nwb, hnwb, hw⟩ := (bind_eq_ok _ _ _).1 hw
    have hb := negVal_valAt ρ vb wb nvb nwb (ihb hp.2 (fun r h => hq r (.inr h)) vb wb hvb hwb) hnvb hnwb
    exact liftBin_valAt ρ _ (fun p q => .ok (p.add q)) .add (fun _ _ _ h => h)
      (fun x y => by simp only [evalSym, bind, Except.bind]) va nvb wa nwb v w
      (iha hp.1 (fun r h => hq r (.inl h)) va wa hva hwa) hb hv hw
  | div a b iha ihb =>
    intro v w hv hw
    simp only [Expr.pars, List.append_eq_nil_iff] at hp
    simp only [Expr.regsL, List.mem_append] at hq
    simp only [substR, evalExpr] at hv hw
    obtain ⟨va, hva, hv⟩ := (bind_eq_ok _ _ _).1 hv
    obtain ⟨vb, hvb, hv⟩ := (bind_eq_ok _ _ _).1 hv
    obtain ⟨nvb, hnvb, hv⟩ := (bind_eq_ok _ _ _).1 hv
    obtain ⟨wa, hwa, hw⟩ := (bind_eq_ok _ _ _).1 hw
    obtain ⟨wb, hwb, hw⟩ := (bind_eq_ok _ _ _).1 hw
    obtain ⟨nwb, hnwb, hw⟩ := (bind_eq_ok _ _ _).1 hw
    have hb := recipVal_valAt hr ρ vb wb nvb nwb (ihb hp.2 (fun r h => hq r (.inr h)) vb wb hvb hwb) hnvb hnwb
    exact liftBin_valAt ρ _ (fun p q => .ok (p.mul q)) .mul (fun _ _ _ h => h)
      (fun x y => by simp only [evalSym, bind, Except.bind]) va nvb wa nwb v w
      (iha hp.1 (fun r h => hq r (.inl h)) va wa hva hwa) hb hv hw
  | fn f e ih =>
    intro v w hv hw
    simp only [Expr.pars] at hp
    simp only [Expr.regsL] at hq
    simp only [substR, evalExpr] at hv hw
    obtain ⟨va, hva, hv⟩ := (bind_eq_ok _ _ _).1 hv
    obtain ⟨wa, hwa, hw⟩ := (bind_eq_ok _ _ _).1 hw
    have hi := ih hp hq va wa hva hwa
    split at hv
    · simp only [valAt_num, Except.ok.injEq] at hi
      subst hi
      simp only at hw
      rw [hv] at hw; cases hw
      obtain ⟨r, _, rfl⟩ := (map_eq_ok _ _ _).1 hv
      rfl
    · cases hv
    · cases hv

end Blackbird
