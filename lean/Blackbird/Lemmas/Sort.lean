/-
  Sorting a set of integers does not depend on the order in which the set is iterated.
-/
import Blackbird.Listener

namespace Blackbird

theorem insertSorted_perm (x : Int) (l : List Int) : (insertSorted x l).Perm (x :: l) := by
  induction l with
  | nil => exact List.Perm.refl _
  | cons y ys ih =>
    unfold insertSorted
    by_cases h : x ≤ y
    · simp only [h, if_true]; exact List.Perm.refl _
    · simp only [h, if_false]
      exact ((List.Perm.cons y ih).trans (List.Perm.swap x y ys))

theorem sortInts_perm_self (l : List Int) : (sortInts l).Perm l := by
  induction l with
  | nil => exact List.Perm.refl _
  | cons x t ih =>
    show (insertSorted x (sortInts t)).Perm (x :: t)
    exact (insertSorted_perm x _).trans (List.Perm.cons x ih)

theorem insertSorted_sorted (x : Int) (l : List Int) (h : l.Pairwise (· ≤ ·)) :
    (insertSorted x l).Pairwise (· ≤ ·) := by
  induction l with
  | nil => simp [insertSorted]
  | cons y ys ih =>
    have hp := List.pairwise_cons.mp h
    unfold insertSorted
    by_cases hxy : x ≤ y
    · simp only [hxy, if_true]
      refine List.pairwise_cons.mpr ⟨?_, h⟩
      intro z hz
      rcases List.mem_cons.mp hz with rfl | hz'
      · exact hxy
      · exact Int.le_trans hxy (hp.1 z hz')
    · simp only [hxy, if_false]
      refine List.pairwise_cons.mpr ⟨?_, ih hp.2⟩
      intro z hz
      have := (insertSorted_perm x ys).mem_iff.mp hz
      rcases List.mem_cons.mp this with rfl | hz'
      · omega
      · exact hp.1 z hz'

theorem sortInts_sorted (l : List Int) : (sortInts l).Pairwise (· ≤ ·) := by
  induction l with
  | nil => simp [sortInts]
  | cons x t ih => exact insertSorted_sorted x _ ih

theorem sortInts_perm {l₁ l₂ : List Int} (h : l₁.Perm l₂) : sortInts l₁ = sortInts l₂ := by
  apply List.Perm.eq_of_pairwise (le := fun a b : Int => a ≤ b)
  · intro a b _ _ hab hba
    omega
  · exact sortInts_sorted l₁
  · exact sortInts_sorted l₂
  · exact ((sortInts_perm_self l₁).trans h).trans (sortInts_perm_self l₂).symm

theorem nodup_dedupInts (l : List Int) : (dedupInts l).Nodup := by
  induction l with
  | nil => simp [dedupInts]
  | cons a t ih =>
    simp only [dedupInts]
    exact List.nodup_cons.mpr ⟨by simp [List.mem_filter], ih.sublist List.filter_sublist⟩

theorem mem_dedupInts {m : Int} {l : List Int} : m ∈ dedupInts l ↔ m ∈ l := by
  induction l with
  | nil => simp [dedupInts]
  | cons a t ih =>
    simp only [dedupInts, List.mem_cons, List.mem_filter]
    constructor
    · rintro (h | ⟨h, _⟩)
      · exact Or.inl h
      · exact Or.inr (ih.mp h)
    · rintro (h | h)
      · exact Or.inl h
      · by_cases hma : m = a
        · exact Or.inl hma
        · exact Or.inr ⟨ih.mpr h, by simpa using hma⟩

theorem sortedModes_order_independent (o₁ o₂ : SetOrder Int) (modes : List Int) :
    sortedModes o₁ modes = sortedModes o₂ modes := by
  unfold sortedModes
  exact sortInts_perm ((o₁.isPerm _).trans (o₂.isPerm _).symm)

end Blackbird
