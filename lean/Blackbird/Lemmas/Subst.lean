/-
  The substitution lemma: evaluating with a variable bound to a value equals evaluating the
  expression in which the variable is replaced by any expression that evaluates to that value.
-/
import Blackbird.Unroll
import Blackbird.Listener
import Blackbird.Lemmas.Dict

namespace Blackbird

variable {K : Type} [Scalar K]

/-- tables with `x` bound to `v` -/
def Tables.bind (T : Tables K) (x : String) (v : Val K) : Tables K :=
  { T with vars := dictSet T.vars x v }

theorem evalExpr_subst (T : Tables K) (x : String) (v : Val K) (lit : Expr)
    (hx : T.params.contains (.pname x) = false) (hlit : evalExpr T lit = .ok v)
    (e : Expr) (hni : indexes x e = false) :
    evalExpr (T.bind x v) e = evalExpr T (substE x lit e) := by
  induction e with
  | num k t => rfl
  | reg t => rfl
  | par p => rfl
  | var y pos =>
    simp only [substE]
    by_cases hy : y = x
    · subst hy
      simp only [if_true, hlit, evalExpr, Tables.bind, dictGet_dictSet_same, hx, Bool.false_eq_true, if_false]
    · simp only [hy, if_false, evalExpr, Tables.bind, dictGet_dictSet_ne _ _ _ _ hy]
      rfl
  | idx y pos i ih =>
    simp only [indexes, Bool.or_eq_false_iff, decide_eq_false_iff_not] at hni
    simp only [substE, evalExpr, Tables.bind, dictGet_dictSet_ne _ _ _ _ hni.1]
    have := ih hni.2
    simp only [Tables.bind] at this
    rw [this]
  | brk e ih => simp only [indexes] at hni; simp only [substE, evalExpr]; exact ih hni
  | pos e ih => simp only [indexes] at hni; simp only [substE, evalExpr]; exact ih hni
  | neg e ih => simp only [indexes] at hni; simp only [substE, evalExpr, ih hni]
  | fn f e ih => simp only [indexes] at hni; simp only [substE, evalExpr, ih hni]
  | pow a b iha ihb =>
    simp only [indexes, Bool.or_eq_false_iff] at hni
    simp only [substE, evalExpr, iha hni.1, ihb hni.2]
  | mul a b iha ihb =>
    simp only [indexes, Bool.or_eq_false_iff] at hni
    simp only [substE, evalExpr, iha hni.1, ihb hni.2]
  | div a b iha ihb =>
    simp only [indexes, Bool.or_eq_false_iff] at hni
    simp only [substE, evalExpr, iha hni.1, ihb hni.2]
  | add a b iha ihb =>
    simp only [indexes, Bool.or_eq_false_iff] at hni
    simp only [substE, evalExpr, iha hni.1, ihb hni.2]
  | sub a b iha ihb =>
    simp only [indexes, Bool.or_eq_false_iff] at hni
    simp only [substE, evalExpr, iha hni.1, ihb hni.2]

/-- parameters mentioned are unchanged when the replacement mentions none -/
theorem substE_pars (x : String) (lit : Expr) (hl : lit.pars = []) (e : Expr) :
    (substE x lit e).pars = e.pars := by
  induction e with
  | var y pos => simp only [substE]; split <;> simp [Expr.pars, hl]
  | idx y pos i ih => simp only [substE, Expr.pars, ih]
  | brk e ih => simp only [substE, Expr.pars, ih]
  | pos e ih => simp only [substE, Expr.pars, ih]
  | neg e ih => simp only [substE, Expr.pars, ih]
  | fn f e ih => simp only [substE, Expr.pars, ih]
  | pow a b iha ihb => simp only [substE, Expr.pars, iha, ihb]
  | mul a b iha ihb => simp only [substE, Expr.pars, iha, ihb]
  | div a b iha ihb => simp only [substE, Expr.pars, iha, ihb]
  | add a b iha ihb => simp only [substE, Expr.pars, iha, ihb]
  | sub a b iha ihb => simp only [substE, Expr.pars, iha, ihb]
  | _ => rfl

theorem mapM_congr_map {α β γ ε : Type} (f : α → Except ε γ) (g : β → Except ε γ) (h : α → β)
    (l : List α) (hfg : ∀ a, a ∈ l → f a = g (h a)) : l.mapM f = (l.map h).mapM g := by
  induction l with
  | nil => rfl
  | cons a t ih =>
    simp only [List.mapM_cons, List.map_cons]
    rw [hfg a (by simp), ih (fun b hb => hfg b (List.mem_cons_of_mem _ hb))]

theorem evalArgVal_subst (T : Tables K) (x : String) (v : Val K) (lit : Expr)
    (hx : T.params.contains (.pname x) = false) (hlit : evalExpr T lit = .ok v)
    (a : ArgVal) (hni : argValIndexes x a = false) :
    evalArgVal (T.bind x v) a = evalArgVal T (substArgVal x lit a) := by
  cases a with
  | expr e => simp only [evalArgVal, substArgVal]; exact evalExpr_subst T x v lit hx hlit e hni
  | str s => rfl
  | bool b => rfl

theorem evalKwVal_subst (T : Tables K) (x : String) (v : Val K) (lit : Expr)
    (hx : T.params.contains (.pname x) = false) (hlit : evalExpr T lit = .ok v)
    (kv : KwVal) (hni : kwValIndexes x kv = false) :
    evalKwVal (T.bind x v) kv = evalKwVal T (substKwVal x lit kv) := by
  cases kv with
  | one a => simp only [evalKwVal, substKwVal, evalArgVal_subst T x v lit hx hlit a hni]
  | list vs =>
    cases vs with
    | nil => rfl
    | cons a t =>
      simp only [kwValIndexes] at hni
      have hall : ∀ b, b ∈ a :: t → argValIndexes x b = false := by
        intro b hb
        have := List.any_eq_false.mp hni b hb
        simpa using this
      simp only [substKwVal, List.map_cons, evalKwVal]
      have := mapM_congr_map (fun v' => do valToAtom (← evalArgVal (T.bind x v) v'))
        (fun v' => do valToAtom (← evalArgVal T v')) (substArgVal x lit) (a :: t)
        (fun b hb => by simp only [evalArgVal_subst T x v lit hx hlit b (hall b hb)])
      simp only [List.map_cons] at this
      rw [this]

theorem evalKwargs_subst (T : Tables K) (x : String) (v : Val K) (lit : Expr)
    (hx : T.params.contains (.pname x) = false) (hlit : evalExpr T lit = .ok v)
    (kws : List (String × KwVal)) (hni : ∀ kv, kv ∈ kws → kwValIndexes x kv.2 = false)
    (acc : List (String × Val K)) :
    evalKwargs (T.bind x v) kws acc = evalKwargs T (kws.map fun kv => (kv.1, substKwVal x lit kv.2)) acc := by
  induction kws generalizing acc with
  | nil => rfl
  | cons kv rest ih =>
    obtain ⟨k, w⟩ := kv
    simp only [List.map_cons, evalKwargs]
    rw [evalKwVal_subst T x v lit hx hlit w (hni (k, w) (by simp))]
    cases evalKwVal T (substKwVal x lit w) with
    | error e => rfl
    | ok r =>
      cases r with
      | none => exact ih (fun kv hkv => hni kv (List.mem_cons_of_mem _ hkv)) acc
      | some y => exact ih (fun kv hkv => hni kv (List.mem_cons_of_mem _ hkv)) _

theorem evalArgs_subst (T : Tables K) (x : String) (v : Val K) (lit : Expr)
    (hx : T.params.contains (.pname x) = false) (hlit : evalExpr T lit = .ok v)
    (a : Args) (hpos : a.pos.any (argValIndexes x) = false)
    (hkw : a.kw.any (fun kv => kwValIndexes x kv.2) = false) :
    evalArgs (T.bind x v) a = evalArgs T (substArgs x lit a) := by
  unfold evalArgs substArgs
  simp only
  have h1 := mapM_congr_map (evalArgVal (T.bind x v)) (evalArgVal T) (substArgVal x lit) a.pos
    (fun b hb => evalArgVal_subst T x v lit hx hlit b (by simpa using List.any_eq_false.mp hpos b hb))
  have h2 := evalKwargs_subst T x v lit hx hlit a.kw
    (fun kv hkv => by simpa using List.any_eq_false.mp hkw kv hkv) []
  rw [h1, h2]

end Blackbird

namespace Blackbird

variable {K : Type} [Scalar K]

theorem substArgVal_pars (x : String) (lit : Expr) (hl : lit.pars = []) (a : ArgVal) :
    (substArgVal x lit a).pars = a.pars := by
  cases a with
  | expr e => simp only [substArgVal, ArgVal.pars, substE_pars x lit hl]
  | str s => rfl
  | bool b => rfl

theorem flatMap_map_congr {α β : Type} (f : α → List β) (h : α → α) (l : List α)
    (hf : ∀ a, f (h a) = f a) : (l.map h).flatMap f = l.flatMap f := by
  induction l with
  | nil => rfl
  | cons a t ih => simp only [List.map_cons, List.flatMap_cons, hf, ih]

theorem substKwVal_pars (x : String) (lit : Expr) (hl : lit.pars = []) (kv : KwVal) :
    (substKwVal x lit kv).pars = kv.pars := by
  cases kv with
  | one a => simp only [substKwVal, KwVal.pars, substArgVal_pars x lit hl]
  | list vs =>
    simp only [substKwVal, KwVal.pars]
    exact flatMap_map_congr _ _ _ (substArgVal_pars x lit hl)

theorem substArgs_pars (x : String) (lit : Expr) (hl : lit.pars = []) (a : Args) :
    (substArgs x lit a).pars = a.pars := by
  unfold substArgs Args.pars
  simp only
  rw [flatMap_map_congr _ _ _ (substArgVal_pars x lit hl)]
  congr 1
  induction a.kw with
  | nil => rfl
  | cons kv t ih => simp only [List.map_cons, List.flatMap_cons, substKwVal_pars x lit hl, ih]

theorem stmtPars_subst (x : String) (lit : Expr) (hl : lit.pars = []) (s : Stmt) :
    stmtPars (substStmt x lit s) = stmtPars s := by
  unfold stmtPars substStmt
  cases s.args with
  | none => rfl
  | some a => simp only [Option.map_some, substArgs_pars x lit hl]

theorem evalMode_subst (T : Tables K) (x : String) (v : Val K) (lit : Expr)
    (hx : T.params.contains (.pname x) = false) (hlit : evalExpr T lit = .ok v)
    (e : Expr) (hni : indexes x e = false) :
    evalMode (T.bind x v) e = evalMode T (substE x lit e) := by
  unfold evalMode
  rw [evalExpr_subst T x v lit hx hlit e hni]

/-- the effect of a statement with the loop variable bound equals the effect of the statement in
which the variable is replaced by a literal of its value -/
theorem stmtEffect_subst (o : SetOrder Int) (incs : Includes K) (T : Tables K) (x : String) (v : Val K)
    (lit : Expr) (hx : T.params.contains (.pname x) = false) (hlit : evalExpr T lit = .ok v)
    (hl : lit.pars = []) (s : Stmt) (hni : stmtIndexes x s = false) :
    stmtEffect o incs (T.bind x v) s = stmtEffect o incs T (substStmt x lit s) := by
  unfold stmtIndexes at hni
  simp only [Bool.or_eq_false_iff] at hni
  have hmodes : s.modes.mapM (evalMode (T.bind x v)) = (s.modes.map (substE x lit)).mapM (evalMode T) :=
    mapM_congr_map _ _ _ _ (fun e he => evalMode_subst T x v lit hx hlit e
      (by simpa using List.any_eq_false.mp hni.1 e he))
  unfold stmtEffect
  rw [stmtPars_subst x lit hl s]
  have hop : (substStmt x lit s).op = s.op := rfl
  have hm : (substStmt x lit s).modes = s.modes.map (substE x lit) := rfl
  rw [hop, hm, ← hmodes]
  have hparams : (T.bind x v).params = T.params := rfl
  rw [hparams]
  cases hargs : s.args with
  | none =>
    have : (substStmt x lit s).args = none := by simp [substStmt, hargs]
    rw [this]
  | some a =>
    have : (substStmt x lit s).args = some (substArgs x lit a) := by simp [substStmt, hargs]
    rw [this]
    rw [hargs] at hni
    simp only [Bool.or_eq_false_iff] at hni
    simp only [evalArgs_subst T x v lit hx hlit a hni.2.1 hni.2.2]

end Blackbird
