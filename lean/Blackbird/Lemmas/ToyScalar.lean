/-
  A second, trivial scalar instance: the integers with exact arithmetic where it exists and
  constants elsewhere. It is used for concrete witnesses (`decide`) in non-vacuity examples and in
  the negation theorems about pre-repair mechanisms; `Float` is opaque to the kernel.
-/
import Blackbird.Value

deriving instance DecidableEq for Except

namespace Blackbird

/-- wrapper so that the instance does not leak onto `Int` itself -/
structure ZS where
  v : Int
  deriving DecidableEq, Repr, Inhabited

/-- decimal text to an integer scaled by 1000 (enough to tell literals apart) -/
def zsOfDecimal (s : String) : ZS :=
  let cs := s.toList
  let (negv, cs) := match cs with
    | '-' :: r => (true, r)
    | '+' :: r => (false, r)
    | r => (false, r)
  let ip := cs.takeWhile Char.isDigit
  let rest := cs.dropWhile Char.isDigit
  let fp := match rest with
    | '.' :: r => (r.takeWhile Char.isDigit).take 3
    | _ => []
  let fp := fp ++ List.replicate (3 - fp.length) '0'
  let n := (ip ++ fp).foldl (fun n c => 10 * n + (c.toNat - 48)) 0
  ⟨if negv then -(Int.ofNat n) else Int.ofNat n⟩

instance : Scalar ZS where
  ofInt i := ⟨1000 * i⟩
  ofDecimal := zsOfDecimal
  pi := ⟨3142⟩
  add a b := ⟨a.v + b.v⟩
  mul a b := ⟨a.v * b.v / 1000⟩
  neg a := ⟨-a.v⟩
  inv a := ⟨if a.v = 0 then 0 else 1000000 / a.v⟩
  div a b := ⟨if b.v = 0 then 0 else 1000 * a.v / b.v⟩
  pow a _ := a
  powInt a _ := a
  fn _ a := a
  cinv a := a
  cpow a _ := a
  cfn _ _ := none
  trunc a := some (a.v / 1000)
  isZero a := a.v = 0
  beq a b := a.v = b.v
  solveEq a b := a.v = b.v
  finite _ := true

end Blackbird
