/-
  Lemmas for C01 / C09: evaluating what `Blackbird.Unparse` writes gives back the value written.
-/
import Blackbird.Unparse
import Blackbird.Lemmas.ParseScript
import Blackbird.Lemmas.Dict

namespace Blackbird

theorem digitsToNat_toString (n : Nat) : digitsToNat (toString n) = n := by
  unfold digitsToNat
  rw [Nat.toString_eq_repr, Nat.toList_repr]
  have h := @Nat.ofDigitChars_ten_toDigits n
  simpa [Nat.ofDigitChars] using h

variable {K : Type} [Scalar K] [Fmt K]

section eval
variable (T : Tables K)

theorem eval_natLit (n : Nat) : evalExpr T (natLit n) = .ok (.atom (.num (.int (n : Int)))) := by
  simp only [natLit, evalExpr, evalNumber, digitsToNat_toString]

theorem eval_exprOfInt (i : Int) : evalExpr T (exprOfInt i) = .ok (.atom (.num (.int i))) := by
  unfold exprOfInt
  by_cases h : i < 0
  · simp only [h, if_true, evalExpr, eval_natLit]
    show negVal (K := K) (.atom (.num (.int (i.natAbs : Int)))) = _
    simp only [negVal, Num.neg]
    congr 4
    omega
  · simp only [h, if_false, eval_natLit]
    congr 4
    omega

theorem eval_exprOfReal [LawfulFmt K] (x : K) : evalExpr T (exprOfReal x) = .ok (.atom (.num (.real x))) := by
  unfold exprOfReal
  cases h : Fmt.signbit x with
  | true =>
    simp only [if_true, evalExpr, evalNumber]
    show negVal (K := K) (.atom (.num (.real _))) = _
    simp only [negVal, Num.neg, LawfulFmt.real_neg x h]
  | false =>
    simp [evalExpr, evalNumber, LawfulFmt.real_pos x h]

theorem eval_exprOfNum [LawfulFmt K] (n : Num K) : evalExpr T (exprOfNum n) = .ok (.atom (.num n)) := by
  cases n with
  | int i => exact eval_exprOfInt T i
  | real x => exact eval_exprOfReal T x
  | cplx a b => simp [exprOfNum, evalExpr, LawfulFmt.cplx_lit a b]

theorem eval_wrap (e : Expr) : evalExpr T (wrap e) = evalExpr T e := by
  unfold wrap
  split
  · rfl
  · simp [evalExpr]

theorem sexprToVal_of_not_num (e : SExpr K) (h : e.isNum = false) : sexprToVal e = .atom (.sym e) := by
  cases e <;> simp_all [sexprToVal, SExpr.isNum]

/-- **Symbolic values.** Evaluating the written form of a symbolic tree rebuilds exactly that tree. -/
theorem eval_exprOfS [LawfulFmt K] (e : SExpr K) (hn : e.Norm = true) :
    evalExpr T (exprOfS e) = .ok (sexprToVal e) := by
  induction e with
  | num n => simpa [exprOfS, sexprToVal] using eval_exprOfNum T n
  | par p => simp [exprOfS, evalExpr, sexprToVal]
  | reg r => simp [exprOfS, evalExpr, sexprToVal]
  | neg a ih =>
    simp only [SExpr.Norm, Bool.and_eq_true, Bool.not_eq_true'] at hn
    simp only [exprOfS, evalExpr, eval_wrap, ih hn.1]
    show negVal (sexprToVal a) = _
    rw [sexprToVal_of_not_num a hn.2]
    rfl
  | add a b iha ihb =>
    simp only [SExpr.Norm, Bool.and_eq_true, Bool.not_eq_true', Bool.and_eq_false_iff] at hn
    simp only [exprOfS, evalExpr, eval_wrap, iha hn.1.1, ihb hn.1.2]
    show liftBin _ _ (sexprToVal a) (sexprToVal b) = _
    cases a <;> cases b <;> simp_all [sexprToVal, SExpr.isNum, liftBin]
  | mul a b iha ihb =>
    simp only [SExpr.Norm, Bool.and_eq_true, Bool.not_eq_true', Bool.and_eq_false_iff] at hn
    simp only [exprOfS, evalExpr, eval_wrap, iha hn.1.1, ihb hn.1.2]
    show liftBin _ _ (sexprToVal a) (sexprToVal b) = _
    cases a <;> cases b <;> simp_all [sexprToVal, SExpr.isNum, liftBin]
  | pow a b iha ihb =>
    simp only [SExpr.Norm, Bool.and_eq_true, Bool.not_eq_true', Bool.and_eq_false_iff] at hn
    simp only [exprOfS, evalExpr, eval_wrap, iha hn.1.1, ihb hn.1.2]
    show liftBin _ _ (sexprToVal a) (sexprToVal b) = _
    cases a <;> cases b <;> simp_all [sexprToVal, SExpr.isNum, liftBin]

end eval

/-! ### what is written can be parsed back -/

theorem wrap_level (e : Expr) : (wrap e).level ≥ 4 := by
  unfold wrap
  split
  · assumption
  · simp [Expr.level]

theorem wrap_WF (e : Expr) (h : e.WF = true) : (wrap e).WF = true := by
  unfold wrap
  split
  · exact h
  · simpa [Expr.WF] using h

theorem exprOfInt_WF (i : Int) : (exprOfInt i).WF = true := by
  unfold exprOfInt
  split <;> simp [Expr.WF, natLit, Expr.level]

theorem exprOfNum_WF (n : Num K) : (exprOfNum n).WF = true := by
  cases n with
  | int i => exact exprOfInt_WF i
  | real x =>
    show (exprOfReal x).WF = true
    unfold exprOfReal
    cases Fmt.signbit x <;> simp [Expr.WF, Expr.level]
  | cplx a b => simp [exprOfNum, Expr.WF]

theorem exprOfS_WF (e : SExpr K) : (exprOfS e).WF = true := by
  induction e with
  | num n => exact exprOfNum_WF n
  | par p => simp [exprOfS, Expr.WF]
  | reg r => simp [exprOfS, Expr.WF]
  | neg a ih =>
    have := wrap_level (exprOfS a)
    simp only [exprOfS, Expr.WF, wrap_WF _ ih, Bool.true_and, decide_eq_true_eq]
    omega
  | add a b iha ihb =>
    have := wrap_level (exprOfS b)
    simp only [exprOfS, Expr.WF, wrap_WF _ iha, wrap_WF _ ihb, Bool.true_and, decide_eq_true_eq]
    omega
  | mul a b iha ihb =>
    have h1 := wrap_level (exprOfS a)
    have h2 := wrap_level (exprOfS b)
    simp only [exprOfS, Expr.WF, wrap_WF _ iha, wrap_WF _ ihb, Bool.true_and, Bool.and_eq_true, decide_eq_true_eq]
    omega
  | pow a b iha ihb =>
    have h1 := wrap_level (exprOfS a)
    have h2 := wrap_level (exprOfS b)
    simp only [exprOfS, Expr.WF, wrap_WF _ iha, wrap_WF _ ihb, Bool.true_and, Bool.and_eq_true, decide_eq_true_eq]
    omega

theorem argOfAtom_WF (a : Atom K) : (argOfAtom a).WF = true := by
  cases a <;> simp [argOfAtom, ArgVal.WF, exprOfNum_WF, exprOfS_WF]

end Blackbird

namespace Blackbird
variable {K : Type} [Scalar K] [Fmt K]

/-! ### hoisted arrays -/

theorem mapM_ok_of_forall {α β ε : Type} (f : α → Except ε β) (g : α → β) (l : List α)
    (h : ∀ x ∈ l, f x = .ok (g x)) : l.mapM f = .ok (l.map g) := by
  induction l with
  | nil => rfl
  | cons a t ih =>
    simp only [List.mapM_cons, List.map_cons, h a (by simp), ih (fun x hx => h x (List.mem_cons_of_mem _ hx))]
    rfl

def numOfKind : DType → SExpr K → Bool
  | .int, .num (.int _) => true
  | .float, .num (.real _) => true
  | .complex, .num (.cplx _ _) => true
  | _, _ => false

structure ArrDecl.OK (d : ArrDecl K) : Prop where
  r_pos : 0 < d.r
  c_pos : 0 < d.c
  len : d.flat.length = d.r * d.c
  kind : ∀ e ∈ d.flat, numOfKind d.dt e = true

theorem exprOfNum_not_par (n : Num K) : ∀ p, exprOfNum n ≠ .par p := by
  intro p
  cases n with
  | int i => simp only [exprOfNum, exprOfInt]; split <;> simp [natLit]
  | real x => show exprOfReal x ≠ _; unfold exprOfReal; split <;> simp
  | cplx a b => simp [exprOfNum]

theorem exprOfNum_pars (n : Num K) : (exprOfNum n).pars = [] := by
  cases n with
  | int i => simp only [exprOfNum, exprOfInt]; split <;> simp [natLit, Expr.pars]
  | real x => show (exprOfReal x).pars = _; unfold exprOfReal; split <;> simp [Expr.pars]
  | cplx a b => simp [exprOfNum, Expr.pars]

end Blackbird

namespace Blackbird
variable {K : Type} [Scalar K] [Fmt K]

theorem mapM_map_ok {α β γ ε : Type} (f : β → Except ε γ) (h : α → β) (g : α → γ) (l : List α)
    (H : ∀ x ∈ l, f (h x) = .ok (g x)) : (l.map h).mapM f = .ok (l.map g) := by
  induction l with
  | nil => rfl
  | cons a t ih =>
    simp only [List.map_cons, List.mapM_cons, H a (by simp), ih (fun x hx => H x (List.mem_cons_of_mem _ hx))]
    rfl

omit [Fmt K] in
theorem castElem_kind (dt : DType) (n : Num K) (h : numOfKind dt (.num n) = true) :
    castElem (varTypeOf dt) (.atom (.num n)) = .ok n ∧ dtypeOf (varTypeOf dt) = some dt := by
  cases dt <;> cases n <;> simp_all [numOfKind, castElem, varTypeOf, dtypeOf, Num.toReal, Num.toCplx]

omit [Scalar K] [Fmt K] in
theorem numOfKind_num (dt : DType) (e : SExpr K) (h : numOfKind dt e = true) : ∃ n, e = .num n := by
  cases e with
  | num n => exact ⟨n, rfl⟩
  | _ => cases dt <;> simp [numOfKind] at h

theorem elemPars_num (n : Num K) : elemPars (exprOfNum n) = [] := by
  have h1 := exprOfNum_not_par n
  have h2 := exprOfNum_pars n
  cases h : exprOfNum n with
  | par p => exact absurd h (h1 p)
  | _ => rw [h] at h2; simpa [elemPars] using h2

theorem evalElem_num [LawfulFmt K] (T : Tables K) (n : Num K) :
    evalElem T (exprOfNum n) = .ok (some (.atom (.num n)), none) := by
  have h1 := exprOfNum_not_par n
  have h2 := eval_exprOfNum T n
  cases h : exprOfNum n with
  | par p => exact absurd h (h1 p)
  | _ => rw [h] at h2; simp only [evalElem, h2]; rfl

theorem arrEffect_rows [LawfulFmt K] (tdm : Bool) (T : Tables K) (name : String) (dt : DType) (nrows : List (List (SExpr K)))
    (r c : Nat) (hr : nrows.length = r) (hr0 : 0 < r) (hc : ∀ row ∈ nrows, row.length = c)
    (hdt : dtypeOf (varTypeOf dt) = some dt)
    (hk : ∀ row ∈ nrows, ∀ e ∈ row, numOfKind dt e = true)
    (shape : Option (List String)) (hshape : shape = none ∨ shape = some [toString r, toString c]) :
    arrEffect tdm T (varTypeOf dt) ⟨0, 0⟩ (plainName name) shape
      (.rows (nrows.map fun row => row.map exprOfS)) =
    .ok (finishArr tdm name T (.arr dt r c (nrows.flatMap id))) := by
  have hp : (nrows.map fun row => row.map (exprOfS (K := K))).flatMap (fun r => r.flatMap elemPars) = [] := by
    simp only [List.flatMap_eq_nil_iff, List.mem_map, forall_exists_index, and_imp]
    intro l row hrow hl e he
    subst hl
    obtain ⟨s, hs, rfl⟩ := List.mem_map.mp he
    obtain ⟨n, rfl⟩ := numOfKind_num dt s (hk row hrow s hs)
    exact elemPars_num n
  have he : (nrows.map fun row => row.map (exprOfS (K := K))).mapM (fun r => r.mapM (evalElem T)) =
      .ok (nrows.map fun row => row.map fun s => (some (sexprToVal s), none)) := by
    apply mapM_map_ok
    intro row hrow
    apply mapM_map_ok
    intro s hs
    obtain ⟨n, rfl⟩ := numOfKind_num dt s (hk row hrow s hs)
    exact evalElem_num T n
  have hcast : (nrows.map fun row => row.map fun s => ((some (sexprToVal s), none) : Option (Val K) × Option String)).mapM
      (fun r => r.mapM (castRowElem (varTypeOf dt) name ⟨0, 0⟩)) = .ok (nrows.map fun row => row.map id) := by
    apply mapM_map_ok
    intro row hrow
    apply mapM_map_ok
    intro s hs
    obtain ⟨n, rfl⟩ := numOfKind_num dt s (hk row hrow s hs)
    simp [castRowElem, sexprToVal, (castElem_kind dt n (hk row hrow _ hs)).1]
  have hnone : (List.flatMap id (nrows.map fun row => row.map fun s => ((some (sexprToVal s), none) : Option (Val K) × Option String))).filterMap (fun x => x.snd) = [] := by
    simp only [List.filterMap_eq_nil_iff, List.mem_flatMap, List.mem_map, id, forall_exists_index, and_imp]
    intro x l row _ hl hx
    subst hl
    obtain ⟨s, _, rfl⟩ := List.mem_map.mp hx
    rfl
  have hasm : ∀ shp : Option (List Nat), shp = none ∨ shp = some [r, c] →
      assemble dt shp (nrows.map fun row => row.map id) = .ok (.arr dt r c (nrows.flatMap id)) := by
    intro shp hshp
    simp only [List.map_id_fun', List.map_id', id, List.map_id]
    unfold assemble
    cases nrows with
    | nil => simp at hr; omega
    | cons r0 rs =>
      have hall : allSameLength (r0 :: rs) = true := by
        simp only [allSameLength, List.all_eq_true, decide_eq_true_eq]
        intro x hx
        rw [hc x (List.mem_cons_of_mem _ hx), hc r0 (by simp)]
      have h0 : r0.length = c := hc r0 (by simp)
      rcases hshp with h | h <;> simp [h, hall, hr, h0]
  have hshp : shape.map (·.map digitsToNat) = none ∨ shape.map (·.map digitsToNat) = some [r, c] := by
    rcases hshape with h | h
    · left; simp [h]
    · right
      subst h
      simp only [Option.map_some, List.map_cons, List.map_nil, digitsToNat_toString]
  unfold arrEffect
  simp only [checkName, plainName, hp, he, liftE, hdt, bind, Except.bind, hcast, hnone, List.map_nil, List.append_nil,
    List.length_nil, hasm _ hshp, List.isEmpty_nil, if_true]
  simp

/-! ### rows of a flat array -/

omit [Scalar K] [Fmt K] in
theorem chunk_length {α : Type} (n k : Nat) (l : List α) : (chunk n k l).length = k := by
  induction k generalizing l with
  | zero => rfl
  | succ k ih => simp [chunk, ih]

omit [Scalar K] [Fmt K] in
theorem chunk_row_len {α : Type} (n k : Nat) (l : List α) (h : l.length = k * n) :
    ∀ row ∈ chunk n k l, row.length = n := by
  induction k generalizing l with
  | zero => intro row hrow; cases hrow
  | succ k ih =>
    intro row hrow
    simp only [chunk, List.mem_cons] at hrow
    rcases hrow with rfl | hrow
    · rw [List.length_take, h, Nat.succ_mul]; omega
    · exact ih (l.drop n) (by rw [List.length_drop, h, Nat.succ_mul]; omega) row hrow

omit [Scalar K] [Fmt K] in
theorem chunk_flat {α : Type} (n k : Nat) (l : List α) (h : l.length = k * n) :
    (chunk n k l).flatMap id = l := by
  induction k generalizing l with
  | zero =>
    simp only [Nat.zero_mul, List.length_eq_zero_iff] at h
    simp [chunk, h]
  | succ k ih =>
    simp only [chunk, List.flatMap_cons, id]
    rw [ih (l.drop n) (by rw [List.length_drop, h, Nat.succ_mul]; omega)]
    exact List.take_append_drop n l

omit [Scalar K] [Fmt K] in
theorem chunk_mem {α : Type} (n k : Nat) (l : List α) (row : List α) (hrow : row ∈ chunk n k l) (e : α) (he : e ∈ row) :
    e ∈ l := by
  induction k generalizing l with
  | zero => cases hrow
  | succ k ih =>
    simp only [chunk, List.mem_cons] at hrow
    rcases hrow with rfl | hrow
    · exact List.mem_of_mem_take he
    · exact List.mem_of_mem_drop (ih (l.drop n) hrow)

omit [Scalar K] [Fmt K] in
theorem numOfKind_dtype (dt : DType) (e : SExpr K) (h : numOfKind dt e = true) : dtypeOf (varTypeOf dt) = some dt := by
  cases dt <;> cases e <;> simp_all [numOfKind, varTypeOf, dtypeOf]

/-- **Hoisted array.** Executing the declaration the serialiser writes for a numeric array stores
exactly that array — same element type, same shape, every element in its place. -/
theorem arrEffect_decl [LawfulFmt K] (o : SetOrder Int) (T : Tables K) (d : ArrDecl K) (hd : d.OK)
    (ops : List (Op K)) (modes : List Int) :
    execItem o false ([] : Includes K) ⟨T, ops, modes⟩ d.item =
      .ok ⟨{ T with vars := dictSet T.vars d.name (.arr d.dt d.r d.c d.flat) }, ops, modes⟩ := by
  have hlen : d.flat.length = d.r * d.c := hd.len
  have hne : d.flat ≠ [] := by
    intro h
    have := hd.r_pos; have := hd.c_pos
    rw [h] at hlen
    simp only [List.length_nil] at hlen
    have : 0 < d.r * d.c := Nat.mul_pos hd.r_pos hd.c_pos
    omega
  obtain ⟨e0, he0⟩ := List.exists_mem_of_ne_nil _ hne
  have hrows := arrEffect_rows false T d.name d.dt (chunk d.c d.r d.flat) d.r d.c (chunk_length _ _ _) hd.r_pos
    (chunk_row_len _ _ _ hlen) (numOfKind_dtype _ e0 (hd.kind e0 he0))
    (fun row hrow e he => hd.kind e (chunk_mem _ _ _ row hrow e he)) (some [toString d.r, toString d.c]) (Or.inr rfl)
  rw [chunk_flat _ _ _ hlen] at hrows
  have hty : declType d.dt d.flat = varTypeOf d.dt := by
    have := numOfKind_dtype _ e0 (hd.kind e0 he0)
    cases hdt : d.dt <;> simp_all [declType, varTypeOf, dtypeOf]
  simp only [ArrDecl.item, execItem, execArr, hty, hrows]
  simp [finishArr]

end Blackbird
