/-
  Lemmas for C01 / C09, program level: arguments, statements, hoisted arrays, metadata, the whole
  script; and that everything `scriptOf` writes parses back.
-/
import Blackbird.Lemmas.Unparse
namespace Blackbird
variable {K : Type} [Scalar K] [Fmt K]

/-! ### argument values -/

/-- numbers, booleans and quote-free strings: what may stand in a list or an option -/
def Atom.plainOK : Atom K → Bool
  | .num _ => true
  | .bool _ => true
  | .str s => !s.toList.contains '"'
  | _ => false

def symOK (e : SExpr K) : Bool := e.Norm && !e.isNum

/-- argument values the round-trip theorem covers -/
def Val.argOK : Val K → Prop
  | .atom (.sym e) => symOK e = true ∧ e.regs = []
  | .atom a => a.plainOK = true
  | .rrt e => symOK e = true ∧ e.regs ≠ []
  | .arr dt r c flat => ArrDecl.OK ⟨"", dt, r, c, flat⟩
  | .list _ => False

def Val.kwOK : Val K → Prop
  | .list vs => vs ≠ [] ∧ ∀ a ∈ vs, a.plainOK = true
  | v => v.argOK

/-- the value the evaluator produces before register transforms are wrapped -/
def unwrapRRT : Val K → Val K
  | .rrt e => .atom (.sym e)
  | v => v

def Holds (T : Tables K) (d : ArrDecl K) : Prop :=
  dictGet T.vars d.name = some (.arr d.dt d.r d.c d.flat)

def NoPname (T : Tables K) : Prop := ∀ s, T.params.contains (.pname s) = false

omit [Scalar K] [Fmt K] in
theorem strLiteral_quote (s : String) (h : s.toList.contains '"' = false) : strLiteral ("\"" ++ s ++ "\"") = s := by
  unfold strLiteral
  have : (("\"" ++ s ++ "\"").toList.filter (· ≠ '"')) = s.toList := by
    simp only [String.toList_append]
    have h1 : "\"".toList = ['"'] := rfl
    rw [h1]
    simp only [List.filter_append, List.filter_cons, List.filter_nil, ne_eq, not_true_eq_false, decide_false]
    simp only [Bool.false_eq_true, if_false, List.nil_append, List.append_nil]
    apply List.filter_eq_self.mpr
    intro c hc
    simp only [decide_eq_true_eq]
    intro hq
    subst hq
    simp [List.contains_iff_mem] at h
    exact h hc
  rw [this]
  exact String.ofList_toList

theorem eval_plainAtom [LawfulFmt K] (T : Tables K) (a : Atom K) (h : a.plainOK = true) :
    evalArgVal T (argOfAtom a) = .ok (.atom a) := by
  cases a with
  | num n => simp [argOfAtom, evalArgVal, eval_exprOfNum]
  | bool b => simp [argOfAtom, evalArgVal]
  | str s =>
    simp only [Atom.plainOK, Bool.not_eq_true'] at h
    simp [argOfAtom, evalArgVal, strLiteral_quote s h]
  | sym e => simp [Atom.plainOK] at h
  | pname s => simp [Atom.plainOK] at h


theorem wrap_pars (e : Expr) : (wrap e).pars = e.pars := by
  unfold wrap; split <;> simp [Expr.pars]

theorem exprOfS_pars (e : SExpr K) : (exprOfS e).pars = e.pars := by
  induction e with
  | num n => simp [exprOfS, exprOfNum_pars, SExpr.pars]
  | par p => simp [exprOfS, Expr.pars, SExpr.pars]
  | reg r => simp [exprOfS, Expr.pars, SExpr.pars]
  | neg a ih => simp [exprOfS, Expr.pars, SExpr.pars, wrap_pars, ih]
  | add a b iha ihb => simp [exprOfS, Expr.pars, SExpr.pars, wrap_pars, iha, ihb]
  | mul a b iha ihb => simp [exprOfS, Expr.pars, SExpr.pars, wrap_pars, iha, ihb]
  | pow a b iha ihb => simp [exprOfS, Expr.pars, SExpr.pars, wrap_pars, iha, ihb]

/-- parameters an argument value mentions -/
def Val.pars : Val K → List String
  | .atom (.sym e) => e.pars
  | .rrt e => e.pars
  | _ => []

theorem plainAtom_pars (a : Atom K) (h : a.plainOK = true) : (argOfAtom a).pars = [] := by
  cases a <;> simp_all [Atom.plainOK, argOfAtom, ArgVal.pars, exprOfNum_pars]

/-- **One argument.** Evaluating the written form of an argument value, in tables that hold the
hoisted arrays, gives the value back (a register transform as its expression, wrapped later). -/
theorem eval_argOfVal [LawfulFmt K] (T : Tables K) (st st' : UnState K) (v : Val K) (a : ArgVal)
    (hv : v.argOK) (h : argOfVal st v = .ok (a, st')) (hT : ∀ d ∈ st'.decls, Holds T d) (hp : NoPname T) :
    evalArgVal T a = .ok (unwrapRRT v) ∧ a.pars = v.pars ∧ a.WF = true ∧
      st'.next ≥ st.next ∧ ∃ more, st'.decls = st.decls ++ more := by
  cases v with
  | atom atm =>
    simp only [argOfVal, Except.ok.injEq, Prod.mk.injEq] at h
    obtain ⟨rfl, rfl⟩ := h
    refine ⟨?_, ?_, argOfAtom_WF atm, Nat.le_refl _, [], by simp⟩
    · cases atm with
      | sym e =>
        simp only [Val.argOK, symOK, Bool.and_eq_true, Bool.not_eq_true'] at hv
        simp only [argOfAtom, evalArgVal, eval_exprOfS T e hv.1.1, sexprToVal_of_not_num e hv.1.2, unwrapRRT]
      | num n => exact eval_plainAtom T _ hv
      | bool b => exact eval_plainAtom T _ hv
      | str s => exact eval_plainAtom T _ hv
      | pname s => simp [Val.argOK, Atom.plainOK] at hv
    · cases atm with
      | sym e => simp [argOfAtom, ArgVal.pars, exprOfS_pars, Val.pars]
      | num n => simpa [Val.pars] using plainAtom_pars _ hv
      | bool b => simpa [Val.pars] using plainAtom_pars _ hv
      | str s => simpa [Val.pars] using plainAtom_pars _ hv
      | pname s => simp [Val.argOK, Atom.plainOK] at hv
  | rrt e =>
    simp only [argOfVal, Except.ok.injEq, Prod.mk.injEq] at h
    obtain ⟨rfl, rfl⟩ := h
    simp only [Val.argOK, symOK, Bool.and_eq_true, Bool.not_eq_true'] at hv
    refine ⟨?_, by simp [ArgVal.pars, exprOfS_pars, Val.pars], by simp [ArgVal.WF, exprOfS_WF], Nat.le_refl _, [], by simp⟩
    simp only [evalArgVal, eval_exprOfS T e hv.1.1, sexprToVal_of_not_num e hv.1.2, unwrapRRT]
  | arr dt r c flat =>
    simp only [argOfVal, Except.ok.injEq, Prod.mk.injEq] at h
    obtain ⟨rfl, rfl⟩ := h
    have hd := hT ⟨arrName st.next, dt, r, c, flat⟩ (by simp)
    unfold Holds at hd
    simp only at hd
    refine ⟨?_, by simp [ArgVal.pars, Expr.pars, Val.pars], by simp [ArgVal.WF, Expr.WF], by simp, _, rfl⟩
    simp only [evalArgVal, evalExpr, hd, hp (arrName st.next), unwrapRRT]
    rfl
  | list vs => simp [Val.argOK] at hv


theorem eval_posOfVals [LawfulFmt K] (T : Tables K) (vs : List (Val K)) (st st' : UnState K) (as : List ArgVal)
    (hv : ∀ v ∈ vs, v.argOK) (h : posOfVals vs st = .ok (as, st')) (hT : ∀ d ∈ st'.decls, Holds T d) (hp : NoPname T) :
    as.mapM (evalArgVal T) = .ok (vs.map unwrapRRT) ∧ as.flatMap ArgVal.pars = vs.flatMap Val.pars ∧
      (∀ a ∈ as, a.WF = true) ∧ st'.next ≥ st.next ∧ ∃ more, st'.decls = st.decls ++ more := by
  induction vs generalizing st as with
  | nil =>
    simp only [posOfVals, Except.ok.injEq, Prod.mk.injEq] at h
    obtain ⟨rfl, rfl⟩ := h
    exact ⟨rfl, rfl, by simp, Nat.le_refl _, [], by simp⟩
  | cons v vs ih =>
    simp only [posOfVals, bind, Except.bind] at h
    cases h1 : argOfVal st v with
    | error e => simp [h1] at h
    | ok r1 =>
      obtain ⟨a, st1⟩ := r1
      simp only [h1] at h
      cases h2 : posOfVals vs st1 with
      | error e => simp [h2] at h
      | ok r2 =>
        obtain ⟨as', st2⟩ := r2
        simp only [h2, Except.ok.injEq, Prod.mk.injEq] at h
        obtain ⟨rfl, rfl⟩ := h
        obtain ⟨e2, p2, w2, n2, more2, d2⟩ := ih st1 as' (fun x hx => hv x (List.mem_cons_of_mem _ hx)) h2
        obtain ⟨e1, p1, w1, n1, more1, d1⟩ := eval_argOfVal T st st1 v a (hv v (by simp)) h1
          (fun d hd => hT d (by rw [d2]; exact List.mem_append_left _ hd)) hp
        refine ⟨?_, ?_, ?_, by omega, more1 ++ more2, by rw [d2, d1, List.append_assoc]⟩
        · simp only [List.mapM_cons, e1, e2, List.map_cons, bind, Except.bind]; rfl
        · simp only [List.flatMap_cons, p1, p2]
        · intro x hx
          rcases List.mem_cons.mp hx with rfl | hx
          · exact w1
          · exact w2 x hx

def KwVal.WF' : KwVal → Bool
  | .one v => v.WF
  | .list vs => vs.all ArgVal.WF

theorem eval_kwOfVal [LawfulFmt K] (T : Tables K) (st st' : UnState K) (v : Val K) (a : KwVal)
    (hv : v.kwOK) (h : kwOfVal st v = .ok (a, st')) (hT : ∀ d ∈ st'.decls, Holds T d) (hp : NoPname T) :
    evalKwVal T a = .ok (some (unwrapRRT v)) ∧ a.pars = v.pars ∧ a.WF = true ∧
      st'.next ≥ st.next ∧ ∃ more, st'.decls = st.decls ++ more := by
  cases v with
  | list vs =>
    simp only [kwOfVal, Except.ok.injEq, Prod.mk.injEq] at h
    obtain ⟨rfl, rfl⟩ := h
    obtain ⟨hne, hall⟩ := hv
    refine ⟨?_, ?_, ?_, Nat.le_refl _, [], by simp⟩
    · cases vs with
      | nil => exact absurd rfl hne
      | cons x xs =>
        have : ((x :: xs).map argOfAtom).mapM (fun v => do valToAtom (← evalArgVal T v)) = .ok (x :: xs) := by
          have := mapM_map_ok (fun v => do valToAtom (← evalArgVal T v)) (argOfAtom (K := K)) id (x :: xs)
            (fun y hy => by simp only [eval_plainAtom T y (hall y hy), bind, Except.bind, valToAtom]; rfl)
          simpa using this
        simp only [List.map_cons] at this
        simp only [List.map_cons, evalKwVal]
        rw [this]
        rfl
    · simp only [KwVal.pars, Val.pars, List.flatMap_map]
      simp only [List.flatMap_eq_nil_iff]
      intro x hx
      exact plainAtom_pars x (hall x hx)
    · simp only [KwVal.WF, List.all_map, List.all_eq_true, Function.comp]
      intro x _
      exact argOfAtom_WF x
  | atom atm =>
    simp only [kwOfVal, bind, Except.bind] at h
    cases h1 : argOfVal st (.atom atm) with
    | error e => simp [h1] at h
    | ok r1 =>
      obtain ⟨a1, st1⟩ := r1
      simp only [h1, Except.ok.injEq, Prod.mk.injEq] at h
      obtain ⟨rfl, rfl⟩ := h
      obtain ⟨e1, p1, w1, n1, d1⟩ := eval_argOfVal T st st1 _ a1 (by simpa [Val.kwOK] using hv) h1 hT hp
      exact ⟨by simp only [evalKwVal, e1]; rfl, by simpa [KwVal.pars] using p1, by simpa [KwVal.WF] using w1, n1, d1⟩
  | rrt e =>
    simp only [kwOfVal, bind, Except.bind] at h
    cases h1 : argOfVal st (.rrt e) with
    | error e => simp [h1] at h
    | ok r1 =>
      obtain ⟨a1, st1⟩ := r1
      simp only [h1, Except.ok.injEq, Prod.mk.injEq] at h
      obtain ⟨rfl, rfl⟩ := h
      obtain ⟨e1, p1, w1, n1, d1⟩ := eval_argOfVal T st st1 _ a1 (by simpa [Val.kwOK] using hv) h1 hT hp
      exact ⟨by simp only [evalKwVal, e1]; rfl, by simpa [KwVal.pars] using p1, by simpa [KwVal.WF] using w1, n1, d1⟩
  | arr dt r c flat =>
    simp only [kwOfVal, bind, Except.bind] at h
    cases h1 : argOfVal st (.arr dt r c flat) with
    | error e => simp [h1] at h
    | ok r1 =>
      obtain ⟨a1, st1⟩ := r1
      simp only [h1, Except.ok.injEq, Prod.mk.injEq] at h
      obtain ⟨rfl, rfl⟩ := h
      obtain ⟨e1, p1, w1, n1, d1⟩ := eval_argOfVal T st st1 _ a1 (by simpa [Val.kwOK] using hv) h1 hT hp
      exact ⟨by simp only [evalKwVal, e1]; rfl, by simpa [KwVal.pars] using p1, by simpa [KwVal.WF] using w1, n1, d1⟩


theorem eval_kwOfVals [LawfulFmt K] (T : Tables K) (kw : List (String × Val K)) (st st' : UnState K)
    (ks : List (String × KwVal)) (acc : List (String × Val K))
    (hv : ∀ kv ∈ kw, kv.2.kwOK) (h : kwOfVals kw st = .ok (ks, st')) (hT : ∀ d ∈ st'.decls, Holds T d) (hp : NoPname T) :
    evalKwargs T ks acc = .ok (kw.foldl (fun d kv => dictSet d kv.1 (unwrapRRT kv.2)) acc) ∧
      ks.flatMap (fun kv => kv.2.pars) = kw.flatMap (fun kv => kv.2.pars) ∧
      (∀ kv ∈ ks, kv.2.WF = true) ∧ ks.map (·.1) = kw.map (·.1) ∧
      st'.next ≥ st.next ∧ ∃ more, st'.decls = st.decls ++ more := by
  induction kw generalizing st ks acc with
  | nil =>
    simp only [kwOfVals, Except.ok.injEq, Prod.mk.injEq] at h
    obtain ⟨rfl, rfl⟩ := h
    exact ⟨rfl, rfl, by simp, rfl, Nat.le_refl _, [], by simp⟩
  | cons kv kw ih =>
    obtain ⟨k, v⟩ := kv
    simp only [kwOfVals, bind, Except.bind] at h
    cases h1 : kwOfVal st v with
    | error e => simp [h1] at h
    | ok r1 =>
      obtain ⟨a, st1⟩ := r1
      simp only [h1] at h
      cases h2 : kwOfVals kw st1 with
      | error e => simp [h2] at h
      | ok r2 =>
        obtain ⟨ks', st2⟩ := r2
        simp only [h2, Except.ok.injEq, Prod.mk.injEq] at h
        obtain ⟨rfl, rfl⟩ := h
        obtain ⟨e2, p2, w2, k2, n2, more2, d2⟩ := ih st1 ks' (dictSet acc k (unwrapRRT v))
          (fun x hx => hv x (List.mem_cons_of_mem _ hx)) h2
        obtain ⟨e1, p1, w1, n1, more1, d1⟩ := eval_kwOfVal T st st1 v a (hv (k, v) (by simp)) h1
          (fun d hd => hT d (by rw [d2]; exact List.mem_append_left _ hd)) hp
        refine ⟨?_, ?_, ?_, ?_, by omega, more1 ++ more2, by rw [d2, d1, List.append_assoc]⟩
        · simp only [evalKwargs, e1, bind, Except.bind, List.foldl_cons, e2]
        · simp only [List.flatMap_cons, p1, p2]
        · intro x hx
          rcases List.mem_cons.mp hx with rfl | hx
          · exact w1
          · exact w2 x hx
        · simp only [List.map_cons, k2]

omit [Scalar K] [Fmt K] in
theorem dictSet_fresh {α : Type} (d : List (String × α)) (k : String) (v : α) (h : k ∉ d.map (·.1)) :
    dictSet d k v = d ++ [(k, v)] := by
  induction d with
  | nil => rfl
  | cons x t ih =>
    obtain ⟨k', v'⟩ := x
    simp only [List.map_cons, List.mem_cons, not_or] at h
    simp only [dictSet, List.cons_append]
    rw [if_neg (fun hh => h.1 hh.symm), ih h.2]

omit [Scalar K] [Fmt K] in
theorem foldl_dictSet_nodup {α β : Type} (f : β → α) (l : List (String × β)) (acc : List (String × α))
    (hnd : (l.map (·.1)).Nodup) (hdis : ∀ k ∈ l.map (·.1), k ∉ acc.map (·.1)) :
    l.foldl (fun d kv => dictSet d kv.1 (f kv.2)) acc = acc ++ l.map (fun kv => (kv.1, f kv.2)) := by
  induction l generalizing acc with
  | nil => simp
  | cons x t ih =>
    simp only [List.map_cons, List.nodup_cons] at hnd
    simp only [List.foldl_cons, List.map_cons]
    rw [dictSet_fresh acc x.1 (f x.2) (hdis x.1 (by simp))]
    rw [ih _ hnd.2]
    · simp
    · intro k hk
      simp only [List.map_append, List.map_cons, List.map_nil, List.mem_append, List.mem_singleton, not_or]
      refine ⟨hdis k (by simp [hk]), ?_⟩
      intro hkx
      subst hkx
      exact hnd.1 hk

theorem eval_modesOf (T : Tables K) (ms : List Int) :
    (modesOf ms).2.1.mapM (evalMode T) = .ok ms ∧ (∀ e ∈ (modesOf ms).2.1, e.WF = true) := by
  have hone : ∀ m : Int, evalMode T (exprOfInt m) = .ok m := by
    intro m; simp only [evalMode, eval_exprOfInt, bind, Except.bind]
  have hall : (ms.map exprOfInt).mapM (evalMode T) = .ok ms := by
    have := mapM_map_ok (evalMode T) exprOfInt id ms (fun m _ => hone m)
    simpa using this
  unfold modesOf
  split
  · rename_i m
    exact ⟨by simpa using hall, by simp [exprOfInt_WF]⟩
  · exact ⟨hall, by simp [exprOfInt_WF]⟩


/-! ### statements -/

structure Op.OK (op : Op K) : Prop where
  pos : ∀ pk, op.args = some pk → ∀ v ∈ pk.1, v.argOK
  kw : ∀ pk, op.args = some pk → ∀ kv ∈ pk.2, kv.2.kwOK
  keys : ∀ pk, op.args = some pk → (pk.2.map (·.1)).Nodup

/-- parameters an operation mentions, in the order the serialiser writes them -/
def Op.pars (op : Op K) : List String :=
  match op.args with
  | none => []
  | some (pos, kw) => pos.flatMap Val.pars ++ kw.flatMap (fun kv => kv.2.pars)

omit [Fmt K] in
theorem wrapRRT_unwrap (params : List PEntry) (v : Val K) (hv : v.kwOK)
    (hpars : ∀ p ∈ v.pars, params.contains (.sym p) = true) : wrapRRT params (unwrapRRT v) = v := by
  cases v with
  | atom a =>
    cases a with
    | sym e =>
      simp only [Val.kwOK, Val.argOK] at hv
      simp only [unwrapRRT, wrapRRT, hv.2, List.isEmpty_nil, Bool.true_and]
      rw [if_pos]
      simp only [List.all_eq_true]
      intro p hp
      exact hpars p (by simpa [Val.pars] using hp)
    | _ => rfl
  | rrt e =>
    simp only [Val.kwOK, Val.argOK] at hv
    simp only [unwrapRRT, wrapRRT]
    rw [if_neg]
    simp only [Bool.and_eq_true, not_and, List.isEmpty_iff]
    intro h
    exact absurd h hv.2
  | arr dt r c flat => rfl
  | list vs => rfl

theorem stmtEffect_stmtOfOp [LawfulFmt K] (o : SetOrder Int) (T : Tables K) (st st' : UnState K) (op : Op K) (s : Stmt)
    (hop : op.OK) (h : stmtOfOp st op = .ok (s, st')) (hT : ∀ d ∈ st'.decls, Holds T d) (hp : NoPname T) :
    stmtEffect o ([] : Includes K) T s = .ok (op.modes, [op]) ∧ stmtPars s = op.pars.map .sym ∧
      st'.next ≥ st.next ∧ ∃ more, st'.decls = st.decls ++ more := by
  obtain ⟨name, args, modes⟩ := op
  obtain ⟨hm, _⟩ := eval_modesOf T modes
  cases args with
  | none =>
    simp only [stmtOfOp, Except.ok.injEq, Prod.mk.injEq] at h
    obtain ⟨rfl, rfl⟩ := h
    refine ⟨?_, by simp [stmtPars, Op.pars], Nat.le_refl _, [], by simp⟩
    simp only [stmtEffect, hm, bind, Except.bind, pure, Except.pure, dictGet]
  | some pk =>
    obtain ⟨pos, kw⟩ := pk
    simp only [stmtOfOp, bind, Except.bind] at h
    cases h1 : posOfVals pos st with
    | error e => simp [h1] at h
    | ok r1 =>
      obtain ⟨as, st1⟩ := r1
      simp only [h1] at h
      cases h2 : kwOfVals kw st1 with
      | error e => simp [h2] at h
      | ok r2 =>
        obtain ⟨ks, st2⟩ := r2
        simp only [h2, Except.ok.injEq, Prod.mk.injEq] at h
        obtain ⟨rfl, rfl⟩ := h
        obtain ⟨e2, p2, w2, k2, n2, more2, d2⟩ := eval_kwOfVals T kw st1 st2 ks [] (hop.kw _ rfl) h2 hT hp
        obtain ⟨e1, p1, w1, n1, more1, d1⟩ := eval_posOfVals T pos st st1 as (hop.pos _ rfl) h1
          (fun d hd => hT d (by rw [d2]; exact List.mem_append_left _ hd)) hp
        have hpars : stmtPars (⟨name, isMeasureName name, some ⟨as, ks⟩, (modesOf modes).1, (modesOf modes).2.1,
            (modesOf modes).2.2⟩ : Stmt) = (Op.pars (⟨name, some (pos, kw), modes⟩ : Op K)).map .sym := by
          simp only [stmtPars, Args.pars, p1, p2, Op.pars]
        refine ⟨?_, hpars, by omega, more1 ++ more2, by rw [d2, d1, List.append_assoc]⟩
        have hfold := foldl_dictSet_nodup (unwrapRRT (K := K)) kw [] (hop.keys _ rfl) (by simp)
        simp only [List.nil_append] at hfold
        rw [hfold] at e2
        have hA : ∀ P : List PEntry, (∀ p ∈ Op.pars (⟨name, some (pos, kw), modes⟩ : Op K), P.contains (.sym p) = true) →
            (pos.map unwrapRRT).map (wrapRRT P) = pos := by
          intro P hP
          rw [List.map_map]
          conv => rhs; rw [← List.map_id pos]
          apply List.map_congr_left
          intro v hv
          simp only [Function.comp, id]
          apply wrapRRT_unwrap _ v
          · have := hop.pos _ rfl v hv
            cases v <;> simp_all [Val.kwOK, Val.argOK]
          · intro p hpv
            exact hP p (by simp only [Op.pars]; exact List.mem_append_left _ (List.mem_flatMap.mpr ⟨v, hv, hpv⟩))
        have hB : ∀ P : List PEntry, (∀ p ∈ Op.pars (⟨name, some (pos, kw), modes⟩ : Op K), P.contains (.sym p) = true) →
            ((kw.map fun kv => (kv.1, unwrapRRT kv.2)).map fun kv => (kv.1, wrapRRT P kv.2)) = kw := by
          intro P hP
          rw [List.map_map]
          conv => rhs; rw [← List.map_id kw]
          apply List.map_congr_left
          intro kv hkv
          simp only [Function.comp, id]
          rw [wrapRRT_unwrap _ kv.2 (hop.kw _ rfl kv hkv)]
          intro p hpv
          exact hP p (by simp only [Op.pars]; exact List.mem_append_right _ (List.mem_flatMap.mpr ⟨kv, hkv, hpv⟩))
        have hmem : ∀ p ∈ Op.pars (⟨name, some (pos, kw), modes⟩ : Op K),
            (T.params ++ (Op.pars (⟨name, some (pos, kw), modes⟩ : Op K)).map PEntry.sym).contains (.sym p) = true := by
          intro p hp'
          simp only [List.contains_iff_mem, List.mem_append, List.mem_map]
          exact Or.inr ⟨p, hp', rfl⟩
        simp only [stmtEffect, hm, bind, Except.bind, pure, Except.pure, dictGet, evalArgs, e1, e2, hpars]
        rw [hA _ hmem, hB _ hmem]


/-! ### the hoisting state -/

omit [Scalar K] [Fmt K] in
theorem arrName_inj (a b : Nat) (h : arrName a = arrName b) : a = b := by
  unfold arrName at h
  have h2 : (toString a).toList = (toString b).toList := by
    have := congrArg String.toList h
    simpa [String.toList_append] using this
  have h3 : toString a = toString b := String.toList_inj.mp h2
  have := congrArg digitsToNat h3
  rwa [digitsToNat_toString, digitsToNat_toString] at this

/-- every hoisted declaration so far is a well-formed numeric array with its own name `A<k>`,
`k` below the next free number -/
structure Good (st : UnState K) : Prop where
  nodup : (st.decls.map (·.name)).Nodup
  named : ∀ d ∈ st.decls, ∃ k, k < st.next ∧ d.name = arrName k
  ok : ∀ d ∈ st.decls, d.OK

omit [Scalar K] in
theorem good_argOfVal (st st' : UnState K) (v : Val K) (a : ArgVal) (hv : v.argOK) (hg : Good st)
    (h : argOfVal st v = .ok (a, st')) : Good st' := by
  cases v with
  | atom atm => simp only [argOfVal, Except.ok.injEq, Prod.mk.injEq] at h; obtain ⟨_, rfl⟩ := h; exact hg
  | rrt e => simp only [argOfVal, Except.ok.injEq, Prod.mk.injEq] at h; obtain ⟨_, rfl⟩ := h; exact hg
  | list vs => simp [Val.argOK] at hv
  | arr dt r c flat =>
    simp only [argOfVal, Except.ok.injEq, Prod.mk.injEq] at h
    obtain ⟨_, rfl⟩ := h
    refine ⟨?_, ?_, ?_⟩
    · simp only [List.map_append, List.map_cons, List.map_nil]
      apply List.nodup_append.mpr
      refine ⟨hg.nodup, by simp, ?_⟩
      intro x hx y hy hxy
      simp only [List.mem_singleton] at hy
      subst hy
      obtain ⟨d, hd, rfl⟩ := List.mem_map.mp hx
      obtain ⟨k, hk, hn⟩ := hg.named d hd
      rw [hn] at hxy
      have := arrName_inj _ _ hxy
      omega
    · intro d hd
      simp only [List.mem_append, List.mem_singleton] at hd
      rcases hd with hd | rfl
      · obtain ⟨k, hk, hn⟩ := hg.named d hd
        exact ⟨k, by simp only; omega, hn⟩
      · exact ⟨st.next, by simp, rfl⟩
    · intro d hd
      simp only [List.mem_append, List.mem_singleton] at hd
      rcases hd with hd | rfl
      · exact hg.ok d hd
      · simp only [Val.argOK] at hv
        exact ⟨hv.r_pos, hv.c_pos, hv.len, hv.kind⟩

omit [Scalar K] in
theorem good_posOfVals (vs : List (Val K)) (st st' : UnState K) (as : List ArgVal) (hv : ∀ v ∈ vs, v.argOK)
    (hg : Good st) (h : posOfVals vs st = .ok (as, st')) : Good st' := by
  induction vs generalizing st as with
  | nil => simp only [posOfVals, Except.ok.injEq, Prod.mk.injEq] at h; obtain ⟨_, rfl⟩ := h; exact hg
  | cons v vs ih =>
    simp only [posOfVals, bind, Except.bind] at h
    cases h1 : argOfVal st v with
    | error e => simp [h1] at h
    | ok r1 =>
      obtain ⟨a, st1⟩ := r1
      simp only [h1] at h
      cases h2 : posOfVals vs st1 with
      | error e => simp [h2] at h
      | ok r2 =>
        obtain ⟨as', st2⟩ := r2
        simp only [h2, Except.ok.injEq, Prod.mk.injEq] at h
        obtain ⟨_, rfl⟩ := h
        exact ih st1 as' (fun x hx => hv x (List.mem_cons_of_mem _ hx))
          (good_argOfVal st st1 v a (hv v (by simp)) hg h1) h2

omit [Scalar K] in
theorem good_kwOfVal (st st' : UnState K) (v : Val K) (a : KwVal) (hv : v.kwOK) (hg : Good st)
    (h : kwOfVal st v = .ok (a, st')) : Good st' := by
  cases v with
  | list vs => simp only [kwOfVal, Except.ok.injEq, Prod.mk.injEq] at h; obtain ⟨_, rfl⟩ := h; exact hg
  | atom atm =>
    simp only [kwOfVal, argOfVal, bind, Except.bind, Except.ok.injEq, Prod.mk.injEq] at h
    obtain ⟨_, rfl⟩ := h; exact hg
  | rrt e =>
    simp only [kwOfVal, argOfVal, bind, Except.bind, Except.ok.injEq, Prod.mk.injEq] at h
    obtain ⟨_, rfl⟩ := h; exact hg
  | arr dt r c flat =>
    simp only [kwOfVal, bind, Except.bind] at h
    cases h1 : argOfVal st (.arr dt r c flat) with
    | error e => simp [h1] at h
    | ok r1 =>
      obtain ⟨a1, st1⟩ := r1
      simp only [h1, Except.ok.injEq, Prod.mk.injEq] at h
      obtain ⟨_, rfl⟩ := h
      exact good_argOfVal st st1 _ a1 (by simpa [Val.kwOK] using hv) hg h1

omit [Scalar K] in
theorem good_kwOfVals (kw : List (String × Val K)) (st st' : UnState K) (ks : List (String × KwVal))
    (hv : ∀ kv ∈ kw, kv.2.kwOK) (hg : Good st) (h : kwOfVals kw st = .ok (ks, st')) : Good st' := by
  induction kw generalizing st ks with
  | nil => simp only [kwOfVals, Except.ok.injEq, Prod.mk.injEq] at h; obtain ⟨_, rfl⟩ := h; exact hg
  | cons kv kw ih =>
    obtain ⟨k, v⟩ := kv
    simp only [kwOfVals, bind, Except.bind] at h
    cases h1 : kwOfVal st v with
    | error e => simp [h1] at h
    | ok r1 =>
      obtain ⟨a, st1⟩ := r1
      simp only [h1] at h
      cases h2 : kwOfVals kw st1 with
      | error e => simp [h2] at h
      | ok r2 =>
        obtain ⟨ks', st2⟩ := r2
        simp only [h2, Except.ok.injEq, Prod.mk.injEq] at h
        obtain ⟨_, rfl⟩ := h
        exact ih st1 ks' (fun x hx => hv x (List.mem_cons_of_mem _ hx))
          (good_kwOfVal st st1 v a (hv (k, v) (by simp)) hg h1) h2

omit [Scalar K] in
theorem good_stmtOfOp (st st' : UnState K) (op : Op K) (s : Stmt) (hop : op.OK) (hg : Good st)
    (h : stmtOfOp st op = .ok (s, st')) : Good st' := by
  obtain ⟨name, args, modes⟩ := op
  cases args with
  | none => simp only [stmtOfOp, Except.ok.injEq, Prod.mk.injEq] at h; obtain ⟨_, rfl⟩ := h; exact hg
  | some pk =>
    obtain ⟨pos, kw⟩ := pk
    simp only [stmtOfOp, bind, Except.bind] at h
    cases h1 : posOfVals pos st with
    | error e => simp [h1] at h
    | ok r1 =>
      obtain ⟨as, st1⟩ := r1
      simp only [h1] at h
      cases h2 : kwOfVals kw st1 with
      | error e => simp [h2] at h
      | ok r2 =>
        obtain ⟨ks, st2⟩ := r2
        simp only [h2, Except.ok.injEq, Prod.mk.injEq] at h
        obtain ⟨_, rfl⟩ := h
        exact good_kwOfVals kw st1 st2 ks (hop.kw _ rfl) (good_posOfVals pos st st1 as (hop.pos _ rfl) hg h1) h2


/-! ### whole programs -/

theorem exec_stmts [LawfulFmt K] (o : SetOrder Int) (ops : List (Op K)) (st st' : UnState K) (ss : List Stmt)
    (hops : ∀ op ∈ ops, op.OK) (h : stmtsOfOps ops st = .ok (ss, st')) (ls : LState K)
    (hT : ∀ d ∈ st'.decls, Holds ls.tables d) (hp : NoPname ls.tables) :
    (ss.map Item.stmt).foldlM (execItem o false ([] : Includes K)) ls =
      .ok ⟨{ ls.tables with params := ls.tables.params ++ (ops.flatMap Op.pars).map .sym },
           ls.ops ++ ops, ls.modes ++ ops.flatMap (·.modes)⟩ ∧
    ∃ more, st'.decls = st.decls ++ more := by
  induction ops generalizing st ss ls with
  | nil =>
    simp only [stmtsOfOps, Except.ok.injEq, Prod.mk.injEq] at h
    obtain ⟨rfl, rfl⟩ := h
    exact ⟨by simp [pure, Except.pure], [], by simp⟩
  | cons op ops ih =>
    simp only [stmtsOfOps, bind, Except.bind] at h
    cases h1 : stmtOfOp st op with
    | error e => simp [h1] at h
    | ok r1 =>
      obtain ⟨s, st1⟩ := r1
      simp only [h1] at h
      cases h2 : stmtsOfOps ops st1 with
      | error e => simp [h2] at h
      | ok r2 =>
        obtain ⟨ss', st2⟩ := r2
        simp only [h2, Except.ok.injEq, Prod.mk.injEq] at h
        obtain ⟨rfl, rfl⟩ := h
        -- the tables after this statement: same variables, parameters appended
        have hT1 : ∀ d ∈ st2.decls, Holds (K := K) { ls.tables with params := ls.tables.params ++ op.pars.map .sym } d :=
          fun d hd => hT d hd
        have hp1 : NoPname (K := K) { ls.tables with params := ls.tables.params ++ op.pars.map .sym } := by
          intro x
          have := hp x
          simp only [List.contains_iff_mem, Bool.eq_false_iff, ne_eq, List.mem_append, List.mem_map] at this ⊢
          rintro (hx | ⟨p, _, hx⟩)
          · exact this (by simpa using hx)
          · cases hx
        obtain ⟨e2, more2, d2⟩ := ih st1 ss' (fun x hx => hops x (List.mem_cons_of_mem _ hx)) h2
          ⟨{ ls.tables with params := ls.tables.params ++ op.pars.map .sym }, ls.ops ++ [op], ls.modes ++ op.modes⟩ hT1 hp1
        obtain ⟨e1, p1, _, more1, d1⟩ := stmtEffect_stmtOfOp o ls.tables st st1 op s (hops op (by simp)) h1
          (fun d hd => hT d (by rw [d2]; exact List.mem_append_left _ hd)) hp
        refine ⟨?_, more1 ++ more2, by rw [d2, d1, List.append_assoc]⟩
        simp only [List.map_cons, List.foldlM_cons, execItem, execStmt, e1, p1, bind, Except.bind]
        rw [e2]
        simp [List.append_assoc]

omit [Scalar K] [Fmt K] in
theorem dictGet_foldl_other (ds : List (ArrDecl K)) (vs : List (String × Val K)) (k : String)
    (hk : k ∉ ds.map (·.name)) :
    dictGet (ds.foldl (fun vs d => dictSet vs d.name (.arr d.dt d.r d.c d.flat)) vs) k = dictGet vs k := by
  induction ds generalizing vs with
  | nil => rfl
  | cons d t ih =>
    simp only [List.map_cons, List.mem_cons, not_or] at hk
    simp only [List.foldl_cons]
    rw [ih _ hk.2, dictGet_dictSet_ne _ _ _ _ hk.1]

omit [Scalar K] [Fmt K] in
theorem dictGet_foldl_mem (ds : List (ArrDecl K)) (vs : List (String × Val K)) (hnd : (ds.map (·.name)).Nodup)
    (d : ArrDecl K) (hd : d ∈ ds) :
    dictGet (ds.foldl (fun vs d => dictSet vs d.name (.arr d.dt d.r d.c d.flat)) vs) d.name =
      some (.arr d.dt d.r d.c d.flat) := by
  induction ds generalizing vs with
  | nil => cases hd
  | cons x t ih =>
    simp only [List.map_cons, List.nodup_cons] at hnd
    simp only [List.foldl_cons]
    rcases List.mem_cons.mp hd with rfl | hd'
    · rw [dictGet_foldl_other t _ _ hnd.1, dictGet_dictSet_same]
    · exact ih _ hnd.2 hd'

theorem exec_decls [LawfulFmt K] (o : SetOrder Int) (ds : List (ArrDecl K)) (hok : ∀ d ∈ ds, d.OK) (ls : LState K) :
    (ds.map ArrDecl.item).foldlM (execItem o false ([] : Includes K)) ls =
      .ok ⟨{ ls.tables with vars := ds.foldl (fun vs d => dictSet vs d.name (.arr d.dt d.r d.c d.flat)) ls.tables.vars },
           ls.ops, ls.modes⟩ := by
  induction ds generalizing ls with
  | nil => simp [pure, Except.pure]
  | cons d t ih =>
    simp only [List.map_cons, List.foldlM_cons, List.foldl_cons, bind, Except.bind]
    have := arrEffect_decl o ls.tables d (hok d (by simp)) ls.ops ls.modes
    rw [this]
    simp only
    rw [ih (fun x hx => hok x (List.mem_cons_of_mem _ hx))]


/-- option values of a target / type line the theorem covers -/
def Atom.isCplx : Atom K → Bool
  | .num (.cplx _ _) => true
  | _ => false

def optOK : Val K → Prop
  | .list vs => vs ≠ [] ∧ ∀ a ∈ vs, a.plainOK = true
  | .atom a => a.plainOK = true ∧ a.isCplx = false
  | _ => False

structure MetaOK (m : Option String × List (String × Val K)) : Prop where
  none_empty : m.1 = none → m.2 = []
  vals : ∀ kv ∈ m.2, optOK kv.2
  keys : (m.2.map (·.1)).Nodup

/-- `optOfVal` on the values it accepts -/
def kwOfOpt : Val K → KwVal
  | .list vs => .list (vs.map argOfAtom)
  | .atom a => .one (argOfAtom a)
  | _ => .list []

omit [Scalar K] in
theorem optOfVal_ok (v : Val K) (h : optOK v) : optOfVal v = .ok (kwOfOpt v) := by
  cases v with
  | atom a =>
    obtain ⟨_, hc⟩ := h
    cases a with
    | num n => cases n <;> simp_all [optOfVal, kwOfOpt, Atom.isCplx]
    | _ => simp [optOfVal, kwOfOpt]
  | list vs => simp [optOfVal, kwOfOpt]
  | rrt e => simp [optOK] at h
  | arr dt r c flat => simp [optOK] at h

theorem eval_kwOfOpt [LawfulFmt K] (T : Tables K) (hp : NoPname T) (v : Val K) (h : optOK v) :
    evalKwVal T (kwOfOpt v) = .ok (some v) ∧ (kwOfOpt v).pars = [] ∧ (kwOfOpt v).WF = true := by
  cases v with
  | list vs =>
    obtain ⟨hne, hall⟩ := h
    have := eval_kwOfVal T (⟨0, []⟩ : UnState K) ⟨0, []⟩ (.list vs) (.list (vs.map argOfAtom)) ⟨hne, hall⟩ rfl
      (by simp) hp
    exact ⟨by simpa [kwOfOpt, unwrapRRT] using this.1, by simpa [kwOfOpt, Val.pars] using this.2.1,
           by simpa [kwOfOpt] using this.2.2.1⟩
  | atom a =>
    simp only [optOK] at h
    obtain ⟨h, _⟩ := h
    refine ⟨?_, ?_, ?_⟩
    · simp only [kwOfOpt, evalKwVal, eval_plainAtom T a h]; rfl
    · simpa [kwOfOpt, KwVal.pars] using plainAtom_pars a h
    · simpa [kwOfOpt, KwVal.WF] using argOfAtom_WF a
  | rrt e => simp [optOK] at h
  | arr dt r c flat => simp [optOK] at h

theorem evalKwargs_opts [LawfulFmt K] (T : Tables K) (hp : NoPname T) (l : List (String × Val K)) (acc : List (String × Val K))
    (h : ∀ kv ∈ l, optOK kv.2) :
    evalKwargs T (l.map fun kv => (kv.1, kwOfOpt kv.2)) acc = .ok (l.foldl (fun d kv => dictSet d kv.1 (id kv.2)) acc) := by
  induction l generalizing acc with
  | nil => rfl
  | cons kv t ih =>
    simp only [List.map_cons, evalKwargs, (eval_kwOfOpt T hp kv.2 (h kv (by simp))).1, bind, Except.bind, List.foldl_cons, id]
    exact ih _ (fun x hx => h x (List.mem_cons_of_mem _ hx))

/-- **Metadata line.** The target / type line written for a device or type with options evaluates
to that name and those options. -/
theorem eval_metaOf [LawfulFmt K] (T : Tables K) (hp : NoPname T) (m : Option String × List (String × Val K)) (hm : MetaOK m)
    (mo : Option (String × Option Args)) (h : metaOf m = .ok mo) :
    evalOptions T mo = .ok m ∧ optPars mo = [] ∧ (∀ n a, mo = some (n, some a) → a.WFp) := by
  obtain ⟨nm, opts⟩ := m
  cases nm with
  | none =>
    simp only [metaOf, Except.ok.injEq] at h
    subst h
    have := hm.none_empty rfl
    simp only at this
    subst this
    exact ⟨rfl, rfl, by intro n a hh; cases hh⟩
  | some name =>
    simp only [metaOf] at h
    by_cases he : opts.isEmpty = true
    · simp only [he, if_true, Except.ok.injEq] at h
      subst h
      have : opts = [] := List.isEmpty_iff.mp he
      subst this
      exact ⟨rfl, rfl, by intro n a hh; cases hh⟩
    · simp only [he, Bool.false_eq_true, if_false] at h
      have hmap : opts.mapM (fun kv => do .ok (kv.1, ← optOfVal kv.2)) =
          (.ok (opts.map fun kv => (kv.1, kwOfOpt kv.2)) : Except Err _) := by
        apply mapM_ok_of_forall
        intro kv hkv
        simp only [optOfVal_ok kv.2 (hm.vals kv hkv), bind, Except.bind]
      rw [hmap] at h
      simp only [bind, Except.bind, Except.ok.injEq] at h
      subst h
      have hfold := foldl_dictSet_nodup (id : Val K → Val K) opts [] hm.keys (by simp)
      refine ⟨?_, ?_, ?_⟩
      · simp only [evalOptions, evalArgs, List.mapM_nil, bind, Except.bind, pure, Except.pure,
          evalKwargs_opts T hp opts [] hm.vals, hfold]
        simp
      · simp only [optPars, Args.pars, List.flatMap_nil, List.nil_append, List.flatMap_map]
        simp only [List.flatMap_eq_nil_iff]
        intro kv hkv
        exact (eval_kwOfOpt T hp kv.2 (hm.vals kv hkv)).2.1
      · intro n a hh
        simp only [Option.some.injEq, Prod.mk.injEq] at hh
        obtain ⟨_, rfl⟩ := hh
        refine ⟨by simp, ?_⟩
        intro kv hkv
        obtain ⟨x, hx, rfl⟩ := List.mem_map.mp hkv
        exact (eval_kwOfOpt T hp x.2 (hm.vals x hx)).2.2


omit [Scalar K] in
theorem good_stmtsOfOps (ops : List (Op K)) (st st' : UnState K) (ss : List Stmt) (hops : ∀ op ∈ ops, op.OK)
    (hg : Good st) (h : stmtsOfOps ops st = .ok (ss, st')) : Good st' := by
  induction ops generalizing st ss with
  | nil => simp only [stmtsOfOps, Except.ok.injEq, Prod.mk.injEq] at h; obtain ⟨_, rfl⟩ := h; exact hg
  | cons op ops ih =>
    simp only [stmtsOfOps, bind, Except.bind] at h
    cases h1 : stmtOfOp st op with
    | error e => simp [h1] at h
    | ok r1 =>
      obtain ⟨s, st1⟩ := r1
      simp only [h1] at h
      cases h2 : stmtsOfOps ops st1 with
      | error e => simp [h2] at h
      | ok r2 =>
        obtain ⟨ss', st2⟩ := r2
        simp only [h2, Except.ok.injEq, Prod.mk.injEq] at h
        obtain ⟨_, rfl⟩ := h
        exact ih st1 ss' (fun x hx => hops x (List.mem_cons_of_mem _ hx))
          (good_stmtOfOp st st1 op s (hops op (by simp)) hg h1) h2

/-- programs the round-trip theorem covers: not tdm, every operation's arguments and every
option of the covered kinds, keyword names distinct -/
structure Program.OK (p : Program K) : Prop where
  ops : ∀ op ∈ p.ops, op.OK
  target : MetaOK p.target
  ptype : MetaOK p.ptype
  not_tdm : p.ptype.1 ≠ some "tdm"

/-- **Program.** Walking the script the serialiser writes for a program rebuilds the program: name,
version, target and type with their options, every operation with its arguments and modes in
order; the parameters are those the operations mention, the modes those they act on. -/
theorem load_scriptOf [LawfulFmt K] (o : SetOrder Int) (fs : FS) (cwd : String) (T0 : Tables K) (p : Program K)
    (sc : Script) (hp : p.OK) (h : scriptOf p = .ok sc) :
    ∃ vars, (loadStep o fs cwd T0 sc).1 =
      .ok ⟨p.name, p.version, p.target, p.ptype, p.ops, vars, p.ops.flatMap Op.pars, p.ops.flatMap (·.modes)⟩ := by
  simp only [scriptOf, bind, Except.bind] at h
  cases ht : metaOf p.target with
  | error e => simp [ht] at h
  | ok tgt =>
    simp only [ht] at h
    cases hy : metaOf p.ptype with
    | error e => simp [hy] at h
    | ok typ =>
      simp only [hy] at h
      cases hs : stmtsOfOps p.ops (⟨0, []⟩ : UnState K) with
      | error e => simp [hs] at h
      | ok r =>
        obtain ⟨stmts, st⟩ := r
        simp only [hs, Except.ok.injEq] at h
        subst h
        have hnp0 : NoPname (Tables.empty : Tables K) := fun _ => rfl
        obtain ⟨et, pt, _⟩ := eval_metaOf (Tables.empty : Tables K) hnp0 p.target hp.target tgt ht
        obtain ⟨ey, py, _⟩ := eval_metaOf (Tables.empty : Tables K) hnp0 p.ptype hp.ptype typ hy
        have hg : Good st := good_stmtsOfOps p.ops _ st stmts hp.ops ⟨by simp, by simp, by simp⟩ hs
        have hd := exec_decls o st.decls hg.ok (⟨Tables.empty, [], []⟩ : LState K)
        obtain ⟨es, _⟩ := exec_stmts o p.ops _ st stmts hp.ops hs
          (⟨{ (Tables.empty : Tables K) with vars := st.decls.foldl (fun vs d => dictSet vs d.name (.arr d.dt d.r d.c d.flat)) [] }, [], []⟩ : LState K)
          (fun d hd' => dictGet_foldl_mem st.decls [] hg.nodup d hd') (fun _ => rfl)
        refine ⟨st.decls.foldl (fun vs d => dictSet vs d.name (.arr d.dt d.r d.c d.flat)) [], ?_⟩
        have htdm : (p.ptype.1 = some "tdm") = False := by simp [hp.not_tdm]
        unfold loadStep
        rw [show (16 : Nat) = 15 + 1 from rfl, runScript]
        simp only [bind, Except.bind, liftE, Tables.empty, pt, py, List.map_nil, List.append_nil,
          List.foldlM_nil, pure, Except.pure, List.foldlM_append] at et ey hd es ⊢
        have htd : decide (p.ptype.fst = some "tdm") = false := by simp [hp.not_tdm]
        simp only [et, ey, htd, hd, es, List.nil_append]
        congr 2
        induction (List.flatMap Op.pars p.ops) with
        | nil => rfl
        | cons x t ih => simp only [List.map_cons, List.filterMap_cons, ih]


/-! ### what is written parses back -/

theorem wf_argOfVal (st st' : UnState K) (v : Val K) (a : ArgVal) (h : argOfVal st v = .ok (a, st')) : a.WF = true := by
  cases v with
  | atom atm => simp only [argOfVal, Except.ok.injEq, Prod.mk.injEq] at h; obtain ⟨rfl, _⟩ := h; exact argOfAtom_WF atm
  | rrt e => simp only [argOfVal, Except.ok.injEq, Prod.mk.injEq] at h; obtain ⟨rfl, _⟩ := h; simp [ArgVal.WF, exprOfS_WF]
  | arr dt r c flat => simp only [argOfVal, Except.ok.injEq, Prod.mk.injEq] at h; obtain ⟨rfl, _⟩ := h; simp [ArgVal.WF, Expr.WF]
  | list vs => simp [argOfVal] at h

theorem wf_posOfVals (vs : List (Val K)) (st st' : UnState K) (as : List ArgVal) (h : posOfVals vs st = .ok (as, st')) :
    ∀ a ∈ as, a.WF = true := by
  induction vs generalizing st as with
  | nil => simp only [posOfVals, Except.ok.injEq, Prod.mk.injEq] at h; obtain ⟨rfl, _⟩ := h; simp
  | cons v vs ih =>
    simp only [posOfVals, bind, Except.bind] at h
    cases h1 : argOfVal st v with
    | error e => simp [h1] at h
    | ok r1 =>
      obtain ⟨a, st1⟩ := r1
      simp only [h1] at h
      cases h2 : posOfVals vs st1 with
      | error e => simp [h2] at h
      | ok r2 =>
        obtain ⟨as', st2⟩ := r2
        simp only [h2, Except.ok.injEq, Prod.mk.injEq] at h
        obtain ⟨rfl, rfl⟩ := h
        intro x hx
        rcases List.mem_cons.mp hx with rfl | hx
        · exact wf_argOfVal st st1 v _ h1
        · exact ih st1 as' h2 x hx

theorem wf_kwOfVal (st st' : UnState K) (v : Val K) (a : KwVal) (h : kwOfVal st v = .ok (a, st')) : a.WF = true := by
  cases v with
  | list vs =>
    simp only [kwOfVal, Except.ok.injEq, Prod.mk.injEq] at h
    obtain ⟨rfl, _⟩ := h
    simp only [KwVal.WF, List.all_map, List.all_eq_true, Function.comp]
    intro x _
    exact argOfAtom_WF x
  | atom atm =>
    simp only [kwOfVal, argOfVal, bind, Except.bind, Except.ok.injEq, Prod.mk.injEq] at h
    obtain ⟨rfl, _⟩ := h
    simpa [KwVal.WF] using argOfAtom_WF atm
  | rrt e =>
    simp only [kwOfVal, argOfVal, bind, Except.bind, Except.ok.injEq, Prod.mk.injEq] at h
    obtain ⟨rfl, _⟩ := h
    simp [KwVal.WF, ArgVal.WF, exprOfS_WF]
  | arr dt r c flat =>
    simp only [kwOfVal, argOfVal, bind, Except.bind, Except.ok.injEq, Prod.mk.injEq] at h
    obtain ⟨rfl, _⟩ := h
    simp [KwVal.WF, ArgVal.WF, Expr.WF]

theorem wf_kwOfVals (kw : List (String × Val K)) (st st' : UnState K) (ks : List (String × KwVal))
    (h : kwOfVals kw st = .ok (ks, st')) : ∀ kv ∈ ks, kv.2.WF = true := by
  induction kw generalizing st ks with
  | nil => simp only [kwOfVals, Except.ok.injEq, Prod.mk.injEq] at h; obtain ⟨rfl, _⟩ := h; simp
  | cons kv kw ih =>
    obtain ⟨k, v⟩ := kv
    simp only [kwOfVals, bind, Except.bind] at h
    cases h1 : kwOfVal st v with
    | error e => simp [h1] at h
    | ok r1 =>
      obtain ⟨a, st1⟩ := r1
      simp only [h1] at h
      cases h2 : kwOfVals kw st1 with
      | error e => simp [h2] at h
      | ok r2 =>
        obtain ⟨ks', st2⟩ := r2
        simp only [h2, Except.ok.injEq, Prod.mk.injEq] at h
        obtain ⟨rfl, rfl⟩ := h
        intro x hx
        rcases List.mem_cons.mp hx with rfl | hx
        · exact wf_kwOfVal st st1 v _ h1
        · exact ih st1 ks' h2 x hx

omit [Scalar K] [Fmt K] in
theorem exprOfInt_head (m : Int) (r : List Tok) : hdKind ((exprOfInt m).toks ++ r) ≠ .LBRAC := by
  unfold exprOfInt
  split <;> simp [Expr.toks, natLit, hdKind_cons, mkTok, NumKind.tok]

theorem wf_stmtOfOp (st st' : UnState K) (op : Op K) (s : Stmt) (hne : op.modes ≠ [])
    (h : stmtOfOp st op = .ok (s, st')) : s.WFp := by
  obtain ⟨name, args, modes⟩ := op
  have hmodes : (modesOf modes).2.1 ≠ [] ∧ (∀ e ∈ (modesOf modes).2.1, e.WF = true) ∧
      ((modesOf modes).1 = none → ∀ r, hdKind (sepToks Expr.toks (modesOf modes).2.1 ++ r) ≠ .LBRAC) := by
    unfold modesOf
    split
    · rename_i m
      refine ⟨by simp, by simp [exprOfInt_WF], fun _ r => ?_⟩
      simpa [sepToks] using exprOfInt_head m r
    · refine ⟨by simpa using hne, by simp [exprOfInt_WF], fun hh => by cases hh⟩
  cases args with
  | none =>
    simp only [stmtOfOp, Except.ok.injEq, Prod.mk.injEq] at h
    obtain ⟨rfl, _⟩ := h
    exact ⟨(by intro a ha; cases ha), hmodes.1, hmodes.2.1, hmodes.2.2⟩
  | some pk =>
    obtain ⟨pos, kw⟩ := pk
    simp only [stmtOfOp, bind, Except.bind] at h
    cases h1 : posOfVals pos st with
    | error e => simp [h1] at h
    | ok r1 =>
      obtain ⟨as, st1⟩ := r1
      simp only [h1] at h
      cases h2 : kwOfVals kw st1 with
      | error e => simp [h2] at h
      | ok r2 =>
        obtain ⟨ks, st2⟩ := r2
        simp only [h2, Except.ok.injEq, Prod.mk.injEq] at h
        obtain ⟨rfl, _⟩ := h
        refine ⟨?_, hmodes.1, hmodes.2.1, hmodes.2.2⟩
        intro a ha
        simp only [Option.some.injEq] at ha
        subst ha
        exact ⟨wf_posOfVals pos st st1 as h1, wf_kwOfVals kw st1 st2 ks h2⟩

theorem wf_stmtsOfOps (ops : List (Op K)) (st st' : UnState K) (ss : List Stmt) (hne : ∀ op ∈ ops, op.modes ≠ [])
    (h : stmtsOfOps ops st = .ok (ss, st')) : ∀ s ∈ ss, s.WFp := by
  induction ops generalizing st ss with
  | nil => simp only [stmtsOfOps, Except.ok.injEq, Prod.mk.injEq] at h; obtain ⟨rfl, _⟩ := h; simp
  | cons op ops ih =>
    simp only [stmtsOfOps, bind, Except.bind] at h
    cases h1 : stmtOfOp st op with
    | error e => simp [h1] at h
    | ok r1 =>
      obtain ⟨s, st1⟩ := r1
      simp only [h1] at h
      cases h2 : stmtsOfOps ops st1 with
      | error e => simp [h2] at h
      | ok r2 =>
        obtain ⟨ss', st2⟩ := r2
        simp only [h2, Except.ok.injEq, Prod.mk.injEq] at h
        obtain ⟨rfl, rfl⟩ := h
        intro x hx
        rcases List.mem_cons.mp hx with rfl | hx
        · exact wf_stmtOfOp st st1 op _ (hne op (by simp)) h1
        · exact ih st1 ss' (fun y hy => hne y (List.mem_cons_of_mem _ hy)) h2 x hx

theorem wf_declItem_rows (name : String) (ty : VarType) (shape : Option (List String)) (r c : Nat)
    (flat : List (SExpr K)) (hd : ArrDecl.OK (⟨name, .int, r, c, flat⟩ : ArrDecl K) ∨ True)
    (hlen : flat.length = r * c) (hc : 0 < c) (hshape : ∀ sh, shape = some sh → sh ≠ []) :
    (Item.arr ty ⟨0, 0⟩ (plainName name) shape (.rows ((chunk c r flat).map fun row => row.map exprOfS))).WFp := by
  refine ⟨rfl, hshape, ?_⟩
  intro rs hrs
  simp only [ArrBody.rows.injEq] at hrs
  subst hrs
  intro row hrow
  obtain ⟨nr, hnr, rfl⟩ := List.mem_map.mp hrow
  have hl := chunk_row_len c r flat hlen nr hnr
  refine ⟨?_, ?_⟩
  · intro hnil
    have : nr = [] := by simpa using hnil
    rw [this] at hl
    simp at hl
    omega
  · intro e he
    obtain ⟨x, _, rfl⟩ := List.mem_map.mp he
    exact exprOfS_WF x

theorem wf_declItem (d : ArrDecl K) (hd : d.OK) : d.item.WFp :=
  wf_declItem_rows d.name (declType d.dt d.flat) (some [toString d.r, toString d.c]) d.r d.c d.flat (Or.inr trivial)
    hd.len hd.c_pos (by intro sh hsh; cases hsh; simp)

/-- **Text level.** The token sequence of the script written for a program, under any layout of
line ends, parses back to exactly that script. -/
theorem parse_scriptOf [LawfulFmt K] (p : Program K) (sc : Script) (hp : p.OK) (hne : ∀ op ∈ p.ops, op.modes ≠ [])
    (h : scriptOf p = .ok sc) (ml : MetaLay) (lay : List (Nat × List Nat)) (final : Nat) :
    parseScript (sc.toks ml lay final) = some sc := by
  simp only [scriptOf, bind, Except.bind] at h
  cases ht : metaOf p.target with
  | error e => simp [ht] at h
  | ok tgt =>
    simp only [ht] at h
    cases hy : metaOf p.ptype with
    | error e => simp [hy] at h
    | ok typ =>
      simp only [hy] at h
      cases hs : stmtsOfOps p.ops (⟨0, []⟩ : UnState K) with
      | error e => simp [hs] at h
      | ok r =>
        obtain ⟨stmts, st⟩ := r
        simp only [hs, Except.ok.injEq] at h
        subst h
        have hnp0 : NoPname (Tables.empty : Tables K) := fun _ => rfl
        obtain ⟨_, _, wt⟩ := eval_metaOf (Tables.empty : Tables K) hnp0 p.target hp.target tgt ht
        obtain ⟨_, _, wy⟩ := eval_metaOf (Tables.empty : Tables K) hnp0 p.ptype hp.ptype typ hy
        have hg : Good st := good_stmtsOfOps p.ops _ st stmts hp.ops ⟨by simp, by simp, by simp⟩ hs
        apply parseScript_ok
        · exact ⟨wt, wy⟩
        · intro it hit
          simp only [List.mem_append, List.mem_map] at hit
          rcases hit with ⟨d, hd, rfl⟩ | ⟨s, hs', rfl⟩
          · exact wf_declItem d (hg.ok d hd)
          · exact wf_stmtsOfOps p.ops _ st stmts hne hs s hs'

end Blackbird
