/-
  Lemmas for the tdm round trip (C15, C01): the variable block rebuilds every variable and
  registers the p-arrays; an operation line rebuilds its operation, p-arrays delivered by name.
-/
import Blackbird.UnparseTdm
import Blackbird.Lemmas.UnparseProgram

namespace Blackbird
variable {K : Type} [Scalar K] [Fmt K]

/-- variables of a tdm program the theorem covers: int / float arrays of any shape >= 1x1, numeric,
boolean and quote-free string scalars -/
def TdmVarOK (kv : String × Val K) : Prop :=
  match kv.2 with
  | .arr dt r c flat => (dt = .int ∨ dt = .float) ∧ ArrDecl.OK ⟨kv.1, dt, r, c, flat⟩
  | .atom (.num _) => True
  | .atom (.bool _) => True
  | .atom (.str s) => s.toList.contains '"' = false
  | _ => False

/-- the tables after a variable: stored under its name; a p-named array is registered -/
def afterVar (T : Tables K) (kv : String × Val K) : Tables K :=
  match kv.2 with
  | .arr .. => finishArr true kv.1 T kv.2
  | _ => { T with vars := dictSet T.vars kv.1 kv.2 }

theorem exec_tdmVarItem [LawfulFmt K] (o : SetOrder Int) (T : Tables K) (kv : String × Val K) (it : Item)
    (hok : TdmVarOK kv) (h : tdmVarItem kv = .ok it) (ops : List (Op K)) (modes : List Int) :
    execItem o true ([] : Includes K) ⟨T, ops, modes⟩ it = .ok ⟨afterVar T kv, ops, modes⟩ ∧ it.WFp := by
  obtain ⟨k, v⟩ := kv
  cases v with
  | arr dt r c flat =>
    obtain ⟨hdt, hd⟩ := hok
    have hlen : flat.length = r * c := hd.len
    have hne : flat ≠ [] := by
      intro hnil
      have : 0 < r * c := Nat.mul_pos hd.r_pos hd.c_pos
      rw [hnil] at hlen
      simp only [List.length_nil] at hlen
      omega
    obtain ⟨e0, he0⟩ := List.exists_mem_of_ne_nil _ hne
    have hrows := arrEffect_rows true T k dt (chunk c r flat) r c (chunk_length _ _ _) hd.r_pos
      (chunk_row_len _ _ _ hlen) (numOfKind_dtype _ e0 (hd.kind e0 he0))
      (fun row hrow e he => hd.kind e (chunk_mem _ _ _ row hrow e he)) none (Or.inl rfl)
    rw [chunk_flat _ _ _ hlen] at hrows
    have hit : it = .arr (varTypeOf dt) ⟨0, 0⟩ (plainName k) none
        (.rows ((chunk c r flat).map fun row => row.map exprOfS)) := by
      rcases hdt with rfl | rfl <;> (simp only [tdmVarItem, Except.ok.injEq] at h; exact h.symm)
    subst hit
    refine ⟨by simp only [execItem, execArr, hrows, afterVar], ?_⟩
    exact wf_declItem_rows k (varTypeOf dt) none r c flat (Or.inr trivial) hlen hd.c_pos (by intro sh hsh; cases hsh)
  | atom a =>
    cases a with
    | num n =>
      simp only [tdmVarItem, Except.ok.injEq] at h
      subst h
      refine ⟨?_, rfl, by simp [ArgVal.WF, exprOfNum_WF]⟩
      simp only [execItem, execVar, varEffect, checkName, plainName, evalArgVal, eval_exprOfNum, liftE, bind, Except.bind,
        ArgVal.pars, exprOfNum_pars, List.map_nil, List.append_nil, afterVar]
      cases n <;> simp [castScalar, Num.toReal, Num.toCplx]
    | bool b =>
      simp only [tdmVarItem, Except.ok.injEq] at h
      subst h
      refine ⟨?_, rfl, rfl⟩
      simp [execItem, execVar, varEffect, checkName, plainName, evalArgVal, liftE, bind, Except.bind, ArgVal.pars,
        castScalar, afterVar]
    | str s =>
      simp only [tdmVarItem, Except.ok.injEq] at h
      subst h
      refine ⟨?_, rfl, rfl⟩
      have hs : s.toList.contains '"' = false := hok
      simp [execItem, execVar, varEffect, checkName, plainName, evalArgVal, quotedArg, strLiteral_quote s hs, liftE, bind,
        Except.bind, ArgVal.pars, castScalar, afterVar]
    | sym e => exact absurd hok (by simp [TdmVarOK])
    | pname s => exact absurd hok (by simp [TdmVarOK])
  | list vs => exact absurd hok (by simp [TdmVarOK])
  | rrt e => exact absurd hok (by simp [TdmVarOK])


omit [Scalar K] [Fmt K] in
theorem mapM_cons_ok {α β ε : Type} (f : α → Except ε β) (a : α) (t : List α) (l : List β)
    (h : (a :: t).mapM f = .ok l) : ∃ b l', f a = .ok b ∧ t.mapM f = .ok l' ∧ l = b :: l' := by
  simp only [List.mapM_cons, bind, Except.bind] at h
  cases h1 : f a with
  | error e => simp [h1] at h
  | ok b =>
    simp only [h1] at h
    cases h2 : t.mapM f with
    | error e => simp [h2] at h
    | ok l' =>
      simp only [h2, pure, Except.pure, Except.ok.injEq] at h
      exact ⟨b, l', rfl, rfl, h.symm⟩

theorem exec_tdmVars [LawfulFmt K] (o : SetOrder Int) (vars : List (String × Val K)) (items : List Item)
    (hok : ∀ kv ∈ vars, TdmVarOK kv) (h : vars.mapM tdmVarItem = .ok items) (ls : LState K) :
    items.foldlM (execItem o true ([] : Includes K)) ls = .ok ⟨vars.foldl afterVar ls.tables, ls.ops, ls.modes⟩ ∧
    ∀ it ∈ items, it.WFp := by
  induction vars generalizing items ls with
  | nil =>
    simp only [List.mapM_nil, pure, Except.pure, Except.ok.injEq] at h
    subst h
    exact ⟨rfl, by simp⟩
  | cons kv t ih =>
    obtain ⟨it, its, h1, h2, rfl⟩ := mapM_cons_ok _ _ _ _ h
    obtain ⟨e1, w1⟩ := exec_tdmVarItem o ls.tables kv it (hok kv (by simp)) h1 ls.ops ls.modes
    obtain ⟨e2, w2⟩ := ih its (fun x hx => hok x (List.mem_cons_of_mem _ hx)) h2 ⟨afterVar ls.tables kv, ls.ops, ls.modes⟩
    refine ⟨?_, ?_⟩
    · simp only [List.foldlM_cons, bind, Except.bind, List.foldl_cons]
      rw [e1]
      exact e2
    · intro x hx
      rcases List.mem_cons.mp hx with rfl | hx
      · exact w1
      · exact w2 x hx

omit [Scalar K] [Fmt K] in
theorem afterVar_vars (T : Tables K) (kv : String × Val K) : (afterVar T kv).vars = dictSet T.vars kv.1 kv.2 := by
  obtain ⟨k, v⟩ := kv
  cases v <;> simp [afterVar, finishArr] <;> split <;> rfl

/-- p-array names the variable block registers -/
def pnamesOf (vars : List (String × Val K)) : List PEntry :=
  vars.filterMap fun kv => match kv.2 with
    | .arr .. => if isPType kv.1 then some (.pname kv.1) else none
    | _ => none

omit [Scalar K] [Fmt K] in
theorem afterVar_params (T : Tables K) (kv : String × Val K) :
    (afterVar T kv).params = T.params ++ pnamesOf [kv] := by
  obtain ⟨k, v⟩ := kv
  cases v with
  | arr dt r c flat =>
    simp only [afterVar, finishArr, pnamesOf, List.filterMap_cons, List.filterMap_nil, Bool.true_and]
    by_cases h : isPType k = true <;> simp [h]
  | _ => simp [afterVar, pnamesOf]

omit [Scalar K] [Fmt K] in
theorem foldl_afterVar (vars : List (String × Val K)) (T : Tables K) :
    (vars.foldl afterVar T).vars = vars.foldl (fun d kv => dictSet d kv.1 (id kv.2)) T.vars ∧
    (vars.foldl afterVar T).params = T.params ++ pnamesOf vars := by
  induction vars generalizing T with
  | nil => simp [pnamesOf]
  | cons kv t ih =>
    simp only [List.foldl_cons]
    obtain ⟨h1, h2⟩ := ih (afterVar T kv)
    refine ⟨by rw [h1, afterVar_vars]; rfl, ?_⟩
    rw [h2, afterVar_params, List.append_assoc]
    congr 1
    simp only [pnamesOf, List.filterMap_cons, List.filterMap_nil]
    cases hf : (match kv.2 with
      | Val.arr .. => if isPType kv.1 = true then some (PEntry.pname kv.1) else none
      | _ => none) <;> simp

omit [Scalar K] [Fmt K] in
theorem dictGet_of_mem_nodup {α : Type} (d : List (String × α)) (k : String) (v : α) (hnd : (d.map (·.1)).Nodup)
    (h : (k, v) ∈ d) : dictGet d k = some v := by
  induction d with
  | nil => cases h
  | cons x t ih =>
    obtain ⟨k', v'⟩ := x
    simp only [List.map_cons, List.nodup_cons] at hnd
    rcases List.mem_cons.mp h with heq | hmem
    · cases heq; simp [dictGet]
    · have : k' ≠ k := by
        intro hk
        subst hk
        exact hnd.1 (List.mem_map.mpr ⟨(k', v), hmem, rfl⟩)
      simp only [dictGet, this, if_false]
      exact ih hnd.2 hmem

/-! ### operations of a tdm program -/

/-- arguments the tdm theorem covers: p-arrays of the variable block by name, numbers, booleans,
strings that do not look like a p-array name -/
def TdmArgOK (vars : List (String × Val K)) : Val K → Prop
  | .atom (.pname s) => isPType s = true ∧ ∃ dt r c flat, (s, Val.arr dt r c flat) ∈ vars
  | .atom (.str s) => isPType s = false ∧ s.toList.contains '"' = false
  | .atom (.num _) => True
  | .atom (.bool _) => True
  | _ => False

def TdmKwOK (vars : List (String × Val K)) : Val K → Prop
  | .list vs => vs ≠ [] ∧ ∀ a ∈ vs, a.plainOK = true
  | v => TdmArgOK vars v

/-- the tables the operations are evaluated in: the variables of the block, the p-arrays registered -/
structure TdmTables (vars : List (String × Val K)) (T : Tables K) : Prop where
  vars_eq : T.vars = vars
  nodup : (vars.map (·.1)).Nodup
  registered : ∀ s dt r c flat, (s, Val.arr dt r c flat) ∈ vars → isPType s = true → T.params.contains (.pname s) = true

theorem eval_tdmArg [LawfulFmt K] (vars : List (String × Val K)) (T : Tables K) (hT : TdmTables vars T) (v : Val K)
    (a : ArgVal) (hv : TdmArgOK vars v) (h : tdmArgOfVal v = .ok a) :
    evalArgVal T a = .ok v ∧ a.pars = [] ∧ a.WF = true ∧ wrapRRT (K := K) T.params v = v := by
  cases v with
  | atom atm =>
    cases atm with
    | pname s =>
      obtain ⟨hs, dt, r, c, flat, hmem⟩ := hv
      simp only [tdmArgOfVal, hs, if_true, Except.ok.injEq] at h
      subst h
      have hget : dictGet T.vars s = some (.arr dt r c flat) := by
        rw [hT.vars_eq]; exact dictGet_of_mem_nodup _ _ _ hT.nodup hmem
      refine ⟨?_, rfl, rfl, rfl⟩
      simp only [evalArgVal, evalExpr, hget, hT.registered s dt r c flat hmem hs, if_true]
    | str s =>
      obtain ⟨hs, hq⟩ := hv
      simp only [tdmArgOfVal, hs, Bool.false_eq_true, if_false, Except.ok.injEq] at h
      subst h
      exact ⟨by simp [evalArgVal, quotedArg, strLiteral_quote s hq], rfl, rfl, rfl⟩
    | num n =>
      simp only [tdmArgOfVal, Except.ok.injEq] at h
      subst h
      exact ⟨by simp [evalArgVal, eval_exprOfNum], by simp [ArgVal.pars, exprOfNum_pars], by simp [ArgVal.WF, exprOfNum_WF], rfl⟩
    | bool b =>
      simp only [tdmArgOfVal, Except.ok.injEq] at h
      subst h
      exact ⟨rfl, rfl, rfl, rfl⟩
    | sym e => exact absurd hv (by simp [TdmArgOK])
  | arr dt r c flat => exact absurd hv (by simp [TdmArgOK])
  | list vs => exact absurd hv (by simp [TdmArgOK])
  | rrt e => exact absurd hv (by simp [TdmArgOK])


theorem eval_tdmKw [LawfulFmt K] (vars : List (String × Val K)) (T : Tables K) (hT : TdmTables vars T) (v : Val K)
    (a : KwVal) (hv : TdmKwOK vars v) (h : tdmKwOfVal v = .ok a) :
    evalKwVal T a = .ok (some v) ∧ a.pars = [] ∧ a.WF = true ∧ wrapRRT (K := K) T.params v = v := by
  cases v with
  | list vs =>
    simp only [tdmKwOfVal, Except.ok.injEq] at h
    subst h
    obtain ⟨hne, hall⟩ := hv
    refine ⟨?_, ?_, ?_, rfl⟩
    · cases vs with
      | nil => exact absurd rfl hne
      | cons x xs =>
        have : ((x :: xs).map argOfAtom).mapM (fun v => do valToAtom (← evalArgVal T v)) = .ok (x :: xs) := by
          have := mapM_map_ok (fun v => do valToAtom (← evalArgVal T v)) (argOfAtom (K := K)) id (x :: xs)
            (fun y hy => by simp only [eval_plainAtom T y (hall y hy), bind, Except.bind, valToAtom]; rfl)
          simpa using this
        simp only [List.map_cons] at this
        simp only [List.map_cons, evalKwVal]
        rw [this]
        rfl
    · simp only [KwVal.pars, List.flatMap_map, List.flatMap_eq_nil_iff]
      intro x hx
      exact plainAtom_pars x (hall x hx)
    · simp only [KwVal.WF, List.all_map, List.all_eq_true, Function.comp]
      intro x _
      exact argOfAtom_WF x
  | atom atm =>
    simp only [tdmKwOfVal, bind, Except.bind] at h
    cases h1 : tdmArgOfVal (.atom atm) with
    | error e => simp [h1] at h
    | ok a1 =>
      simp only [h1, Except.ok.injEq] at h
      subst h
      obtain ⟨e1, p1, w1, r1⟩ := eval_tdmArg vars T hT _ a1 hv h1
      exact ⟨by simp only [evalKwVal, e1]; rfl, by simpa [KwVal.pars] using p1, by simpa [KwVal.WF] using w1, r1⟩
  | arr dt r c flat => exact absurd hv (by simp [TdmKwOK, TdmArgOK])
  | rrt e => exact absurd hv (by simp [TdmKwOK, TdmArgOK])


structure TdmOpOK (vars : List (String × Val K)) (op : Op K) : Prop where
  pos : ∀ pk, op.args = some pk → ∀ v ∈ pk.1, TdmArgOK vars v
  kw : ∀ pk, op.args = some pk → ∀ kv ∈ pk.2, TdmKwOK vars kv.2
  keys : ∀ pk, op.args = some pk → (pk.2.map (·.1)).Nodup
  modes_ne : op.modes ≠ []

omit [Scalar K] [Fmt K] in
theorem mapM_ok_inv {α β ε : Type} (f : α → Except ε β) (l : List α) (r : List β) (h : l.mapM f = .ok r) :
    r.length = l.length ∧ ∀ i (hi : i < l.length) (hj : i < r.length), f (l[i]) = .ok (r[i]) := by
  induction l generalizing r with
  | nil =>
    simp only [List.mapM_nil, pure, Except.pure, Except.ok.injEq] at h
    subst h
    exact ⟨rfl, fun i hi => absurd hi (by simp)⟩
  | cons a t ih =>
    obtain ⟨b, l', h1, h2, rfl⟩ := mapM_cons_ok _ _ _ _ h
    obtain ⟨hl, hget⟩ := ih l' h2
    refine ⟨by simp [hl], ?_⟩
    intro i hi hj
    cases i with
    | zero => simpa using h1
    | succ j => simpa using hget j (by simpa using hi) (by simpa using hj)

/-- a list translated element by element evaluates element by element -/
theorem mapM_eval_of_translate {α β γ ε ε' : Type} (tr : α → Except ε β) (ev : β → Except ε' γ) (g : α → γ)
    (l : List α) (r : List β) (h : l.mapM tr = .ok r) (hstep : ∀ a ∈ l, ∀ b, tr a = .ok b → ev b = .ok (g a)) :
    r.mapM ev = .ok (l.map g) := by
  induction l generalizing r with
  | nil =>
    simp only [List.mapM_nil, pure, Except.pure, Except.ok.injEq] at h
    subst h
    rfl
  | cons a t ih =>
    obtain ⟨b, l', h1, h2, rfl⟩ := mapM_cons_ok _ _ _ _ h
    simp only [List.mapM_cons, hstep a (by simp) b h1, ih l' h2 (fun x hx => hstep x (List.mem_cons_of_mem _ hx)),
      bind, Except.bind, List.map_cons]
    rfl


theorem evalKwargs_of_translate [LawfulFmt K] (T : Tables K) (tr : Val K → Except Err KwVal)
    (kw : List (String × Val K)) (ks : List (String × KwVal)) (acc : List (String × Val K))
    (h : kw.mapM (fun kv => do .ok (kv.1, ← tr kv.2)) = .ok ks)
    (hstep : ∀ kv ∈ kw, ∀ b, tr kv.2 = .ok b → evalKwVal T b = .ok (some kv.2)) :
    evalKwargs T ks acc = .ok (kw.foldl (fun d kv => dictSet d kv.1 (id kv.2)) acc) := by
  induction kw generalizing ks acc with
  | nil =>
    simp only [List.mapM_nil, pure, Except.pure, Except.ok.injEq] at h
    subst h
    rfl
  | cons kv t ih =>
    obtain ⟨b, l', h1, h2, rfl⟩ := mapM_cons_ok _ _ _ _ h
    simp only [bind, Except.bind] at h1
    cases hb : tr kv.2 with
    | error e => simp [hb] at h1
    | ok kb =>
      simp only [hb, Except.ok.injEq] at h1
      subst h1
      simp only [evalKwargs, hstep kv (by simp) kb hb, bind, Except.bind, List.foldl_cons, id]
      exact ih l' _ h2 (fun x hx => hstep x (List.mem_cons_of_mem _ hx))

/-- **Operation of a tdm program.** The line written for an operation evaluates, in the tables the
variable block leaves, to that operation: p-arrays by name, other values as they are. -/
theorem stmtEffect_tdm [LawfulFmt K] (o : SetOrder Int) (vars : List (String × Val K)) (T : Tables K)
    (hT : TdmTables vars T) (op : Op K) (s : Stmt) (hop : TdmOpOK vars op) (h : tdmStmtOfOp op = .ok s) :
    stmtEffect o ([] : Includes K) T s = .ok (op.modes, [op]) ∧ stmtPars s = [] ∧ s.WFp := by
  obtain ⟨name, args, modes⟩ := op
  obtain ⟨hm, hmw⟩ := eval_modesOf T modes
  have hmodes : (modesOf modes).2.1 ≠ [] ∧
      ((modesOf modes).1 = none → ∀ r, hdKind (sepToks Expr.toks (modesOf modes).2.1 ++ r) ≠ .LBRAC) := by
    have hne := hop.modes_ne
    simp only at hne
    unfold modesOf
    split
    · rename_i m
      exact ⟨by simp, fun _ r => by simpa [sepToks] using exprOfInt_head m r⟩
    · exact ⟨by simpa using hne, fun hh => by cases hh⟩
  cases args with
  | none =>
    simp only [tdmStmtOfOp, Except.ok.injEq] at h
    subst h
    refine ⟨?_, by simp [stmtPars], ⟨(by intro a ha; cases ha), hmodes.1, hmw, hmodes.2⟩⟩
    simp only [stmtEffect, hm, bind, Except.bind, pure, Except.pure, dictGet]
  | some pk =>
    obtain ⟨pos, kw⟩ := pk
    simp only [tdmStmtOfOp, bind, Except.bind] at h
    cases h1 : pos.mapM tdmArgOfVal with
    | error e => simp [h1] at h
    | ok as =>
      simp only [h1] at h
      cases h2 : kw.mapM (fun kv => do .ok (kv.1, ← tdmKwOfVal kv.2)) with
      | error e =>
        simp only [bind, Except.bind] at h2
        simp [h2] at h
      | ok ks =>
        have h2' := h2
        simp only [bind, Except.bind] at h2'
        simp only [h2', Except.ok.injEq] at h
        subst h
        have hpos := hop.pos _ rfl
        have hkw := hop.kw _ rfl
        have e1 : as.mapM (evalArgVal T) = .ok (pos.map id) :=
          mapM_eval_of_translate tdmArgOfVal (evalArgVal T) id pos as h1
            (fun v hv b hb => (eval_tdmArg vars T hT v b (hpos v hv) hb).1)
        have e2 := evalKwargs_of_translate T tdmKwOfVal kw ks [] h2
          (fun kv hkv b hb => (eval_tdmKw vars T hT kv.2 b (hkw kv hkv) hb).1)
        have hfold := foldl_dictSet_nodup (id : Val K → Val K) kw [] (hop.keys _ rfl) (by simp)
        simp only [List.nil_append, id, List.map_id'] at hfold e1 e2
        rw [hfold] at e2
        simp only [List.map_id_fun', id, List.map_id] at e1
        -- no template parameters are written
        obtain ⟨hlen1, hget1⟩ := mapM_ok_inv _ _ _ h1
        have hp1 : as.flatMap ArgVal.pars = [] := by
          simp only [List.flatMap_eq_nil_iff]
          intro a ha
          obtain ⟨i, hi, rfl⟩ := List.getElem_of_mem ha
          have := hget1 i (by omega) hi
          exact (eval_tdmArg vars T hT _ _ (hpos _ (List.getElem_mem _)) this).2.1
        obtain ⟨hlen2, hget2⟩ := mapM_ok_inv _ _ _ h2
        have hks : ∀ kv ∈ ks, kv.2.pars = [] ∧ kv.2.WF = true := by
          intro kv hkv
          obtain ⟨i, hi, rfl⟩ := List.getElem_of_mem hkv
          have := hget2 i (by omega) hi
          simp only [bind, Except.bind] at this
          cases hb : tdmKwOfVal (kw[i]'(by omega)).2 with
          | error e => simp [hb] at this
          | ok kb =>
            simp only [hb, Except.ok.injEq] at this
            rw [← this]
            have := eval_tdmKw vars T hT _ kb (hkw _ (List.getElem_mem _)) hb
            exact ⟨this.2.1, this.2.2.1⟩
        have hp2 : ks.flatMap (fun kv => kv.2.pars) = [] := by
          simp only [List.flatMap_eq_nil_iff]
          intro kv hkv
          exact (hks kv hkv).1
        have hpars : stmtPars (⟨name, isMeasureName name, some ⟨as, ks⟩, (modesOf modes).1, (modesOf modes).2.1,
            (modesOf modes).2.2⟩ : Stmt) = [] := by
          simp only [stmtPars, Args.pars, hp1, hp2, List.append_nil, List.map_nil]
        have hwpos : pos.map (wrapRRT (K := K) (T.params ++ [])) = pos := by
          conv => rhs; rw [← List.map_id pos]
          apply List.map_congr_left
          intro v hv
          obtain ⟨i, hi, rfl⟩ := List.getElem_of_mem hv
          have := hget1 i hi (by omega)
          simpa using (eval_tdmArg vars T hT _ _ (hpos _ (List.getElem_mem _)) this).2.2.2
        have hwkw : (kw.map fun kv => (kv.1, wrapRRT (K := K) (T.params ++ []) kv.2)) = kw := by
          conv => rhs; rw [← List.map_id kw]
          apply List.map_congr_left
          intro kv hkv
          obtain ⟨i, hi, rfl⟩ := List.getElem_of_mem hkv
          have := hget2 i hi (by omega)
          simp only [bind, Except.bind] at this
          cases hb : tdmKwOfVal (kw[i]).2 with
          | error e => simp [hb] at this
          | ok kb =>
            have := (eval_tdmKw vars T hT _ kb (hkw _ (List.getElem_mem _)) hb).2.2.2
            simp only [List.append_nil, id]
            rw [this]
        refine ⟨?_, hpars, ?_⟩
        · simp only [stmtEffect, hm, bind, Except.bind, pure, Except.pure, dictGet, evalArgs, e1, e2, hpars,
            List.map_nil, hwpos, hwkw]
        · refine ⟨?_, hmodes.1, hmw, hmodes.2⟩
          intro a ha
          simp only [Option.some.injEq] at ha
          subst ha
          refine ⟨?_, fun kv hkv => (hks kv hkv).2⟩
          intro a ha
          obtain ⟨i, hi, rfl⟩ := List.getElem_of_mem ha
          have hi' : i < as.length := hi
          have := hget1 i (by omega) hi'
          exact (eval_tdmArg vars T hT _ _ (hpos _ (List.getElem_mem _)) this).2.2.1


theorem exec_tdmStmts [LawfulFmt K] (o : SetOrder Int) (vars : List (String × Val K)) (ops : List (Op K))
    (ss : List Stmt) (hops : ∀ op ∈ ops, TdmOpOK vars op) (h : ops.mapM tdmStmtOfOp = .ok ss) (ls : LState K)
    (hT : TdmTables vars ls.tables) :
    (ss.map Item.stmt).foldlM (execItem o true ([] : Includes K)) ls =
      .ok ⟨ls.tables, ls.ops ++ ops, ls.modes ++ ops.flatMap (·.modes)⟩ ∧ ∀ s ∈ ss, s.WFp := by
  induction ops generalizing ss ls with
  | nil =>
    simp only [List.mapM_nil, pure, Except.pure, Except.ok.injEq] at h
    subst h
    exact ⟨by simp [pure, Except.pure], by simp⟩
  | cons op ops ih =>
    obtain ⟨s, ss', h1, h2, rfl⟩ := mapM_cons_ok _ _ _ _ h
    obtain ⟨e1, p1, w1⟩ := stmtEffect_tdm o vars ls.tables hT op s (hops op (by simp)) h1
    have hls : (⟨{ ls.tables with params := ls.tables.params ++ [] }, ls.ops ++ [op], ls.modes ++ op.modes⟩ : LState K) =
        ⟨ls.tables, ls.ops ++ [op], ls.modes ++ op.modes⟩ := by simp
    obtain ⟨e2, w2⟩ := ih ss' (fun x hx => hops x (List.mem_cons_of_mem _ hx)) h2
      ⟨ls.tables, ls.ops ++ [op], ls.modes ++ op.modes⟩ hT
    refine ⟨?_, ?_⟩
    · simp only [List.map_cons, List.foldlM_cons, execItem, execStmt, e1, p1, bind, Except.bind, hls]
      rw [e2]
      simp [List.append_assoc]
    · intro x hx
      rcases List.mem_cons.mp hx with rfl | hx
      · exact w1
      · exact w2 x hx

/-- tdm programs the round-trip theorem covers -/
structure TdmProgramOK (p : Program K) : Prop where
  tdm : p.ptype.1 = some "tdm"
  target : MetaOK p.target
  ptype : MetaOK p.ptype
  vars : ∀ kv ∈ p.vars, TdmVarOK kv
  names : (p.vars.map (·.1)).Nodup
  ops : ∀ op ∈ p.ops, TdmOpOK p.vars op

omit [Scalar K] [Fmt K] in
theorem tdmTables_after (vars : List (String × Val K)) (hnd : (vars.map (·.1)).Nodup) :
    TdmTables vars (vars.foldl afterVar (Tables.empty : Tables K)) := by
  obtain ⟨hv, hp⟩ := foldl_afterVar vars (Tables.empty : Tables K)
  refine ⟨?_, hnd, ?_⟩
  · rw [hv]
    have := foldl_dictSet_nodup (id : Val K → Val K) vars [] hnd (by simp)
    simpa [Tables.empty] using this
  · intro s dt r c flat hmem hs
    rw [hp]
    simp only [Tables.empty, List.nil_append, List.contains_iff_mem, pnamesOf, List.mem_filterMap]
    exact ⟨(s, .arr dt r c flat), hmem, by simp [hs]⟩

omit [Scalar K] [Fmt K] in
theorem pnamesOf_filter (vars : List (String × Val K)) :
    (pnamesOf vars).filterMap (fun e => match e with | .sym p => some p | .pname _ => none) = ([] : List String) := by
  apply List.filterMap_eq_nil_iff.mpr
  intro e he
  simp only [pnamesOf, List.mem_filterMap] at he
  obtain ⟨kv, _, hkv⟩ := he
  cases hv : kv.2 <;> simp [hv] at hkv
  obtain ⟨_, rfl⟩ := hkv
  rfl

/-- **tdm program.** Walking the script written for a program of type tdm rebuilds it: metadata,
every variable with its data, the operations with p-arrays passed by name; no free parameters. -/
theorem load_scriptOfTdm [LawfulFmt K] (o : SetOrder Int) (fs : FS) (cwd : String) (T0 : Tables K) (p : Program K)
    (sc : Script) (hp : TdmProgramOK p) (h : scriptOfTdm p = .ok sc) :
    (loadStep o fs cwd T0 sc).1 =
      .ok ⟨p.name, p.version, p.target, p.ptype, p.ops, p.vars, [], p.ops.flatMap (·.modes)⟩ ∧
    ∀ ml lay final, parseScript (sc.toks ml lay final) = some sc := by
  simp only [scriptOfTdm, bind, Except.bind] at h
  cases ht : metaOf p.target with
  | error e => simp [ht] at h
  | ok tgt =>
    simp only [ht] at h
    cases hy : metaOf p.ptype with
    | error e => simp [hy] at h
    | ok typ =>
      simp only [hy] at h
      cases hv : p.vars.mapM tdmVarItem with
      | error e => simp [hv] at h
      | ok vitems =>
        simp only [hv] at h
        cases hs : p.ops.mapM tdmStmtOfOp with
        | error e => simp [hs] at h
        | ok stmts =>
          simp only [hs, Except.ok.injEq] at h
          subst h
          have hnp0 : NoPname (Tables.empty : Tables K) := fun _ => rfl
          obtain ⟨et, pt, wt⟩ := eval_metaOf (Tables.empty : Tables K) hnp0 p.target hp.target tgt ht
          obtain ⟨ey, py, wy⟩ := eval_metaOf (Tables.empty : Tables K) hnp0 p.ptype hp.ptype typ hy
          obtain ⟨ev, wv⟩ := exec_tdmVars o p.vars vitems hp.vars hv (⟨Tables.empty, [], []⟩ : LState K)
          have hT := tdmTables_after p.vars hp.names
          obtain ⟨es, ws⟩ := exec_tdmStmts o p.vars p.ops stmts hp.ops hs
            (⟨p.vars.foldl afterVar (Tables.empty : Tables K), [], []⟩ : LState K) hT
          obtain ⟨hvars, hparams⟩ := foldl_afterVar p.vars (Tables.empty : Tables K)
          refine ⟨?_, ?_⟩
          · unfold loadStep
            rw [show (16 : Nat) = 15 + 1 from rfl, runScript]
            have htd : decide (p.ptype.fst = some "tdm") = true := by simp [hp.tdm]
            simp only [bind, Except.bind, liftE, Tables.empty, pt, py, List.map_nil, List.append_nil,
              List.foldlM_nil, pure, Except.pure, List.foldlM_append, List.nil_append] at et ey ev es hparams ⊢
            simp only [et, ey, htd, ev, es, List.nil_append, hparams, pnamesOf_filter]
            congr 2
            · exact hT.vars_eq
            · exact pnamesOf_filter p.vars
          · intro ml lay final
            apply parseScript_ok
            · exact ⟨wt, wy⟩
            · intro it hit
              simp only [List.mem_append, List.mem_map] at hit
              rcases hit with hit | ⟨s, hs', rfl⟩
              · exact wv it hit
              · exact ws s hs'

end Blackbird
